package main

// engine `proto`: correspondence of the server protocol (server/rpc handlers,
// server/clients, server/packs, database/client_info.go, memory DB) with
// Model/Server.lean (C04, C11; later C05/C10/C12).
//
// One real in-process server on the memory DB per harness process; every trace
// uses fresh client keys and fresh document keys.  Requests are sent with the
// RAW connect client and hand-built change packs so that invalid sequences and
// crafted checkpoints reach the server (the SDK client refuses many locally).
//
// Extra arguments (after the standard flags, positional, read from os.Args):
//   mix=schedules|lifecycle|malformed[+…]   generator mix (default: all three)
//   shards=N                                 number of parallel workers (lifecycle enumeration is split)
//   len=N                                    lifecycle enumeration depth (default quick 4 / thorough 6)

import (
	"context"
	"crypto/rand"
	"encoding/hex"
	"fmt"
	"hash/fnv"
	"math"
	"net"
	"net/http"
	"os"
	"reflect"
	"sort"
	"strconv"
	"strings"
	"unsafe"

	"connectrpc.com/connect"
	memdb "github.com/hashicorp/go-memdb"

	"github.com/yorkie-team/yorkie/api/converter"
	"github.com/yorkie-team/yorkie/api/types"
	api "github.com/yorkie-team/yorkie/api/yorkie/v1"
	"github.com/yorkie-team/yorkie/api/yorkie/v1/v1connect"
	"github.com/yorkie-team/yorkie/pkg/document/change"
	"github.com/yorkie-team/yorkie/pkg/document/crdt"
	"github.com/yorkie-team/yorkie/pkg/document/operations"
	"github.com/yorkie-team/yorkie/pkg/document/presence/inner"
	"github.com/yorkie-team/yorkie/pkg/document/time"
	"github.com/yorkie-team/yorkie/pkg/key"
	"github.com/yorkie-team/yorkie/server"
	"github.com/yorkie-team/yorkie/server/backend/database"
	"github.com/yorkie-team/yorkie/server/logging"
	"github.com/yorkie-team/yorkie/test/helper"
)

func init() { register("proto", runProto) }

// ---------------------------------------------------------------- server

type protoSrv struct {
	svr  *server.Yorkie
	cli  v1connect.YorkieServiceClient
	db   database.Database
	mdb  *memdb.MemDB
	proj [2]*types.Project // 0: RemoveOnDetach=false (default project), 1: RemoveOnDetach=true
	flt  *faultDB          // C05: fault-injecting proxy around Backend.DB (pass-through unless armed)
}

var protoS *protoSrv

func protoFreePort() int {
	l, err := net.Listen("tcp", "127.0.0.1:0")
	if err != nil {
		panic(err)
	}
	defer l.Close()
	return l.Addr().(*net.TCPAddr).Port
}

// protoRecycle: the memory DB keeps every client, document and change of every trace, and some
// lookups (IsDocumentAttachedOrAttaching, housekeeping indexes) are linear in the number of
// clients of the project; a fresh server every few thousand traces keeps long runs linear.
const protoRecycleEvery = 1500

var protoServed int

func protoServer() *protoSrv {
	if protoS != nil {
		protoServed++
		if protoServed%protoRecycleEvery != 0 {
			return protoS
		}
		_ = protoS.svr.Shutdown(true)
		protoS = nil
	}
	_ = logging.SetLogLevel("error")
	// parallel workers pick free ports independently; a probe-then-bind race is possible, so retry
	var svr *server.Yorkie
	var lastErr error
	for attempt := 0; attempt < 20 && svr == nil; attempt++ {
		conf := helper.TestConfig()
		conf.Mongo = nil
		p1, p2 := protoFreePort(), protoFreePort()
		conf.RPC.Port = p1
		conf.Profiling.Port = p2
		conf.Backend.GatewayAddr = fmt.Sprintf("localhost:%d", p1)
		conf.Backend.RPCAddr = fmt.Sprintf("localhost:%d", p1)
		// no background compaction / deactivation while traces run
		conf.Housekeeping.Interval = "1000h"
		conf.Housekeeping.CompactionMinChanges = 1 << 30
		y, err := server.New(conf)
		if err != nil {
			lastErr = err
			continue
		}
		if err := y.Start(); err != nil {
			lastErr = err
			_ = y.Shutdown(false)
			continue
		}
		svr = y
	}
	if svr == nil {
		panic(lastErr)
	}
	ctx := context.Background()
	s := &protoSrv{svr: svr, db: svr.Backend().DB}
	// C05: the server talks to the store through the proxy; the harness's own reads (s.db) bypass it
	s.flt = &faultDB{Database: s.db}
	svr.Backend().DB = s.flt
	s.cli = v1connect.NewYorkieServiceClient(http.DefaultClient, "http://"+svr.RPCAddr())
	huge := int64(1) << 40
	def, err := svr.DefaultProject(ctx)
	if err != nil {
		panic(err)
	}
	f := false
	if _, err := s.db.UpdateProjectInfo(ctx, def.ID, &types.UpdatableProjectFields{
		SnapshotThreshold: &huge, SnapshotInterval: &huge, RemoveOnDetach: &f}); err != nil {
		panic(err)
	}
	pi, err := s.db.CreateProjectInfo(ctx, "verif-rod", def.Owner)
	if err != nil {
		panic(err)
	}
	tr := true
	if _, err := s.db.UpdateProjectInfo(ctx, pi.ID, &types.UpdatableProjectFields{
		SnapshotThreshold: &huge, SnapshotInterval: &huge, RemoveOnDetach: &tr}); err != nil {
		panic(err)
	}
	for i, id := range []types.ID{def.ID, pi.ID} {
		info, err := s.db.FindProjectInfoByID(ctx, id)
		if err != nil {
			panic(err)
		}
		s.proj[i] = info.ToProject()
	}
	// the memory DB keeps its go-memdb handle in an unexported field; the
	// `versionvectors` rows have no exported reader, so read them through it.
	v := reflect.ValueOf(s.db)
	if v.Kind() == reflect.Ptr {
		v = v.Elem()
	}
	fld := v.FieldByName("db")
	if !fld.IsValid() {
		panic("memory.DB has no field db")
	}
	s.mdb = reflect.NewAt(fld.Type(), unsafe.Pointer(fld.UnsafeAddr())).Elem().Interface().(*memdb.MemDB)
	protoS = s
	return s
}

// ---------------------------------------------------------------- per-trace state

type protoWrec struct {
	client   int
	att      int  // attachment number of the writer for this document
	detached bool // written by a DET/REM from a client that did not hold the document
	honest   bool
}

type protoTrack struct { // discipline tracker per (client, document) attachment
	att     int
	cp      change.Checkpoint
	applied []string // "actor:clientSeq:serverSeq"
	ok      bool     // requests so far followed cp = last response cp
	open    bool
}

type protoTrace struct {
	s       *protoSrv
	proj    int
	nonce   string
	cids    []string // client index -> hex id
	cact    map[string]int
	docs    []types.ID // doc index -> id, in creation order
	dkey    []int      // doc index -> key index
	keys    map[int]string
	writer  []map[int64]protoWrec
	removed []bool
	forged  []bool // a row whose actor is not its writer was stored: actor-based oracles are off for this document
	track   map[[2]int]*protoTrack
	atts    map[[2]int]int
	unknown map[string]string // c99 / d99 -> random hex
	last    *protoResp
	fault   faultReport   // C05: what the armed fault did during the last request
	window  bool          // C05: some fault of this trace fired in the lost-checkpoint window under a request with changes
	epochs  map[int]int64 // C10: last seen epoch per document index
}

type protoResp struct {
	err     string
	cp      change.Checkpoint
	changes []*change.Change
	snap    bool
	vv      time.VersionVector
	removed bool
	doc     int
	client  int
}

func protoRandHex() string {
	b := make([]byte, 12)
	_, _ = rand.Read(b)
	b[0] = 0x01 // far in the past: never collides with a real ObjectID
	return hex.EncodeToString(b)
}

func newProtoTrace(s *protoSrv) *protoTrace {
	b := make([]byte, 6)
	_, _ = rand.Read(b)
	return &protoTrace{s: s, nonce: hex.EncodeToString(b), cact: map[string]int{}, keys: map[int]string{},
		track: map[[2]int]*protoTrack{}, atts: map[[2]int]int{}, unknown: map[string]string{}}
}

func protoRef(s string) int {
	n, err := strconv.Atoi(s[1:])
	if err != nil {
		return -1
	}
	return n
}

func (t *protoTrace) clientHex(name string) string {
	i := protoRef(name)
	if i >= 0 && i < len(t.cids) {
		return t.cids[i]
	}
	if h, ok := t.unknown[name]; ok {
		return h
	}
	h := protoRandHex()
	t.unknown[name] = h
	return h
}

func (t *protoTrace) docHex(name string) (string, int) {
	i := protoRef(name)
	if i >= 0 && i < len(t.docs) {
		return t.docs[i].String(), i
	}
	if h, ok := t.unknown[name]; ok {
		return h, -1
	}
	h := protoRandHex()
	t.unknown[name] = h
	return h, -1
}

func (t *protoTrace) keyStr(k int) string {
	if s, ok := t.keys[k]; ok {
		return s
	}
	s := fmt.Sprintf("vk-%s-%d", t.nonce, k)
	t.keys[k] = s
	return s
}

func (t *protoTrace) actorName(a time.ActorID) string {
	if a == time.InitialActorID { // actor of the compacted change (Model/ServerCompact.lean initialActorNo)
		return "c1000000"
	}
	if i, ok := t.cact[a.String()]; ok {
		return fmt.Sprintf("c%d", i)
	}
	for n, h := range t.unknown {
		if h == a.String() {
			return n
		}
	}
	return "c?" + a.String()
}

func (t *protoTrace) showVV(v time.VersionVector) string {
	type kv struct {
		k int
		n string
		v int64
	}
	var l []kv
	for a, x := range v {
		n := t.actorName(a)
		l = append(l, kv{protoRef(n), n, x})
	}
	sort.Slice(l, func(i, j int) bool { return l[i].k < l[j].k })
	parts := make([]string, len(l))
	for i, e := range l {
		parts[i] = fmt.Sprintf("%s:%d", e.n, e.v)
	}
	return "{" + strings.Join(parts, ",") + "}"
}

func protoArg(toks []string, k string) string {
	for _, x := range toks {
		if strings.HasPrefix(x, k+"=") {
			return x[len(k)+1:]
		}
	}
	return ""
}

// protoTag: the change message carries the opaque content tag; server-built changes have none.
func protoTag(m string) string {
	if m == "" {
		return "0"
	}
	return m
}

func protoKind(ops, pres bool) string {
	switch {
	case ops && pres:
		return "both"
	case ops:
		return "ops"
	case pres:
		return "pres"
	}
	return "none"
}

// buildPack makes a real change.Pack from `cp= chg= vv= rm=`.
func (t *protoTrace) buildPack(requester string, docKey string, toks []string) (*api.ChangePack, []bool, error) {
	var cp change.Checkpoint
	if p := strings.Split(protoArg(toks, "cp"), ","); len(p) == 2 {
		a, _ := strconv.ParseInt(p[0], 10, 64)
		b, _ := strconv.ParseUint(p[1], 10, 32)
		cp = change.NewCheckpoint(a, uint32(b))
	}
	var changes []*change.Change
	var honest []bool
	if s := protoArg(toks, "chg"); s != "" && s != "-" {
		for _, one := range strings.Split(s, ",") {
			p := strings.Split(one, ":")
			if len(p) < 4 {
				return nil, nil, fmt.Errorf("bad chg %q", one)
			}
			cs, _ := strconv.ParseUint(p[0], 10, 32)
			lam, _ := strconv.ParseInt(p[1], 10, 64)
			actorName := requester
			if len(p) >= 5 {
				actorName = p[4]
			}
			honest = append(honest, actorName == requester)
			actor, err := time.ActorIDFromHex(t.clientHex(actorName))
			if err != nil {
				return nil, nil, err
			}
			vv := time.NewVersionVector()
			if lam != 0 {
				vv.Set(actor, lam)
			}
			id := change.NewID(uint32(cs), 0, lam, actor, vv)
			var ops []operations.Operation
			if p[2] == "ops" || p[2] == "both" {
				tk := time.NewTicket(lam, 1, actor)
				tag, _ := strconv.Atoi(p[3])
				prim, err := crdt.NewPrimitive(int32(tag), tk)
				if err != nil {
					return nil, nil, err
				}
				ops = append(ops, operations.NewSet(time.InitialTicket, "k", prim, tk))
			}
			var pc *inner.Change
			if p[2] == "pres" || p[2] == "both" {
				pc = &inner.Change{ChangeType: inner.Put, Presence: inner.Presence{"t": p[3]}}
			}
			changes = append(changes, change.New(id, p[3], ops, pc))
		}
	}
	vv := time.NewVersionVector()
	if s := strings.Trim(protoArg(toks, "vv"), "{}"); s != "" {
		for _, kv := range strings.Split(s, ",") {
			p := strings.Split(kv, ":")
			a, err := time.ActorIDFromHex(t.clientHex(p[0]))
			if err != nil {
				return nil, nil, err
			}
			x, _ := strconv.ParseInt(p[1], 10, 64)
			vv.Set(a, x)
		}
	}
	pack := change.NewPack(key.Key(docKey), cp, changes, vv, nil)
	pack.IsRemoved = protoArg(toks, "rm") == "1"
	pb, err := converter.ToChangePack(pack)
	return pb, honest, err
}

var protoMsgKinds = [][2]string{
	{"change clientSeq must increase by one", "invalidClientSeq"},
	{"checkpoint serverSeq exceeds server state", "invalidServerSeq"},
	{"epoch mismatch", "epochMismatch"},
	{"client not found", "clientNotFound"},
	{"client not activated", "clientNotActivated"},
	{"document not attached", "documentNotAttached"},
	{"document never attached", "documentNeverAttached"},
	{"document already attached", "documentAlreadyAttached"},
	{"document already detached", "documentAlreadyDetached"},
	{"document not found", "documentNotFound"},
	{"change not found", "changeNotFound"},
	{"find documents for detachment", "internal"},
	{faultMsg, "internal"},
}

var protoCodeKinds = map[string]string{
	"ErrClientNotFound": "clientNotFound", "ErrClientNotActivated": "clientNotActivated",
	"ErrDocumentNotAttached": "documentNotAttached", "ErrDocumentNeverAttached": "documentNeverAttached",
	"ErrDocumentAlreadyAttached": "documentAlreadyAttached", "ErrDocumentAlreadyDetached": "documentAlreadyDetached",
	"ErrDocumentNotFound": "documentNotFound", "ErrChangeNotFound": "changeNotFound",
	"ErrInvalidClientSeq": "invalidClientSeq", "ErrInvalidServerSeq": "invalidServerSeq",
	"ErrEpochMismatch": "epochMismatch",
}

func protoErrKind(err error) string {
	if k, ok := protoCodeKinds[converter.ErrorCodeOf(err)]; ok {
		return k
	}
	msg := err.Error()
	for _, mk := range protoMsgKinds {
		if strings.Contains(msg, mk[0]) {
			return mk[1]
		}
	}
	m := msg
	if len(m) > 80 {
		m = m[:80]
	}
	return "other:" + connect.CodeOf(err).String() + ":" + strings.ReplaceAll(m, " ", "_")
}

func protoReq[T any](t *protoTrace, msg *T) *connect.Request[T] {
	r := connect.NewRequest(msg)
	r.Header().Set(types.APIKeyKey, t.s.proj[t.proj].PublicKey)
	return r
}

func (t *protoTrace) docRef(i int) types.DocRefKey {
	return types.DocRefKey{ProjectID: t.s.proj[t.proj].ID, DocID: t.docs[i]}
}

func (t *protoTrace) head(i int) int64 {
	info, err := t.s.db.FindDocInfoByRefKey(context.Background(), t.docRef(i))
	if err != nil {
		return -1
	}
	return info.ServerSeq
}

func (t *protoTrace) storedStatus(ci, di int) string {
	if ci < 0 || ci >= len(t.cids) || di < 0 {
		return ""
	}
	info, err := t.s.db.FindClientInfoByRefKey(context.Background(),
		types.ClientRefKey{ProjectID: t.s.proj[t.proj].ID, ClientID: types.ID(t.cids[ci])})
	if err != nil || info.Documents[t.docs[di]] == nil {
		return ""
	}
	return info.Documents[t.docs[di]].Status
}

func (t *protoTrace) clientActive(ci int) bool {
	if ci < 0 || ci >= len(t.cids) {
		return false
	}
	info, err := t.s.db.FindClientInfoByRefKey(context.Background(),
		types.ClientRefKey{ProjectID: t.s.proj[t.proj].ID, ClientID: types.ID(t.cids[ci])})
	return err == nil && info.Status == database.ClientActivated
}

// learnDoc registers the document currently bound to key k (creation order).
func (t *protoTrace) learnDoc(c *Ctx, k int, ids ...string) int {
	var id types.ID
	if len(ids) > 0 && ids[0] != "" {
		id = types.ID(ids[0]) // AttachDocumentResponse.DocumentId
	} else {
		info, err := t.s.db.FindDocInfoByKey(context.Background(), t.s.proj[t.proj].ID, key.Key(t.keyStr(k)))
		if err != nil {
			return -1
		}
		id = info.ID
	}
	for i, d := range t.docs {
		if d == id {
			return i
		}
	}
	if n := len(t.docs); n > 0 && !(t.docs[n-1].String() < id.String()) {
		c.Count("proto:docid-not-monotone")
	}
	t.docs = append(t.docs, id)
	t.dkey = append(t.dkey, k)
	t.writer = append(t.writer, map[int64]protoWrec{})
	t.removed = append(t.removed, false)
	t.forged = append(t.forged, false)
	return len(t.docs) - 1
}

func (t *protoTrace) showResp(r *protoResp, plain bool) string {
	if r.err != "" {
		return "R err=" + r.err
	}
	if r.client >= 0 {
		return fmt.Sprintf("R client=c%d", r.client)
	}
	if plain {
		return "R ok"
	}
	var rows []string
	for _, ch := range r.changes {
		rows = append(rows, fmt.Sprintf("%s:%d:%d:%s:%s", t.actorName(ch.ID().ActorID()), ch.ClientSeq(), ch.ServerSeq(),
			protoTag(ch.Message()), protoKind(len(ch.Operations()) > 0, ch.PresenceChange() != nil)))
	}
	doc := ""
	if r.doc >= 0 {
		doc = fmt.Sprintf("doc=d%d ", r.doc)
	}
	b := func(x bool) string {
		if x {
			return "1"
		}
		return "0"
	}
	return fmt.Sprintf("R %scp=%d,%d changes=[%s] snap=%s minvv=%s removed=%s", doc, r.cp.ServerSeq, r.cp.ClientSeq,
		strings.Join(rows, ";"), b(r.snap), t.showVV(r.vv), b(r.removed))
}

func (t *protoTrace) fromPack(pb *api.ChangePack) (*protoResp, error) {
	p, err := converter.FromChangePack(pb)
	if err != nil {
		return nil, err
	}
	return &protoResp{cp: p.Checkpoint, changes: p.Changes, snap: len(p.Snapshot) > 0, vv: p.VersionVector,
		removed: p.IsRemoved, doc: -1, client: -1}, nil
}

func (t *protoTrace) showLog(di int) string {
	ctx := context.Background()
	if di < 0 || di >= len(t.docs) {
		return fmt.Sprintf("L d%d none", di)
	}
	ref := t.docRef(di)
	info, err := t.s.db.FindDocInfoByRefKey(ctx, ref)
	if err != nil {
		return fmt.Sprintf("L d%d none", di)
	}
	rows, _ := t.s.db.FindChangeInfosBetweenServerSeqs(ctx, ref, 1, math.MaxInt64)
	var rs []string
	for _, r := range rows {
		a, _ := time.ActorIDFromHex(r.ActorID.String())
		rs = append(rs, fmt.Sprintf("%d:%s:%d:%d:%s:%s", r.ServerSeq, t.actorName(a), r.ClientSeq, r.Lamport,
			protoKind(len(r.Operations) > 0, r.PresenceChange != nil), protoTag(r.Message)))
	}
	// versionvectors rows
	type vrow struct {
		k int
		s string
	}
	var vs []vrow
	txn := t.s.mdb.Txn(false)
	it, err := txn.Get("versionvectors", "doc_id", ref.DocID.String())
	if err == nil {
		for raw := it.Next(); raw != nil; raw = it.Next() {
			vi := raw.(*database.VersionVectorInfo)
			n := "c?" + vi.ClientID.String()
			if i, ok := t.cact[vi.ClientID.String()]; ok {
				n = fmt.Sprintf("c%d", i)
			}
			vs = append(vs, vrow{protoRef(n), n + ":" + t.showVV(vi.VersionVector)})
		}
	}
	txn.Abort()
	sort.Slice(vs, func(i, j int) bool { return vs[i].k < vs[j].k })
	var vss, cls, act []string
	for _, v := range vs {
		vss = append(vss, v.s)
	}
	for i, h := range t.cids {
		ci, err := t.s.db.FindClientInfoByRefKey(ctx, types.ClientRefKey{ProjectID: ref.ProjectID, ClientID: types.ID(h)})
		if err != nil {
			continue
		}
		a := "0"
		if ci.Status == database.ClientActivated {
			a = "1"
		}
		act = append(act, fmt.Sprintf("c%d:%s", i, a))
		if d := ci.Documents[ref.DocID]; d != nil {
			st := d.Status
			if st == "" {
				st = "none"
			}
			cls = append(cls, fmt.Sprintf("c%d:%s:%d:%d:%d", i, st, d.ServerSeq, d.ClientSeq, d.Epoch))
		}
	}
	b := func(x bool) string {
		if x {
			return "1"
		}
		return "0"
	}
	return fmt.Sprintf("L d%d key=k%d seq=%d epoch=%d removed=%s dp=%s log=[%s] vv=[%s] clients=[%s] act=[%s]",
		di, t.dkey[di], info.ServerSeq, info.Epoch, b(!info.RemovedAt.IsZero()), b(info.DisablePresence),
		strings.Join(rs, ";"), strings.Join(vss, ";"), strings.Join(cls, ";"), strings.Join(act, ","))
}

// exec runs one command on the real server. It returns the command line to
// record (identical to the input except for DEACT, whose `order=` hint is
// re-derived from what the runtime actually did) and the observation line.
func (t *protoTrace) exec(c *Ctx, line string) (string, string) {
	ctx := context.Background()
	toks := strings.Fields(line)
	t.last = nil
	switch toks[0] {
	case "CFG":
		t.proj = 0
		if protoArg(toks, "rod") == "1" {
			t.proj = 1
		}
		return line, "CFG ok"
	case "LOG":
		di := protoRef(toks[1])
		t.logOracles(c, di)
		t.logOracles10(c, di)
		t.logOracles05(c, di)
		return line, t.showLog(di)
	case "CP":
		return line, t.execCP(c, toks)
	case "FLT":
		return line, t.execFLT(c, toks)
	case "ACT":
		res, err := t.s.cli.ActivateClient(ctx, protoReq(t, &api.ActivateClientRequest{
			ClientKey: fmt.Sprintf("ck-%s-%d", t.nonce, len(t.cids))}))
		if err != nil {
			t.last = &protoResp{err: protoErrKind(err)}
			return line, t.showResp(t.last, false)
		}
		t.cids = append(t.cids, res.Msg.ClientId)
		t.cact[res.Msg.ClientId] = len(t.cids) - 1
		t.last = &protoResp{client: len(t.cids) - 1, doc: -1}
		return line, t.showResp(t.last, false)
	case "DEACT":
		ci := protoRef(toks[1])
		// which documents are open before?
		var open []int
		for di := range t.docs {
			if st := t.storedStatus(ci, di); st == database.DocumentAttached || st == database.DocumentAttaching {
				open = append(open, di)
			}
		}
		heads := t.heads()
		wasActive := t.clientActive(ci)
		holdsRemoved := false
		// the client made the server store a checkpoint beyond the document's head (a crafted push-only sync is
		// answered with the request's own serverSeq): every later write of that client to the document – the
		// presence clear of the server-side detach included – is refused with ErrInvalidServerSeq. Self-inflicted;
		// counted and proved as a witness (Props/C11 deactivate_blocked_by_crafted_checkpoint_witness), not reported.
		craftedCp := false
		for _, di := range open {
			holdsRemoved = holdsRemoved || t.removed[di]
			if ci >= 0 && ci < len(t.cids) {
				if info, e := t.s.db.FindClientInfoByRefKey(ctx, types.ClientRefKey{ProjectID: t.s.proj[t.proj].ID, ClientID: types.ID(t.cids[ci])}); e == nil {
					if d := info.Documents[t.docs[di]]; d != nil && d.ServerSeq > t.head(di) {
						craftedCp = true
					}
				}
			}
		}
		_, err := t.s.cli.DeactivateClient(ctx, protoReq(t, &api.DeactivateClientRequest{
			ClientId: t.clientHex(toks[1]), Synchronous: true}))
		var first, rest []string
		for _, di := range open {
			if st := t.storedStatus(ci, di); st == database.DocumentAttached || st == database.DocumentAttaching {
				rest = append(rest, fmt.Sprintf("d%d", di))
			} else {
				first = append(first, fmt.Sprintf("d%d", di))
			}
		}
		out := "DEACT " + toks[1]
		if len(open) > 1 {
			if err != nil && len(rest) > 1 {
				// the runtime tried one of `rest` and failed; which one is not observable
				out += " order=" + strings.Join(first, ",") + " amb=1"
				if len(first) == 0 {
					out = "DEACT " + toks[1] + " order=- amb=1"
				}
				c.Count("proto:deact-ambiguous")
			} else {
				out += " order=" + strings.Join(append(first, rest...), ",")
			}
		}
		r := &protoResp{client: -1, doc: -1}
		if err != nil {
			r.err = protoErrKind(err)
		}
		t.last = r
		t.afterRequest(c, "DEACT", ci, -1, heads, nil, r, nil, toks)
		if wasActive && holdsRemoved {
			c.Count("proto:deact-holding-removed-document")
		}
		if err != nil && wasActive && craftedCp && r.err == "invalidServerSeq" {
			c.Count("proto:deact-blocked-by-own-crafted-checkpoint")
		} else if err != nil && wasActive {
			// C11: deactivating an activated client takes effect – whatever its documents went through
			o11(c, "DEACT of the activated client c%d failed with %s (it holds %d documents; one of them removed by now: %v)", ci, r.err, len(open), holdsRemoved)
		}
		if err == nil {
			// C11 oracle: a deactivated client holds no document and no vv row
			for di := range t.docs {
				if st := t.storedStatus(ci, di); st == database.DocumentAttached || st == database.DocumentAttaching {
					o11(c, "deactivated client c%d still has d%d %s", ci, di, st)
				}
				if t.hasVVRow(di, ci) {
					o11(c, "deactivated client c%d still has a version-vector row for d%d", ci, di)
				}
			}
			if t.clientActive(ci) {
				o11(c, "DEACT c%d succeeded but client still activated", ci)
			}
		}
		return out, t.showResp(r, true)
	case "ATT", "PP", "DET", "REM":
		ci := protoRef(toks[1])
		chex := t.clientHex(toks[1])
		var di int = -1
		var dhex, dkey string
		if toks[0] == "ATT" {
			dkey = t.keyStr(protoRef(toks[2]))
			if info, err := t.s.db.FindDocInfoByKey(ctx, t.s.proj[t.proj].ID, key.Key(dkey)); err == nil {
				for i, d := range t.docs {
					if d == info.ID {
						di = i
					}
				}
			}
		} else {
			dhex, di = t.docHex(toks[2])
			dkey = "unknown-" + t.nonce
			if di >= 0 {
				dkey = t.keyStr(t.dkey[di])
			}
		}
		pb, honest, err := t.buildPack(toks[1], dkey, toks)
		if err != nil {
			return line, "R err=harness:" + err.Error()
		}
		before := t.storedStatus(ci, di)
		heads := t.heads()
		pre10 := t.pre10(ci, di)
		var resPack *api.ChangePack
		var rerr error
		switch toks[0] {
		case "ATT":
			res, e := t.s.cli.AttachDocument(ctx, protoReq(t, &api.AttachDocumentRequest{ClientId: chex, ChangePack: pb,
				DisableGc: protoArg(toks, "nogc") == "1", DisablePresence: protoArg(toks, "dp") == "1"}))
			rerr = e
			respDoc := ""
			if e == nil {
				resPack = res.Msg.ChangePack
				respDoc = res.Msg.DocumentId
			}
			if n := t.learnDoc(c, protoRef(toks[2]), respDoc); n >= 0 {
				if n != di { // created by this request
					di = n
					before = ""
					heads = append(heads, 0)
				}
			}
		case "PP":
			res, e := t.s.cli.PushPullChanges(ctx, protoReq(t, &api.PushPullChangesRequest{ClientId: chex, DocumentId: dhex,
				ChangePack: pb, PushOnly: protoArg(toks, "pushonly") == "1", DisableGc: protoArg(toks, "nogc") == "1"}))
			rerr = e
			if e == nil {
				resPack = res.Msg.ChangePack
			}
		case "DET":
			res, e := t.s.cli.DetachDocument(ctx, protoReq(t, &api.DetachDocumentRequest{ClientId: chex, DocumentId: dhex, ChangePack: pb}))
			rerr = e
			if e == nil {
				resPack = res.Msg.ChangePack
			}
		case "REM":
			res, e := t.s.cli.RemoveDocument(ctx, protoReq(t, &api.RemoveDocumentRequest{ClientId: chex, DocumentId: dhex, ChangePack: pb}))
			rerr = e
			if e == nil {
				resPack = res.Msg.ChangePack
			}
		}
		t.fault = t.s.flt.disarm()
		if t.fault.inWindow() && protoArg(toks, "chg") != "-" && protoArg(toks, "chg") != "" {
			t.window = true
		}
		r := &protoResp{client: -1, doc: -1}
		if rerr != nil {
			r.err = protoErrKind(rerr)
		} else {
			rr, e := t.fromPack(resPack)
			if e != nil {
				return line, "R err=harness:" + e.Error()
			}
			r = rr
			if toks[0] == "ATT" {
				r.doc = di
			}
		}
		t.last = r
		t.afterRequest(c, toks[0], ci, di, heads, &before, r, honest, toks)
		t.post10(c, toks[0], ci, di, pre10, r, toks)
		return line, t.showResp(r, false)
	}
	return line, "bad-op"
}

func (t *protoTrace) heads() []int64 {
	h := make([]int64, len(t.docs))
	for i := range t.docs {
		h[i] = t.head(i)
	}
	return h
}

func (t *protoTrace) hasVVRow(di, ci int) bool {
	if ci < 0 || ci >= len(t.cids) {
		return false
	}
	txn := t.s.mdb.Txn(false)
	defer txn.Abort()
	raw, err := txn.First("versionvectors", "doc_id_client_id", t.docs[di].String(), t.cids[ci])
	return err == nil && raw != nil
}

// afterRequest evaluates the implementation-only oracles for one request.
func (t *protoTrace) afterRequest(c *Ctx, kind string, ci, di int, heads []int64, before *string, r *protoResp,
	honest []bool, toks []string) {
	ok := r.err == ""
	if ok {
		c.Count("proto:" + kind + ":ok")
	} else {
		c.Count("proto:" + kind + ":" + r.err)
	}
	if kind == "ATT" && di >= 0 {
		// a new attachment generation starts when TryAttaching moved the stored status into
		// attaching (also when the attach then fails: the residue may still be detached/removed)
		b := ""
		if before != nil {
			b = *before
		}
		a := t.storedStatus(ci, di)
		held := func(s string) bool { return s == database.DocumentAttached || s == database.DocumentAttaching }
		if !held(b) && held(a) {
			t.atts[[2]int{ci, di}]++
		}
	}
	// who wrote what
	for i := range t.docs {
		h0 := int64(0)
		if i < len(heads) {
			h0 = heads[i]
		}
		h1 := t.head(i)
		if h1 <= h0 {
			continue
		}
		c.Count("proto:rows-appended")
		held := true
		detachedPush := false
		if kind != "DEACT" {
			st := ""
			if before != nil && i == di {
				st = *before
			}
			held = st == database.DocumentAttached || st == database.DocumentAttaching || (kind == "ATT" && ok)
			if !held {
				detachedPush = kind == "DET" || kind == "REM"
				msg := fmt.Sprintf("%s by c%d (document status %q, response %s) appended rows %d..%d to d%d although the client did not hold the document",
					kind, ci, st, map[bool]string{true: "ok", false: "err=" + r.err}[ok], h0+1, h1, i)
				if detachedPush {
					msg = "KNOWN[c11-detached-push] " + msg
				}
				o11(c, "%s", msg)
			}
		}
		if !ok && held && kind != "DEACT" {
			o11(c, "%s by c%d failed with %s but appended rows %d..%d to d%d", kind, ci, r.err, h0+1, h1, i)
		}
		if t.removed[i] {
			o11(c, "%s by c%d appended rows %d..%d to d%d after the document was removed", kind, ci, h0+1, h1, i)
		}
		allHonest := true
		for _, h := range honest {
			allHonest = allHonest && h
		}
		if !allHonest {
			t.forged[i] = true
		}
		for ss := h0 + 1; ss <= h1; ss++ {
			t.writer[i][ss] = protoWrec{client: ci, att: t.atts[[2]int{ci, i}], detached: detachedPush || !held, honest: allHonest}
		}
	}
	for i := range t.docs {
		if info, err := t.s.db.FindDocInfoByRefKey(context.Background(), t.docRef(i)); err == nil {
			if !info.RemovedAt.IsZero() {
				if !t.removed[i] && kind != "DEACT" {
					st := ""
					if before != nil && i == di {
						st = *before
					}
					if !(st == database.DocumentAttached || st == database.DocumentAttaching || (kind == "ATT" && ok)) {
						msg := fmt.Sprintf("%s by c%d (document status %q, response %s) removed d%d although the client did not hold the document",
							kind, ci, st, map[bool]string{true: "ok", false: "err=" + r.err}[ok], i)
						if kind == "DET" || kind == "REM" {
							msg = "KNOWN[c11-detached-push] " + msg
						}
						o11(c, "%s", msg)
					} else if !ok {
						o11(c, "%s by c%d failed with %s but removed d%d", kind, ci, r.err, i)
					}
				}
				t.removed[i] = true
			} else if t.removed[i] {
				o11(c, "d%d was removed and is visible again", i)
			}
		}
	}
	if di < 0 || kind == "DEACT" {
		return
	}
	k := [2]int{ci, di}
	if ok {
		// removed documents announce it in every response
		if t.removed[di] && !r.removed {
			o11(c, "%s c%d d%d: response without removed flag after the document was removed", kind, ci, di)
		}
		// lifecycle post-states
		st := t.storedStatus(ci, di)
		switch kind {
		case "ATT", "PP":
			if st != database.DocumentAttached {
				o11(c, "%s c%d d%d ok but stored status %q", kind, ci, di, st)
			}
			if (protoArg(toks, "nogc") != "1") != t.hasVVRow(di, ci) && kind == "ATT" {
				o11(c, "ATT c%d d%d nogc=%s but vv row present=%v", ci, di, protoArg(toks, "nogc"), t.hasVVRow(di, ci))
			}
		case "DET":
			if st != database.DocumentDetached && st != database.DocumentRemoved {
				o11(c, "DET c%d d%d ok but stored status %q", ci, di, st)
			}
			if t.hasVVRow(di, ci) {
				o11(c, "DET c%d d%d ok but version-vector row still there", ci, di)
			}
		case "REM":
			if st != database.DocumentRemoved {
				o11(c, "REM c%d d%d ok but stored status %q", ci, di, st)
			}
			if t.hasVVRow(di, ci) {
				o11(c, "REM c%d d%d ok but version-vector row still there", ci, di)
			}
		}
		if kind == "PP" && before != nil && *before != database.DocumentAttached {
			o11(c, "PP c%d d%d accepted although stored status was %q", ci, di, *before)
		}
	} else if before != nil {
		// a rejected request does not move the lifecycle (TryAttaching residue excepted)
		st := t.storedStatus(ci, di)
		if st != *before && !(kind == "ATT" && st == database.DocumentAttaching) {
			o11(c, "%s c%d d%d failed with %s but stored status moved %q -> %q", kind, ci, di, r.err, *before, st)
		}
	}
	// delivery discipline tracker
	var reqCp change.Checkpoint
	if p := strings.Split(protoArg(toks, "cp"), ","); len(p) == 2 {
		a, _ := strconv.ParseInt(p[0], 10, 64)
		b, _ := strconv.ParseUint(p[1], 10, 32)
		reqCp = change.NewCheckpoint(a, uint32(b))
	}
	tr := t.track[k]
	if kind == "ATT" {
		if !ok {
			return
		}
		tr = &protoTrack{att: t.atts[k], ok: reqCp.ServerSeq == 0 && reqCp.ClientSeq == 0, open: true}
		t.track[k] = tr
	} else if tr == nil || !tr.open {
		return
	} else if reqCp.ServerSeq != tr.cp.ServerSeq || reqCp.ClientSeq > tr.cp.ClientSeq+uint32(len(honest)) {
		tr.ok = false
	}
	if !ok {
		return
	}
	if protoArg(toks, "lost") == "1" { // response lost: the client keeps its old state
		return
	}
	if tr.ok && !t.forged[di] {
		if r.cp.ServerSeq < tr.cp.ServerSeq || r.cp.ClientSeq < tr.cp.ClientSeq {
			o04(c, "%s c%d d%d: response checkpoint (%d,%d) below previous (%d,%d)", kind, ci, di,
				r.cp.ServerSeq, r.cp.ClientSeq, tr.cp.ServerSeq, tr.cp.ClientSeq)
		}
		if h := t.head(di); r.cp.ServerSeq > h {
			o04(c, "%s c%d d%d: response checkpoint serverSeq %d beyond head %d", kind, ci, di, r.cp.ServerSeq, h)
		}
		me := fmt.Sprintf("c%d", ci)
		for _, ch := range r.changes {
			a := t.actorName(ch.ID().ActorID())
			if a == me {
				w, known := t.writer[di][ch.ServerSeq()]
				if !known || (w.client == ci && w.att == tr.att && !w.detached) {
					o04(c, "%s c%d d%d: echo of own change clientSeq=%d serverSeq=%d", kind, ci, di, ch.ClientSeq(), ch.ServerSeq())
				}
			}
			tr.applied = append(tr.applied, fmt.Sprintf("%s:%d:%d", a, ch.ClientSeq(), ch.ServerSeq()))
		}
		tr.cp = r.cp
		// delivered to c = log prefix restricted to other actors
		rows, _ := t.s.db.FindChangeInfosBetweenServerSeqs(context.Background(), t.docRef(di), 1, r.cp.ServerSeq)
		var want, got []string
		for _, row := range rows {
			a, _ := time.ActorIDFromHex(row.ActorID.String())
			if n := t.actorName(a); n != me {
				want = append(want, fmt.Sprintf("%s:%d:%d", n, row.ClientSeq, row.ServerSeq))
			}
		}
		for _, x := range tr.applied {
			if !strings.HasPrefix(x, me+":") {
				got = append(got, x)
			}
		}
		if strings.Join(want, ";") != strings.Join(got, ";") {
			o04(c, "%s c%d d%d: delivered %v but log restricted to others up to %d is %v", kind, ci, di, got, r.cp.ServerSeq, want)
		}
	} else {
		tr.cp = r.cp
	}
	if kind == "DET" || kind == "REM" {
		tr.open = false
	}
}

// logOracles: shape of the stored log (C04 clauses 1 and 2).
func (t *protoTrace) logOracles(c *Ctx, di int) {
	if di < 0 || di >= len(t.docs) {
		return
	}
	ctx := context.Background()
	info, err := t.s.db.FindDocInfoByRefKey(ctx, t.docRef(di))
	if err != nil {
		return
	}
	rows, _ := t.s.db.FindChangeInfosBetweenServerSeqs(ctx, t.docRef(di), 1, math.MaxInt64)
	for i, r := range rows {
		if r.ServerSeq != int64(i+1) {
			o04(c, "d%d: log row %d has serverSeq %d (gap or duplicate)", di, i, r.ServerSeq)
			break
		}
	}
	if int64(len(rows)) != info.ServerSeq {
		o04(c, "d%d: %d rows but document serverSeq %d", di, len(rows), info.ServerSeq)
	}
	if info.DisablePresence {
		for _, r := range rows {
			if r.PresenceChange != nil {
				o12(c, "d%d: presenceless document stores presence in row %d", di, r.ServerSeq)
			}
		}
		return
	}
	// per writer attachment: clientSeq 1..k in log order
	next := map[[2]int]uint32{}
	for _, r := range rows {
		w, ok := t.writer[di][r.ServerSeq]
		if !ok || w.detached || w.client < 0 {
			continue
		}
		k := [2]int{w.client, w.att}
		if r.ClientSeq != next[k]+1 {
			o04(c, "d%d: c%d attachment %d stores clientSeq %d at serverSeq %d, expected %d", di, w.client, w.att,
				r.ClientSeq, r.ServerSeq, next[k]+1)
		}
		next[k] = r.ClientSeq
	}
}

// ---------------------------------------------------------------- driver

type protoOpts struct {
	mix    []string
	shards int
	depth  int
	orc    string // which property's oracles are evaluated: c04 | c11 | all
}

var protoOrc = "all"

func protoOrcOn(p string) bool {
	return protoOrc == "all" || protoOrc == p || strings.Contains("+"+protoOrc+"+", "+"+p+"+")
}

func o04(c *Ctx, f string, a ...any) {
	if protoOrcOn("c04") {
		c.Oracle(f, a...)
	}
}

func o11(c *Ctx, f string, a ...any) {
	if protoOrcOn("c11") {
		c.Oracle(f, a...)
	}
}

func o12(c *Ctx, f string, a ...any) {
	if protoOrcOn("c12") {
		c.Oracle(f, a...)
	}
}

func protoParseOpts(c *Ctx) protoOpts {
	o := protoOpts{mix: []string{"schedules", "lifecycle", "malformed"}, shards: 1, depth: 4, orc: "all"}
	if c.Tier == "thorough" {
		o.depth = 6
	}
	for _, a := range os.Args[2:] {
		switch {
		case strings.HasPrefix(a, "mix="):
			o.mix = strings.Split(a[4:], "+")
		case strings.HasPrefix(a, "shards="):
			o.shards, _ = strconv.Atoi(a[7:])
		case strings.HasPrefix(a, "len="):
			o.depth, _ = strconv.Atoi(a[4:])
		case strings.HasPrefix(a, "orc="):
			o.orc = a[4:]
		}
	}
	if o.shards < 1 {
		o.shards = 1
	}
	protoOrc = o.orc
	return o
}

// protoMaxSteps > 0 shortens the schedules of protoSchedule (set only by the compact/faults engines)
var protoMaxSteps = 0

type protoRun struct {
	c  *Ctx
	t  *protoTrace
	ok bool // accepted state-changing request seen
	no bool // rejected request seen
}

func (p *protoRun) do(line string) *protoResp {
	l2, obs := p.t.exec(p.c, line)
	p.c.Cmd("%s", l2)
	p.c.Obs("%s", obs)
	if r := p.t.last; r != nil {
		if r.err == "" {
			p.ok = true
		} else {
			p.no = true
		}
		return r
	}
	return &protoResp{err: "none"}
}

func (p *protoRun) finish() {
	for i := range p.t.docs {
		p.do(fmt.Sprintf("LOG d%d", i))
	}
	if p.ok && p.no {
		p.c.Nontrivial()
	}
}

func runProto(c *Ctx) error {
	c.stats.Rule = "proto: a trace is non-trivial when it contains at least one accepted and at least one rejected request " +
		"(lifecycle/malformed) or at least two clients exchanging changes on one document (schedules); distinct by trace hash"
	s := protoServer()
	o := protoParseOpts(c)
	if c.Replay != nil {
		var p *protoRun
		for _, l := range c.Replay {
			if strings.HasPrefix(l, "T ") {
				if p != nil && p.ok && p.no {
					c.Nontrivial()
				}
				c.Trace(strings.TrimPrefix(l, "T "))
				p = &protoRun{c: c, t: newProtoTrace(protoServer())}
				continue
			}
			if p == nil {
				c.Trace("replay")
				p = &protoRun{c: c, t: newProtoTrace(s)}
			}
			p.do(l)
		}
		return nil
	}
	has := func(m string) bool {
		for _, x := range o.mix {
			if x == m {
				return true
			}
		}
		return false
	}
	if has("lifecycle") {
		protoLifecycle(c, s, o)
	}
	var rnd []string
	if has("schedules") {
		rnd = append(rnd, "schedules")
	}
	if has("malformed") {
		rnd = append(rnd, "malformed")
	}
	if len(rnd) > 0 {
		for i := 0; i < c.N; i++ {
			m := rnd[i%len(rnd)]
			c.Trace(fmt.Sprintf("%s-%d-%d", m, c.Seed, i))
			protoSchedule(c, protoServer(), m == "malformed")
		}
	}
	return nil
}

// ---------------------------------------------------------------- generator (a)+(c): schedules

type protoChg struct {
	cs   uint32
	lam  int64
	kind string
	tag  int
}

type protoSimDoc struct {
	key      int
	di       int
	attached bool
	gone     bool
	cp       change.Checkpoint
	nextSeq  uint32
	pending  []protoChg
	lam      int64
	vv       map[int]int64
	nogc     bool
}

type protoSimClient struct {
	idx    int
	active bool
	docs   map[int]*protoSimDoc
}

func protoSchedule(c *Ctx, s *protoSrv, malformed bool) {
	r := c.Rng
	p := &protoRun{c: c, t: newProtoTrace(s)}
	if r.Intn(5) == 0 {
		p.do("CFG rod=1")
	}
	nClients := 2 + r.Intn(4)
	nKeys := 1 + r.Intn(2)
	dpKey := -1
	if r.Intn(6) == 0 {
		dpKey = r.Intn(nKeys)
	}
	tag := 0
	var cl []*protoSimClient
	activate := func() *protoSimClient {
		res := p.do("ACT")
		sc := &protoSimClient{idx: res.client, active: res.err == "", docs: map[int]*protoSimDoc{}}
		cl = append(cl, sc)
		return sc
	}
	for i := 0; i < nClients; i++ {
		activate()
	}
	showVV := func(d *protoSimDoc) string {
		var ks []int
		for k := range d.vv {
			ks = append(ks, k)
		}
		sort.Ints(ks)
		var parts []string
		for _, k := range ks {
			parts = append(parts, fmt.Sprintf("c%d:%d", k, d.vv[k]))
		}
		return "{" + strings.Join(parts, ",") + "}"
	}
	edit := func(sc *protoSimClient, d *protoSimDoc, kind string) {
		tag++
		ch := protoChg{cs: d.nextSeq, kind: kind, tag: tag}
		d.nextSeq++
		if kind != "pres" {
			d.lam++
			ch.lam = d.lam
			d.vv[sc.idx] = d.lam
		}
		d.pending = append(d.pending, ch)
	}
	chgStr := func(sc *protoSimClient, d *protoSimDoc, mut int) string {
		if len(d.pending) == 0 {
			return "-"
		}
		var parts []string
		for i, ch := range d.pending {
			cs := ch.cs
			extra := ""
			switch mut {
			case 1: // gap
				if i == len(d.pending)-1 {
					cs += 1 + uint32(r.Intn(2))
				}
			case 2: // duplicate / regress
				if i == len(d.pending)-1 && cs > 1 {
					cs--
				}
			case 3: // forged actor
				if i == 0 {
					if fa := r.Intn(len(cl) + 1); fa < len(cl) {
						extra = fmt.Sprintf(":c%d", cl[fa].idx)
					} else {
						extra = ":c98"
					}
				}
			}
			parts = append(parts, fmt.Sprintf("%d:%d:%s:%d%s", cs, ch.lam, ch.kind, ch.tag, extra))
		}
		return strings.Join(parts, ",")
	}
	apply := func(sc *protoSimClient, d *protoSimDoc, res *protoResp) {
		d.cp = res.cp
		var keep []protoChg
		for _, ch := range d.pending {
			if ch.cs > res.cp.ClientSeq {
				keep = append(keep, ch)
			}
		}
		d.pending = keep
		for _, ch := range res.changes {
			if ch.ID().Lamport() != 0 {
				a := p.t.actorName(ch.ID().ActorID())
				ai := protoRef(a)
				if ch.ID().Lamport() > d.vv[ai] {
					d.vv[ai] = ch.ID().Lamport()
				}
				if ch.ID().Lamport() > d.lam {
					d.lam = ch.ID().Lamport()
				}
				d.lam++
				d.vv[sc.idx] = d.lam
			}
		}
		if res.removed {
			d.gone = true
			d.attached = false
		}
	}
	exchanged := map[int]map[int]bool{}
	steps := 10 + r.Intn(40)
	if protoMaxSteps > 0 { // engines `compact`/`faults`: short base histories (same PRNG consumption)
		steps = 3 + steps%protoMaxSteps
	}
	for k := 0; k < steps; k++ {
		sc := cl[r.Intn(len(cl))]
		key := r.Intn(nKeys)
		d := sc.docs[key]
		x := r.Intn(100)
		mut := 0
		if malformed && r.Intn(4) == 0 {
			mut = 1 + r.Intn(9)
		}
		cname := fmt.Sprintf("c%d", sc.idx)
		if mut == 4 { // unknown client
			cname = "c99"
		}
		cpStr := func(d *protoSimDoc) string {
			cp := d.cp
			switch mut {
			case 5:
				cp.ServerSeq += 1 + int64(r.Intn(3))
			case 6:
				cp.ServerSeq = 0
			case 7:
				cp.ClientSeq += 1
			}
			return fmt.Sprintf("%d,%d", cp.ServerSeq, cp.ClientSeq)
		}
		switch {
		case !sc.active:
			if r.Intn(3) == 0 {
				activate()
			} else if malformed || r.Intn(4) == 0 {
				// a deactivated client tries anyway
				if d != nil && d.di >= 0 {
					p.do(fmt.Sprintf("PP %s d%d cp=%s chg=- vv={}", cname, d.di, cpStr(d)))
				} else {
					p.do(fmt.Sprintf("ATT %s k%d cp=0,0 chg=- vv={}", cname, key))
				}
			}
		case d == nil || !d.attached:
			// attach with a fresh Document (clientSeq restarts at 1)
			if x < 70 || d == nil || !malformed {
				nd := &protoSimDoc{key: key, di: -1, nextSeq: 1, vv: map[int]int64{}, nogc: r.Intn(8) == 0}
				if malformed && d != nil && r.Intn(3) == 0 {
					// re-use the detached Document instance (cp.serverSeq != 0)
					nd.cp = change.NewCheckpoint(1+int64(r.Intn(3)), 0)
				}
				if r.Intn(10) != 0 {
					edit(sc, nd, "pres")
				}
				if r.Intn(4) == 0 {
					edit(sc, nd, "ops")
				}
				extra := ""
				if key == dpKey {
					extra += " dp=1"
				}
				if nd.nogc {
					extra += " nogc=1"
				}
				if mut == 8 {
					extra += " rm=1"
				}
				res := p.do(fmt.Sprintf("ATT %s k%d cp=%s chg=%s vv=%s%s", cname, key, cpStr(nd), chgStr(sc, nd, mut), showVV(nd), extra))
				if res.err == "" && cname != "c99" {
					nd.attached = true
					nd.di = res.doc
					sc.docs[key] = nd
					apply(sc, nd, res)
					if exchanged[nd.di] == nil {
						exchanged[nd.di] = map[int]bool{}
					}
				}
			} else if d != nil && d.di >= 0 {
				// requests on a document the client no longer holds
				switch r.Intn(3) {
				case 0:
					p.do(fmt.Sprintf("PP %s d%d cp=%s chg=- vv=%s", cname, d.di, cpStr(d), showVV(d)))
				case 1:
					tag++
					p.do(fmt.Sprintf("DET %s d%d cp=0,0 chg=1:0:%s:%d vv={}", cname, d.di, []string{"pres", "ops"}[r.Intn(2)], tag))
				default:
					p.do(fmt.Sprintf("REM %s d%d cp=%s chg=- vv={} rm=1", cname, d.di, cpStr(d)))
				}
			}
		case x < 40: // local edit (offline stretch = several of these in a row)
			kinds := []string{"ops", "ops", "ops", "pres", "both"}
			if malformed && r.Intn(6) == 0 {
				// a change with neither operations nor presence: only a foreign client sends one; it still
				// occupies a clientSeq and a serverSeq (memory DB keeps the row)
				kinds = []string{"none"}
			}
			edit(sc, d, kinds[r.Intn(len(kinds))])
		case x < 80: // sync
			extra := ""
			po := r.Intn(7) == 0
			if po {
				extra += " pushonly=1"
			}
			if d.nogc {
				extra += " nogc=1"
			}
			lost := r.Intn(10) == 0
			if lost {
				extra += " lost=1"
			}
			if mut == 8 {
				extra += " rm=1"
			}
			dn := fmt.Sprintf("d%d", d.di)
			if mut == 9 {
				dn = "d99"
			}
			res := p.do(fmt.Sprintf("PP %s %s cp=%s chg=%s vv=%s%s", cname, dn, cpStr(d), chgStr(sc, d, mut), showVV(d), extra))
			if res.err == "" && !lost && cname != "c99" && dn != "d99" {
				if len(res.changes) > 0 {
					exchanged[d.di][sc.idx] = true
				}
				apply(sc, d, res)
			}
		case x < 88: // detach (SDK adds a presence-clear change)
			if r.Intn(4) != 0 {
				edit(sc, d, "pres")
			}
			res := p.do(fmt.Sprintf("DET %s d%d cp=%s chg=%s vv=%s", cname, d.di, cpStr(d), chgStr(sc, d, mut), showVV(d)))
			if res.err == "" && cname != "c99" {
				d.attached = false
				d.pending = nil
				if res.removed {
					d.gone = true
				}
			}
		case x < 92: // remove
			res := p.do(fmt.Sprintf("REM %s d%d cp=%s chg=%s vv=%s rm=1", cname, d.di, cpStr(d), chgStr(sc, d, mut), showVV(d)))
			if res.err == "" && cname != "c99" {
				d.attached = false
				d.gone = true
				d.pending = nil
			}
		case x < 97: // deactivate (+ later a new activation)
			res := p.do("DEACT " + cname)
			if res.err == "" && cname != "c99" {
				sc.active = false
				for _, dd := range sc.docs {
					dd.attached = false
				}
			}
		default:
			activate()
		}
	}
	for _, m := range exchanged {
		if len(m) >= 2 {
			c.Nontrivial()
		}
	}
	p.finish()
}

// ---------------------------------------------------------------- generator (b): lifecycle enumeration

// one symbol of the alphabet: request kind x client slot x key
type protoSym struct {
	op   string // ACT DEACT ATT PP PPC DET DETC REM
	slot int
	key  int
}

func (y protoSym) String() string {
	if y.op == "ACT" || y.op == "DEACT" {
		return fmt.Sprintf("%s%d", y.op, y.slot)
	}
	return fmt.Sprintf("%s%d.%d", y.op, y.slot, y.key)
}

func protoAlphabet() []protoSym {
	var a []protoSym
	for s := 0; s < 2; s++ {
		a = append(a, protoSym{"ACT", s, 0}, protoSym{"DEACT", s, 0})
		for k := 0; k < 2; k++ {
			for _, op := range []string{"ATT", "PP", "PPC", "DET", "DETC", "REM"} {
				a = append(a, protoSym{op, s, k})
			}
		}
	}
	return a
}

// canonical: slot 0 / key 0 are the first ones mentioned (client and document symmetry)
func protoCanonical(seq []protoSym) bool {
	seenSlot1, seenSlot0, seenKey0 := false, false, false
	for _, y := range seq {
		if y.slot == 1 && !seenSlot0 {
			return false
		}
		if y.slot == 0 {
			seenSlot0 = true
		} else {
			seenSlot1 = true
		}
		if y.op != "ACT" && y.op != "DEACT" {
			if y.key == 1 && !seenKey0 {
				return false
			}
			if y.key == 0 {
				seenKey0 = true
			}
		}
	}
	_ = seenSlot1
	return true
}

type protoLcSlot struct {
	client int // current client index bound to the slot, -1 = never activated
	cp     map[int]change.Checkpoint
	next   map[int]uint32
}

// runSeq executes one sequence from scratch and reports, per step, whether the
// server state changed (dump comparison).
func protoRunSeq(c *Ctx, s *protoSrv, seq []protoSym, record bool) []bool {
	var names []string
	for _, y := range seq {
		names = append(names, y.String())
	}
	c.Trace("lc-" + strings.Join(names, ","))
	p := &protoRun{c: c, t: newProtoTrace(protoServer())}
	slots := []*protoLcSlot{{client: -1, cp: map[int]change.Checkpoint{}, next: map[int]uint32{}},
		{client: -1, cp: map[int]change.Checkpoint{}, next: map[int]uint32{}}}
	keyDoc := map[int]int{}
	tag := 0
	dump := func() string {
		var parts []string
		for i := range p.t.docs {
			parts = append(parts, p.t.showLog(i))
		}
		parts = append(parts, fmt.Sprintf("clients=%d", len(p.t.cids)))
		for i := range p.t.cids {
			parts = append(parts, fmt.Sprintf("%v", p.t.clientActive(i)))
		}
		return strings.Join(parts, "|")
	}
	changed := make([]bool, len(seq))
	prev := dump()
	for i, y := range seq {
		sl := slots[y.slot]
		cname := "c99"
		if sl.client >= 0 {
			cname = fmt.Sprintf("c%d", sl.client)
		}
		dname := "d99"
		if d, ok := keyDoc[y.key]; ok {
			dname = fmt.Sprintf("d%d", d)
		}
		cp := sl.cp[y.key]
		next := sl.next[y.key]
		if next == 0 {
			next = 1
		}
		var res *protoResp
		switch y.op {
		case "ACT":
			res = p.do("ACT")
			if res.err == "" {
				sl.client = res.client
				sl.cp = map[int]change.Checkpoint{}
				sl.next = map[int]uint32{}
			}
		case "DEACT":
			res = p.do("DEACT " + cname)
		case "ATT":
			tag++
			res = p.do(fmt.Sprintf("ATT %s k%d cp=0,0 chg=1:0:pres:%d vv={}", cname, y.key, tag))
			if d := p.t.learnDoc(c, y.key); d >= 0 {
				keyDoc[y.key] = d
			}
			if res.err == "" {
				sl.cp[y.key] = res.cp
				sl.next[y.key] = res.cp.ClientSeq + 1
			}
		case "PP", "PPC":
			chg := "-"
			if y.op == "PPC" {
				tag++
				chg = fmt.Sprintf("%d:%d:ops:%d", next, tag, tag)
			}
			res = p.do(fmt.Sprintf("PP %s %s cp=%d,%d chg=%s vv={%s:%d}", cname, dname, cp.ServerSeq, cp.ClientSeq, chg, cname, tag))
			if res.err == "" {
				sl.cp[y.key] = res.cp
				sl.next[y.key] = res.cp.ClientSeq + 1
			}
		case "DET", "DETC":
			chg := "-"
			if y.op == "DETC" {
				tag++
				chg = fmt.Sprintf("%d:%d:ops:%d", next, tag, tag)
			}
			res = p.do(fmt.Sprintf("DET %s %s cp=%d,%d chg=%s vv={%s:%d}", cname, dname, cp.ServerSeq, cp.ClientSeq, chg, cname, tag))
			if res.err == "" {
				sl.cp[y.key] = change.InitialCheckpoint
				sl.next[y.key] = 1
			}
		case "REM":
			res = p.do(fmt.Sprintf("REM %s %s cp=%d,%d chg=- vv={%s:%d} rm=1", cname, dname, cp.ServerSeq, cp.ClientSeq, cname, tag))
			if res.err == "" {
				sl.cp[y.key] = change.InitialCheckpoint
				sl.next[y.key] = 1
				delete(keyDoc, y.key)
			}
		}
		// a removed document is no longer reachable by key
		for k, d := range keyDoc {
			if p.t.removed[d] {
				delete(keyDoc, k)
			}
		}
		cur := dump()
		changed[i] = cur != prev
		if res != nil && res.err != "" && changed[i] {
			c.Count("proto:lc-rejected-but-changed:" + y.op)
		}
		prev = cur
	}
	p.finish()
	return changed
}

// protoLifecycle enumerates ALL sequences over the alphabet up to the depth bound,
// pruned by (i) client/document symmetry and (ii) "a step that did not change
// the server state is only ever the last step" (extending such a sequence
// repeats a shorter one from an identical state).
func protoLifecycle(c *Ctx, s *protoSrv, o protoOpts) {
	alpha := protoAlphabet()
	shard := int(c.Seed % 1000 % int64(o.shards))
	count := 0
	var rec func(prefix []protoSym)
	rec = func(prefix []protoSym) {
		for _, y := range alpha {
			seq := append(append([]protoSym{}, prefix...), y)
			if !protoCanonical(seq) {
				continue
			}
			// subtrees below depth 2 are split between the workers
			if len(seq) >= 3 {
				h := fnv.New32a()
				h.Write([]byte(seq[0].String() + seq[1].String() + seq[2].String()))
				if int(h.Sum32()%uint32(o.shards)) != shard {
					continue
				}
			}
			ch := protoRunSeq(c, s, seq, true)
			count++
			if ch[len(ch)-1] && len(seq) < o.depth {
				rec(seq)
			}
		}
	}
	rec(nil)
	c.stats.Exhaustive = true
	c.stats.ExhaustiveScope = fmt.Sprintf("lifecycle: all sequences over {ACT,DEACT,ATT,PP,PP+change,DET,DET+change,REM} x 2 client slots x 2 document keys "+
		"up to length %d through the real RPC endpoints, pruned by client/document symmetry and by extending only state-changing prefixes "+
		"(shard %d/%d ran %d sequences)", o.depth, shard, o.shards, count)
	c.Count("proto:lifecycle-sequences")
	c.stats.Dist["proto:lifecycle-sequences"] = count
}
