//go:build race

package main

func init() { raceEnabled = true }
