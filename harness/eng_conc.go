package main

// engine `conc`: correspondence of the small-step concurrency model (Model/Conc.lean, C04
// concurrent half) with the real server.  Each concurrent request runs in its own goroutine
// against the in-process server of eng_proto.go (raw clients, hand-built packs) and is parked at
// the yield points of server/packs (`packs.VerifYield`, build tag verif) plus one point inside
// `UpdateMinVersionVector` provided by a DB proxy; the scheduler releases exactly one request at a
// time up to a named point, so the interleaving of the phases is forced.
//
// Command lines (on top of every `proto` command, which is executed sequentially as a setup step):
//   REQ r<i> <ATT|PP|DET|REM request line of the proto engine> [lost=1]   declare a request
//   SCH req=r<i> point=<p>      release request i until it reaches point p
//                               p in push.before < push.done < minvv.before < minvv.read <
//                               clientinfo.before < end
// Observation lines: `Q r<i>` for REQ; `S req=r<i> at=<point|blocked|end>` for SCH, followed by the
// response line of the proto engine when the request has ended.
//
// Extra arguments: mix=ex2+ex3+rand (default quick: ex2+rand, thorough: ex2+ex3+rand), shards=N.

import (
	"context"
	"fmt"
	"os"
	"runtime"
	"sort"
	"strconv"
	"strings"
	gosync "sync"
	gotime "time"

	"github.com/yorkie-team/yorkie/api/types"
	api "github.com/yorkie-team/yorkie/api/yorkie/v1"
	"github.com/yorkie-team/yorkie/pkg/document/change"
	"github.com/yorkie-team/yorkie/pkg/document/time"
	"github.com/yorkie-team/yorkie/server/backend/database"
	lsync "github.com/yorkie-team/yorkie/server/backend/sync"
	"github.com/yorkie-team/yorkie/server/packs"
)

func init() { register("conc", runConc) }

var concPoints = []string{"push.before", "push.done", "minvv.before", "minvv.read", "clientinfo.before", "end"}

func concPointIdx(p string) int {
	for i, x := range concPoints {
		if x == p {
			return i
		}
	}
	return -1
}

type concEv struct {
	kind  string // yield | blocked | end
	point string
}

type concReq struct {
	id      int
	line    string
	toks    []string
	kind    string
	ci      int
	chex    string
	dhex    string // "" = not known yet (ATT that creates the document)
	di      int
	keyIdx  int
	dkey    string
	lockKey string
	target  int
	state   string // new | launching | blocked | <point> | end
	running bool   // released by the scheduler (or waiting on its pull lock), not parked at a yield point
	last    int    // index of the last yield point passed or reached, -1 before the first
	resume  chan struct{}
	ev      chan concEv
	resp    *protoResp
	before  string
	honest  []bool
	lost    bool
}

// concSched is the scheduler state of the current trace; the hooks find it through concCur.
type concSched struct {
	mu   gosync.Mutex
	reqs map[int]*concReq
	live []*concReq     // launched and not ended
	held map[string]int // pull keys currently held (from the lock-boundary hook; a counter, because the
	// hook reports `released` after the real unlock, i.e. possibly after the next holder's `acquired`)
	abort bool
}

var concCur *concSched
var concCurMu gosync.RWMutex

func concGet() *concSched {
	concCurMu.RLock()
	defer concCurMu.RUnlock()
	return concCur
}

// find maps a yield (client id, document id, point) to the request that is at it: a request of
// that client on that document that is currently released and has not passed the point yet (two
// requests of one client on one document coexist when the second waits on the pull lock, or has
// just been woken by the return of the first).
func (s *concSched) find(clientID, docID string, pi int) *concReq {
	s.mu.Lock()
	defer s.mu.Unlock()
	var att *concReq
	for _, r := range s.live {
		if r.chex != clientID || !r.running || r.last >= pi {
			continue
		}
		if r.dhex == docID {
			return r
		}
		if r.dhex == "" && r.kind == "ATT" && att == nil {
			att = r
		}
	}
	if att != nil {
		att.dhex = docID
	}
	return att
}

// concYield is the body of every yield point.
func concYield(point, clientID, docID string) {
	s := concGet()
	if s == nil {
		return
	}
	pi := concPointIdx(point)
	r := s.find(clientID, docID, pi)
	if r == nil {
		return
	}
	s.mu.Lock()
	r.last = pi
	pass := s.abort || pi < r.target
	if !pass {
		r.running = false
	}
	s.mu.Unlock()
	if pass {
		return
	}
	r.ev <- concEv{kind: "yield", point: point}
	<-r.resume
}

func concLockEvent(_ uint64, key, _ string, phase string) {
	if !strings.HasPrefix(key, "doc-pull-") {
		return
	}
	s := concGet()
	if s == nil {
		return
	}
	s.mu.Lock()
	defer s.mu.Unlock()
	switch phase {
	case "acquired":
		s.held[key]++
	case "released":
		s.held[key]--
	case "acquire-begin":
		if s.held[key] > 0 {
			for _, r := range s.live {
				if r.lockKey == key && r.state == "launching" {
					r.state = "blocked"
					select {
					case r.ev <- concEv{kind: "blocked"}:
					default:
					}
				}
			}
		}
	}
}

// concDB splits UpdateMinVersionVector at the boundary of its two transactions.  The memory DB
// runs `updateVersionVector` (write txn) and `GetMinVersionVector` (read txn) back to back inside
// one method, so no proxy can pause between them; but the second transaction is a pure read, so
// "run both, discard the minimum, yield, read again" is observationally the same as yielding
// between the two – every other request sees the row written and this request returns the minimum
// of the rows that exist when it resumes.
type concDB struct {
	database.Database
}

func (w *concDB) UpdateMinVersionVector(ctx context.Context, ci *database.ClientInfo, ref types.DocRefKey,
	vv time.VersionVector) (time.VersionVector, error) {
	s := concGet()
	if s == nil || s.find(ci.ID.String(), ref.DocID.String(), concPointIdx("minvv.read")) == nil {
		return w.Database.UpdateMinVersionVector(ctx, ci, ref, vv)
	}
	if _, err := w.Database.UpdateMinVersionVector(ctx, ci, ref, vv); err != nil {
		return nil, err
	}
	concYield("minvv.read", ci.ID.String(), ref.DocID.String())
	return w.Database.GetMinVersionVector(ctx, ref, vv)
}

func concServer() *protoSrv {
	s := protoServer()
	if _, ok := s.svr.Backend().DB.(*concDB); !ok {
		s.svr.Backend().DB = &concDB{Database: s.db}
	}
	return s
}

// ---------------------------------------------------------------- one trace

type concTrace struct {
	c     *Ctx
	t     *protoTrace
	s     *concSched
	dead  bool // the watchdog fired: the rest of the trace is skipped
	pairs map[[2]int]bool
}

const concWatchdog = 20 * gotime.Second

func newConcTrace(c *Ctx) *concTrace {
	e := &concTrace{c: c, t: newProtoTrace(concServer()), pairs: map[[2]int]bool{},
		s: &concSched{reqs: map[int]*concReq{}, held: map[string]int{}}}
	concCurMu.Lock()
	concCur = e.s
	concCurMu.Unlock()
	return e
}

func (e *concTrace) close() {
	// nothing may stay parked
	e.s.mu.Lock()
	e.s.abort = true
	live := append([]*concReq{}, e.s.live...)
	e.s.mu.Unlock()
	for _, r := range live {
		if r.state != "end" && r.state != "blocked" && r.state != "launching" && r.state != "new" {
			select {
			case r.resume <- struct{}{}:
			default:
			}
		}
	}
	concCurMu.Lock()
	concCur = nil
	concCurMu.Unlock()
}

func held(s string) bool { return s == database.DocumentAttached || s == database.DocumentAttaching }

// declare parses `REQ r<i> <request line>`.
func (e *concTrace) declare(line string) string {
	toks := strings.Fields(line)
	if len(toks) < 5 {
		return "bad-op"
	}
	id := protoRef(toks[1])
	r := &concReq{id: id, line: strings.Join(toks[2:], " "), toks: toks[2:], kind: toks[2], ci: protoRef(toks[3]),
		di: -1, keyIdx: -1, last: -1, state: "new", resume: make(chan struct{}), ev: make(chan concEv, 4),
		lost: protoArg(toks, "lost") == "1"}
	e.s.mu.Lock()
	e.s.reqs[id] = r
	e.s.mu.Unlock()
	return fmt.Sprintf("Q r%d", id)
}

func (e *concTrace) launch(r *concReq) {
	t := e.t
	ctx := context.Background()
	r.chex = t.clientHex(r.toks[1])
	if r.kind == "ATT" {
		r.keyIdx = protoRef(r.toks[2])
		r.dkey = t.keyStr(r.keyIdx)
		for i, k := range t.dkey {
			if k == r.keyIdx && !t.removed[i] {
				r.di = i
				r.dhex = t.docs[i].String()
			}
		}
	} else {
		r.dhex, r.di = t.docHex(r.toks[2])
		r.dkey = "unknown-" + t.nonce
		if r.di >= 0 {
			r.dkey = t.keyStr(t.dkey[r.di])
		}
	}
	r.lockKey = fmt.Sprintf("doc-pull-%s-%s", r.chex, r.dkey)
	r.before = t.storedStatus(r.ci, r.di)
	pb, honest, err := t.buildPack(r.toks[1], r.dkey, r.toks)
	r.honest = honest
	e.s.mu.Lock()
	r.state = "launching"
	r.running = true
	e.s.live = append(e.s.live, r)
	e.s.mu.Unlock()
	go func() {
		res := &protoResp{client: -1, doc: -1}
		if err != nil {
			res.err = "harness:" + err.Error()
			r.resp = res
			r.ev <- concEv{kind: "end"}
			return
		}
		var resPack *api.ChangePack
		var rerr error
		switch r.kind {
		case "ATT":
			out, e2 := t.s.cli.AttachDocument(ctx, protoReq(t, &api.AttachDocumentRequest{ClientId: r.chex, ChangePack: pb,
				DisableGc: protoArg(r.toks, "nogc") == "1", DisablePresence: protoArg(r.toks, "dp") == "1"}))
			rerr = e2
			if e2 == nil {
				resPack = out.Msg.ChangePack
			}
		case "PP":
			out, e2 := t.s.cli.PushPullChanges(ctx, protoReq(t, &api.PushPullChangesRequest{ClientId: r.chex, DocumentId: r.dhex,
				ChangePack: pb, PushOnly: protoArg(r.toks, "pushonly") == "1", DisableGc: protoArg(r.toks, "nogc") == "1"}))
			rerr = e2
			if e2 == nil {
				resPack = out.Msg.ChangePack
			}
		case "DET":
			out, e2 := t.s.cli.DetachDocument(ctx, protoReq(t, &api.DetachDocumentRequest{ClientId: r.chex, DocumentId: r.dhex, ChangePack: pb}))
			rerr = e2
			if e2 == nil {
				resPack = out.Msg.ChangePack
			}
		case "REM":
			out, e2 := t.s.cli.RemoveDocument(ctx, protoReq(t, &api.RemoveDocumentRequest{ClientId: r.chex, DocumentId: r.dhex, ChangePack: pb}))
			rerr = e2
			if e2 == nil {
				resPack = out.Msg.ChangePack
			}
		default:
			rerr = fmt.Errorf("bad request kind %s", r.kind)
		}
		if rerr != nil {
			res.err = protoErrKind(rerr)
		} else if rr, e2 := t.fromPack(resPack); e2 != nil {
			res.err = "harness:" + e2.Error()
		} else {
			res = rr
		}
		r.resp = res
		r.ev <- concEv{kind: "end"}
	}()
}

func concDump() string {
	buf := make([]byte, 1<<20)
	n := runtime.Stack(buf, true)
	s := string(buf[:n])
	if len(s) > 6000 {
		s = s[:6000] + "…"
	}
	return strings.ReplaceAll(s, "\n", " | ")
}

// sched executes `SCH req=r<i> point=<p>` and returns the observation lines.
func (e *concTrace) sched(line string) []string {
	toks := strings.Fields(line)
	id := protoRef(protoArg(toks, "req"))
	target := concPointIdx(protoArg(toks, "point"))
	e.s.mu.Lock()
	r := e.s.reqs[id]
	e.s.mu.Unlock()
	if r == nil || target < 0 {
		return []string{"bad-op"}
	}
	if e.dead {
		return []string{fmt.Sprintf("S req=r%d at=dead", id)}
	}
	e.s.mu.Lock()
	st0 := r.state
	e.s.mu.Unlock()
	switch st0 {
	case "end":
		return []string{fmt.Sprintf("S req=r%d at=gone", id)}
	case "new":
		r.target = target
		e.launch(r)
	case "blocked":
		// launched earlier and parked on its pull lock by the runtime; it proceeds by itself once
		// the holder has returned (target stays at the first point)
	default:
		e.s.mu.Lock()
		r.target = target
		r.running = true
		e.s.mu.Unlock()
		r.resume <- struct{}{}
	}
	var ev concEv
	select {
	case ev = <-r.ev:
	case <-gotime.After(concWatchdog):
		e.dead = true
		e.c.Oracle("schedule does not complete: request r%d (%s) did not reach a yield point or return within %s after `%s` (lock cycle?); goroutines: %s",
			id, r.line, concWatchdog, line, concDump())
		e.c.Count("conc:watchdog")
		protoS = nil // the server may hold locks for ever: the next trace gets a new one
		return []string{fmt.Sprintf("S req=r%d at=stuck", id)}
	}
	e.s.mu.Lock()
	firstStop := r.state == "launching" || r.state == "blocked"
	e.s.mu.Unlock()
	switch ev.kind {
	case "blocked":
		e.s.mu.Lock()
		r.state = "blocked"
		r.target = 0
		e.s.mu.Unlock()
		e.c.Count("conc:blocked-on-pull")
		return []string{fmt.Sprintf("S req=r%d at=blocked", id)}
	case "yield":
		e.s.mu.Lock()
		r.state = ev.point
		e.s.mu.Unlock()
		if firstStop {
			e.started(r)
		}
		e.c.Count("conc:at:" + ev.point)
		return []string{fmt.Sprintf("S req=r%d at=%s", id, ev.point)}
	}
	// ended
	e.s.mu.Lock()
	r.state = "end"
	r.running = false
	for i, x := range e.s.live {
		if x == r {
			e.s.live = append(e.s.live[:i], e.s.live[i+1:]...)
			break
		}
	}
	e.s.mu.Unlock()
	if firstStop {
		e.started(r)
	}
	if r.kind == "ATT" && r.resp.err == "" {
		r.resp.doc = r.di
	}
	e.finished(r)
	if r.resp.err == "" {
		e.c.Count("conc:" + r.kind + ":ok")
	} else {
		e.c.Count("conc:" + r.kind + ":" + r.resp.err)
	}
	return []string{fmt.Sprintf("S req=r%d at=end", id), e.t.showResp(r.resp, false)}
}

// started: bookkeeping after the handler prefix of r has run (document learnt, attachment generation).
func (e *concTrace) started(r *concReq) {
	t := e.t
	if r.kind == "ATT" {
		if n := t.learnDoc(e.c, r.keyIdx); n >= 0 {
			if n != r.di {
				r.di = n
				r.before = ""
			}
			r.dhex = t.docs[n].String()
		}
		if r.di >= 0 {
			if a := t.storedStatus(r.ci, r.di); !held(r.before) && held(a) {
				t.atts[[2]int{r.ci, r.di}]++
			}
		}
	}
}

// finished evaluates the C04 oracles of eng_proto.go for one concurrent request: the writer table
// (who stored which row, for the per-attachment client-sequence oracle of `logOracles` and for the
// echo oracle) and the delivery tracker.
func (e *concTrace) finished(r *concReq) {
	t, c := e.t, e.c
	ci, di := r.ci, r.di
	if di < 0 || ci < 0 || ci >= len(t.cids) {
		return
	}
	ctx := context.Background()
	me := fmt.Sprintf("c%d", ci)
	ok := r.resp.err == ""
	// rows of this client not seen before were written by this request: requests of one client on
	// one document are serialised by the pull lock
	rows, _ := t.s.db.FindChangeInfosBetweenServerSeqs(ctx, t.docRef(di), 1, 1<<62)
	for _, row := range rows {
		if _, seen := t.writer[di][row.ServerSeq]; seen {
			continue
		}
		a, _ := time.ActorIDFromHex(row.ActorID.String())
		if t.actorName(a) == me {
			t.writer[di][row.ServerSeq] = protoWrec{client: ci, att: t.atts[[2]int{ci, di}], honest: true}
		}
	}
	if info, err := t.s.db.FindDocInfoByRefKey(ctx, t.docRef(di)); err == nil && !info.RemovedAt.IsZero() {
		t.removed[di] = true
	}
	var reqCp change.Checkpoint
	if p := strings.Split(protoArg(r.toks, "cp"), ","); len(p) == 2 {
		a, _ := strconv.ParseInt(p[0], 10, 64)
		b, _ := strconv.ParseUint(p[1], 10, 32)
		reqCp = change.NewCheckpoint(a, uint32(b))
	}
	k := [2]int{ci, di}
	tr := t.track[k]
	if r.kind == "ATT" {
		if !ok {
			return
		}
		tr = &protoTrack{att: t.atts[k], ok: reqCp.ServerSeq == 0 && reqCp.ClientSeq == 0, open: true}
		t.track[k] = tr
	} else if tr == nil || !tr.open {
		return
	} else if reqCp.ServerSeq != tr.cp.ServerSeq || reqCp.ClientSeq > tr.cp.ClientSeq+uint32(len(r.honest)) {
		tr.ok = false
	}
	if !ok || r.lost {
		return
	}
	res := r.resp
	if tr.ok && !t.forged[di] {
		if res.cp.ServerSeq < tr.cp.ServerSeq || res.cp.ClientSeq < tr.cp.ClientSeq {
			o04(c, "%s c%d d%d: response checkpoint (%d,%d) below previous (%d,%d)", r.kind, ci, di,
				res.cp.ServerSeq, res.cp.ClientSeq, tr.cp.ServerSeq, tr.cp.ClientSeq)
		}
		if h := t.head(di); res.cp.ServerSeq > h {
			o04(c, "%s c%d d%d: response checkpoint serverSeq %d beyond head %d", r.kind, ci, di, res.cp.ServerSeq, h)
		}
		for _, ch := range res.changes {
			a := t.actorName(ch.ID().ActorID())
			if a == me {
				w, known := t.writer[di][ch.ServerSeq()]
				if !known || (w.client == ci && w.att == tr.att && !w.detached) {
					o04(c, "%s c%d d%d: echo of own change clientSeq=%d serverSeq=%d", r.kind, ci, di, ch.ClientSeq(), ch.ServerSeq())
				}
			}
			tr.applied = append(tr.applied, fmt.Sprintf("%s:%d:%d", a, ch.ClientSeq(), ch.ServerSeq()))
		}
		tr.cp = res.cp
		var want, got []string
		for _, row := range rows {
			if row.ServerSeq > res.cp.ServerSeq {
				break
			}
			a, _ := time.ActorIDFromHex(row.ActorID.String())
			if n := t.actorName(a); n != me {
				want = append(want, fmt.Sprintf("%s:%d:%d", n, row.ClientSeq, row.ServerSeq))
			}
		}
		for _, x := range tr.applied {
			if !strings.HasPrefix(x, me+":") {
				got = append(got, x)
			}
		}
		if strings.Join(want, ";") != strings.Join(got, ";") {
			o04(c, "%s c%d d%d: delivered %v but log restricted to others up to %d is %v", r.kind, ci, di, got, res.cp.ServerSeq, want)
		}
	} else {
		tr.cp = res.cp
	}
	if r.kind == "DET" || r.kind == "REM" {
		tr.open = false
	}
}

// do executes one command line of a conc trace and records it.
func (e *concTrace) do(line string) []string {
	var obs []string
	out := line
	switch {
	case strings.HasPrefix(line, "REQ "):
		obs = []string{e.declare(line)}
	case strings.HasPrefix(line, "SCH "):
		obs = e.sched(line)
	default:
		l2, o := e.t.exec(e.c, line)
		out, obs = l2, []string{o}
	}
	e.c.Cmd("%s", out)
	for _, o := range obs {
		e.c.Obs("%s", o)
	}
	return obs
}

// ---------------------------------------------------------------- simulated clients (generator)

type concCli struct {
	idx      int
	cp       change.Checkpoint
	next     uint32
	pending  []protoChg
	lam      int64
	vv       map[int]int64
	di       int
	attached bool
	nogc     bool
	cur      *concReq // request in flight
	curKind  string
	waiting  *concReq // launched and blocked behind cur
	reqs     int
}

type concGen struct {
	e   *concTrace
	cl  []*concCli
	tag int
	rid int
}

func (g *concGen) name(cl *concCli) string { return fmt.Sprintf("c%d", cl.idx) }

func (g *concGen) edit(cl *concCli, kind string) {
	g.tag++
	ch := protoChg{cs: cl.next, kind: kind, tag: g.tag}
	cl.next++
	if kind != "pres" {
		cl.lam++
		ch.lam = cl.lam
		cl.vv[cl.idx] = cl.lam
	}
	cl.pending = append(cl.pending, ch)
}

func (g *concGen) chgStr(cl *concCli) string {
	if len(cl.pending) == 0 {
		return "-"
	}
	var parts []string
	for _, ch := range cl.pending {
		parts = append(parts, fmt.Sprintf("%d:%d:%s:%d", ch.cs, ch.lam, ch.kind, ch.tag))
	}
	return strings.Join(parts, ",")
}

func (g *concGen) vvStr(cl *concCli) string {
	var ks []int
	for k := range cl.vv {
		ks = append(ks, k)
	}
	sort.Ints(ks)
	var parts []string
	for _, k := range ks {
		parts = append(parts, fmt.Sprintf("c%d:%d", k, cl.vv[k]))
	}
	return "{" + strings.Join(parts, ",") + "}"
}

func (g *concGen) apply(cl *concCli, res *protoResp) {
	cl.cp = res.cp
	var keep []protoChg
	for _, ch := range cl.pending {
		if ch.cs > res.cp.ClientSeq {
			keep = append(keep, ch)
		}
	}
	cl.pending = keep
	for _, ch := range res.changes {
		if ch.ID().Lamport() != 0 {
			ai := protoRef(g.e.t.actorName(ch.ID().ActorID()))
			if ch.ID().Lamport() > cl.vv[ai] {
				cl.vv[ai] = ch.ID().Lamport()
			}
			if ch.ID().Lamport() > cl.lam {
				cl.lam = ch.ID().Lamport()
			}
			cl.lam++
			cl.vv[cl.idx] = cl.lam
		}
		if ai := protoRef(g.e.t.actorName(ch.ID().ActorID())); ai != cl.idx {
			g.e.pairs[[2]int{ai, cl.idx}] = true
		}
	}
}

func (g *concGen) activate() *concCli {
	g.e.do("ACT")
	res := g.e.t.last
	cl := &concCli{idx: res.client, next: 1, vv: map[int]int64{}, di: -1}
	g.cl = append(g.cl, cl)
	return cl
}

// reqLine builds the request line of kind for the client from its current state.
func (g *concGen) reqLine(cl *concCli, kind string, key int, extra string) string {
	if cl.nogc && (kind == "PP" || kind == "ATT") {
		extra += " nogc=1"
	}
	switch kind {
	case "ATT":
		return fmt.Sprintf("ATT %s k%d cp=0,0 chg=%s vv=%s%s", g.name(cl), key, g.chgStr(cl), g.vvStr(cl), extra)
	case "REM":
		return fmt.Sprintf("REM %s d%d cp=%d,%d chg=%s vv=%s rm=1%s", g.name(cl), cl.di, cl.cp.ServerSeq, cl.cp.ClientSeq,
			g.chgStr(cl), g.vvStr(cl), extra)
	}
	return fmt.Sprintf("%s %s d%d cp=%d,%d chg=%s vv=%s%s", kind, g.name(cl), cl.di, cl.cp.ServerSeq, cl.cp.ClientSeq,
		g.chgStr(cl), g.vvStr(cl), extra)
}

// seq runs one request sequentially (setup) and applies the response.
func (g *concGen) seq(cl *concCli, kind string, key int, extra string) *protoResp {
	g.e.do(g.reqLine(cl, kind, key, extra))
	res := g.e.t.last
	if res == nil {
		return &protoResp{err: "none"}
	}
	if res.err == "" && !strings.Contains(extra, "lost=1") {
		switch kind {
		case "ATT":
			cl.attached = true
			cl.di = res.doc
			g.apply(cl, res)
		case "PP":
			g.apply(cl, res)
		default:
			cl.attached = false
			cl.pending = nil
		}
	}
	return res
}

// request declares a concurrent request of the client.
func (g *concGen) request(cl *concCli, kind string, key int, extra string) *concReq {
	g.rid++
	line := fmt.Sprintf("REQ r%d %s", g.rid, g.reqLine(cl, kind, key, extra))
	g.e.do(line)
	g.e.s.mu.Lock()
	r := g.e.s.reqs[g.rid]
	g.e.s.mu.Unlock()
	cl.reqs++
	return r
}

// advance releases r up to the point and, when it has ended, feeds the response to its client.
// It returns the state reached.
func (g *concGen) advance(cl *concCli, r *concReq, point string) string {
	g.e.do(fmt.Sprintf("SCH req=r%d point=%s", r.id, point))
	if r.state == "end" {
		if r.resp.err == "" && !r.lost {
			switch r.kind {
			case "ATT":
				cl.attached = true
				cl.di = r.di
				g.apply(cl, r.resp)
			case "PP":
				g.apply(cl, r.resp)
			default:
				cl.attached = false
				cl.pending = nil
			}
		}
	}
	return r.state
}

func (g *concGen) finishTrace() {
	for i := range g.e.t.docs {
		g.e.do(fmt.Sprintf("LOG d%d", i))
	}
	if len(g.e.pairs) >= 2 || g.rid >= 2 {
		g.e.c.Nontrivial()
	}
	g.e.close()
}

// ---------------------------------------------------------------- exhaustive interleavings

// a shape prepares a state sequentially and declares the concurrent requests
type concShape struct {
	name string
	n    int // number of concurrent requests
	prep func(g *concGen) ([]*concCli, []*concReq)
}

func concAttachAll(g *concGen, n int, extra string) []*concCli {
	var cls []*concCli
	for i := 0; i < n; i++ {
		cl := g.activate()
		g.edit(cl, "pres")
		g.seq(cl, "ATT", 0, extra)
		cls = append(cls, cl)
	}
	return cls
}

func concShapes() []concShape {
	two := func(name string, f func(g *concGen, a, b *concCli) []*concReq) concShape {
		return concShape{name: name, n: 2, prep: func(g *concGen) ([]*concCli, []*concReq) {
			cls := concAttachAll(g, 2, "")
			// some history: a has synced one operation that b has not pulled yet
			g.edit(cls[0], "ops")
			g.seq(cls[0], "PP", 0, "")
			return cls, f(g, cls[0], cls[1])
		}}
	}
	return []concShape{
		two("pp-pp", func(g *concGen, a, b *concCli) []*concReq {
			g.edit(a, "ops")
			g.edit(b, "ops")
			return []*concReq{g.request(a, "PP", 0, ""), g.request(b, "PP", 0, "")}
		}),
		two("pp2-pull", func(g *concGen, a, b *concCli) []*concReq {
			g.edit(a, "ops")
			g.edit(a, "both")
			return []*concReq{g.request(a, "PP", 0, ""), g.request(b, "PP", 0, "")}
		}),
		two("pushonly-pp", func(g *concGen, a, b *concCli) []*concReq {
			g.edit(a, "ops")
			g.edit(b, "ops")
			return []*concReq{g.request(a, "PP", 0, " pushonly=1"), g.request(b, "PP", 0, "")}
		}),
		two("pp-det", func(g *concGen, a, b *concCli) []*concReq {
			g.edit(a, "ops")
			g.edit(b, "pres")
			return []*concReq{g.request(a, "PP", 0, ""), g.request(b, "DET", 0, "")}
		}),
		two("det-det", func(g *concGen, a, b *concCli) []*concReq {
			g.edit(a, "pres")
			g.edit(b, "ops")
			return []*concReq{g.request(a, "DET", 0, ""), g.request(b, "DET", 0, "")}
		}),
		two("resend-pp", func(g *concGen, a, b *concCli) []*concReq {
			// a's previous response was lost: it resends the stored change together with a new one
			g.edit(a, "ops")
			g.seq(a, "PP", 0, " lost=1")
			g.edit(a, "ops")
			g.edit(b, "ops")
			return []*concReq{g.request(a, "PP", 0, ""), g.request(b, "PP", 0, "")}
		}),
		two("rem-pp", func(g *concGen, a, b *concCli) []*concReq {
			g.edit(b, "ops")
			return []*concReq{g.request(a, "REM", 0, ""), g.request(b, "PP", 0, "")}
		}),
		{name: "att-pp", n: 2, prep: func(g *concGen) ([]*concCli, []*concReq) {
			cls := concAttachAll(g, 1, "")
			g.edit(cls[0], "ops")
			g.seq(cls[0], "PP", 0, "")
			nw := g.activate()
			g.edit(nw, "pres")
			g.edit(nw, "ops")
			g.edit(cls[0], "ops")
			return []*concCli{nw, cls[0]}, []*concReq{g.request(nw, "ATT", 0, ""), g.request(cls[0], "PP", 0, "")}
		}},
		{name: "att-att-new", n: 2, prep: func(g *concGen) ([]*concCli, []*concReq) {
			a, b := g.activate(), g.activate()
			g.edit(a, "pres")
			g.edit(a, "ops")
			g.edit(b, "pres")
			return []*concCli{a, b}, []*concReq{g.request(a, "ATT", 0, ""), g.request(b, "ATT", 0, "")}
		}},
		{name: "nogc-pp", n: 2, prep: func(g *concGen) ([]*concCli, []*concReq) {
			a := g.activate()
			a.nogc = true
			g.edit(a, "pres")
			g.seq(a, "ATT", 0, "")
			b := g.activate()
			g.edit(b, "pres")
			g.seq(b, "ATT", 0, "")
			g.edit(a, "ops")
			g.edit(b, "ops")
			return []*concCli{a, b}, []*concReq{g.request(a, "PP", 0, ""), g.request(b, "PP", 0, "")}
		}},
		{name: "pp-pp-pp", n: 3, prep: func(g *concGen) ([]*concCli, []*concReq) {
			cls := concAttachAll(g, 3, "")
			g.edit(cls[0], "ops")
			g.seq(cls[0], "PP", 0, "")
			g.edit(cls[0], "ops")
			g.edit(cls[1], "ops")
			g.edit(cls[2], "both")
			return cls, []*concReq{g.request(cls[0], "PP", 0, ""), g.request(cls[1], "PP", 0, ""), g.request(cls[2], "PP", 0, "")}
		}},
		{name: "att-pp-det", n: 3, prep: func(g *concGen) ([]*concCli, []*concReq) {
			cls := concAttachAll(g, 2, "")
			g.edit(cls[0], "ops")
			g.seq(cls[0], "PP", 0, "")
			nw := g.activate()
			g.edit(nw, "pres")
			g.edit(cls[0], "ops")
			g.edit(cls[1], "pres")
			return []*concCli{nw, cls[0], cls[1]}, []*concReq{g.request(nw, "ATT", 0, ""), g.request(cls[0], "PP", 0, ""),
				g.request(cls[1], "DET", 0, "")}
		}},
	}
}

// concInterleavings: all sequences over {0..n-1} in which every index occurs exactly k times.
func concInterleavings(n, k int) [][]int {
	var out [][]int
	left := make([]int, n)
	for i := range left {
		left[i] = k
	}
	cur := make([]int, 0, n*k)
	var rec func()
	rec = func() {
		if len(cur) == n*k {
			out = append(out, append([]int{}, cur...))
			return
		}
		for i := 0; i < n; i++ {
			if left[i] > 0 {
				left[i]--
				cur = append(cur, i)
				rec()
				cur = cur[:len(cur)-1]
				left[i]++
			}
		}
	}
	rec()
	return out
}

var concFine = []string{"push.before", "push.done", "minvv.before", "minvv.read", "clientinfo.before", "end"}
var concCoarse = []string{"push.done", "minvv.before", "clientinfo.before", "end"}

func concExhaustive(c *Ctx, n int, gran []string, shard, shards int) int {
	count, idx := 0, 0
	for _, sh := range concShapes() {
		if sh.n != n {
			continue
		}
		for _, il := range concInterleavings(n, len(gran)) {
			idx++
			if idx%shards != shard {
				continue
			}
			var sb strings.Builder
			for _, x := range il {
				sb.WriteByte(byte('a' + x))
			}
			c.Trace(fmt.Sprintf("ex%d-%s-%s", n, sh.name, sb.String()))
			g := &concGen{e: newConcTrace(c)}
			cls, reqs := sh.prep(g)
			pos := make([]int, n)
			for _, x := range il {
				r := reqs[x]
				if r.state == "end" || g.e.dead {
					continue
				}
				p := gran[pos[x]]
				pos[x]++
				// a request that skips a point (DisableGC has no minvv.read) is sent to the next one
				if p == "minvv.read" && protoArg(r.toks, "nogc") == "1" {
					continue
				}
				g.advance(cls[x], r, p)
			}
			for i, r := range reqs {
				if r.state != "end" && !g.e.dead {
					g.advance(cls[i], r, "end")
				}
			}
			g.finishTrace()
			count++
		}
	}
	return count
}

// ---------------------------------------------------------------- sampled longer schedules

func concRandom(c *Ctx, i int) {
	r := c.Rng
	c.Trace(fmt.Sprintf("rand-%d-%d", c.Seed, i))
	g := &concGen{e: newConcTrace(c)}
	n := 3 + r.Intn(3)
	for k := 0; k < n; k++ {
		cl := g.activate()
		cl.nogc = r.Intn(8) == 0
	}
	var order []*concReq // requests waiting on a pull lock, to be completed right after the holder
	steps := 30 + r.Intn(60)
	maxReqs := 3 + r.Intn(3)
	owner := map[int]*concCli{}
	nextPoint := func(rq *concReq) string {
		cur := -1
		if rq.state != "new" && rq.state != "blocked" {
			cur = concPointIdx(rq.state)
		}
		lo := cur + 1
		p := lo + r.Intn(len(concPoints)-lo)
		if r.Intn(3) == 0 {
			p = lo
		}
		if concPoints[p] == "minvv.read" && protoArg(rq.toks, "nogc") == "1" {
			p++
		}
		return concPoints[p]
	}
	after := func(cl *concCli, rq *concReq) {
		// rq ended: a request blocked behind it now runs to its first point
		if rq.state != "end" {
			return
		}
		cl.cur = nil
		if w := cl.waiting; w != nil {
			cl.waiting = nil
			cl.cur = w
			order = append(order, w)
		}
	}
	for k := 0; k < steps && !g.e.dead; k++ {
		if len(order) > 0 {
			w := order[0]
			order = order[1:]
			cl := owner[w.id]
			g.advance(cl, w, "push.before")
			after(cl, w)
			continue
		}
		cl := g.cl[r.Intn(len(g.cl))]
		switch {
		case cl.cur != nil && cl.waiting == nil && cl.attached && r.Intn(12) == 0 && cl.reqs < maxReqs+1:
			// the client does not wait for its response (timeout) and sends the next request: resend
			// of everything unacknowledged plus possibly a new edit; it blocks on the pull lock
			if r.Intn(2) == 0 {
				g.edit(cl, "ops")
			}
			w := g.request(cl, "PP", 0, "")
			owner[w.id] = cl
			if st := g.advance(cl, w, "push.before"); st == "blocked" {
				cl.waiting = w
			} else if st != "end" {
				// not blocked: the model says otherwise (the correspondence is already broken);
				// let it run to its end so that the oracles see what it did
				g.advance(cl, w, "end")
			}
		case cl.cur != nil:
			rq := cl.cur
			g.advance(cl, rq, nextPoint(rq))
			after(cl, rq)
		case cl.reqs >= maxReqs:
			continue
		case !cl.attached:
			if cl.di >= 0 && r.Intn(3) != 0 {
				continue // detached: mostly stays away
			}
			cl.cp = change.InitialCheckpoint
			cl.next, cl.pending, cl.lam, cl.vv = 1, nil, 0, map[int]int64{}
			if r.Intn(10) != 0 {
				g.edit(cl, "pres")
			}
			if r.Intn(3) == 0 {
				g.edit(cl, "ops")
			}
			rq := g.request(cl, "ATT", 0, "")
			owner[rq.id] = cl
			cl.cur = rq
			g.advance(cl, rq, nextPoint(rq))
			after(cl, rq)
		default:
			for j := r.Intn(3); j > 0; j-- {
				g.edit(cl, []string{"ops", "ops", "pres", "both"}[r.Intn(4)])
			}
			kind, extra := "PP", ""
			switch x := r.Intn(20); {
			case x == 0:
				kind = "DET"
				g.edit(cl, "pres")
			case x < 3:
				extra = " pushonly=1"
			case x < 5:
				extra = " lost=1"
			}
			rq := g.request(cl, kind, 0, extra)
			owner[rq.id] = cl
			cl.cur = rq
			g.advance(cl, rq, nextPoint(rq))
			after(cl, rq)
		}
	}
	// drain
	for !g.e.dead {
		progressed := false
		for len(order) > 0 {
			w := order[0]
			order = order[1:]
			g.advance(owner[w.id], w, "push.before")
			after(owner[w.id], w)
			progressed = true
		}
		for _, cl := range g.cl {
			if cl.cur != nil {
				rq := cl.cur
				g.advance(cl, rq, "end")
				after(cl, rq)
				progressed = true
				break
			}
		}
		if !progressed {
			break
		}
	}
	g.finishTrace()
}

// ---------------------------------------------------------------- driver

func runConc(c *Ctx) error {
	c.stats.Rule = "conc: a trace is non-trivial when at least two requests were in flight with forced phase interleaving " +
		"(every exhaustive schedule is) ; distinct by trace hash"
	packs.VerifYield = concYield
	lsync.VerifLockEvent = concLockEvent
	protoOrc = "c04"
	mix := "ex2+rand"
	if c.Tier == "thorough" {
		mix = "ex2+ex3+rand"
	}
	shards := 1
	for _, a := range os.Args[2:] {
		switch {
		case strings.HasPrefix(a, "mix="):
			mix = a[4:]
		case strings.HasPrefix(a, "shards="):
			shards, _ = strconv.Atoi(a[7:])
		case strings.HasPrefix(a, "orc="):
			protoOrc = a[4:]
		}
	}
	if shards < 1 {
		shards = 1
	}
	if c.Replay != nil {
		var e *concTrace
		for _, l := range c.Replay {
			if strings.HasPrefix(l, "T ") {
				if e != nil {
					e.close()
				}
				c.Trace(strings.TrimPrefix(l, "T "))
				e = newConcTrace(c)
				continue
			}
			if e == nil {
				c.Trace("replay")
				e = newConcTrace(c)
			}
			e.do(l)
			if strings.HasPrefix(l, "SCH ") {
				c.Nontrivial()
			}
		}
		if e != nil {
			e.close()
		}
		return nil
	}
	has := func(m string) bool {
		for _, x := range strings.Split(mix, "+") {
			if x == m {
				return true
			}
		}
		return false
	}
	shard := int(c.Seed % 1000 % int64(shards))
	var scopes []string
	if has("ex2") {
		n := concExhaustive(c, 2, concFine, shard, shards)
		c.stats.Dist["conc:ex2-schedules"] = n
		scopes = append(scopes, fmt.Sprintf("ALL interleavings of two requests of different clients on one document at phase granularity "+
			"(6 steps each: start..push.before, push, pull+status, vv write, vv read, persist+return = 924 schedules) for each of the request pairs "+
			"pp-pp, pp2-pull, pushonly-pp, pp-det, det-det, resend-pp, rem-pp, att-pp, att-att-new, nogc-pp (shard %d/%d ran %d)", shard, shards, n))
	}
	if has("ex3") {
		n := concExhaustive(c, 3, concCoarse, shard, shards)
		c.stats.Dist["conc:ex3-schedules"] = n
		scopes = append(scopes, fmt.Sprintf("ALL interleavings of three requests of different clients on one document at 4 steps each "+
			"(..push done, pull+status, vv, persist+return = 34650 schedules) for the request triples pp-pp-pp, att-pp-det (shard %d/%d ran %d)",
			shard, shards, n))
	}
	if len(scopes) > 0 {
		c.stats.Exhaustive = true
		c.stats.ExhaustiveScope = strings.Join(scopes, "; ")
	}
	if has("rand") {
		for i := 0; i < c.N; i++ {
			concRandom(c, i)
		}
	}
	return nil
}
