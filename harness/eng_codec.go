package main

// engine `codec`: byte-level codecs of C09 against Model/VVBytes.lean, Model/PrimBytes.lean,
// Model/SnapshotHeader.lean.
//
//	VVENC {a:x,...}        time.VersionVector.Bytes()            -> hex (20-byte entry chunks sorted: Go map order)
//	VVDEC <hex>            time.VersionVectorFromBytes           -> {a:x,...} | reject
//	PRIMENC <type> <val>   crdt.NewPrimitive(..).Bytes()         -> hex            (goint: "<type> <hex>")
//	PRIMDEC <n> <hex>      crdt.ValueFromBytes + NewPrimitive    -> type:value | reject
//	CNTENC <type> <val>    crdt.NewCounter(..).Bytes()           -> hex
//	CNTDEC <n> <hex>       crdt.CounterValueFromBytes+NewCounter -> type:value | reject
//	CNTINC t v pt pv       Counter.Increase(Primitive)           -> type:value hex | err
//	HDRENC <hex> <zhex>    database.CompressSnapshot             -> hex    (zhex = zstd.EncodeAll(data): the abstract compress at this point)
//	HDRDEC <hex> <zres>    database.DecompressSnapshot           -> hex | reject (zres = zstd.DecodeAll(data[1:]): the abstract decompress at this point)
//
// Every decoder call runs in its own goroutine with recover and a timeout: a panic or a
// hang is reported through the oracle, never kills the harness.

import (
	"bytes"
	"encoding/hex"
	"fmt"
	"math"
	"runtime"
	"sort"
	"strconv"
	"strings"
	gotime "time"

	"github.com/klauspost/compress/zstd"

	"github.com/yorkie-team/yorkie/pkg/document/crdt"
	"github.com/yorkie-team/yorkie/pkg/document/time"
	"github.com/yorkie-team/yorkie/server/backend/database"
)

func init() { register("codec", runCodec) }

var (
	zEnc, _ = zstd.NewWriter(nil, zstd.WithEncoderLevel(zstd.SpeedDefault))
	zDec, _ = zstd.NewReader(nil) // same options as database.getDecoder: it is the abstract `decompress` of the model
)

func showHex(b []byte) string {
	if len(b) == 0 {
		return "-"
	}
	return hex.EncodeToString(b)
}

func parseHex(s string) ([]byte, bool) {
	if s == "-" {
		return []byte{}, true
	}
	b, err := hex.DecodeString(s)
	return b, err == nil
}

// guarded runs f with recover and a timeout; returns "" or "panic: …" / "hang".
func guarded(d gotime.Duration, f func()) string {
	done := make(chan string, 1)
	go func() {
		defer func() {
			if r := recover(); r != nil {
				done <- fmt.Sprintf("panic: %v", r)
			}
		}()
		f()
		done <- ""
	}()
	select {
	case r := <-done:
		return r
	case <-gotime.After(d):
	}
	// loaded machine: five more periods before calling it a hang
	select {
	case r := <-done:
		return r
	case <-gotime.After(5 * d):
		return "hang"
	}
}

// canonVVBytes sorts the 20-byte entry chunks of VersionVector.Bytes() (Go map order).
func canonVVBytes(b []byte) []byte {
	if len(b) < 8 || (len(b)-8)%20 != 0 {
		return b
	}
	var chunks [][]byte
	for i := 8; i < len(b); i += 20 {
		chunks = append(chunks, b[i:i+20])
	}
	sort.Slice(chunks, func(i, j int) bool { return bytes.Compare(chunks[i], chunks[j]) < 0 })
	out := append([]byte{}, b[:8]...)
	for _, c := range chunks {
		out = append(out, c...)
	}
	return out
}

var codecTicket = time.NewTicket(1, 0, time.InitialActorID)

func showPrimGo(p *crdt.Primitive) string {
	switch p.ValueType() {
	case crdt.Null:
		return "null:-"
	case crdt.Boolean:
		return fmt.Sprintf("boolean:%t", p.Value().(bool))
	case crdt.Integer:
		return fmt.Sprintf("integer:%d", p.Value().(int32))
	case crdt.Long:
		return fmt.Sprintf("long:%d", p.Value().(int64))
	case crdt.Double:
		return fmt.Sprintf("double:%d", math.Float64bits(p.Value().(float64)))
	case crdt.String:
		return "string:" + showHex([]byte(p.Value().(string)))
	case crdt.Bytes:
		return "bytes:" + showHex(p.Value().([]byte))
	case crdt.Date:
		return fmt.Sprintf("date:%d", p.Value().(gotime.Time).UnixMilli())
	}
	return "unknown-type"
}

func parsePrimGo(t, v string) (*crdt.Primitive, bool) {
	var val any
	switch t {
	case "null":
		val = nil
	case "boolean":
		val = v == "true"
	case "integer":
		x, _ := strconv.ParseInt(v, 10, 64)
		val = int32(x)
	case "long":
		x, _ := strconv.ParseInt(v, 10, 64)
		val = x
	case "double":
		x, _ := strconv.ParseUint(v, 10, 64)
		val = math.Float64frombits(x)
	case "string":
		b, ok := parseHex(v)
		if !ok {
			return nil, false
		}
		val = string(b)
	case "bytes":
		b, ok := parseHex(v)
		if !ok {
			return nil, false
		}
		val = b
	case "date":
		x, _ := strconv.ParseInt(v, 10, 64)
		val = gotime.UnixMilli(x)
	case "goint":
		x, _ := strconv.ParseInt(v, 10, 64)
		val = int(x)
	default:
		return nil, false
	}
	p, err := crdt.NewPrimitive(val, codecTicket)
	if err != nil {
		return nil, false
	}
	return p, true
}

func showCntGo(c *crdt.Counter) string {
	switch c.ValueType() {
	case crdt.IntegerCnt:
		return fmt.Sprintf("int:%d", c.Value().(int32))
	case crdt.LongCnt:
		return fmt.Sprintf("long:%d", c.Value().(int64))
	case crdt.IntegerDedupCnt:
		return fmt.Sprintf("dedup:%d", c.Value().(int32))
	}
	return "unknown-type"
}

func parseCntGo(t, v string) (*crdt.Counter, bool) {
	x, _ := strconv.ParseInt(v, 10, 64)
	var c *crdt.Counter
	var err error
	switch t {
	case "int":
		c, err = crdt.NewCounter(crdt.IntegerCnt, int32(x), codecTicket)
	case "long":
		c, err = crdt.NewCounter(crdt.LongCnt, x, codecTicket)
	case "dedup":
		c, err = crdt.NewCounter(crdt.IntegerDedupCnt, int32(x), codecTicket)
	default:
		return nil, false
	}
	return c, err == nil
}

const codecTimeout = 5 * gotime.Second

func codecExec(c *Ctx, line string) {
	t := strings.Fields(line)
	out := "bad-op"
	var g string
	switch {
	case t[0] == "VVENC" && len(t) == 2:
		g = guarded(codecTimeout, func() {
			b, err := parseVVLit(t[1]).Bytes()
			if err != nil {
				out = "err"
				return
			}
			out = showHex(canonVVBytes(b))
		})
	case t[0] == "VVDEC" && len(t) == 2:
		b, ok := parseHex(t[1])
		if !ok {
			out = "bad-hex"
			break
		}
		g = guarded(codecTimeout, func() {
			v, err := time.VersionVectorFromBytes(b)
			if err != nil {
				out = "reject"
				return
			}
			out = ShowVV(v)
		})
	case t[0] == "PRIMENC" && len(t) == 3:
		g = guarded(codecTimeout, func() {
			p, ok := parsePrimGo(t[1], t[2])
			if !ok {
				out = "bad-arg"
				return
			}
			out = showHex(p.Bytes())
			if t[1] == "goint" {
				s := showPrimGo(p)
				out = s[:strings.IndexByte(s, ':')] + " " + out
			}
		})
	case t[0] == "PRIMDEC" && len(t) == 3:
		b, ok := parseHex(t[2])
		if !ok {
			out = "bad-hex"
			break
		}
		n, _ := strconv.Atoi(t[1])
		g = guarded(codecTimeout, func() {
			v, err := crdt.ValueFromBytes(crdt.ValueType(n), b)
			if err != nil {
				out = "reject"
				return
			}
			p, err := crdt.NewPrimitive(v, codecTicket)
			if err != nil {
				out = "reject"
				return
			}
			out = showPrimGo(p)
			// the decoded type must be the requested one
			if int(p.ValueType()) != n {
				c.Oracle("ValueFromBytes(%d,%s) produced a primitive of type %d", n, t[2], p.ValueType())
			}
		})
	case t[0] == "CNTENC" && len(t) == 3:
		g = guarded(codecTimeout, func() {
			cnt, ok := parseCntGo(t[1], t[2])
			if !ok {
				out = "bad-arg"
				return
			}
			b, err := cnt.Bytes()
			if err != nil {
				out = "err"
				return
			}
			out = showHex(b)
		})
	case t[0] == "CNTDEC" && len(t) == 3:
		b, ok := parseHex(t[2])
		if !ok {
			out = "bad-hex"
			break
		}
		n, _ := strconv.Atoi(t[1])
		g = guarded(codecTimeout, func() {
			v, err := crdt.CounterValueFromBytes(crdt.CounterType(n), b)
			if err != nil {
				out = "reject"
				return
			}
			cnt, err := crdt.NewCounter(crdt.CounterType(n), v, codecTicket)
			if err != nil {
				out = "reject"
				return
			}
			out = showCntGo(cnt)
		})
	case t[0] == "CNTINC" && len(t) == 5:
		g = guarded(codecTimeout, func() {
			cnt, ok := parseCntGo(t[1], t[2])
			p, ok2 := parsePrimGo(t[3], t[4])
			if !ok || !ok2 {
				out = "bad-arg"
				return
			}
			r, err := cnt.Increase(p)
			if err != nil {
				out = "err"
				return
			}
			b, err := r.Bytes()
			if err != nil {
				out = "err"
				return
			}
			out = showCntGo(r) + " " + showHex(b)
		})
	case t[0] == "HDRENC" && len(t) == 3:
		b, ok := parseHex(t[1])
		if !ok {
			out = "bad-hex"
			break
		}
		g = guarded(codecTimeout, func() {
			r, err := database.CompressSnapshot(b)
			if err != nil {
				out = "err"
				return
			}
			out = showHex(r)
			// property oracle: what was written is read back
			d, err := database.DecompressSnapshot(r)
			if err != nil || !bytes.Equal(d, b) {
				c.Oracle("DecompressSnapshot(CompressSnapshot(%s)) = %s, %v", t[1], showHex(d), err)
			}
		})
	case t[0] == "HDRBIG" && len(t) == 2:
		// a large stored snapshot (project MaxSizePerDocument is configurable well above the 10 MiB default):
		// compressible pattern data, compressed and read back through the real database functions
		mib, err := strconv.Atoi(t[1])
		if err != nil || mib < 1 || mib > 256 {
			out = "bad-arg"
			break
		}
		b := make([]byte, mib<<20)
		for i := range b {
			b[i] = byte((i * 7) ^ (i >> 9))
		}
		g = guarded(4*codecTimeout, func() {
			r, err := database.CompressSnapshot(b)
			if err != nil {
				out = "err:compress"
				return
			}
			d, err := database.DecompressSnapshot(r)
			if err != nil {
				out = "err:decompress:" + strings.ReplaceAll(err.Error(), " ", "_")
				return
			}
			if !bytes.Equal(d, b) {
				out = fmt.Sprintf("differs len=%d", len(d))
				return
			}
			out = fmt.Sprintf("ok len=%d", len(d))
		})
	case t[0] == "HDRDEC" && len(t) == 3:
		b, ok := parseHex(t[1])
		if !ok {
			out = "bad-hex"
			break
		}
		var m0, m1 runtime.MemStats
		runtime.ReadMemStats(&m0)
		g = guarded(codecTimeout, func() {
			r, err := database.DecompressSnapshot(b)
			if err != nil {
				out = "reject"
				return
			}
			out = showHex(r)
		})
		runtime.ReadMemStats(&m1)
		// a small stored value must not make the decoder allocate by a declared size
		if delta := m1.TotalAlloc - m0.TotalAlloc; len(b) < 1024 && delta > 64<<20 {
			c.Count("hdr:allocated-by-declared-size")
			c.Oracle("KNOWN[c09-zstd-declared-size-alloc] DecompressSnapshot of a %d-byte value allocated %d MiB from the "+
				"zstd frame header's declared content size before rejecting it (decoder built with zstd.NewReader(nil): "+
				"default limit 64 GiB, so 19 stored bytes can request one allocation of up to 64 GiB; the Go runtime "+
				"dies with 'fatal error: out of memory' when the OS refuses it); input=%s", len(b), delta>>20, t[1])
			runtime.GC()
		}
	}
	if g != "" {
		out = g
		c.Count("decoder:" + strings.SplitN(g, ":", 2)[0])
		c.Oracle("%s in %s: %s", strings.SplitN(g, ":", 2)[0], t[0], g)
	}
	c.Obs("%s", out)
	switch {
	case out == "reject":
		c.Count("result:" + t[0] + ":reject")
	case strings.HasSuffix(t[0], "DEC"):
		c.Count("result:" + t[0] + ":accept")
	}
}

// zres computes the value of the abstract decompress function at data[1:] with the zstd
// library directly (trusted), for the model.
func zres(data []byte) string {
	if len(data) == 0 {
		return "ok:-"
	}
	var r string
	g := guarded(codecTimeout, func() {
		d, err := zDec.DecodeAll(data[1:], nil)
		if err != nil {
			r = "err"
			return
		}
		r = "ok:" + showHex(d)
	})
	if g != "" {
		return "err"
	}
	return r
}

// zstdDeclared reads what a framed snapshot's zstd frame header declares (content size, window
// size).  Generator-side guard only: DecompressSnapshot allocates by the declared content size
// (finding c09-zstd-declared-size-alloc; one bit flip in the frame header descriptor turns four
// payload bytes into a ~4 GiB size), so mutants declaring more than 64 MiB are not executed; the
// capped 256 MiB probe of trace *-declared-size keeps the finding visible.
func zstdDeclared(b []byte) (fcs, window uint64) {
	if len(b) < 7 || b[0] != 0x01 || b[1] != 0x28 || b[2] != 0xB5 || b[3] != 0x2F || b[4] != 0xFD {
		return 0, 0
	}
	fhd := b[5]
	single := fhd>>5&1 == 1
	pos := 6
	if !single {
		wd := b[6]
		base := uint64(1) << (10 + uint(wd>>3))
		window = base + base/8*uint64(wd&7)
		pos++
	}
	pos += []int{0, 1, 2, 4}[fhd&3]
	n := []int{0, 2, 4, 8}[fhd>>6]
	if n == 0 && single {
		n = 1
	}
	for i := 0; i < n && pos+i < len(b); i++ {
		fcs |= uint64(b[pos+i]) << (8 * uint(i))
	}
	if n == 2 {
		fcs += 256
	}
	if single {
		window = fcs
	}
	return fcs, window
}

func zstdOversized(b []byte) bool {
	fcs, window := zstdDeclared(b)
	return fcs > 64<<20 || window > 8<<20
}

// zstdBomb builds a valid-looking zstd frame (after the 0x01 snapshot header) whose frame
// header declares `size` bytes of content but carries one 1-byte raw block.
func zstdBomb(size uint64) []byte {
	f := []byte{0x01, 0x28, 0xB5, 0x2F, 0xFD, 0xC0, 0x00}
	for i := 0; i < 8; i++ {
		f = append(f, byte(size>>(8*i)))
	}
	return append(f, 0x09, 0x00, 0x00, 0x41)
}

func runCodec(c *Ctx) error {
	c.stats.Rule = "per-call differential replay of VersionVector.Bytes/VersionVectorFromBytes, Primitive.Bytes/ValueFromBytes, " +
		"Counter.Bytes/CounterValueFromBytes/Increase, CompressSnapshot/DecompressSnapshot; each trace = one valid value " +
		"(encode, decode of the implementation's own bytes) followed by a malformed stream derived from it (every truncation " +
		"length, bit flips, rewritten count field, junk suffix, foreign type tags); non-trivial = the trace contains at least one " +
		"accepted and one rejected decode, or a wrap-around increase; distinct by trace hash"
	if c.Replay != nil {
		for _, l := range c.Replay {
			if strings.HasPrefix(l, "T ") {
				c.Trace(strings.TrimPrefix(l, "T "))
				continue
			}
			c.Cmd("%s", l)
			codecExec(c, l)
		}
		return nil
	}
	r := c.Rng
	actors := []string{"0", "1", "2", "255", "256", "65536", "4294967296", "79228162514264337593543950335",
		"39614081257132168796771975168", "18446744073709551616", "1208925819614629174706176"}
	i64s := []int64{0, 1, -1, 2, 255, 256, 65535, math.MaxInt32, math.MinInt32, math.MaxInt64, math.MinInt64,
		math.MaxInt64 - 1, math.MinInt64 + 1, 1 << 32, -(1 << 32), 72623859790382856}
	rndI64 := func() int64 {
		switch r.Intn(3) {
		case 0:
			return i64s[r.Intn(len(i64s))]
		case 1:
			return int64(r.Uint64())
		}
		return int64(r.Intn(2000)) - 1000
	}
	rndBytes := func(n int) []byte {
		b := make([]byte, n)
		for i := range b {
			switch r.Intn(4) {
			case 0:
				b[i] = 0
			case 1:
				b[i] = 0xff
			default:
				b[i] = byte(r.Intn(256))
			}
		}
		return b
	}
	acc, rej, wrap := false, false, false
	do := func(format string, a ...any) string {
		l := fmt.Sprintf(format, a...)
		c.Cmd("%s", l)
		before := c.stats.Dist["result:"+strings.Fields(l)[0]+":reject"]
		codecExec(c, l)
		if strings.HasSuffix(strings.Fields(l)[0], "DEC") {
			if c.stats.Dist["result:"+strings.Fields(l)[0]+":reject"] > before {
				rej = true
			} else {
				acc = true
			}
		}
		return l
	}
	// malformed stream derived from one valid byte string
	mutate := func(b []byte, budget int, every bool) [][]byte {
		var out [][]byte
		if every {
			for n := 0; n <= len(b); n++ {
				out = append(out, append([]byte{}, b[:n]...))
			}
		} else {
			for k := 0; k < 3; k++ {
				out = append(out, append([]byte{}, b[:r.Intn(len(b)+1)]...))
			}
		}
		for k := 0; k < budget; k++ {
			m := append([]byte{}, b...)
			switch r.Intn(5) {
			case 0: // bit flip
				if len(m) > 0 {
					m[r.Intn(len(m))] ^= 1 << uint(r.Intn(8))
				}
			case 1: // junk suffix
				m = append(m, rndBytes(1+r.Intn(24))...)
			case 2: // byte replaced
				if len(m) > 0 {
					m[r.Intn(len(m))] = byte(r.Intn(256))
				}
			case 3: // a slice removed from the middle
				if len(m) > 1 {
					i := r.Intn(len(m))
					j := i + 1 + r.Intn(len(m)-i)
					m = append(m[:i], m[j:]...)
				}
			case 4: // random bytes of the same length
				m = rndBytes(len(m))
			}
			out = append(out, m)
		}
		return out
	}
	if c.Seed%1000 == 0 {
		// declared content size 256 MiB in a 19-byte value (capped so that the harness survives;
		// the decoder's own limit is 64 GiB)
		c.Trace(fmt.Sprintf("codec-%d-declared-size", c.Seed))
		m := zstdBomb(256 << 20)
		do("HDRDEC %s %s", showHex(m), zres(m))
	}
	for i := 0; i < c.N; i++ {
		c.Trace(fmt.Sprintf("codec-%d-%d", c.Seed, i))
		acc, rej, wrap = false, false, false
		switch k := r.Intn(100); {
		case k < 35: // version vector
			n := r.Intn(5)
			if r.Intn(10) == 0 {
				n = 6 + r.Intn(6)
			}
			used := map[string]bool{}
			vv := time.NewVersionVector()
			for len(vv) < n {
				a := actors[r.Intn(len(actors))]
				if r.Intn(3) == 0 {
					a = ActorNat(time.ActorID(rndBytes(12)))
				}
				if used[a] {
					continue
				}
				used[a] = true
				vv[NatActor(a)] = rndI64()
			}
			do("VVENC %s", ShowVV(vv))
			raw, _ := vv.Bytes()
			do("VVDEC %s", showHex(raw)) // the implementation's own bytes, in its own map order
			c.Count(fmt.Sprintf("vv:entries:%d", min(n, 6)))
			for _, m := range mutate(raw, 6, len(raw) <= 48 || r.Intn(8) == 0) {
				do("VVDEC %s", showHex(m))
			}
			// rewritten count field: huge, negative, off by one, zero
			for _, cnt := range []int64{math.MaxInt64, math.MinInt64, -1, 0, int64(n) + 1, int64(n) - 1, 1 << 40, rndI64()} {
				if r.Intn(2) == 0 {
					continue
				}
				m := append([]byte{}, raw...)
				for j := 0; j < 8; j++ {
					m[j] = byte(cnt >> (56 - 8*j))
				}
				do("VVDEC %s", showHex(m))
			}
		case k < 60: // primitive
			types := []string{"null", "boolean", "integer", "long", "double", "string", "bytes", "date", "goint"}
			ty := types[r.Intn(len(types))]
			var v string
			switch ty {
			case "null":
				v = "-"
			case "boolean":
				v = strconv.FormatBool(r.Intn(2) == 0)
			case "integer":
				v = strconv.FormatInt(int64(int32(rndI64())), 10)
			case "long", "date":
				v = strconv.FormatInt(rndI64(), 10)
			case "goint":
				v = strconv.FormatInt(rndI64(), 10)
				if r.Intn(2) == 0 {
					v = strconv.FormatInt(int64(math.MaxInt32)+int64(r.Intn(5))-2, 10)
				}
				if r.Intn(4) == 0 {
					v = strconv.FormatInt(int64(math.MinInt32)+int64(r.Intn(5))-2, 10)
				}
			case "double":
				bits := []uint64{0, 1 << 63, math.Float64bits(1.5), math.Float64bits(math.Inf(1)), math.Float64bits(math.Inf(-1)),
					0x7ff8000000000001, 0x7ff0000000000001, 0xfff8000000000000, math.Float64bits(math.MaxFloat64), 1, r.Uint64()}
				v = strconv.FormatUint(bits[r.Intn(len(bits))], 10)
			case "string", "bytes":
				v = showHex(rndBytes(r.Intn(12)))
			}
			c.Count("prim:" + ty)
			do("PRIMENC %s %s", ty, v)
			p, _ := parsePrimGo(ty, v)
			raw := p.Bytes()
			do("PRIMDEC %d %s", int(p.ValueType()), showHex(raw))
			for _, m := range mutate(raw, 4, true) {
				do("PRIMDEC %d %s", int(p.ValueType()), showHex(m))
			}
			// the same bytes under every type tag, including unknown ones
			for tag := -1; tag <= 9; tag++ {
				if tag >= 0 && r.Intn(2) == 0 {
					continue
				}
				tg := tag
				if tag == -1 {
					tg = 8 + r.Intn(1000)
				}
				do("PRIMDEC %d %s", tg, showHex(raw))
			}
		case k < 85: // counter
			types := []string{"int", "long", "dedup"}
			ty := types[r.Intn(3)]
			x := rndI64()
			if ty != "long" {
				x = int64(int32(x))
			}
			if ty == "dedup" {
				x = 0
			}
			c.Count("cnt:" + ty)
			do("CNTENC %s %d", ty, x)
			cnt, _ := parseCntGo(ty, strconv.FormatInt(x, 10))
			raw, _ := cnt.Bytes()
			tag := map[string]int{"int": 0, "long": 1, "dedup": 2}[ty]
			do("CNTDEC %d %s", tag, showHex(raw))
			for _, m := range mutate(raw, 3, true) {
				do("CNTDEC %d %s", tag, showHex(m))
			}
			for _, tg := range []int{0, 1, 2, 3, 3 + r.Intn(100)} {
				do("CNTDEC %d %s", tg, showHex(rndBytes(r.Intn(10))))
			}
			// increases, biased to the wrap-around boundary
			for j := 0; j < 4; j++ {
				base := x
				if r.Intn(2) == 0 {
					if ty == "long" {
						base = []int64{math.MaxInt64, math.MinInt64, math.MaxInt64 - 1, -1}[r.Intn(4)]
					} else if ty == "int" {
						base = []int64{math.MaxInt32, math.MinInt32, math.MaxInt32 - 1, -1}[r.Intn(4)]
					}
				}
				pt := []string{"integer", "long", "integer", "long", "string", "boolean", "null"}[r.Intn(7)]
				var pv string
				switch pt {
				case "integer":
					pv = strconv.FormatInt(int64(int32(rndI64())), 10)
					if r.Intn(2) == 0 {
						pv = []string{"1", "-1", "2147483647", "-2147483648"}[r.Intn(4)]
					}
				case "long":
					pv = strconv.FormatInt(rndI64(), 10)
				case "string":
					pv = "61"
				case "boolean":
					pv = "true"
				case "null":
					pv = "-"
				}
				l := do("CNTINC %s %d %s %s", ty, base, pt, pv)
				_ = l
				if ty != "dedup" && (pt == "integer" || pt == "long") {
					d, _ := strconv.ParseInt(pv, 10, 64)
					if ty == "int" {
						if s := int64(int32(base)) + int64(int32(d)); s > math.MaxInt32 || s < math.MinInt32 || int64(int32(d)) != d {
							wrap = true
						}
					} else if (d > 0 && base > math.MaxInt64-d) || (d < 0 && base < math.MinInt64-d) {
						wrap = true
					}
				}
			}
			if wrap {
				c.Count("cnt:wraparound-trace")
			}
		default: // snapshot frame
			n := r.Intn(64)
			if r.Intn(6) == 0 {
				n = 0
			}
			data := rndBytes(n)
			if n > 0 && r.Intn(3) == 0 {
				data[0] = 0x01 // payload that itself starts with the format byte
			}
			if n > 0 && r.Intn(3) == 0 {
				data[0] = 0x0a // what a protobuf snapshot starts with
			}
			do("HDRENC %s %s", showHex(data), showHex(zEnc.EncodeAll(data, nil)))
			framed, _ := database.CompressSnapshot(data)
			do("HDRDEC %s %s", showHex(framed), zres(framed))
			c.Count("hdr:framed")
			// legacy (uncompressed) input is passed through
			do("HDRDEC %s %s", showHex(data), zres(data))
			for _, m := range mutate(framed, 6, len(framed) <= 40) {
				if zstdOversized(m) {
					c.Count("hdr:skipped-mutant-declaring-over-64MiB")
					continue
				}
				do("HDRDEC %s %s", showHex(m), zres(m))
			}
			// header byte rewritten
			for _, h := range []byte{0x00, 0x01, 0x02, 0x0a, 0xff} {
				if len(framed) == 0 {
					break
				}
				m := append([]byte{}, framed...)
				m[0] = h
				if zstdOversized(m) {
					continue
				}
				do("HDRDEC %s %s", showHex(m), zres(m))
			}
			// declared content size far larger than the body (capped: see allocProbe for the uncapped finding)
			if r.Intn(4) == 0 {
				m := zstdBomb(uint64(1+r.Intn(1<<16)) << uint(r.Intn(6)))
				do("HDRDEC %s %s", showHex(m), zres(m))
				c.Count("hdr:declared-size-mismatch")
			}
		}
		if (acc && rej) || wrap {
			c.Nontrivial()
		}
	}
	return nil
}
