//go:build verif

package main

// engine `pubsub`: lock-granularity correspondence of server/backend/pubsub with
// Model/PubSub.lean (C17).
//
// Every API call (Subscribe / Unsubscribe / Publish) runs in its own goroutine.
// With the build tag `verif` the package calls pubsub.VerifYield at every lock
// boundary; the harness parks the calling goroutine there and releases exactly
// one goroutine for exactly one critical section per command line. The batch
// flush is driven through the manual tick hook instead of the 100 ms ticker.
// After every command the implementation's state is dumped canonically and
// compared (by check.py) with the model executing the same command.

import (
	"bytes"
	"context"
	"fmt"
	"runtime"
	"sort"
	"strconv"
	"strings"
	"sync"
	"sync/atomic"
	gotime "time"

	"github.com/yorkie-team/yorkie/api/types"
	"github.com/yorkie-team/yorkie/api/types/events"
	"github.com/yorkie-team/yorkie/server/backend/pubsub"
	"github.com/yorkie-team/yorkie/server/logging"
)

func init() {
	register("pubsub", runPubSub)
	register("pubsubstress", runPubSubStress)
}

func psGoid() int64 {
	var buf [64]byte
	n := runtime.Stack(buf[:], false)
	// "goroutine 123 [running]:"
	f := bytes.Fields(buf[:n])
	id, _ := strconv.ParseInt(string(f[1]), 10, 64)
	return id
}

// psG is one goroutine under the scheduler's control.
type psG struct {
	isLoop bool
	id     int // op id or object index
	point  string
	arg    any
	resume chan struct{}
	done   bool
	result string
	final  bool // loop: last wake-up came from closeChan
}

// psPub records what the delivery oracle needs about a Publish call.
type psPub struct {
	eid, actor int
	n0         int // subscriptions known when the call started
	target     int // object index, -1 none
	enqAt      int // harness step counter at the enqueue step
	enqTake    int // takes[target] at the enqueue step
	done       bool
}

type psRun struct {
	c   *Ctx
	ps  *pubsub.PubSub
	key types.DocRefKey

	mu      sync.Mutex
	gmap    map[int64]*psG
	arrived chan *psG
	free    atomic.Bool // cleanup: yields no longer park
	newPubs atomic.Int32
	exited  atomic.Int32

	ops   []*psG
	loops []*psG
	objs  []*pubsub.DocSubscriptions
	subs  []*pubsub.DocSubscription
	owner []int
	home  []int

	panicSub, panicPub bool
	curKind            string // kind of step being executed (for panic classification)
	stuck              bool
	panicked           bool

	// ghost bookkeeping for oracles and state keys
	clock       int
	takes       []int
	pubs        map[int]*psPub // by op id
	opKind      []string       // "sub","unsub","pub"
	opPtr       []int          // object index held by the op (-1 none)
	opSid       []int
	lastConsume []int
	prevClosed  []bool
	prevBuf     []int
	lg          []*psLoopGhost
}

// psLoopGhost mirrors the locals of BatchPublisher.publish() as far as they can be
// derived from observations; used only for state keys of the exhaustive search.
type psLoopGhost struct {
	evs  []events.DocEvent
	pool []int
	cur  int
	rest int
	dead []int
}

func psActorOf(n int) [12]byte {
	var a [12]byte
	a[11] = byte(n)
	a[10] = byte(n >> 8)
	return a
}

func newPsRun(c *Ctx, maxFail int) *psRun {
	r := &psRun{c: c, ps: pubsub.New(), gmap: map[int64]*psG{}, arrived: make(chan *psG, 64), pubs: map[int]*psPub{}}
	r.key = types.DocRefKey{ProjectID: types.ID("000000000000000000000001"), DocID: types.ID("000000000000000000000002")}
	pubsub.SetDefaultMaxConsecutivePublishFailures(maxFail)
	pubsub.VerifManualTick = true
	pubsub.VerifOnPublisher = func() { r.newPubs.Add(1) }
	pubsub.VerifOnPanic = func(p any) {
		// runs (deferred) in the panicking process loop goroutine, which is now gone
		r.notePanic(p)
		r.exited.Add(1)
		r.mu.Lock()
		g := r.gmap[psGoid()]
		r.mu.Unlock()
		if g != nil && !r.free.Load() {
			g.done, g.point = true, "panicked"
			r.arrived <- g
		}
	}
	pubsub.VerifYield = r.yield
	return r
}

func (r *psRun) notePanic(p any) {
	r.mu.Lock()
	defer r.mu.Unlock()
	msg := fmt.Sprint(p)
	if strings.Contains(msg, "close of closed channel") && r.curKind == "unsub.mapdelete" {
		r.panicPub = true
	} else {
		r.panicSub = true
	}
	r.panicked = true
	r.c.Oracle("panic: %s (during %s)", msg, r.curKind)
}

func (r *psRun) yield(point string, arg any) {
	if r.free.Load() {
		if point == "loop.exit" {
			r.exited.Add(1)
		}
		return
	}
	id := psGoid()
	r.mu.Lock()
	g := r.gmap[id]
	if g == nil { // a process loop goroutine started by NewBatchPublisher
		g = &psG{isLoop: true, id: len(r.loops), resume: make(chan struct{})}
		r.gmap[id] = g
		r.loops = append(r.loops, g)
	}
	r.mu.Unlock()
	g.point, g.arg = point, arg
	if point == "loop.exit" {
		g.done = true
		r.exited.Add(1)
		r.arrived <- g
		return
	}
	r.arrived <- g
	<-g.resume
}

// await waits until g (if non-nil) has arrived at its next yield point or finished, and
// until every process loop created meanwhile has parked.
func (r *psRun) await(g *psG, before int32) {
	gotMain := g == nil
	loopsArr := 0
	for !(gotMain && loopsArr >= int(r.newPubs.Load()-before)) {
		select {
		case a := <-r.arrived:
			if a == g {
				gotMain = true
			} else {
				loopsArr++
			}
		case <-gotime.After(20 * gotime.Second):
			if !r.stuck {
				r.c.Oracle("step blocked for 20s (%s)", r.curKind)
			}
			r.stuck = true
			return
		}
	}
}

func (r *psRun) release(g *psG) {
	if r.stuck || g.done {
		return
	}
	r.curKind = g.point
	before := r.newPubs.Load()
	g.resume <- struct{}{}
	r.await(g, before)
}

// startOp launches fn in a goroutine registered as op k and waits for its first yield.
func (r *psRun) startOp(kind string, fn func(g *psG)) *psG {
	g := &psG{id: len(r.ops), resume: make(chan struct{})}
	r.ops = append(r.ops, g)
	r.opKind = append(r.opKind, kind)
	r.opPtr = append(r.opPtr, -1)
	r.opSid = append(r.opSid, -1)
	before := r.newPubs.Load()
	ready := make(chan struct{})
	go func() {
		r.mu.Lock()
		r.gmap[psGoid()] = g
		r.mu.Unlock()
		close(ready)
		defer func() {
			if p := recover(); p != nil {
				r.notePanic(p)
			}
			g.done = true
			g.point = "done"
			if !r.free.Load() {
				r.arrived <- g
			}
		}()
		fn(g)
	}()
	<-ready
	r.curKind = kind + ".start"
	r.await(g, before)
	return g
}

func (r *psRun) objIndex(p *pubsub.DocSubscriptions) int {
	for i, o := range r.objs {
		if o == p {
			return i
		}
	}
	r.objs = append(r.objs, p)
	r.takes = append(r.takes, 0)
	r.lg = append(r.lg, &psLoopGhost{cur: -1})
	return len(r.objs) - 1
}

func (r *psRun) subIndex(p *pubsub.DocSubscription, home int) int {
	for i, s := range r.subs {
		if s == p {
			return i
		}
	}
	r.subs = append(r.subs, p)
	r.owner = append(r.owner, int(p.Subscriber()[11])|int(p.Subscriber()[10])<<8)
	r.home = append(r.home, home)
	r.lastConsume = append(r.lastConsume, 0)
	r.prevClosed = append(r.prevClosed, false)
	r.prevBuf = append(r.prevBuf, 0)
	return len(r.subs) - 1
}

func psEidOf(e events.DocEvent) int {
	n, _ := strconv.Atoi(e.Body.Topic)
	return n
}

func psJoinInts(l []int) string {
	var sb strings.Builder
	for i, x := range l {
		if i > 0 {
			sb.WriteByte(',')
		}
		sb.WriteString(strconv.Itoa(x))
	}
	return sb.String()
}

func psB01(b bool) int {
	if b {
		return 1
	}
	return 0
}

func (r *psRun) entryIndex() int {
	if p, ok := r.ps.VerifDocSubs(r.key); ok {
		return r.objIndex(p)
	}
	return -1
}

func (r *psRun) loopPoint(o int) string {
	if o >= len(r.loops) {
		return "?"
	}
	g := r.loops[o]
	if g.done && g.point != "panicked" {
		return "exited"
	}
	return g.point
}

// dump prints the implementation state in the model's canonical form and evaluates the
// per-step oracles.
func (r *psRun) dump() string {
	var sb strings.Builder
	e := r.entryIndex()
	if e < 0 {
		sb.WriteString("E=- O=[")
	} else {
		fmt.Fprintf(&sb, "E=%d O=[", e)
	}
	for o, p := range r.objs {
		ms, batch, closed := p.VerifDump()
		var mi, bi []int
		for _, m := range ms {
			mi = append(mi, r.subIndex(m, o))
		}
		sort.Ints(mi)
		for _, ev := range batch {
			bi = append(bi, psEidOf(ev))
		}
		if o > 0 {
			sb.WriteByte(' ')
		}
		fmt.Fprintf(&sb, "%d:m=%s;b=%s;c=%d;l=%s", o, psJoinInts(mi), psJoinInts(bi), psB01(closed), r.loopPoint(o))
	}
	sb.WriteString("] S=[")
	for i, s := range r.subs {
		closed, n, f := s.VerifDump()
		if i > 0 {
			sb.WriteByte(' ')
		}
		fmt.Fprintf(&sb, "%d:c=%d;n=%d;f=%d", i, psB01(closed), n, f)
		// oracle: a closed subscription never gets a new event
		if r.prevClosed[i] && n > r.prevBuf[i] {
			r.c.Oracle("subscription %d received an event after it was closed", i)
		}
		r.prevClosed[i], r.prevBuf[i] = closed, n
	}
	sb.WriteString("] P=[")
	for k, g := range r.ops {
		if k > 0 {
			sb.WriteByte(' ')
		}
		fmt.Fprintf(&sb, "%d:%s", k, g.point)
	}
	r.mu.Lock()
	fmt.Fprintf(&sb, "] X=%d%d", psB01(r.panicSub), psB01(r.panicPub))
	r.mu.Unlock()
	return sb.String()
}

func (r *psRun) loopIdle(o int) bool {
	p := r.loopPoint(o)
	return p == "loop.wait" || p == "exited" || p == "flush.take"
}

// deliveryOracle is the statement of Props/C17 notification_after_change evaluated on
// the implementation: once the flush that took (the batch of) a published event has
// finished, every subscription that existed when Publish was called and is not the
// publisher's own is closed, or holds a pending notification, or has received one since.
func (r *psRun) deliveryOracle() {
	for k, p := range r.pubs {
		if !p.done {
			continue
		}
		for sid := 0; sid < p.n0 && sid < len(r.subs); sid++ {
			if r.owner[sid] == p.actor {
				continue
			}
			closed, n, _ := r.subs[sid].VerifDump()
			if closed {
				continue
			}
			h := r.home[sid]
			if p.target != h {
				r.c.Oracle("publish op %d (eid %d) was routed to object %d but open subscription %d lives in object %d", k, p.eid, p.target, sid, h)
				continue
			}
			completed := r.takes[h]
			if !r.loopIdle(h) {
				completed--
			}
			if completed > p.enqTake && n == 0 && r.lastConsume[sid] <= p.enqAt {
				r.c.Oracle("subscription %d was not notified of eid %d (op %d) by the next flush", sid, p.eid, k)
			}
		}
	}
}

func psKV(toks []string, k string) string {
	for _, t := range toks {
		if strings.HasPrefix(t, k+"=") {
			return t[len(k)+1:]
		}
	}
	return ""
}

func psKVI(toks []string, k string) int {
	n, _ := strconv.Atoi(psKV(toks, k))
	return n
}

// exec executes one command line on the implementation and prints the observation.
// It returns the (possibly rewritten) command line that must be given to the model.
func (r *psRun) exec(line string) string {
	c := r.c
	t := strings.Fields(line)
	ctx := context.Background()
	res := "-"
	r.clock++
	switch t[0] {
	case "SUB":
		actor, limit := psKVI(t, "actor"), psKVI(t, "limit")
		r.startOp("sub", func(g *psG) {
			sub, ids, err := r.ps.Subscribe(ctx, psActorOf(actor), r.key, limit)
			if err != nil {
				g.result = "err:limit"
				return
			}
			var l []int
			for _, id := range ids {
				l = append(l, int(id[11])|int(id[10])<<8)
			}
			sort.Ints(l)
			g.result = fmt.Sprintf("sub:%d:ids=%s", r.subIndex(sub, -1), psJoinInts(l))
		})
	case "UNSUB":
		sid := psKVI(t, "sid")
		if sid >= len(r.subs) {
			c.Obs("bad-sid")
			return line
		}
		g := r.startOp("unsub", func(g *psG) { r.ps.Unsubscribe(ctx, r.key, r.subs[sid]) })
		r.opSid[g.id] = sid
	case "PUB":
		eid, actor, changed := psKVI(t, "eid"), psKVI(t, "actor"), psKV(t, "changed") == "1"
		ty := events.DocWatched
		if changed {
			ty = events.DocChanged
		}
		ev := events.DocEvent{Type: ty, Key: r.key, Actor: psActorOf(actor), Body: events.DocEventBody{Topic: strconv.Itoa(eid)}}
		g := r.startOp("pub", func(g *psG) { r.ps.Publish(ctx, psActorOf(actor), ev) })
		r.pubs[g.id] = &psPub{eid: eid, actor: actor, n0: len(r.subs), target: -1}
	case "STEP":
		k := psKVI(t, "op")
		if k >= len(r.ops) || r.ops[k].done {
			c.Obs("r=- %s", r.dump())
			return line
		}
		g := r.ops[k]
		from := g.point
		entryBefore := r.entryIndex()
		r.release(g)
		switch from {
		case "unsub.get", "pub.get", "ids.get":
			r.opPtr[k] = entryBefore
			if p := r.pubs[k]; p != nil && from == "pub.get" {
				p.target = entryBefore
				if entryBefore < 0 {
					p.done = true
					p.enqAt = r.clock
				}
			}
		case "pub.enqueue":
			p := r.pubs[k]
			p.done, p.enqAt, p.enqTake = true, r.clock, r.takes[p.target]
		}
		if g.done && g.result != "" {
			res = g.result
		}
	case "TICK", "WAKE":
		o := psKVI(t, "obj")
		if o < len(r.loops) && r.loops[o].point == "loop.wait" && !r.loops[o].done {
			g := r.loops[o]
			_, _, closed := r.objs[o].VerifDump()
			if t[0] == "TICK" {
				r.objs[o].VerifTick()
				g.final = false
				r.release(g)
			} else if closed {
				g.final = true
				r.release(g)
			}
		}
	case "LOOP":
		o := psKVI(t, "obj")
		pick := 0
		if o < len(r.loops) && !r.loops[o].done && r.loops[o].point != "loop.wait" {
			g := r.loops[o]
			from := g.point
			lg := r.lg[o]
			var curClosed bool
			if lg.cur >= 0 {
				curClosed, _, _ = r.subs[lg.cur].VerifDump()
			}
			ms, batch, _ := r.objs[o].VerifDump()
			r.release(g)
			// ghost locals of publish()
			switch from {
			case "flush.take":
				r.takes[o]++
				lg.evs = batch
			case "flush.snapshot":
				lg.pool = nil
				for _, m := range ms {
					lg.pool = append(lg.pool, r.subIndex(m, o))
				}
				sort.Ints(lg.pool)
				lg.dead = nil
			case "flush.isdead", "flush.isdead2":
				if curClosed {
					lg.dead = append(lg.dead, lg.cur)
				} else if from == "flush.isdead" {
					lg.rest = 0
					for _, ev := range lg.evs {
						if psEvActor(ev) != r.owner[lg.cur] {
							lg.rest++
						}
					}
				}
			case "flush.send":
				lg.rest--
			case "flush.reap":
				if len(lg.dead) > 0 {
					lg.dead = lg.dead[1:]
				}
			}
			if g.point == "flush.isdead" && !g.done {
				if s, ok := g.arg.(*pubsub.DocSubscription); ok {
					pick = r.subIndex(s, o)
					lg.cur = pick
					for i, x := range lg.pool {
						if x == pick {
							lg.pool = append(append([]int{}, lg.pool[:i]...), lg.pool[i+1:]...)
							break
						}
					}
				}
			}
			if g.point == "loop.wait" || g.done {
				*lg = psLoopGhost{cur: -1}
			}
		}
		line = fmt.Sprintf("LOOP obj=%d pick=%d", o, pick)
	case "RECV":
		sid := psKVI(t, "sid")
		if sid >= len(r.subs) {
			c.Obs("bad-sid")
			return line
		}
		select {
		case ev, ok := <-r.subs[sid].Events():
			if ok {
				res = fmt.Sprintf("ev:%d", psEidOf(ev))
				r.lastConsume[sid] = r.clock
			} else {
				res = "closed"
			}
		default:
			res = "empty"
		}
	case "END":
		d := r.dump()
		open := 0
		for _, p := range r.objs {
			if _, _, cl := p.VerifDump(); !cl {
				open++
			}
		}
		c.Obs("end entry=%d open=%d %s", psB01(r.entryIndex() >= 0), open, d)
		r.deliveryOracle()
		return line
	default:
		c.Obs("bad-op")
		return line
	}
	c.Obs("r=%s %s", res, r.dump())
	r.deliveryOracle()
	return line
}

func psEvActor(e events.DocEvent) int { return int(e.Actor[11]) | int(e.Actor[10])<<8 }

// cleanup lets everything run freely to the end, unsubscribes every subscription and
// checks (implementation only) that nothing is left behind.
func (r *psRun) cleanup() {
	r.free.Store(true)
	for _, g := range r.ops {
		if !g.done {
			select {
			case g.resume <- struct{}{}:
			case <-gotime.After(2 * gotime.Second):
			}
		}
	}
	for _, g := range r.loops {
		if !g.done {
			select {
			case g.resume <- struct{}{}:
			case <-gotime.After(2 * gotime.Second):
			}
		}
	}
	// generous on a loaded machine; once a leak has been reported in this process the
	// following traces do not wait that long again
	wait := 10 * gotime.Second
	if psLeakSeen {
		wait = 300 * gotime.Millisecond
	}
	deadline := gotime.Now().Add(wait)
	for _, g := range r.ops {
		for !g.done && gotime.Now().Before(deadline) {
			gotime.Sleep(50 * gotime.Microsecond)
		}
	}
	for _, s := range r.subs {
		r.ps.Unsubscribe(context.Background(), r.key, s)
	}
	if _, ok := r.ps.VerifDocSubs(r.key); ok {
		r.c.Oracle("leak: map entry still present after every subscription was unsubscribed")
	}
	for o, p := range r.objs {
		if ms, _, cl := p.VerifDump(); !cl || len(ms) > 0 {
			r.c.Oracle("leak: object %d closed=%v members=%d after every subscription was unsubscribed", o, cl, len(ms))
		}
	}
	for int(r.exited.Load()) < len(r.objs) && gotime.Now().Before(deadline) {
		gotime.Sleep(50 * gotime.Microsecond)
	}
	if int(r.exited.Load()) < len(r.objs) {
		r.c.Oracle("leak: %d of %d process loops did not exit", len(r.objs)-int(r.exited.Load()), len(r.objs))
		psLeakSeen = true
	}
	// drain stale arrivals
	for {
		select {
		case <-r.arrived:
			continue
		default:
		}
		break
	}
}

var psLeakSeen bool

func psSilence() { _ = logging.SetLogLevel("error") }
