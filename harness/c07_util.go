package main

// helpers shared by the C07 tree engines (splay, treelist, llrb)

import (
	"bufio"
	"io"
	"reflect"
)

func nullWriter() *bufio.Writer { return bufio.NewWriter(io.Discard) }

// rfield reads an unexported field (read-only reflection; never written).
func rfield(v reflect.Value, name string) reflect.Value {
	f := v.FieldByName(name)
	if !f.IsValid() {
		panic("harness: field " + name + " no longer exists in " + v.Type().String())
	}
	return f
}
