package main

// engine `undo`: correspondence of Document.Undo/Redo with Model/Undo.lean (C14, C15).
//
// Forward edits are op-fed (`LOP`/`COMMIT`), remote deliveries are op-fed (`RC`/`ROP`/`RCOMMIT`),
// but for `UNDO`/`REDO` the MODEL computes the operations from its own stacks (reverse
// construction, re-ticketing, ReconcileCreatedAt) and prints them; the implementation prints
// the operations of the change Undo()/Redo() appended. Driving commands (`R`, `E`, `UNDO`,
// `REDO`, `SYNC`, `MODE`) are self-contained, so a trace replays without the generator.
//
// Streams (positional argument `stream=c14|c15`, default c14; `workers=N` partitions the
// exhaustive enumerations over check.py's workers).

import (
	"fmt"
	"math/rand"
	"os"
	"sort"
	"strconv"
	"strings"

	"github.com/yorkie-team/yorkie/pkg/document"
	"github.com/yorkie-team/yorkie/pkg/document/change"
	"github.com/yorkie-team/yorkie/pkg/document/crdt"
	"github.com/yorkie-team/yorkie/pkg/document/json"
	"github.com/yorkie-team/yorkie/pkg/document/operations"
	"github.com/yorkie-team/yorkie/pkg/document/presence"
	"github.com/yorkie-team/yorkie/pkg/document/time"
)

func init() { register("undo", runUndo) }

// ---------------------------------------------------------------- canonical encoding

// reidOld (positional argument `reid=old`): run with the predicates of the listed finding
// F-C14-array-reid as they were before hooks/fix-c14-reconcile-parent.patch (for a tree without
// the repair, together with `fixReconcileParent := false` in Model/Undo.lean). Default: the
// repaired tree - no stale-parent / same-entry / dead-twin behaviour is tolerated.
var reidOld bool

// dumpOmitRemoved: in GC-on traces removed members of objects are not dumped (a replica may or may
// not have purged them already, which Marshal cannot see).
var dumpOmitRemoved bool

func optTicket(t *time.Ticket) string {
	if t == nil {
		return "-"
	}
	return encTicket(t)
}

// dumpElem appends the snapshot entries of e and its descendants (pre-order; object children by
// sorted key, key winners only; array nodes in list order) - the shape Model/Undo.lean `UVal` has.
func dumpElem(out *[]string, e crdt.Element, parent string) {
	fl := "l"
	if e.RemovedAt() != nil {
		fl = "r"
	}
	id := encTicket(e.CreatedAt())
	head := id + "/" + parent + "/" + fl + "/"
	switch v := e.(type) {
	case *crdt.Primitive:
		*out = append(*out, head+"p/"+pct(v.Marshal()))
	case *crdt.Counter:
		switch v.ValueType() {
		case crdt.IntegerCnt:
			*out = append(*out, head+fmt.Sprintf("c/i:%d", v.Value()))
		case crdt.LongCnt:
			*out = append(*out, head+fmt.Sprintf("c/l:%d", v.Value()))
		default:
			*out = append(*out, head+"q/"+pct(v.Marshal()))
		}
	case *crdt.Object:
		if fl == "r" && parent != "-" { // removed descendants are dumped without content (see Model/Undo.lean `emptied`)
			*out = append(*out, head+"o/")
			return
		}
		win := map[string]crdt.Element{}
		for _, n := range v.RHTNodes() {
			cur, ok := win[n.Key()]
			if !ok || crdt.PositionedAt(n.Element()).After(crdt.PositionedAt(cur)) {
				win[n.Key()] = n.Element()
			}
		}
		if dumpOmitRemoved {
			for k, el := range win {
				if el.RemovedAt() != nil {
					delete(win, k)
				}
			}
		}
		keys := make([]string, 0, len(win))
		for k := range win {
			keys = append(keys, k)
		}
		sort.Strings(keys)
		parts := make([]string, 0, len(keys))
		for _, k := range keys {
			parts = append(parts, pct(k)+">"+encTicket(win[k].CreatedAt())+">"+encTicket(crdt.PositionedAt(win[k])))
		}
		*out = append(*out, head+"o/"+strings.Join(parts, "+"))
		for _, k := range keys {
			dumpElem(out, win[k], id)
		}
	case *crdt.Array:
		if fl == "r" && parent != "-" {
			*out = append(*out, head+"a/^")
			return
		}
		var nodes, moved []string
		for _, n := range v.AllRGANodes() {
			el := "-"
			if n.Element() != nil {
				el = encTicket(n.Element().CreatedAt())
				if n.PositionMovedAt() != nil {
					moved = append(moved, el+">"+encTicket(n.PositionMovedAt()))
				}
			}
			nodes = append(nodes, encTicket(n.PositionCreatedAt())+">"+el)
		}
		*out = append(*out, head+"a/"+strings.Join(nodes, "+")+"^"+strings.Join(moved, "+"))
		for _, n := range v.AllRGANodes() {
			if n.Element() != nil {
				dumpElem(out, n.Element(), id)
			}
		}
	default:
		*out = append(*out, head+"q/"+pct(e.Marshal()))
	}
}

func encSnap(e crdt.Element) string {
	switch v := e.(type) {
	case *crdt.Object:
		if len(v.RHTNodes()) == 0 {
			return ""
		}
	case *crdt.Array:
		if len(v.AllRGANodes()) == 0 {
			return ""
		}
	default:
		return ""
	}
	var out []string
	dumpElem(&out, e, "-")
	return " snap=" + strings.Join(out, ",")
}

// encUOp = encOp plus the structural dump of a non-empty container value.
func encUOp(op operations.Operation) string {
	s := encOp(op)
	switch o := op.(type) {
	case *operations.Set:
		if obj, ok := o.Value().(*crdt.Object); ok && dumpOmitRemoved && len(obj.Members()) == 0 {
			// GC-on traces: an object without live members prints like an empty one (purged or not)
			return strings.Replace(s, " v=opq:%7B%7D ", " v=obj ", 1)
		}
		s += encSnap(o.Value())
	case *operations.Add:
		s += encSnap(o.Value())
	case *operations.ArraySet:
		s += encSnap(o.Value())
	}
	return s
}

// ---------------------------------------------------------------- world

type undoRep struct {
	name    string
	idx     int
	doc     *document.Document
	actor   time.ActorID
	cpS     int64
	pushedC uint32
	reqVV   time.VersionVector
	n       int // value counter of the deterministic alphabet
	applied map[string]bool
	reused  []reusedT // re-using Sets delivered to this replica (identity, author)
	// shadow of the two stacks: what this replica had applied when the entry (and the snapshots in
	// its reverse operations) was built
	undoSeen, redoSeen []map[string]bool
	capSeen            map[string]bool // for the change being created by Undo/Redo: the popped entry's set

	// C14 oracle shadow
	past, future []string
	cur          string
}

type reusedT struct {
	t      *time.Ticket
	author *undoRep
}

type undoWorld struct {
	c    *Ctx
	reps map[string]*undoRep
	ord  []*undoRep
	log  []*change.Change
	gc   bool
	// content oracle is exact only while no move / set-by-index / re-identified container was seen
	approx bool
	// identities that an undo/redo replaced by a fresh one (executeUndoRedo's Add branch), and the
	// identities of their descendants (which now exist twice: below the tombstone and below the copy)
	deadIDs map[string]bool
	// the same for the values an undone set-by-index re-identified (ArraySet branch)
	asetDeadIDs map[string]bool
	// an executed entry addressed such a dead container with an operation the model (one heap entry
	// per identity) cannot follow: Go runs it invisibly on the dead twin copy
	asetStale bool
	// old identities of array elements an undo/redo re-inserted under a fresh createdAt
	oldTop    map[string]bool
	taint     string // tag of the listed finding that made an Undo/Redo/Update fail on this trace
	c15       bool
	staleSeen bool
	// an undo/redo registered a restored value that holds an identity twice: Root.elementMap now
	// resolves it to the dead twin, so later edits reach the clone (by pointer) but not the root
	twinSnap   bool
	knownGC    string
	changes    map[string]*chInfo
	chOrder    []*chInfo
	dead       bool // a known finding ended this trace
	gcReported bool
	muteSaid   bool
	mute       bool // a known finding ended the model-compared part of this trace
	syncErr    bool
	hasRemote  bool
}

func newUndoWorld(c *Ctx) *undoWorld {
	dumpOmitRemoved = false
	return &undoWorld{c: c, reps: map[string]*undoRep{}, deadIDs: map[string]bool{}, asetDeadIDs: map[string]bool{}, oldTop: map[string]bool{}, changes: map[string]*chInfo{}}
}

// cmd / obs write to the command and observation streams unless the trace is muted: once the history
// matches the characterisation of a listed finding, the model (one heap entry per identity, no GC)
// is knowingly not faithful any more; the implementation keeps running for the oracle.
func (w *undoWorld) cmd(format string, a ...any) {
	if !w.mute {
		w.c.Cmd(format, a...)
		return
	}
	// muted: keep the driving commands (the trace must still replay), drop the model-only ones
	if !w.muteSaid {
		w.muteSaid = true
		w.c.Cmd("MUTE")
	}
	l := fmt.Sprintf(format, a...)
	switch strings.Fields(l)[0] {
	case "E", "UNDO", "REDO", "SYNC", "FIN", "MODE", "R":
		w.c.Cmd("%s", l)
	}
}

func (w *undoWorld) obs(format string, a ...any) {
	if !w.mute {
		w.c.Obs(format, a...)
	}
}

func (w *undoWorld) muteIfKnown() {
	if !w.mute && (w.knownGC != "" || w.reuseConcurrent() != "") {
		w.mute = true
		w.c.Count("muted-traces")
	}
}

// chInfo: what the history analysis needs to know about one change.
type chInfo struct {
	key    string
	author string
	seen   map[string]bool // changes the author had applied when it created this one
	cap    map[string]bool // ... when the snapshots it carries were captured (undo/redo changes)
	ops    []operations.Operation
	reuse  []map[string]bool // per re-using Set (value identity != execution ticket): the identities of the restored subtree
}

func chKey(cn *change.Change) string {
	return fmt.Sprintf("%s:%d", ActorNat(cn.ID().ActorID()), cn.ClientSeq())
}

// created records a change the replica just produced.
func (w *undoWorld) created(rep *undoRep, cn *change.Change) {
	ci := &chInfo{key: chKey(cn), author: rep.name, seen: map[string]bool{}, ops: cn.Operations()}
	for k := range rep.applied {
		ci.seen[k] = true
	}
	ci.cap = ci.seen
	if rep.capSeen != nil {
		ci.cap = rep.capSeen
	}
	for _, op := range cn.Operations() {
		if s, ok := op.(*operations.Set); ok && s.Value().CreatedAt().Compare(s.ExecutedAt()) != 0 {
			ids := map[string]bool{s.Value().CreatedAt().Key(): true}
			if cont, ok := s.Value().(crdt.Container); ok {
				cont.Descendants(func(el crdt.Element, _ crdt.Container) bool {
					ids[el.CreatedAt().Key()] = true
					return false
				})
			}
			ci.reuse = append(ci.reuse, ids)
			w.c.Count("c15:reuse-set")
		}
		// the array analogue: an undo/redo re-inserts a deep copy of a container under a NEW identity,
		// but every descendant keeps its identity (a snapshot under existing identities again)
		var val crdt.Element
		switch o := op.(type) {
		case *operations.Add:
			val = o.Value()
		case *operations.ArraySet:
			val = o.Value()
		}
		if cont, ok := val.(crdt.Container); ok && rep.capSeen != nil {
			ids := map[string]bool{}
			cont.Descendants(func(el crdt.Element, _ crdt.Container) bool {
				ids[el.CreatedAt().Key()] = true
				return false
			})
			if len(ids) > 0 {
				ci.reuse = append(ci.reuse, ids)
				w.c.Count("c15:reuse-add")
			}
		}
	}
	w.changes[ci.key] = ci
	w.chOrder = append(w.chOrder, ci)
	rep.applied[ci.key] = true
}

// noteCreated is called after the lines of a freshly created change were emitted.
func (w *undoWorld) noteCreated() { w.muteIfKnown() }

// reuseConcurrent is the characterisation of the finding c15-reuse-concurrent: some undo/redo change
// X re-Sets a snapshot under an identity that already exists (Set with value identity != execution
// ticket), and a change Y of another replica, concurrent with X, addresses that identity or one
// inside the restored subtree (as parent, as Remove target, or by re-using it as well). Replicas
// that apply Y before X lose Y's effect (the snapshot replaces the element); replicas that apply
// X first keep it.
func (w *undoWorld) reuseConcurrent() string {
	for _, x := range w.chOrder {
		for _, ids := range x.reuse {
			for _, y := range w.chOrder {
				// concurrent: Y's author had not applied X, and X's author had not applied Y when the
				// snapshot was captured (which is when the entry was pushed, not when it ran)
				if y.author == x.author || y.seen[x.key] || x.cap[y.key] {
					continue
				}
				for _, op := range y.ops {
					hit := ids[op.ParentCreatedAt().Key()]
					switch o := op.(type) {
					case *operations.Remove:
						hit = hit || ids[o.CreatedAt().Key()]
					case *operations.Set:
						hit = hit || ids[o.Value().CreatedAt().Key()]
					}
					if hit {
						return fmt.Sprintf("change %s re-Sets a snapshot under an existing identity while the concurrent change %s addresses that identity", x.key, y.key)
					}
				}
			}
		}
	}
	return ""
}

// fail reports a C15 oracle failure, tagged when the history matches a listed characterisation.
func (w *undoWorld) fail(format string, a ...any) {
	msg := fmt.Sprintf(format, a...)
	switch {
	case w.knownGC != "":
		w.taint = "c15-redo-gc"
		w.c.Oracle("KNOWN[c15-redo-gc] %s; %s", msg, w.knownGC)
	case w.reuseConcurrent() != "":
		w.taint = "c15-reuse-concurrent"
		w.c.Oracle("KNOWN[c15-reuse-concurrent] %s; %s", msg, w.reuseConcurrent())
		w.c.Count("known:c15-reuse-concurrent")
	case w.twinSnap || w.staleSeen:
		w.taint = w.reidTag()
		w.c.Oracle("KNOWN[%s] %s; an earlier undo/redo left operations addressing a re-identified array element or registered its dead twin",
			w.reidTag(), msg)
		w.c.Count("known:array-reid:failure")
	default:
		w.c.Oracle("%s", msg)
	}
}

// reidTag: the re-identification finding is listed once per property (check.py matches tags per property).
func (w *undoWorld) reidTag() string {
	if w.c15 {
		return "c15-array-reid"
	}
	return "c14-array-reid"
}

// staleEntry inspects the entry an Undo/Redo is about to execute. It reports whether the entry
// matches the characterisation of the known finding c14-array-reid: an operation still addresses an
// identity that a restoring Add replaced - as its parent (ReconcileCreatedAt never rewrites
// parentCreatedAt; the descendants of a re-identified container exist twice and resolve to the
// dead copy), or as target/anchor later in the SAME entry (only the stacks are reconciled).
// It also records the identities this entry is going to replace.
func (w *undoWorld) staleEntry(entry []document.HistoryOperation) bool {
	stale := false
	now := map[string]bool{}
	ref := func(t *time.Ticket) {
		if t != nil && now[t.Key()] {
			stale = true
		}
	}
	for _, e := range entry {
		if e.Op == nil {
			continue
		}
		if w.deadIDs[e.Op.ParentCreatedAt().Key()] {
			stale = true
		}
		switch e.Op.(type) {
		case *operations.Set, *operations.Remove, *operations.Increase:
			// skipped by isRemovedOrOrphaned below a value re-identified by Add (the model follows that)
			if w.asetDeadIDs[e.Op.ParentCreatedAt().Key()] {
				w.asetStale = true
			}
		default:
			if w.asetDeadIDs[e.Op.ParentCreatedAt().Key()] || w.deadIDs[e.Op.ParentCreatedAt().Key()] {
				w.asetStale = true
			}
		}
		switch o := e.Op.(type) {
		case *operations.Remove:
			ref(o.CreatedAt())
		case *operations.Move:
			ref(o.CreatedAt())
			ref(o.PrevCreatedAt())
			// moving the tombstone of a re-identified element changes which twin isRemovedOrOrphaned
			// resolves to (traversal order); the model's `tw` flag assumes the tombstone comes later
			if len(now) > 0 || len(w.deadIDs) > 0 {
				w.asetStale = true
			}
		case *operations.ArraySet:
			ref(o.CreatedAt())
			w.asetDeadIDs[o.Value().CreatedAt().Key()] = true
			w.oldTop[o.Value().CreatedAt().Key()] = true
			if cont, ok := o.Value().(crdt.Container); ok {
				cont.Descendants(func(el crdt.Element, _ crdt.Container) bool {
					w.asetDeadIDs[el.CreatedAt().Key()] = true
					return false
				})
			}
		case *operations.Add:
			ref(o.PrevCreatedAt())
			now[o.Value().CreatedAt().Key()] = true
			w.deadIDs[o.Value().CreatedAt().Key()] = true
			w.oldTop[o.Value().CreatedAt().Key()] = true
			if cont, ok := o.Value().(crdt.Container); ok {
				cont.Descendants(func(el crdt.Element, _ crdt.Container) bool {
					w.deadIDs[el.CreatedAt().Key()] = true
					return false
				})
			}
		}
	}
	return stale
}

func (w *undoWorld) stacks(rep *undoRep) string {
	return fmt.Sprintf("undo=%d canredo=%t lam=%d", rep.doc.UndoStackLenForTest(), rep.doc.CanRedo(),
		rep.doc.InternalDocument().Lamport())
}

func (w *undoWorld) observe(rep *undoRep) {
	c := w.c
	w.cmd("S %s", rep.name)
	w.obs("%s", w.stacks(rep))
	w.cmd("M %s", rep.name)
	root := rep.doc.Marshal()
	w.obs("%s", root)
	if clone := rep.doc.Root().Marshal(); clone != root {
		if w.twinSnap {
			c.Oracle("KNOWN["+w.reidTag()+"] clone != root on %s after an undo/redo registered a value holding a re-identified element "+
				"and its dead twin: clone=%s root=%s", rep.name, clone, root)
			c.Count("known:c14-array-reid:clone-root")
		} else if rc := w.reuseConcurrent(); rc != "" {
			// e.g. two replicas restored the same identity: the restore that loses LWW is registered in
			// Root.elementMap beside the live occupant, so later operations reach the loser on the root
			// while the json layer edits the occupant on the clone
			c.Oracle("KNOWN[c15-reuse-concurrent] clone != root on %s: clone=%s root=%s; %s", rep.name, clone, root, rc)
		} else if w.knownGC != "" {
			c.Oracle("KNOWN[c15-redo-gc] clone != root on %s: clone=%s root=%s; %s", rep.name, clone, root, w.knownGC)
		} else if w.taint != "" {
			c.Oracle("KNOWN[%s] clone != root on %s after a failed Undo/Redo/Update (the clone is executed first, no rollback): clone=%s root=%s",
				w.taint, rep.name, clone, root)
		} else {
			c.Oracle("clone != root on %s: clone=%s root=%s", rep.name, clone, root)
		}
	}
}

func opsNote(w *undoWorld, ops []operations.Operation, fromUndo bool) {
	for _, op := range ops {
		switch o := op.(type) {
		case *operations.Move, *operations.ArraySet:
			_ = o
			w.approx = true
			if _, ok := op.(*operations.Move); ok && len(w.deadIDs) > 0 && reidOld {
				w.asetStale = true // twins present: a move may flip which one the skip rule resolves to
			}
		}
	}
}

// edit runs one Update described by spec and emits its operations.
// linkedByID: the element registered under the identity exists and is still linked into the
// document tree. (The purge of a re-used identity unlinks the live restored node from its parent;
// whether the registration itself survives depends on Root.deregisterElement's instance check.)
func linkedByID(root *crdt.Root, t *time.Ticket) bool {
	el := root.FindByCreatedAt(t)
	if el == nil {
		return false
	}
	if el == crdt.Element(root.Object()) {
		return true
	}
	found := false
	root.Object().Descendants(func(e crdt.Element, _ crdt.Container) bool {
		if e == el {
			found = true
		}
		return found
	})
	return found
}

func hasTwinIDs(op operations.Operation) bool {
	var v crdt.Element
	switch o := op.(type) {
	case *operations.Set:
		v = o.Value()
	case *operations.Add:
		v = o.Value()
	case *operations.ArraySet:
		v = o.Value()
	}
	cont, ok := v.(crdt.Container)
	if !ok {
		return false
	}
	seen := map[string]bool{}
	dup := false
	cont.Descendants(func(el crdt.Element, _ crdt.Container) bool {
		if seen[el.CreatedAt().Key()] {
			dup = true
		}
		seen[el.CreatedAt().Key()] = true
		return false
	})
	return dup
}

func copySet(m map[string]bool) map[string]bool {
	o := make(map[string]bool, len(m))
	for k := range m {
		o[k] = true
	}
	return o
}

func pushSeen(st []map[string]bool, m map[string]bool) []map[string]bool {
	st = append(st, m)
	if len(st) > document.MaxUndoRedoStackDepth {
		st = st[1:]
	}
	return st
}

func (w *undoWorld) edit(rep *undoRep, spec string) {
	c := w.c
	before := len(rep.doc.CreateChangePack().Changes)
	seenBefore := copySet(rep.applied)
	rep.capSeen = nil
	err := rep.doc.Update(func(root *json.Object, p *presence.Presence) (e error) {
		defer func() {
			if r := recover(); r != nil {
				e = fmt.Errorf("panic in updater: %v", r)
			}
		}()
		applySpec(c, rep, root, spec)
		return nil
	})
	if err != nil {
		w.fail("update %q failed on %s: %v", spec, rep.name, err)
		w.mute = true // the clone was discarded: nothing comparable happened
		return
	}
	chs := rep.doc.CreateChangePack().Changes
	if len(chs) == before {
		return
	}
	for _, cn := range chs[before:] {
		w.created(rep, cn)
		opsNote(w, cn.Operations(), false)
		for _, op := range cn.Operations() {
			w.cmd("LOP %s %s", rep.name, encUOp(op))
			w.obs("ok")
		}
		w.cmd("COMMIT %s", rep.name)
		w.obs("fresh=true %s", w.stacks(rep))
	}
	rep.undoSeen = pushSeen(rep.undoSeen, seenBefore)
	rep.redoSeen = nil
	w.muteIfKnown()
	// shadow history: every edit of the alphabet pushes one entry
	rep.past = append(rep.past, rep.cur)
	if len(rep.past) > document.MaxUndoRedoStackDepth {
		rep.past = rep.past[1:]
	}
	rep.future = nil
	rep.cur = rep.doc.Marshal()
	w.observe(rep)
}

func (w *undoWorld) undoRedo(rep *undoRep, isUndo bool) {
	c := w.c
	before := len(rep.doc.CreateChangePack().Changes)
	could := rep.doc.CanUndo()
	name := "UNDO"
	if !isUndo {
		name = "REDO"
		could = rep.doc.CanRedo()
	}
	var stale, staleParent bool
	var entryDesc []string
	{
		entry := rep.doc.RedoStackTopForTest()
		if isUndo {
			entry = rep.doc.UndoStackTopForTest()
		}
		for _, e := range entry {
			if e.Op != nil {
				d := encOp(e.Op)
				if len(d) > 160 {
					d = d[:160]
				}
				entryDesc = append(entryDesc, d)
			}
		}
		stale = w.staleEntry(entry)
		for _, e := range entry {
			if e.Op != nil && (w.deadIDs[e.Op.ParentCreatedAt().Key()] || w.asetDeadIDs[e.Op.ParentCreatedAt().Key()]) {
				staleParent = true
			}
		}
		if !reidOld {
			// repaired tree (hooks/fix-c14-reconcile-parent.patch): none of this is expected any
			// more; a recurrence is a plain violation
			stale, staleParent, w.asetStale = false, false, false
		}
	}
	if stale || staleParent || w.asetStale {
		// from here on operations have run (or will run) on dead twins; ReconcileCreatedAt rewrites
		// healthy stacked operations with identities that exist only there
		w.staleSeen = true
	}
	if os.Getenv("UNDO_DEBUG") != "" {
		fmt.Fprintf(os.Stderr, "%s %s entry=[%s] stale=%t staleParent=%t\n", name, rep.name, strings.Join(entryDesc, " | "), stale, staleParent)
	}
	if w.asetStale && !w.mute {
		w.mute = true
		w.c.Count("muted-traces:aset-reid")
	}
	purged := ""
	if w.gc {
		if purged = w.purgedTarget(rep, isUndo); purged != "" && !w.mute {
			w.mute = true // the model has no purge
			w.c.Count("muted-traces")
		}
	}
	seenBefore := copySet(rep.applied)
	rep.capSeen = nil
	if could {
		if isUndo && len(rep.undoSeen) > 0 {
			rep.capSeen = rep.undoSeen[len(rep.undoSeen)-1]
			rep.undoSeen = rep.undoSeen[:len(rep.undoSeen)-1]
		} else if !isUndo && len(rep.redoSeen) > 0 {
			rep.capSeen = rep.redoSeen[len(rep.redoSeen)-1]
			rep.redoSeen = rep.redoSeen[:len(rep.redoSeen)-1]
		}
	}
	var err error
	if isUndo {
		err = rep.doc.Undo()
	} else {
		err = rep.doc.Redo()
	}
	chs := rep.doc.CreateChangePack().Changes
	// a restored value that holds the same identity twice (a re-identified element and its dead twin):
	// RegisterElement lets the LAST visited copy win, i.e. the dead one; the model keeps one entry
	for _, cn := range chs[min(before, len(chs)):] {
		for _, op := range cn.Operations() {
			if hasTwinIDs(op) && reidOld {
				w.twinSnap = true
				if !w.mute {
					w.mute = true
					w.c.Count("muted-traces:twin-snapshot")
				}
			}
		}
	}
	w.cmd("%s %s", name, rep.name)
	switch {
	case err != nil:
		w.obs("failed")
		w.approx = true // the entry was popped but not applied: the recorded history no longer describes this replica
		if purged != "" && w.knownGC == "" && w.reuseConcurrent() == "" {
			w.taint = "c15-undo-purged-target"
			c.Oracle("KNOWN[c15-undo-purged-target] %s returned an error on %s: %v; %s", name, rep.name, err, purged)
			c.Count("known:c15-undo-purged-target")
		} else if staleParent || w.staleSeen {
			w.taint = w.reidTag()
			c.Oracle("KNOWN["+w.reidTag()+"] %s returned an error on %s: %v; the entry [%s] (or an earlier one) still addresses the old identity of a "+
				"re-identified container as its parent", name, rep.name, err, strings.Join(entryDesc, " | "))
			c.Count("known:c14-array-reid:error")
		} else {
			w.fail("%s returned an error on %s: %v [entry: %s]", name, rep.name, err, strings.Join(entryDesc, " | "))
		}
	case len(chs) == before:
		w.obs("noop")
	default:
		for _, cn := range chs[before:] {
			w.created(rep, cn)
			opsNote(w, cn.Operations(), true)
			for _, op := range cn.Operations() {
				w.obs("op %s", encUOp(op))
			}
		}
		w.obs("changed")
		if isUndo {
			rep.redoSeen = pushSeen(rep.redoSeen, seenBefore)
		} else {
			rep.undoSeen = pushSeen(rep.undoSeen, seenBefore)
		}
	}
	rep.capSeen = nil
	w.muteIfKnown()
	c.Count("ur:" + strings.ToLower(name))
	// C14 content oracle (single replica without remote changes)
	if could && err == nil {
		var want string
		if isUndo && len(rep.past) > 0 {
			want = rep.past[len(rep.past)-1]
			rep.past = rep.past[:len(rep.past)-1]
			rep.future = append(rep.future, rep.cur)
		} else if !isUndo && len(rep.future) > 0 {
			want = rep.future[len(rep.future)-1]
			rep.future = rep.future[:len(rep.future)-1]
			rep.past = append(rep.past, rep.cur)
		} else {
			want = rep.doc.Marshal()
		}
		got := rep.doc.Marshal()
		rep.cur = got
		if got != want && !w.hasRemote && !w.approx {
			if stale || w.staleSeen {
				c.Oracle("KNOWN["+w.reidTag()+"] %s on %s executed an entry that still addresses a re-identified array element: "+
					"content %s, recorded %s", name, rep.name, got, want)
				c.Count("known:c14-array-reid")
				w.approx = true // the recorded history no longer describes this replica
			} else {
				c.Oracle("%s on %s does not restore the recorded content: got %s want %s", name, rep.name, got, want)
			}
		}
	}
	w.observe(rep)
}

// purgedTarget: characterisation of c15-undo-purged-target - the entry about to run removes an
// element this replica's garbage collection has already purged (it lost LWW / was overwritten by a
// remote change and the tombstone became causally stable).
func (w *undoWorld) purgedTarget(rep *undoRep, isUndo bool) string {
	entry := rep.doc.RedoStackTopForTest()
	if isUndo {
		entry = rep.doc.UndoStackTopForTest()
	}
	root := rep.doc.InternalDocument().Root()
	for _, e := range entry {
		if e.Op == nil {
			continue
		}
		if r, ok := e.Op.(*operations.Remove); ok && root.FindByCreatedAt(r.CreatedAt()) == nil {
			return fmt.Sprintf("the stacked Remove targets %s, which this replica has purged", encTicket(r.CreatedAt()))
		}
		if root.FindByCreatedAt(e.Op.ParentCreatedAt()) == nil {
			return fmt.Sprintf("the stacked %T addresses the parent %s, which this replica has purged", e.Op, encTicket(e.Op.ParentCreatedAt()))
		}
	}
	return ""
}

// sync pushes the local changes to the simulated log and pulls the others through the wire converters.
func (w *undoWorld) sync(rep *undoRep) {
	c := w.c
	w.cmd("SYNC %s", rep.name)
	pack := rep.doc.CreateChangePack()
	rep.reqVV = pack.VersionVector.DeepCopy()
	for _, cn := range pack.Changes {
		if cn.ClientSeq() <= rep.pushedC {
			continue
		}
		w.log = append(w.log, cn)
		rep.pushedC = cn.ClientSeq()
	}
	var pulled []*change.Change
	for _, cn := range w.log[rep.cpS:] {
		if cn.ID().ActorID() == rep.actor {
			continue
		}
		pulled = append(pulled, cn)
	}
	wire, err := roundTrip(pulled)
	if err != nil {
		c.Oracle("converter round trip failed: %v", err)
		return
	}
	var vv time.VersionVector
	if w.gc {
		var vs []time.VersionVector
		for _, r := range w.ord {
			if r.reqVV == nil {
				vs = nil
				break
			}
			vs = append(vs, r.reqVV)
		}
		if vs != nil {
			vv = time.MinVersionVector(vs...)
		}
	}
	// characterisation of the known redo+GC finding: a pulled Set re-uses an identity (value identity
	// != execution ticket); after this replica's ApplyChangePack (apply, then GC) the element
	// registered under that identity is gone although its author still has it registered.
	if w.gc {
		for _, cn := range wire {
			for _, op := range cn.Operations() {
				if s, ok := op.(*operations.Set); ok && s.Value().CreatedAt().Compare(s.ExecutedAt()) != 0 {
					for _, r := range w.ord {
						if r.actor == cn.ID().ActorID() {
							rep.reused = append(rep.reused, reusedT{s.Value().CreatedAt(), r})
						}
					}
				}
			}
		}
	}
	head := int64(len(w.log))
	resp := change.NewPack(rep.doc.Key(), change.NewCheckpoint(head, rep.pushedC), wire, vv, nil)
	err = func() (e error) {
		defer func() {
			if r := recover(); r != nil {
				e = fmt.Errorf("PANIC in ApplyChangePack: %v", r)
			}
		}()
		return rep.doc.ApplyChangePack(resp)
	}()
	rep.cpS = head
	if len(wire) > 0 {
		w.hasRemote = true
		c.Count("sync:with-remote-changes")
	}
	for _, cn := range wire {
		rep.applied[chKey(cn)] = true
		for _, op := range cn.Operations() {
			// a delivered operation addresses the old identity (or a descendant) of an array element
			// an undo/redo re-identified: Go runs it on the dead twin copy, the model has one entry
			k := op.ParentCreatedAt().Key()
			// (also in the repaired tree, for the OLD TOP identity only: a peer that had not seen the
			// re-insertion still addresses the tombstone; Go applies the operation to the tombstone's
			// own children, which share their createdAt with the copy's - invisible, both replicas
			// converge, but the model's single heap entry per identity would be hit. Model gap, not a
			// finding: see Model/Undo.lean header.)
			if ((reidOld && (w.deadIDs[k] || w.asetDeadIDs[k])) || w.oldTop[k]) && !w.mute {
				w.mute = true
				w.c.Count("muted-traces:remote-into-reid")
			}
		}
	}
	for _, x := range rep.reused {
		if !linkedByID(rep.doc.InternalDocument().Root(), x.t) &&
			linkedByID(x.author.doc.InternalDocument().Root(), x.t) {
			w.knownGC = fmt.Sprintf("replica %s applied a remote Set that re-used identity %s, which it had registered as removed; "+
				"its GC pass then purged the restored element (DeregisterElement is gated on OpSourceUndoRedo)", rep.name, encTicket(x.t))
		}
	}
	if err != nil {
		w.syncErr = true
		w.fail("ApplyChangePack failed on %s: %v", rep.name, err)
	}
	if w.knownGC != "" && !w.gcReported {
		// the model has no purge: stop comparing this trace here (see known_findings.json)
		w.gcReported = true
		c.Oracle("KNOWN[c15-redo-gc] %s", w.knownGC)
		c.Count("known:c15-redo-gc")
	}
	w.muteIfKnown()
	for _, cn := range wire {
		w.cmd("RC %s %d", rep.name, cn.ID().Lamport())
		w.obs("ok")
		for _, op := range cn.Operations() {
			w.cmd("ROP %s %s", rep.name, encUOp(op))
			w.obs("ok")
		}
		w.cmd("RCOMMIT %s", rep.name)
		if err == nil {
			w.obs("ok")
		} else {
			w.obs("err")
		}
	}
	rep.cur = rep.doc.Marshal()
	w.observe(rep)
}

func (w *undoWorld) finish() {
	if w.dead || len(w.ord) < 2 {
		return
	}
	for round := 0; round < 2 && !w.dead; round++ {
		for _, rep := range w.ord {
			if !w.dead {
				w.sync(rep)
			}
		}
	}
	if w.dead {
		return
	}
	first := w.ord[0].doc.Marshal()
	for _, rep := range w.ord[1:] {
		if m := rep.doc.Marshal(); m != first {
			w.fail("replicas diverge after quiescence: %s=%s vs %s=%s", w.ord[0].name, first, rep.name, m)
		}
	}
}

// exec executes one driving command line; model-only lines (regenerated here) are ignored.
func (w *undoWorld) exec(line string) {
	t := strings.Fields(line)
	if len(t) == 0 || w.dead {
		return
	}
	switch t[0] {
	case "MODE":
		w.cmd("%s", line)
		w.c15 = true
		w.gc = len(t) > 1 && t[1] == "gc=on"
		dumpOmitRemoved = w.gc
	case "R":
		w.cmd("%s", line)
		actor := NatActor(t[2])
		d := document.New("doc-undo")
		d.SetActor(actor)
		d.SetStatus(document.StatusAttached)
		rep := &undoRep{name: t[1], idx: len(w.ord), doc: d, actor: actor, cur: d.Marshal(), applied: map[string]bool{}}
		w.reps[t[1]] = rep
		w.ord = append(w.ord, rep)
		w.obs("ok")
	case "E":
		w.cmd("%s", line)
		w.edit(w.reps[t[1]], t[2])
	case "UNDO":
		w.undoRedo(w.reps[t[1]], true)
	case "REDO":
		w.undoRedo(w.reps[t[1]], false)
	case "SYNC":
		w.sync(w.reps[t[1]])
	case "FIN":
		w.cmd("%s", line)
		w.finish()
	}
}

// ---------------------------------------------------------------- edit specs

func objAt(root *json.Object, key string) *json.Object {
	if _, ok := root.Object.Get(key).(*crdt.Object); ok {
		return root.GetObject(key)
	}
	return nil
}

// applySpec performs the API calls of one edit spec (deterministic in the replica state).
func applySpec(c *Ctx, rep *undoRep, root *json.Object, spec string) {
	p := strings.Split(spec, ":")
	next := func() int { rep.n++; return 1000*(rep.idx+1) + rep.n }
	arr := func() *json.Array {
		if _, ok := root.Object.Get("l").(*crdt.Array); ok {
			return root.GetArray("l")
		}
		return root.SetNewArray("l")
	}
	c.Count("spec:" + p[0])
	switch p[0] {
	case "rnd": // rnd:<seed>:<k> random edits of eng_crdt's generator
		seed, _ := strconv.ParseInt(p[1], 10, 64)
		k, _ := strconv.Atoi(p[2])
		r := rand.New(rand.NewSource(seed))
		for i := 0; i < k; i++ {
			c.Count("api:" + randomEdit(r, root, c))
		}
	case "rndc": // random edits restricted to the content alphabet of C14 (no move / set-by-index)
		seed, _ := strconv.ParseInt(p[1], 10, 64)
		k, _ := strconv.Atoi(p[2])
		r := rand.New(rand.NewSource(seed))
		for i := 0; i < k; i++ {
			c.Count("api:" + contentEdit(r, root, p[3]))
		}
	case "rndo": // one random object/counter edit (no arrays)
		seed, _ := strconv.ParseInt(p[1], 10, 64)
		c.Count("api:" + contentEdit(rand.New(rand.NewSource(seed)), root, "noarr"))
	case "oset":
		root.SetInteger(p[1], next())
	case "ostr":
		root.SetString(p[1], fmt.Sprintf("s %d", next()))
	case "odel":
		if root.Delete(p[1]) == nil {
			root.SetInteger(p[1], next())
		}
	case "onewo":
		root.SetNewObject(p[1])
	case "onewa":
		root.SetNewArray(p[1]).AddInteger(next())
	case "oin":
		if o := objAt(root, p[1]); o != nil {
			o.SetInteger(p[2], next())
		} else {
			root.SetNewObject(p[1]).SetInteger(p[2], next())
		}
	case "oindel":
		if o := objAt(root, p[1]); o != nil && o.Delete(p[2]) != nil {
			return
		}
		root.SetInteger(p[1], next())
	case "setup":
		switch p[1] {
		case "arr":
			root.SetNewArray("l")
		case "cnt":
			root.SetNewCounter("c", int32(0))
			root.SetNewCounter("d", int64(0))
		case "mv":
			root.SetNewArray("l").AddInteger(1, 2, 3)
		}
	case "aadd":
		arr().AddInteger(next())
	case "ains":
		a := arr()
		if a.Len() > 0 {
			a.InsertIntegerAfter(0, next())
		} else {
			a.AddInteger(next())
		}
	case "adel0":
		a := arr()
		if a.Len() > 0 {
			a.Delete(0)
		} else {
			a.AddInteger(next())
		}
	case "adell":
		a := arr()
		if a.Len() > 0 {
			a.Delete(a.Len() - 1)
		} else {
			a.AddInteger(next())
		}
	case "adddel": // one change: insert an element and delete it again
		a := arr()
		a.AddInteger(next())
		a.Delete(a.Len() - 1)
	case "aaddn": // container element holding a nested container
		arr().AddNewObject().SetNewObject("p")
	case "ainp": // edit inside the nested container of the first element
		a := arr()
		if a.Len() > 0 {
			if o, ok := a.Get(0).(*crdt.Object); ok {
				if _, ok := o.Get("p").(*crdt.Object); ok {
					a.GetObject(0).GetObject("p").SetInteger("b", next())
					return
				}
			}
		}
		a.AddInteger(next())
	case "aaddo":
		arr().AddNewObject().SetInteger("x", next())
	case "aaddc":
		arr().AddNewCounter(crdt.IntegerCnt, int32(next()))
	case "ainx": // overwrite member x of the first element (an object)
		a := arr()
		if a.Len() > 0 {
			if _, ok := a.Get(0).(*crdt.Object); ok {
				a.GetObject(0).SetInteger("x", next())
				return
			}
		}
		a.AddInteger(next())
	case "ain0":
		a := arr()
		if a.Len() > 0 {
			switch a.Get(0).(type) {
			case *crdt.Object:
				a.GetObject(0).SetInteger("y", next())
				return
			case *crdt.Counter:
				a.GetCounter(0).Increase(3)
				return
			}
		}
		a.AddInteger(next())
	case "inc":
		d, _ := strconv.ParseInt(p[2], 10, 64)
		if _, ok := root.Object.Get(p[1]).(*crdt.Counter); !ok {
			root.SetNewCounter(p[1], int32(0))
		}
		cnt := root.GetCounter(p[1])
		if cnt.ValueType() == crdt.LongCnt {
			cnt.Increase(d)
		} else {
			cnt.Increase(int(d))
		}
	case "cnew":
		root.SetNewCounter(p[1], int32(next()%7))
	case "mv":
		a := arr()
		i, _ := strconv.Atoi(p[1])
		j, _ := strconv.Atoi(p[2])
		if n := a.Len(); n >= 2 {
			i, j = i%n, j%n
			if i == j {
				j = (j + 1) % n
			}
			a.MoveAfterByIndex(i, j)
		} else {
			a.AddInteger(next())
		}
	case "mvf":
		a := arr()
		if n := a.Len(); n >= 1 {
			a.MoveFront(a.Get(n - 1).CreatedAt())
		} else {
			a.AddInteger(next())
		}
	case "aset":
		a := arr()
		i, _ := strconv.Atoi(p[1])
		if n := a.Len(); n >= 1 {
			a.SetInteger(i%n, next())
		} else {
			a.AddInteger(next())
		}
	default:
		panic("unknown edit spec " + spec)
	}
}

// contentEdit: one random edit from C14's content alphabet on a random live container.
// flat = array elements are primitives only (no re-identified containers).
func contentEdit(r *rand.Rand, root *json.Object, mode string) string {
	flat := mode == "flat"
	cs := containers(root)
	if mode == "noarr" {
		var f []jsonContainer
		for _, x := range cs {
			if x.kind != "arr" {
				f = append(f, x)
			}
		}
		cs = f
	}
	t := cs[r.Intn(len(cs))]
	switch t.kind {
	case "obj":
		k := crdtKeys[r.Intn(len(crdtKeys))]
		switch x := r.Intn(100); {
		case x < 30:
			t.obj.SetInteger(k, r.Intn(1000))
			return "obj.setInteger"
		case x < 40:
			t.obj.SetString(k, fmt.Sprintf("s %d\"", r.Intn(100)))
			return "obj.setString"
		case x < 52:
			if mode == "noarr" {
				t.obj.SetBool(k, x%2 == 0)
				return "obj.setBool"
			}
			t.obj.SetNewArray(k)
			return "obj.setNewArray"
		case x < 62:
			t.obj.SetNewObject(k)
			return "obj.setNewObject"
		case x < 72:
			if r.Intn(2) == 0 {
				t.obj.SetNewCounter(k, int32(r.Intn(10)))
			} else {
				t.obj.SetNewCounter(k, int64(r.Intn(10)))
			}
			return "obj.setNewCounter"
		default:
			if t.obj.Delete(k) != nil {
				return "obj.delete"
			}
			t.obj.SetInteger(k, r.Intn(1000))
			return "obj.setInteger"
		}
	case "arr":
		n := t.arr.Len()
		switch x := r.Intn(100); {
		case x < 35 || n == 0:
			if !flat {
				switch r.Intn(6) {
				case 0:
					t.arr.AddNewArray()
					return "arr.addNewArray"
				case 1:
					t.arr.AddNewObject()
					return "arr.addNewObject"
				case 2:
					t.arr.AddNewCounter(crdt.IntegerCnt, int32(r.Intn(5)))
					return "arr.addNewCounter"
				}
			}
			t.arr.AddInteger(r.Intn(1000))
			return "arr.addInteger"
		case x < 65:
			t.arr.InsertIntegerAfter(r.Intn(n), r.Intn(1000))
			return "arr.insertAfter"
		default:
			t.arr.Delete(r.Intn(n))
			return "arr.delete"
		}
	default:
		if t.cnt.ValueType() == crdt.LongCnt {
			t.cnt.Increase(int64(r.Intn(1<<30)) << uint(r.Intn(34)))
		} else if t.cnt.ValueType() == crdt.IntegerCnt {
			t.cnt.Increase(int(int32(r.Uint32())) >> uint(r.Intn(31)))
		}
		return "cnt.increase"
	}
}

// ---------------------------------------------------------------- generators

func argOf(name, def string) string {
	for _, a := range os.Args[2:] {
		if strings.HasPrefix(a, name+"=") {
			return strings.TrimPrefix(a, name+"=")
		}
	}
	return def
}

// wellNested lists every Undo/Redo string of length <= n in which a Redo always has something to redo.
func wellNested(n int) []string {
	out := []string{""}
	var rec func(s string, redoable int)
	rec = func(s string, redoable int) {
		if len(s) == n {
			return
		}
		out = append(out, s+"U")
		rec(s+"U", redoable+1)
		if redoable > 0 {
			out = append(out, s+"R")
			rec(s+"R", redoable-1)
		}
	}
	rec("", 0)
	return out
}

var c14Alphabets = []struct {
	kind  string
	setup []string
	edits []string
	exact bool
}{
	{"obj", nil, []string{"oset:a", "ostr:b", "odel:a", "onewo:a", "oin:a:x", "onewa:b", "oindel:a:x"}, true},
	{"arr", []string{"setup:arr"}, []string{"aadd", "ains", "adel0", "adell", "odel:l"}, true},
	{"arrc", []string{"setup:arr"}, []string{"aaddo", "aaddc", "adel0", "ain0", "aadd"}, true},
	{"cnt", []string{"setup:cnt"}, []string{"inc:c:1", "inc:c:-2147483648", "inc:d:1099511627776", "inc:d:-9223372036854775808", "cnew:c", "odel:c"}, true},
	{"mv", []string{"setup:mv"}, []string{"mv:0:2", "mvf", "aset:1", "adel0", "aadd", "odel:l"}, false},
}

func programs(alpha []string, maxLen int) [][]string {
	out := [][]string{}
	var rec func(cur []string)
	rec = func(cur []string) {
		if len(cur) > 0 {
			out = append(out, append([]string(nil), cur...))
		}
		if len(cur) == maxLen {
			return
		}
		for _, a := range alpha {
			rec(append(cur, a))
		}
	}
	rec(nil)
	return out
}

type undoGen struct {
	c       *Ctx
	i       int
	workers int
	me      int
	count   int
}

func (g *undoGen) mine() bool {
	g.count++
	return g.workers <= 1 || g.count%g.workers == g.me
}

func (g *undoGen) begin() *undoWorld {
	g.c.Trace(fmt.Sprintf("undo-%d-%d", g.c.Seed, g.i))
	g.i++
	return newUndoWorld(g.c)
}

func genC14(c *Ctx, g *undoGen) {
	maxEdits, maxUR := 3, 4
	if c.Tier == "thorough" {
		maxEdits, maxUR = 4, 6
	}
	strs := wellNested(maxUR)
	for _, al := range c14Alphabets {
		for _, prog := range programs(al.edits, maxEdits) {
			for _, ur := range strs {
				if ur == "" || !g.mine() {
					continue
				}
				w := g.begin()
				w.exec("R r0 " + ActorNat(mkActor(rand.New(rand.NewSource(int64(g.count))), 0)))
				for _, s := range al.setup {
					w.exec("E r0 " + s)
				}
				for _, e := range prog {
					w.exec("E r0 " + e)
				}
				for _, x := range ur {
					if x == 'U' {
						w.exec("UNDO r0")
					} else {
						w.exec("REDO r0")
					}
				}
				c.Nontrivial()
				c.Count("c14:exhaustive:" + al.kind)
			}
		}
	}
	c.stats.Exhaustive = true
	c.stats.ExhaustiveScope = fmt.Sprintf("C14: every program of <= %d edits over the per-container alphabets (obj, arr, arr-with-containers, "+
		"cnt, move/set-by-index) x every well-nested Undo/Redo string of length <= %d, single replica", maxEdits, maxUR)
	// random longer programs, undo depth up to 25, edits interleaved with undo/redo
	r := c.Rng
	for k := 0; k < c.N; k++ {
		w := g.begin()
		w.exec("R r0 " + ActorNat(mkActor(r, 0)))
		mode := []string{"rndc", "rndc", "rnd"}[r.Intn(3)]
		flat := []string{"flat", "nested"}[r.Intn(2)]
		steps := 10 + r.Intn(50)
		for s := 0; s < steps; s++ {
			switch x := r.Intn(100); {
			case x < 50:
				n := 1
				if r.Intn(5) == 0 {
					n = 2 + r.Intn(2)
				}
				if mode == "rnd" {
					w.exec(fmt.Sprintf("E r0 rnd:%d:%d", r.Int63(), n))
				} else {
					w.exec(fmt.Sprintf("E r0 rndc:%d:%d:%s", r.Int63(), n, flat))
				}
			case x < 80:
				for d := 1 + r.Intn(25)/(1+r.Intn(5)); d > 0; d-- {
					w.exec("UNDO r0")
				}
			default:
				for d := 1 + r.Intn(8); d > 0; d-- {
					w.exec("REDO r0")
				}
			}
		}
		c.Nontrivial()
		c.Count("c14:random:" + mode + ":" + flat)
	}
}

var c15Alphabets = []struct {
	kind  string
	setup []string
	edits []string
	gcOK  bool
}{
	{"obj", nil, []string{"oset:a", "odel:a"}, true},
	{"objn", nil, []string{"oin:b:x", "onewo:b"}, true},
	{"cnt", []string{"setup:cnt"}, []string{"inc:c:1", "cnew:c"}, true},
	{"arr", []string{"setup:arr"}, []string{"aadd", "adel0"}, false},
}

// histories enumerates step sequences: e<i>:<spec>, u<i>, r<i>, s<i>.
func c15Histories(alpha []string, maxEdits, maxTotal, maxUR, maxSync int, emit func([]string)) {
	var rec func(cur []string, edits [2]int, ur int, syncs int, undone [2]int, lastSync [2]bool)
	rec = func(cur []string, edits [2]int, ur, syncs int, undone [2]int, dirty [2]bool) {
		if ur > 0 && !strings.HasPrefix(cur[len(cur)-1], "s") {
			emit(cur)
		}
		for i := 0; i < 2; i++ {
			if edits[i] < maxEdits && edits[0]+edits[1] < maxTotal {
				for _, a := range alpha {
					e, u, d := edits, undone, dirty
					e[i]++
					u[i] = 0
					d[0], d[1] = true, true
					rec(append(cur[:len(cur):len(cur)], fmt.Sprintf("e%d:%s", i, a)), e, ur, syncs, u, d)
				}
			}
			if ur < maxUR && edits[i] > undone[i] {
				u, d := undone, dirty
				u[i]++
				d[0], d[1] = true, true
				rec(append(cur[:len(cur):len(cur)], fmt.Sprintf("u%d", i)), edits, ur+1, syncs, u, d)
			}
			if ur < maxUR && undone[i] > 0 {
				u, d := undone, dirty
				u[i]--
				d[0], d[1] = true, true
				rec(append(cur[:len(cur):len(cur)], fmt.Sprintf("r%d", i)), edits, ur+1, syncs, u, d)
			}
			// a sync is only placed when something happened since this client's last sync
			if syncs < maxSync && dirty[i] && len(cur) > 0 {
				d := dirty
				d[i] = false
				rec(append(cur[:len(cur):len(cur)], fmt.Sprintf("s%d", i)), edits, ur, syncs+1, undone, d)
			}
		}
	}
	rec(nil, [2]int{}, 0, 0, [2]int{}, [2]bool{})
}

func (w *undoWorld) runSteps(steps []string) {
	for _, s := range steps {
		rep := "r" + s[1:2]
		switch s[0] {
		case 'e':
			w.exec("E " + rep + " " + s[3:])
		case 'u':
			w.exec("UNDO " + rep)
		case 'r':
			w.exec("REDO " + rep)
		case 's':
			w.exec("SYNC " + rep)
		}
	}
}

func (w *undoWorld) startPair(r *rand.Rand, gc bool, setup []string) {
	if gc {
		w.exec("MODE gc=on")
	} else {
		w.exec("MODE gc=off")
	}
	w.exec("R r0 " + ActorNat(mkActor(r, 0)))
	w.exec("R r1 " + ActorNat(mkActor(r, 1)))
	for _, s := range setup {
		w.exec("E r0 " + s)
	}
	w.exec("SYNC r0")
	w.exec("SYNC r1")
}

func genC15(c *Ctx, g *undoGen) {
	maxEdits, maxTotal, maxUR, maxSync := 2, 3, 1, 2
	if c.Tier == "thorough" {
		maxEdits, maxTotal, maxUR, maxSync = 3, 3, 2, 3
	}
	if os.Getenv("UNDO_COUNT") != "" {
		for _, al := range c15Alphabets {
			n := 0
			c15Histories(al.edits, maxEdits, maxTotal, maxUR, maxSync, func([]string) { n++ })
			fmt.Fprintln(os.Stderr, "count", al.kind, n)
		}
		return
	}
	for _, al := range c15Alphabets {
		for _, gc := range []bool{false, true} {
			if gc && !al.gcOK {
				continue
			}
			c15Histories(al.edits, maxEdits, maxTotal, maxUR, maxSync, func(steps []string) {
				if !g.mine() {
					return
				}
				w := g.begin()
				w.startPair(rand.New(rand.NewSource(int64(g.count))), gc, al.setup)
				w.runSteps(steps)
				w.exec("FIN")
				for _, s := range steps {
					if s[0] == 'u' || s[0] == 'r' {
						c.Nontrivial()
					}
				}
				c.Count(fmt.Sprintf("c15:exhaustive:%s:gc=%t", al.kind, gc))
			})
		}
	}
	c.stats.Exhaustive = true
	c.stats.ExhaustiveScope = fmt.Sprintf("C15: 2 clients, <= %d edits per client (<= %d in total) from the two-edit alphabets obj, objn (nested), cnt, arr, "+
		"1..%d undo/redo calls, <= %d sync calls placed anywhere (a client syncs only when something happened since its last sync), "+
		"followed by quiescence; GC off for all, GC on (min version vector over the request vectors) for obj, objn and cnt",
		maxEdits, maxTotal, maxUR, maxSync)
	r := c.Rng
	for k := 0; k < c.N; k++ {
		w := g.begin()
		gc := r.Intn(2) == 0
		w.startPair(r, gc, nil)
		steps := 8 + r.Intn(30)
		ur := false
		for s := 0; s < steps && !w.dead; s++ {
			rep := fmt.Sprintf("r%d", r.Intn(2))
			switch x := r.Intn(100); {
			case x < 45:
				if gc {
					w.exec(fmt.Sprintf("E %s rndo:%d", rep, r.Int63()))
				} else {
					w.exec(fmt.Sprintf("E %s rndc:%d:1:%s", rep, r.Int63(), []string{"flat", "nested"}[r.Intn(2)]))
				}
			case x < 62:
				w.exec("UNDO " + rep)
				ur = true
			case x < 72:
				w.exec("REDO " + rep)
				ur = true
			default:
				w.exec("SYNC " + rep)
			}
		}
		w.exec("FIN")
		if ur && w.hasRemote {
			c.Nontrivial()
		}
		c.Count(fmt.Sprintf("c15:random:gc=%t", gc))
	}
}

func runUndo(c *Ctx) error {
	c.stats.Rule = "undo engine: forward edits and remote deliveries op-fed, Undo/Redo operations computed by the model from its own " +
		"stacks and compared with the operations of the change the implementation appended, Marshal() and stack depths after every " +
		"step; C14 stream: single replica, non-trivial = at least one Undo/Redo executed; C15 stream: two replicas over a simulated " +
		"server log with wire round trip, non-trivial = an undo/redo change was delivered to the peer; distinct by trace hash"
	reidOld = argOf("reid", "") == "old"
	if c.Replay != nil {
		var w *undoWorld
		for _, l := range c.Replay {
			if strings.HasPrefix(l, "T ") {
				c.Trace(strings.TrimPrefix(l, "T "))
				w = newUndoWorld(c)
				continue
			}
			if w == nil {
				c.Trace("replay")
				w = newUndoWorld(c)
			}
			w.exec(l)
		}
		return nil
	}
	g := &undoGen{c: c}
	g.workers, _ = strconv.Atoi(argOf("workers", "1"))
	g.me = int(c.Seed % 1000)
	switch argOf("stream", "c14") {
	case "c15":
		genC15(c, g)
	default:
		genC14(c, g)
	}
	return nil
}
