package main

// engine `llrb`: correspondence of pkg/llrb (ordered map behind RGATreeSplit.treeByID
// and Tree.NodeMapByID) with Model/Llrb.lean, plus the sorted-map oracle (C07, tree
// half).  After every command both sides print
//   <result> | <Tree.String()> | <shape: key=value:colour> | len=<Len()>
// Remove of an absent key dereferences nil in the Go code: both sides print `panic`
// and the trace ends there.

import (
	"fmt"
	"reflect"
	"sort"
	"strconv"
	"strings"

	"github.com/yorkie-team/yorkie/pkg/llrb"
)

func init() { register("llrb", runLlrb) }

type ikey struct{ k int }

func (a *ikey) Compare(other llrb.Key) int {
	o := other.(*ikey)
	switch {
	case a.k > o.k:
		return 1
	case a.k < o.k:
		return -1
	}
	return 0
}

type ival struct{ v int }

func (v *ival) String() string { return strconv.Itoa(v.v) }

type llSt struct {
	tree *llrb.Tree[*ikey, *ival]
	ref  map[int]int
	dead bool // a panic ended the trace
	// non-triviality statistics
	puts, removes, floors, floorBetween int
}

func newLLSt() *llSt { return &llSt{tree: llrb.NewTree[*ikey, *ival](), ref: map[int]int{}} }

type llInfo struct {
	bh    int
	colOK bool
}

func llWalk(n reflect.Value, sb *strings.Builder, keys *[]int, parentRed bool) llInfo {
	if n.IsNil() {
		sb.WriteByte('-')
		return llInfo{0, true}
	}
	e := n.Elem()
	red := rfield(e, "isRed").Bool()
	k := int(rfield(rfield(e, "key").Elem(), "k").Int())
	v := int(rfield(rfield(e, "value").Elem(), "v").Int())
	sb.WriteByte('(')
	li := llWalk(rfield(e, "left"), sb, keys, red)
	*keys = append(*keys, k)
	col := "B"
	if red {
		col = "R"
	}
	fmt.Fprintf(sb, " %d=%d:%s ", k, v, col)
	ri := llWalk(rfield(e, "right"), sb, keys, red)
	sb.WriteByte(')')
	rightRed := !rfield(e, "right").IsNil() && rfield(rfield(e, "right").Elem(), "isRed").Bool()
	return llInfo{bh: li.bh + 1 - b01(red), colOK: li.colOK && ri.colOK && li.bh == ri.bh && !rightRed && !(red && parentRed)}
}

func (s *llSt) obs(c *Ctx, res string) {
	root := rfield(reflect.ValueOf(s.tree).Elem(), "root")
	var sb strings.Builder
	var keys []int
	info := llWalk(root, &sb, &keys, false)
	str := s.tree.String()
	c.Obs("%s | %s | %s | len=%d", res, str, sb.String(), s.tree.Len())
	// oracle: the tree is the sorted map
	var want []int
	for k := range s.ref {
		want = append(want, k)
	}
	sort.Ints(want)
	var vals []string
	for _, k := range want {
		vals = append(vals, strconv.Itoa(s.ref[k]))
	}
	if fmt.Sprint(keys) != fmt.Sprint(want) {
		c.Oracle("in-order keys %v, specification %v", keys, want)
	}
	if str != strings.Join(vals, ",") {
		c.Oracle("String()=%s, specification %s", str, strings.Join(vals, ","))
	}
	if s.tree.Len() != len(s.ref) {
		c.Oracle("Len()=%d, specification %d", s.tree.Len(), len(s.ref))
	}
	if !info.colOK || (!root.IsNil() && rfield(root.Elem(), "isRed").Bool()) {
		c.Oracle("red-black invariant broken (Remove relies on it not to lose keys)")
	}
}

func (s *llSt) exec(c *Ctx, line string) {
	t := strings.Fields(line)
	num := func(i int) int {
		v, _ := strconv.Atoi(t[i])
		return v
	}
	if s.dead {
		c.Obs("dead")
		return
	}
	defer func() {
		if r := recover(); r != nil {
			s.dead = true
			c.Obs("panic")
			c.Oracle("%s panicked: %v", line, r)
		}
	}()
	switch t[0] {
	case "put":
		k, v := num(1), num(2)
		s.tree.Put(&ikey{k}, &ival{v})
		s.ref[k] = v
		s.puts++
		s.obs(c, "ok")
	case "rem":
		k := num(1)
		panicked := func() (p bool) {
			defer func() {
				if r := recover(); r != nil {
					p = true
				}
			}()
			s.tree.Remove(&ikey{k})
			return false
		}()
		_, present := s.ref[k]
		if panicked {
			if present {
				c.Oracle("Remove(%d) of a present key panicked", k)
			}
			c.Count("remove:absent-key-panic")
			s.dead = true
			c.Obs("panic")
			return
		}
		if !present {
			c.Count("remove:absent-key-no-panic")
		}
		delete(s.ref, k)
		s.removes++
		s.obs(c, "ok")
	case "floor":
		q := num(1)
		k, v := s.tree.Floor(&ikey{q})
		res := "nil"
		if k != nil {
			res = fmt.Sprintf("%d=%d", k.k, v.v)
		}
		want, best := "nil", -1
		for kk := range s.ref {
			if kk <= q && kk > best {
				best = kk
			}
		}
		if best >= 0 {
			want = fmt.Sprintf("%d=%d", best, s.ref[best])
			if best != q {
				s.floorBetween++
			}
		}
		if res != want {
			c.Oracle("Floor(%d)=%s, specification (greatest key <= query) %s", q, res, want)
		}
		s.floors++
		s.obs(c, res)
	default:
		c.Obs("bad-op")
	}
}

func (s *llSt) execQuiet(line string) {
	q := &Ctx{cmds: nullWriter(), impl: nullWriter(), orc: nullWriter()}
	q.stats.Dist = map[string]int{}
	s.exec(q, line)
}

func runLlrb(c *Ctx) error {
	c.stats.Rule = "op sequences on a real llrb.Tree[*ikey,*ival]; non-trivial = at least 3 Put, 1 Remove and 2 Floor, " +
		"at least one Floor answered by a strictly smaller key; distinct by trace hash"
	if c.Replay != nil {
		s := newLLSt()
		for _, l := range c.Replay {
			if strings.HasPrefix(l, "T ") {
				c.Trace(strings.TrimPrefix(l, "T "))
				s = newLLSt()
				continue
			}
			c.Cmd("%s", l)
			s.exec(c, l)
		}
		return nil
	}
	run := func(s *llSt, l string) {
		c.Cmd("%s", l)
		s.exec(c, l)
	}
	finish := func(s *llSt) {
		if s.puts >= 3 && s.removes >= 1 && s.floors >= 2 && s.floorBetween >= 1 {
			c.Nontrivial()
		}
	}
	worker := int(c.Seed % 1000)
	depth := 4
	if c.Tier == "thorough" {
		depth = 5
	}
	bases := [][]string{
		{},
		{"put 2 20", "put 4 40", "put 6 60"},
		{"put 1 10", "put 2 20", "put 3 30", "put 4 40", "put 5 50", "put 6 60", "put 7 70"},
		{"put 7 70", "put 6 60", "put 5 50", "put 4 40", "put 3 30", "put 2 20", "put 1 10", "rem 4"},
	}
	if worker < 8 {
		c.stats.Exhaustive = true
		c.stats.ExhaustiveScope = fmt.Sprintf("llrb: all sequences of %d ops over keys 1..7 (Put of every key, Remove of every present key, "+
			"Floor 0..8) from %d base maps (empty, 3, 7 ascending, 7 descending minus one); share %d/8 of the first-op index", depth, len(bases), worker)
		for bi, base := range bases {
			count := 0
			var rec func(prefix []string)
			rec = func(prefix []string) {
				s := newLLSt()
				for _, l := range base {
					s.execQuiet(l)
				}
				for _, l := range prefix {
					s.execQuiet(l)
				}
				if len(prefix) == depth {
					c.Trace(fmt.Sprintf("llrb-exh-%d-b%d-%d", worker, bi, count))
					count++
					s2 := newLLSt()
					for _, l := range base {
						run(s2, l)
					}
					for _, l := range prefix {
						run(s2, l)
					}
					finish(s2)
					c.Count("exhaustive-traces")
					return
				}
				var ops []string
				for k := 1; k <= 7; k++ {
					ops = append(ops, fmt.Sprintf("put %d %d", k, 100+len(prefix)))
					if _, ok := s.ref[k]; ok {
						ops = append(ops, fmt.Sprintf("rem %d", k))
					}
				}
				// Floor does not change the tree: only as the last op, and on keys around the present ones
				if len(prefix) == depth-1 {
					for q := 0; q <= 8; q++ {
						ops = append(ops, fmt.Sprintf("floor %d", q))
					}
				}
				for i, op := range ops {
					if len(prefix) == 0 && i%8 != worker {
						continue
					}
					rec(append(append([]string{}, prefix...), op))
				}
			}
			rec(nil)
		}
	}

	r := c.Rng
	for i := 0; i < c.N; i++ {
		c.Trace(fmt.Sprintf("llrb-%d-%d", c.Seed, i))
		s := newLLSt()
		steps := 10 + r.Intn(120)
		universe := 4 + r.Intn(60)
		v := 1
		for k := 0; k < steps && !s.dead; k++ {
			x := r.Intn(100)
			switch {
			case x < 40:
				run(s, fmt.Sprintf("put %d %d", r.Intn(universe), v))
				v++
				c.Count("op:put")
			case x < 65 && len(s.ref) > 0:
				// a present key
				var ks []int
				for kk := range s.ref {
					ks = append(ks, kk)
				}
				sort.Ints(ks)
				run(s, fmt.Sprintf("rem %d", ks[r.Intn(len(ks))]))
				c.Count("op:remove")
			case x < 66 && k > steps-3:
				// boundary: Remove of an absent key (or on the empty tree) panics; ends the trace
				q := r.Intn(universe + 2)
				if _, ok := s.ref[q]; !ok {
					run(s, fmt.Sprintf("rem %d", q))
				}
			default:
				run(s, fmt.Sprintf("floor %d", r.Intn(universe+2)))
				c.Count("op:floor")
			}
		}
		finish(s)
	}
	return nil
}
