"""Shared pieces of the per-property configuration."""

BASE_TB = [
    "Lean 4.33.0 kernel + elaborator (lake build); thorough tier: leanchecker re-check",
    "axioms allowed: propext, Classical.choice, Quot.sound (audited per theorem on every run)",
    "hand-written Lean model; tied to /repo by differential replay (Go harness rebuilt from the working tree on every run)",
    "harness/, check.py, the Lean driver (Main.lean) and its string parsing/printing",
]
