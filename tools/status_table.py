#!/usr/bin/env python3
"""Prints the per-property status table of DESIGN.md §11.4 from props.d and the Props modules."""
import os, sys, re
ROOT = os.path.dirname(os.path.dirname(os.path.abspath(__file__)))
sys.path.insert(0, ROOT)
from props import PROPS
import check
print("| property | theorems per Props module | engines (tie to the code) |")
print("|---|---|---|")
for pid in sorted(PROPS):
    P = PROPS[pid]
    mods = []
    tot = 0
    for m in P["modules"]:
        n = len(check.theorem_names(m)); tot += n
        mods.append(f"`{m.split('.')[-1]}` {n}")
    eng = ", ".join(f"`{e['name']}`" + (f" ({' '.join(e['args'])})" if e.get("args") else "") for e in P["engines"])
    print(f"| {pid} | {tot}: " + ", ".join(mods) + f" | {eng} |")
