#!/usr/bin/env python3
"""Regenerate MANIFEST.json from props.py (single source of truth)."""
import json, os, sys
ROOT = os.path.dirname(os.path.abspath(__file__))
sys.path.insert(0, ROOT)
from props import PROPS, NOT_APPLICABLE, HOOK_COMMITS

all_ids = [json.loads(l)["id"] for l in open(os.path.join(ROOT, "properties.jsonl"))]
checks = []
for pid in all_ids:
    if pid not in PROPS:
        continue
    P = PROPS[pid]
    checks.append({
        "property_id": pid,
        "quick_cmd": f"./check.py {pid} --tier quick",
        "thorough_cmd": f"./check.py {pid} --tier thorough",
        "evidence_file": f"/verif/evidence/{pid}.json",
        "replay_cmd_template": f"./check.py {pid} --replay {{path}}",
        "engine": "+".join(e["name"] for e in P["engines"]) or "lean-only",
        "level_claimed": {"category": P.get("level", "proof"), "text": P["level_text"], "design_ref": P.get("design_ref", "DESIGN.md §5 " + pid)},
        "level_note": P["level_note"],
        "technique": P["technique"],
    })
na = [{"property_id": pid, "reason": NOT_APPLICABLE.get(pid, "no check built yet in this round; not claimed (see DESIGN.md §9)")}
      for pid in all_ids if pid not in PROPS]
m = {
    "version": 1,
    "setup_cmd": "./setup.sh",
    "hooks": {
        "guard": "verif",
        "enable": "go build -tags verif (harness module with `replace github.com/yorkie-team/yorkie => /repo`)",
        "baseline_off_cmd": "cd /repo && go test -mod=mod -vet=off -count=1 -timeout 25m ./...",
        "source_commits": HOOK_COMMITS,
        "add_only": True,
    },
    "engines": [
        {"name": "lean-model", "path": "lean/", "serves_properties": [c["property_id"] for c in checks],
         "kind_free_text": "Lean 4 model + property theorems (lake build, #print axioms audit, leanchecker) and the core-only line-protocol driver"},
        {"name": "go-harness", "path": "harness/", "serves_properties": [c["property_id"] for c in checks],
         "kind_free_text": "Go correspondence harness: drives the real packages from /repo's working tree, writes command/observation streams that are diffed against the Lean driver; also evaluates each property's own oracle"},
        {"name": "factgen", "path": "factgen/", "serves_properties": [p for p in ("C13", "C16", "C09") if p in PROPS],
         "kind_free_text": "go/ast fact extractor that regenerates lean/YorkieModel/Generated/*.lean from the source on every run"},
    ],
    "checks": checks,
    "not_applicable": na,
    "notes": "All checks: ./check.py <id> --tier quick|thorough (VERIF_SEED respected). Deciding technique is machine-checked proof in Lean 4 about a hand-written model, tied to the code by differential replay (and regenerated fact tables). See DESIGN.md.",
}
json.dump(m, open(os.path.join(ROOT, "MANIFEST.json"), "w"), indent=1)
print("checks:", [c["property_id"] for c in checks], "not_applicable:", len(na))
