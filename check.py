#!/usr/bin/env python3
"""check.py <PROPERTY> [--tier quick|thorough] [--replay FILE]

One run =  factgen (regenerated fact tables)  ->  lake build of the property's
theorems and the driver  ->  axiom audit + text scan  ->  go build of the harness
against /repo's working tree (-tags verif)  ->  corpus + generated traces through
the real code and through the Lean model, diffed line by line  ->  the property's
own oracle on the implementation runs  ->  evidence/<id>.json.

Exit 0: everything explored held.  Exit 1: prints
`VIOLATION property=<id> replay=<path>[ no-failing-input-found]`.
"""
import argparse, concurrent.futures as cf, fcntl, hashlib, json, os, re, shutil, subprocess, sys, time

ROOT = os.path.dirname(os.path.abspath(__file__))
LEAN = os.path.join(ROOT, "lean")
HARN = os.path.join(ROOT, "harness")
BUILD = os.path.join(ROOT, ".build")
REPO = os.environ.get("VERIF_REPO", "/repo")
ALLOWED_AXIOMS = {"propext", "Classical.choice", "Quot.sound"}

sys.path.insert(0, ROOT)
from props import PROPS  # noqa: E402


def sh(cmd, cwd=None, env=None, timeout=None, stdin=None, stdout=subprocess.PIPE):
    e = dict(os.environ)
    if env:
        e.update(env)
    p = subprocess.run(cmd, cwd=cwd, env=e, timeout=timeout, stdin=stdin, stdout=stdout,
                       stderr=subprocess.STDOUT, text=True)
    return p.returncode, (p.stdout or "")


class Lock:
    def __init__(self, name):
        os.makedirs(BUILD, exist_ok=True)
        self.f = open(os.path.join(BUILD, name + ".lock"), "w")

    def __enter__(self):
        fcntl.flock(self.f, fcntl.LOCK_EX)

    def __exit__(self, *a):
        fcntl.flock(self.f, fcntl.LOCK_UN)


GOENV = {"GOFLAGS": "-mod=mod", "GOPROXY": "off", "GOTOOLCHAIN": os.environ.get("GOTOOLCHAIN", "auto")}


def go_env():
    e = dict(GOENV)
    e.pop("GOTOOLCHAIN")  # leave as configured; the default go auto-switches to the cached 1.25.0
    return e


def build_harness(log, extra_builds=(), tier="quick"):
    """Rebuild harness + factgen from /repo's current working tree, hooks on.
    extra_builds: [{"name": binary, "flags": [...], "tiers": [...]}] additional variants of the
    harness binary (C16: `-race`), built only in the listed tiers."""
    with Lock("go"):
        shutil.copyfile(os.path.join(REPO, "go.sum"), os.path.join(HARN, "go.sum"))
        rc, out = sh(["go", "build", "-tags", "verif", "-o", os.path.join(BUILD, "yk-harness"), "."],
                     cwd=HARN, env=go_env(), timeout=900)
        log.append(("go build harness", rc, out[-4000:]))
        for xb in extra_builds:
            if rc == 0 and tier in xb.get("tiers", []):
                rc, out2 = sh(["go", "build"] + xb["flags"] + ["-tags", "verif", "-o", os.path.join(BUILD, xb["name"]), "."],
                              cwd=HARN, env=go_env(), timeout=1800)
                log.append(("go build " + xb["name"], rc, out2[-4000:]))
                out += out2
        return rc == 0, out


def run_factgen(log):
    """T-gen: regenerate Generated/*.lean from the source (delete first)."""
    fg = os.path.join(ROOT, "factgen")
    if not os.path.isdir(fg):
        return True, ""
    with Lock("go"):
        rc, out = sh(["go", "build", "-o", os.path.join(BUILD, "factgen"), "."], cwd=fg, env=go_env(), timeout=600)
        if rc != 0:
            log.append(("go build factgen", rc, out[-4000:]))
            return False, out
    gen = os.path.join(LEAN, "YorkieModel", "Generated")
    with Lock("lake"):
        rc, out = sh([os.path.join(BUILD, "factgen"), "-repo", REPO, "-out", gen], timeout=300)
    log.append(("factgen", rc, out[-4000:]))
    return rc == 0, out


def lake_build(targets, log):
    with Lock("lake"):
        rc, out = sh(["lake", "build"] + targets, cwd=LEAN, timeout=3000)
    log.append(("lake build " + " ".join(targets), rc, out[-6000:]))
    return rc == 0, out


def strip_comments(src):
    # remove /- ... -/ (nested not handled beyond one level) and -- comments
    out, i, depth = [], 0, 0
    while i < len(src):
        if src.startswith("/-", i):
            depth += 1
            i += 2
        elif src.startswith("-/", i) and depth > 0:
            depth -= 1
            i += 2
        elif depth > 0:
            i += 1
        elif src.startswith("--", i):
            j = src.find("\n", i)
            i = len(src) if j < 0 else j
        else:
            out.append(src[i])
            i += 1
    return "".join(out)


FORBIDDEN = re.compile(r"\b(sorry|admit|native_decide|bv_decide|implemented_by|unsafe)\b|^\s*axiom\s|maxHeartbeats\s+0\b", re.M)


def text_scan():
    bad = []
    for d, _, fs in os.walk(os.path.join(LEAN, "YorkieModel")):
        for f in fs:
            if f.endswith(".lean"):
                p = os.path.join(d, f)
                s = strip_comments(open(p).read())
                for m in FORBIDDEN.finditer(s):
                    bad.append(f"{os.path.relpath(p, LEAN)}: {m.group(0).strip()}")
    return bad


def theorem_names(module):
    """Names of the theorems declared in a Props module (with namespace)."""
    p = os.path.join(LEAN, module.replace(".", "/") + ".lean")
    src = strip_comments(open(p).read())
    ns, names = [], []
    for line in src.splitlines():
        m = re.match(r"\s*namespace\s+(\S+)", line)
        if m:
            ns.append(m.group(1))
            continue
        m = re.match(r"\s*end\s+(\S+)", line)
        if m and ns and ns[-1] == m.group(1):
            ns.pop()
            continue
        m = re.match(r"\s*(?:@\[[^\]]*\]\s*)?(?:private\s+|protected\s+)?theorem\s+(\S+)", line)
        if m:
            names.append(".".join(ns + [m.group(1)]))
    return names


def audit(pid, modules, log):
    """#print axioms for every theorem of the property's Props modules."""
    names = []
    for m in modules:
        names += theorem_names(m)
    os.makedirs(os.path.join(LEAN, ".audit"), exist_ok=True)
    f = os.path.join(LEAN, ".audit", f"Audit_{pid}_{os.getpid()}.lean")
    with open(f, "w") as fh:
        for m in modules:
            fh.write(f"import {m}\n")
        for n in names:
            fh.write(f"#print axioms {n}\n")
    rc, out = sh(["lake", "env", "lean", f], cwd=LEAN, timeout=1200)
    os.remove(f)
    log.append(("axiom audit", rc, out[-3000:]))
    res = {}
    for m in re.finditer(r"'(\S+)' depends on axioms: \[([^\]]*)\]", out.replace("\n ", " ").replace("\n", " ")):
        res[m.group(1)] = [a.strip() for a in m.group(2).split(",") if a.strip()]
    for m in re.finditer(r"'(\S+)' does not depend on any axioms", out):
        res[m.group(1)] = []
    ok, bad = [], []
    for n in names:
        if n in res and set(res[n]) <= ALLOWED_AXIOMS:
            ok.append(n)
        else:
            bad.append((n, res.get(n, "not-checked")))
    return names, ok, bad, res


def split_traces(path):
    """[(trace id, [lines])] from a T-delimited stream."""
    traces, cur, tid = [], [], None
    with open(path, errors="replace") as fh:
        for line in fh:
            line = line.rstrip("\n")
            if line.startswith("T "):
                if tid is not None:
                    traces.append((tid, cur))
                tid, cur = line[2:], []
            elif tid is not None:
                cur.append(line)
    if tid is not None:
        traces.append((tid, cur))
    return traces


def run_engine_worker(args):
    pid, engine, seed, n, tier, outdir, replay, extra = args[:8]
    opts = args[8] if len(args) > 8 else {}
    os.makedirs(outdir, exist_ok=True)
    cmd = [os.path.join(BUILD, opts.get("binary") or "yk-harness"), engine, "-seed", str(seed), "-n", str(n), "-tier", tier, "-out", outdir]
    if replay:
        cmd += ["-replay", replay]
    cmd += extra
    t0 = time.time()
    env = {"GOMEMLIMIT": "6GiB"}
    for k, v in (opts.get("env") or {}).items():
        env[k] = v.replace("{out}", outdir)
    rc, out = sh(cmd, timeout=3600, env=env)
    if rc != 0:
        # a worker killed from outside (OOM killer, loaded machine) exits non-zero without a word; a crash
        # that belongs to the input recurs, so run the same worker once more before calling it a failure
        first = f"[first attempt rc={rc}: {out[-400:]}] "
        rc, out = sh(cmd, timeout=3600, env=env)
        out = first + out
    res = {"engine": engine, "seed": seed, "dir": outdir, "rc": rc, "harness_out": out[-3000:], "replay": replay}
    if rc != 0:
        res["error"] = "harness-failed"
        res["harness_out"] = f"rc={rc} cmd={' '.join(cmd)} env={env} :: " + out[-3000:]
        return res
    with open(os.path.join(outdir, "cmds.txt")) as fi, open(os.path.join(outdir, "model.txt"), "w") as fo:
        p = subprocess.run([os.path.join(LEAN, ".lake", "build", "bin", "driver"), engine], stdin=fi, stdout=fo,
                           stderr=subprocess.PIPE, text=True, timeout=3600)
    if p.returncode != 0:
        res["error"] = "driver-failed"
        res["driver_err"] = p.stderr[-2000:]
        return res
    res["wall"] = time.time() - t0
    # diff per trace
    impl = split_traces(os.path.join(outdir, "impl.txt"))
    model = split_traces(os.path.join(outdir, "model.txt"))
    cmds = split_traces(os.path.join(outdir, "cmds.txt"))
    res["traces"] = len(impl)
    res["lines"] = sum(len(l) for _, l in impl)
    mism = []
    if len(impl) != len(model):
        mism.append({"trace": "(stream)", "why": f"trace count impl={len(impl)} model={len(model)}"})
    cm = dict(cmds)
    for (ti, li), (tm, lm) in zip(impl, model):
        if li != lm:
            k = next((i for i, (a, b) in enumerate(zip(li, lm)) if a != b), min(len(li), len(lm)))
            mism.append({"trace": ti, "line": k, "impl": li[k] if k < len(li) else "<eof>",
                         "model": lm[k] if k < len(lm) else "<eof>", "cmds": cm.get(ti, [])})
            if len(mism) >= 20:
                break
    res["mismatches"] = mism
    # every oracle line is classified: lines tagged KNOWN[<tag>] are kept once per tag (with the
    # first trace that showed them), untagged ones (candidate violations) are all counted and the
    # first 50 kept with their commands, so known findings can never crowd out a new violation
    orc, seen_tags, n_all = [], set(), 0
    with open(os.path.join(outdir, "oracle.txt")) as fh:
        for line in fh:
            n_all += 1
            t, _, msg = line.rstrip("\n").partition("\t")
            m = re.match(r"KNOWN\[([^\]]+)\]", msg)
            if m:
                if m.group(1) in seen_tags:
                    continue
                seen_tags.add(m.group(1))
                orc.append({"trace": t, "msg": msg, "cmds": cm.get(t, []) or [f"# trace {t}"]})
            elif sum(1 for o in orc if not o["msg"].startswith("KNOWN[")) < 50:
                orc.append({"trace": t, "msg": msg, "cmds": cm.get(t, []) or [f"# trace {t}"]})
    res["oracle"] = orc
    res["oracle_count"] = n_all
    res["stats"] = json.load(open(os.path.join(outdir, "stats.json")))
    return res


def load_known():
    p = os.path.join(ROOT, "known_findings.json")
    if os.path.exists(p):
        return json.load(open(p))
    return {"findings": [], "fixed": []}


def write_replay(pid, engine, kind, detail, cmds, extra_header=(), trace_id="replay"):
    os.makedirs(os.path.join(ROOT, "replay"), exist_ok=True)
    h = hashlib.sha256(("\n".join(cmds) + kind + detail).encode()).hexdigest()[:12]
    path = os.path.join(ROOT, "replay", f"{pid}-{engine}-{h}.trace")
    with open(path, "w") as fh:
        fh.write(f"# property={pid} engine={engine} kind={kind}\n")
        for l in detail.splitlines():
            fh.write(f"# {l}\n")
        for l in extra_header:
            fh.write(f"# {l}\n")
        fh.write(f"# replay: ./check.py {pid} --replay {path}\n")
        fh.write(f"T {trace_id}\n")
        for l in cmds:
            fh.write(l + "\n")
    return path


def main():
    ap = argparse.ArgumentParser()
    ap.add_argument("pid")
    ap.add_argument("--tier", default=os.environ.get("VERIF_TIER", "quick"))
    ap.add_argument("--replay")
    ap.add_argument("--jobs", type=int, default=int(os.environ.get("VERIF_JOBS", "12")))
    a = ap.parse_args()
    pid, tier = a.pid, a.tier
    seed = int(os.environ.get("VERIF_SEED", "0") or 0)
    if pid not in PROPS:
        print(f"unknown property {pid}")
        return 2
    P = PROPS[pid]
    t0 = time.time()
    log, violations, known_hit = [], [], []
    os.makedirs(BUILD, exist_ok=True)
    rundir = os.path.join(BUILD, f"run-{pid}-{os.getpid()}")
    shutil.rmtree(rundir, ignore_errors=True)
    os.makedirs(rundir)
    known = load_known()
    my_known = [f for f in known.get("findings", []) if f["property"] == pid]

    # 1. T-gen
    ok_gen, out_gen = run_factgen(log)
    # 2. theorems + driver
    modules = P["modules"]
    ok_lake, out_lake = lake_build(modules + ["driver"], log)
    broken = []
    if not ok_gen:
        broken.append("factgen failed: " + out_gen[-500:])
    if not ok_lake:
        bad_mods = re.findall(r"^- (\S+)", out_lake, re.M)
        errs = re.findall(r"^error: (.*)$", out_lake, re.M)
        broken.append("lake build failed in " + ",".join(bad_mods) + " :: " + " | ".join(errs[:5]))
    # 3. audit
    names, ok_names, bad_names, axmap = [], [], [], {}
    scan = text_scan()
    if ok_lake:
        names, ok_names, bad_names, axmap = audit(pid, modules, log)
        for n, ax in bad_names:
            broken.append(f"theorem {n}: axioms {ax}")
    for s in scan:
        broken.append("forbidden token " + s)
    if a.tier == "thorough" and ok_lake and not a.replay:
        for m in modules:
            rc, out = sh(["lake", "env", "leanchecker", m], cwd=LEAN, timeout=3000)
            log.append(("leanchecker " + m, rc, out[-1500:]))
            if rc != 0:
                broken.append(f"leanchecker rejected {m}: {out[-300:]}")
    # 4. harness
    ok_go, out_go = build_harness(log, P.get("extra_builds", []), tier)
    if not ok_go:
        broken.append("harness does not build against /repo: " + out_go[-800:])

    # 5. correspondence + oracle
    results = []
    driver_ok = os.path.exists(os.path.join(LEAN, ".lake", "build", "bin", "driver"))
    if ok_go and driver_ok:
        jobs = []
        if a.replay:
            eng = None
            for l in open(a.replay):
                m = re.match(r"# property=\S+ engine=(\S+)", l)
                if m:
                    eng = m.group(1)
            eng = eng or P["engines"][0]["name"]
            jobs.append((pid, eng, seed, 0, tier, os.path.join(rundir, "replay"), a.replay, []))
        else:
            for E in P["engines"]:
                cdir = os.path.join(ROOT, "corpus", pid)
                if os.path.isdir(cdir):
                    for f in sorted(os.listdir(cdir)):
                        if f.endswith(".trace") and f.startswith(E["name"] + "-"):
                            jobs.append((pid, E["name"], seed, 0, tier, os.path.join(rundir, "corpus-" + f),
                                         os.path.join(cdir, f), E.get("args", [])))
                # E[tier] plus optional variants E[tier + "_<variant>"] (own binary / environment, e.g. -race)
                for ck in [k for k in E if k == tier or k.startswith(tier + "_")]:
                    n = E[ck]["n"]
                    w = E[ck].get("workers", 8)
                    for k in range(w):
                        jobs.append((pid, E["name"], seed * 1000 + k + (500 if ck != tier else 0), max(1, n // w), tier,
                                     os.path.join(rundir, f"{E['name']}-{ck}-{k}"), None,
                                     E.get("args", []) + E[ck].get("args", []),
                                     {"binary": E[ck].get("binary"), "env": E[ck].get("env")}))
        with cf.ThreadPoolExecutor(max_workers=a.jobs) as ex:
            results = list(ex.map(run_engine_worker, jobs))

    # 6. decide
    tot = {"traces": 0, "lines": 0, "dn": 0, "cmds": 0}
    dist, samples, rules, exh = {}, [], [], []
    for r in results:
        if "error" in r:
            violations.append(("harness", r["engine"], f"{r['error']}: {r.get('harness_out','')[:900]} {r.get('driver_err','')}", [], "replay"))
            continue
        st = r["stats"]
        tot["traces"] += r["traces"]
        tot["lines"] += r["lines"]
        tot["dn"] += st["distinct_nontrivial"]
        tot["cmds"] += st["commands"]
        for k, v in st["distribution"].items():
            dist[k] = dist.get(k, 0) + v
        if len(samples) < 4:
            samples += st["samples"][:1]
        if st["rule"] not in rules:
            rules.append(st["rule"])
        if st.get("exhaustive"):
            exh.append(st.get("exhaustive_scope", r["engine"]))
        for m in r["mismatches"]:
            detail = (f"correspondence {r['engine']} broken: model and implementation differ\n"
                      f"trace={m.get('trace')} line={m.get('line')}\nimpl : {m.get('impl')}\nmodel: {m.get('model')}\n"
                      f"{m.get('why','')}\ntheorems of {','.join(modules)} no longer speak about this code path")
            violations.append(("correspondence", r["engine"], detail, m.get("cmds", []), m.get("trace", "replay")))
        for o in r["oracle"]:
            kf = next((f for f in my_known if f.get("oracle_tag") and o["msg"].startswith("KNOWN[" + f["oracle_tag"] + "]")), None)
            if kf:
                if kf["id"] not in known_hit:
                    known_hit.append(kf["id"])
                continue
            violations.append(("oracle", r["engine"], "property oracle failed on the implementation: " + o["msg"], o["cmds"], o["trace"]))

    # a broken proof obligation / tie without any failing input found
    out_lines = []
    exit_code = 0
    # oracle/correspondence violations carry a concrete input
    concrete = [v for v in violations if v[3]]
    seen_paths = set()
    if concrete:
        for kind, eng, detail, cmds, tid in concrete[:5]:
            extra = ["broken obligations: " + "; ".join(broken)] if broken else []
            path = write_replay(pid, eng, kind, detail, cmds, extra, tid)
            if path not in seen_paths:
                seen_paths.add(path)
                out_lines.append(f"VIOLATION property={pid} replay={path}")
        exit_code = 1
    elif broken or violations:
        detail = "no longer checks:\n" + "\n".join(broken + [v[2] for v in violations])
        path = write_replay(pid, P["engines"][0]["name"] if P["engines"] else "none", "obligation", detail, [])
        out_lines.append(f"VIOLATION property={pid} replay={path} no-failing-input-found")
        exit_code = 1
    for fid in known_hit:
        f = next(x for x in my_known if x["id"] == fid)
        out_lines.append(f"KNOWN-FINDING: property={pid} {f['what']}")

    # 7. evidence
    wall = time.time() - t0
    ev = {
        "property_id": pid, "tier": "thorough" if tier == "thorough" else "quick", "seed": seed,
        "level": P.get("level", "proof"),
        "coverage": {
            "obligations": len(names) + len(P.get("generated_obligations", [])),
            "discharged": len(ok_names) + (len(P.get("generated_obligations", [])) if ok_lake else 0),
            "checker_cmd": f"cd lean && lake build {' '.join(modules)} driver && lake env lean <#print axioms of every theorem>"
                           + (" && lake env leanchecker <module>" if tier == "thorough" else ""),
            "trusted_base": P["trusted_base"],
            "theorems": ok_names,
            "axioms_used": sorted({x for n in ok_names for x in axmap.get(n, [])}),
            "traces_validated_against_impl": tot["traces"],
            "evaluations": max(tot["traces"], 1) if results else 0,
            "observation_lines_compared": tot["lines"],
            "distinct_nontrivial": tot["dn"],
            "rule": " || ".join(rules),
            "samples": samples or ["(no trace generated: build failed)"],
            "distribution": dist,
            "exhaustive": bool(exh),
            "exhaustive_scopes": exh,
            "partial": P.get("partial", []),
            "not_modelled": P.get("not_modelled", []),
            "known_findings_hit": known_hit,
            "broken": broken,
        },
        "assumptions": P.get("assumptions", []),
        "wall_s": round(wall, 2),
        "violations": len(violations) + (1 if broken and not violations else 0),
    }
    os.makedirs(os.path.join(ROOT, "evidence"), exist_ok=True)
    if not a.replay:
        with open(os.path.join(ROOT, "evidence", f"{pid}.json"), "w") as fh:
            json.dump(ev, fh, indent=1)
    else:
        for r in results:
            print(json.dumps({k: r.get(k) for k in ("engine", "mismatches", "oracle", "error", "harness_out")}, indent=1)[:6000])
    with open(os.path.join(rundir, "log.json"), "w") as fh:
        json.dump(log, fh, indent=1)
    for l in out_lines:
        print(l)
    print(f"{pid} {tier}: theorems {len(ok_names)}/{len(names)} traces={tot['traces']} lines={tot['lines']} "
          f"distinct_nontrivial={tot['dn']} violations={len(violations)} broken={len(broken)} wall={wall:.1f}s")
    if exit_code == 0 and not os.environ.get("VERIF_KEEP"):
        shutil.rmtree(rundir, ignore_errors=True)
    return exit_code


if __name__ == "__main__":
    sys.exit(main())
