package main

// extractor `Locks` (C16): per function of the server packages the ordered
// sequence of named-lock acquisitions (`….Lockers.Locker / LockerWithRLock /
// LockerWithTryLock(<KeyCtor>(…))`), the releases, and the calls to other
// extracted functions in between, so that each handler's *flattened*
// acquisition sequence can be computed inside Lean (Model/Locks.lean `flatten`).
//
// Purely syntactic (go/parser + go/ast, no type checking):
//
//   * scope: every non-test .go file under server/ (recursively);
//   * a lock class is the name of the key constructor (DocKey, DocPullKey, …) or,
//     when the key is a plain identifier, that identifier (compactionKey, …);
//   * `defer v.Unlock()` / `defer v.RUnlock()` right after the acquisition makes the
//     release *deferred*: it is emitted at the end of the function's event list in
//     LIFO order (Go runs deferred calls at function return, also for a `defer`
//     written inside an `if` block);
//   * a call is resolved by name only: `f(…)` → same package, `alias.f(…)` → the
//     imported yorkie package, `recv.m(…)` → method of the enclosing receiver type,
//     `cc.M(…)` where `cc` was assigned from `….ClusterClient()` → the handler
//     `server/rpc.clusterServer.M` (an intra-cluster RPC, flagged `rpc`);
//     every other call is unresolved and ignored (the DB, cache and pub/sub layers
//     do not use `Lockers`; `lockerUsesOutsideScope` / `opaqueLockerUses` make that
//     an obligation instead of an assumption);
//   * function literals handed to `go`, `….Go(…)` or `….AttachGoroutine(…)` run on
//     another goroutine: they become their own entries `<outer>$go<N>` and the
//     outer function only records a `spawn`; every other function literal is
//     treated as if it ran synchronously where it is written (conservative: the
//     thread is then assumed to still hold whatever the definer holds);
//   * every acquisition site records the CONDITION under which it is taken
//     (`cond`): the source text of the conditions of the `if` statements that
//     enclose it inside its function (function literals included), outermost
//     first, whitespace collapsed; an `else` branch contributes `!(<cond>)`, a
//     `case` clause `case <tag>: <exprs>` (`default` for the default clause);
//     several enclosing conditions are joined as `(c1) && (c2)`; the empty
//     string means the acquisition is unconditional. Early returns *before* an
//     acquisition are not conditions in this sense (they end the request).
//
// Only functions from which an acquisition is reachable are emitted.

import (
	"bytes"
	"fmt"
	"go/ast"
	"go/parser"
	"go/printer"
	"go/token"
	"os"
	"path/filepath"
	"sort"
	"strconv"
	"strings"
)

func init() { register("Locks", genLocks) }

const yorkieImport = "github.com/yorkie-team/yorkie/"

type lkEv struct {
	kind   string // acq | rel | call | spawn
	cls    string
	mode   string // W R T
	site   int
	callee string
	rpc    bool
	inLoop bool
}

type lkSite struct {
	fn, cls, mode, file string
	line                int
	rel                 string // deferred | explicit | none
	relMatches          bool
	gap                 int
	guarded             bool
	inLoop              bool
	explicitRels        int
	returnsBeforeRel    int
	cond                string // enclosing if-conditions, normalised; "" = unconditional
}

type lkFn struct {
	key, file string
	line      int
	exported  bool
	recv      string
	evs       []lkEv
	deferred  []lkEv
	decl      *ast.FuncDecl
	lit       *ast.FuncLit
	dir       string
	imports   map[string]string // alias -> repo-relative dir
	recvName  string
	spawned   bool
}

type lkCtx struct {
	repo    string
	fset    *token.FileSet
	fns     map[string]*lkFn
	order   []string
	sites   []lkSite
	opaque  []string
	prefix  map[string]string
	unknown []string
}

func (c *lkCtx) pos(n ast.Node) (string, int) {
	p := c.fset.Position(n.Pos())
	rel, _ := filepath.Rel(c.repo, p.Filename)
	return rel, p.Line
}

// lockCall recognises `<x>.Lockers.<Method>(<key>)`.
func lockCall(e ast.Expr) (mode string, key ast.Expr, ok bool) {
	ce, isCall := e.(*ast.CallExpr)
	if !isCall || len(ce.Args) != 1 {
		return
	}
	sel, isSel := ce.Fun.(*ast.SelectorExpr)
	if !isSel {
		return
	}
	inner, isSel2 := sel.X.(*ast.SelectorExpr)
	if !isSel2 || inner.Sel.Name != "Lockers" {
		return
	}
	switch sel.Sel.Name {
	case "Locker":
		return "W", ce.Args[0], true
	case "LockerWithRLock":
		return "R", ce.Args[0], true
	case "LockerWithTryLock":
		return "T", ce.Args[0], true
	}
	return
}

func keyClass(e ast.Expr) string {
	switch k := e.(type) {
	case *ast.Ident:
		return k.Name
	case *ast.CallExpr:
		switch f := k.Fun.(type) {
		case *ast.Ident:
			return f.Name
		case *ast.SelectorExpr:
			return f.Sel.Name
		}
	}
	return "?"
}

// isRelease recognises `<v>.Unlock()` / `<v>.RUnlock()`.
func isRelease(e ast.Expr) (v, method string, ok bool) {
	ce, isCall := e.(*ast.CallExpr)
	if !isCall || len(ce.Args) != 0 {
		return
	}
	sel, isSel := ce.Fun.(*ast.SelectorExpr)
	if !isSel {
		return
	}
	id, isID := sel.X.(*ast.Ident)
	if !isID || (sel.Sel.Name != "Unlock" && sel.Sel.Name != "RUnlock") {
		return
	}
	return id.Name, sel.Sel.Name, true
}

// isNotOkGuard recognises `if !ok { return … }`.
func isNotOkGuard(s ast.Stmt, okVar string) bool {
	is, ok := s.(*ast.IfStmt)
	if !ok || is.Init != nil || is.Else != nil {
		return false
	}
	ue, ok := is.Cond.(*ast.UnaryExpr)
	if !ok || ue.Op != token.NOT {
		return false
	}
	id, ok := ue.X.(*ast.Ident)
	if !ok || id.Name != okVar {
		return false
	}
	if len(is.Body.List) == 0 {
		return false
	}
	_, isRet := is.Body.List[len(is.Body.List)-1].(*ast.ReturnStmt)
	return isRet
}

type lkWalker struct {
	c        *lkCtx
	fn       *lkFn
	lockVars map[string]struct{ cls, mode string }
	ccVars   map[string]bool // variables holding a cluster client
	loop     int
	nLit     int
	conds    []string // conditions of the enclosing if / case statements, outermost first
}

// exprText is the source text of an expression with all whitespace runs
// collapsed to one blank (so re-formatting does not change the fact).
func (c *lkCtx) exprText(e ast.Expr) string {
	var buf bytes.Buffer
	if err := printer.Fprint(&buf, c.fset, e); err != nil {
		return "?"
	}
	return strings.Join(strings.Fields(buf.String()), " ")
}

// condText renders the stack of enclosing conditions.
func condText(conds []string) string {
	switch len(conds) {
	case 0:
		return ""
	case 1:
		return conds[0]
	}
	return "(" + strings.Join(conds, ") && (") + ")"
}

func (w *lkWalker) under(cond string, f func()) {
	w.conds = append(w.conds, cond)
	f()
	w.conds = w.conds[:len(w.conds)-1]
}

func (w *lkWalker) block(list []ast.Stmt) {
	for i, s := range list {
		w.stmt(s, list[i+1:])
	}
}

// acquisition handles `v[, ok] := <x>.Lockers.M(key)` found as statement s, with
// `rest` the statements following it in the same block.
func (w *lkWalker) acquisition(at ast.Node, lhs []ast.Expr, mode string, key ast.Expr, rest []ast.Stmt) {
	v := "_"
	if len(lhs) > 0 {
		if id, ok := lhs[0].(*ast.Ident); ok {
			v = id.Name
		}
	}
	okVar := ""
	if len(lhs) > 1 {
		if id, ok := lhs[1].(*ast.Ident); ok {
			okVar = id.Name
		}
	}
	cls := keyClass(key)
	file, line := w.c.pos(at)
	site := lkSite{fn: w.fn.key, cls: cls, mode: mode, file: file, line: line, rel: "none", inLoop: w.loop > 0,
		cond: condText(w.conds)}
	want := "Unlock"
	if mode == "R" {
		want = "RUnlock"
	}
	// the release: a `defer v.X()` among the following statements of the block
	for j, s := range rest {
		if ds, ok := s.(*ast.DeferStmt); ok {
			if rv, m, ok := isRelease(ds.Call); ok && rv == v {
				site.rel = "deferred"
				site.relMatches = m == want
				site.gap = j
				site.guarded = mode != "T" && j == 0 || mode == "T" && j == 1 && isNotOkGuard(rest[0], okVar)
				break
			}
		}
		// a re-assignment of v ends the search
		if as2, ok := s.(*ast.AssignStmt); ok {
			if id, ok := as2.Lhs[0].(*ast.Ident); ok && id.Name == v {
				break
			}
		}
	}
	if site.rel == "none" {
		// explicit releases anywhere later in the function body
		n, match, rets := 0, true, 0
		var body *ast.BlockStmt
		if w.fn.decl != nil {
			body = w.fn.decl.Body
		} else {
			body = w.fn.lit.Body
		}
		ast.Inspect(body, func(nd ast.Node) bool {
			if nd == nil || nd.Pos() < at.End() {
				return true
			}
			switch x := nd.(type) {
			case *ast.ReturnStmt:
				if n == 0 {
					rets++
				}
			case *ast.ExprStmt:
				if rv, m, ok := isRelease(x.X); ok && rv == v {
					n++
					match = match && m == want
				}
			}
			return true
		})
		if n > 0 {
			site.rel = "explicit"
			site.relMatches = match
			site.explicitRels = n
			site.returnsBeforeRel = rets
		}
	}
	idx := len(w.c.sites)
	w.c.sites = append(w.c.sites, site)
	w.fn.evs = append(w.fn.evs, lkEv{kind: "acq", cls: cls, mode: mode, site: idx, inLoop: w.loop > 0})
	w.lockVars[v] = struct{ cls, mode string }{cls, mode}
	if site.rel == "deferred" {
		w.fn.deferred = append(w.fn.deferred, lkEv{kind: "rel", cls: cls})
	}
}

func (w *lkWalker) stmt(s ast.Stmt, rest []ast.Stmt) {
	switch x := s.(type) {
	case nil:
	case *ast.AssignStmt:
		if len(x.Rhs) == 1 {
			if mode, key, ok := lockCall(x.Rhs[0]); ok {
				w.acquisition(x, x.Lhs, mode, key, rest)
				return
			}
			// cc, err := ….ClusterClient()
			if ce, ok := x.Rhs[0].(*ast.CallExpr); ok {
				if sel, ok := ce.Fun.(*ast.SelectorExpr); ok && sel.Sel.Name == "ClusterClient" {
					if id, ok := x.Lhs[0].(*ast.Ident); ok {
						w.ccVars[id.Name] = true
					}
				}
			}
		}
		for _, e := range x.Rhs {
			w.expr(e)
		}
	case *ast.ExprStmt:
		if mode, key, ok := lockCall(x.X); ok {
			// acquisition whose result is dropped: can never be released
			w.acquisition(x, nil, mode, key, rest)
			return
		}
		if v, _, ok := isRelease(x.X); ok {
			if lv, ok := w.lockVars[v]; ok {
				w.fn.evs = append(w.fn.evs, lkEv{kind: "rel", cls: lv.cls})
				return
			}
		}
		w.expr(x.X)
	case *ast.DeferStmt:
		if v, _, ok := isRelease(x.Call); ok {
			if _, ok := w.lockVars[v]; ok {
				return // accounted for by acquisition()
			}
		}
		// a deferred closure / call runs at return: after everything else
		w.expr(x.Call)
	case *ast.GoStmt:
		w.spawn(x.Call)
	case *ast.BlockStmt:
		w.block(x.List)
	case *ast.IfStmt:
		w.stmt(x.Init, nil)
		w.expr(x.Cond)
		ct := w.c.exprText(x.Cond)
		w.under(ct, func() { w.block(x.Body.List) })
		w.under("!("+ct+")", func() { w.stmt(x.Else, nil) })
	case *ast.ForStmt:
		w.stmt(x.Init, nil)
		w.expr(x.Cond)
		w.loop++
		w.block(x.Body.List)
		w.stmt(x.Post, nil)
		w.loop--
	case *ast.RangeStmt:
		w.expr(x.X)
		w.loop++
		w.block(x.Body.List)
		w.loop--
	case *ast.SwitchStmt:
		w.stmt(x.Init, nil)
		w.expr(x.Tag)
		tag := ""
		if x.Tag != nil {
			tag = " " + w.c.exprText(x.Tag)
		}
		for _, cc := range x.Body.List {
			cl, ok := cc.(*ast.CaseClause)
			if !ok {
				continue
			}
			for _, e := range cl.List {
				w.expr(e)
			}
			ct := "default"
			if len(cl.List) > 0 {
				ct = strings.Join(mapExpr(cl.List, w.c.exprText), ", ")
			}
			w.under("case"+tag+": "+ct, func() { w.block(cl.Body) })
		}
	case *ast.TypeSwitchStmt:
		w.stmt(x.Init, nil)
		w.stmt(x.Assign, nil)
		w.block(x.Body.List)
	case *ast.SelectStmt:
		w.block(x.Body.List)
	case *ast.CaseClause:
		// clause of a type switch (expression switches are handled above)
		for _, e := range x.List {
			w.expr(e)
		}
		ct := "default"
		if len(x.List) > 0 {
			ct = strings.Join(mapExpr(x.List, w.c.exprText), ", ")
		}
		w.under("case type: "+ct, func() { w.block(x.Body) })
	case *ast.CommClause:
		w.stmt(x.Comm, nil)
		w.under("select clause", func() { w.block(x.Body) })
	case *ast.LabeledStmt:
		w.stmt(x.Stmt, rest)
	case *ast.ReturnStmt:
		for _, e := range x.Results {
			w.expr(e)
		}
	case *ast.SendStmt:
		w.expr(x.Chan)
		w.expr(x.Value)
	case *ast.IncDecStmt:
		w.expr(x.X)
	case *ast.DeclStmt:
		if gd, ok := x.Decl.(*ast.GenDecl); ok {
			for _, sp := range gd.Specs {
				if vs, ok := sp.(*ast.ValueSpec); ok {
					for _, e := range vs.Values {
						w.expr(e)
					}
				}
			}
		}
	}
}

// spawn registers the function literal of a go statement / background call as its
// own thread root.
func (w *lkWalker) spawn(call *ast.CallExpr) {
	var lit *ast.FuncLit
	if l, ok := call.Fun.(*ast.FuncLit); ok {
		lit = l
	}
	for _, a := range call.Args {
		if l, ok := a.(*ast.FuncLit); ok && lit == nil {
			lit = l
		} else {
			w.expr(a)
		}
	}
	if lit == nil {
		// `go f(x)`: a spawn of a named function
		if callee, _, ok := w.resolve(call); ok {
			w.fn.evs = append(w.fn.evs, lkEv{kind: "spawn", callee: callee})
		}
		return
	}
	w.nLit++
	key := fmt.Sprintf("%s$go%d", w.fn.key, w.nLit)
	file, line := w.c.pos(lit)
	nf := &lkFn{key: key, file: file, line: line, lit: lit, dir: w.fn.dir, imports: w.fn.imports,
		recvName: w.fn.recvName, recv: w.fn.recv, spawned: true}
	w.c.fns[key] = nf
	w.c.order = append(w.c.order, key)
	nw := &lkWalker{c: w.c, fn: nf, lockVars: map[string]struct{ cls, mode string }{}, ccVars: w.ccVars}
	nw.block(lit.Body.List)
	nf.evs = append(nf.evs, reverseEvs(nf.deferred)...)
	w.fn.evs = append(w.fn.evs, lkEv{kind: "spawn", callee: key})
}

func reverseEvs(l []lkEv) []lkEv {
	r := make([]lkEv, 0, len(l))
	for i := len(l) - 1; i >= 0; i-- {
		r = append(r, l[i])
	}
	return r
}

func (w *lkWalker) resolve(ce *ast.CallExpr) (string, bool, bool) {
	switch f := ce.Fun.(type) {
	case *ast.Ident:
		k := w.fn.dir + "." + f.Name
		if _, ok := w.c.fns[k]; ok {
			return k, false, true
		}
	case *ast.SelectorExpr:
		if id, ok := f.X.(*ast.Ident); ok {
			if w.ccVars[id.Name] {
				k := "server/rpc.clusterServer." + f.Sel.Name
				if _, ok := w.c.fns[k]; ok {
					return k, true, true
				}
			}
			if id.Name == w.fn.recvName && w.fn.recv != "" {
				k := w.fn.dir + "." + w.fn.recv + "." + f.Sel.Name
				if _, ok := w.c.fns[k]; ok {
					return k, false, true
				}
			}
			if dir, ok := w.fn.imports[id.Name]; ok {
				k := dir + "." + f.Sel.Name
				if _, ok := w.c.fns[k]; ok {
					return k, false, true
				}
			}
		}
	}
	return "", false, false
}

func (w *lkWalker) expr(e ast.Expr) {
	if e == nil {
		return
	}
	ast.Inspect(e, func(n ast.Node) bool {
		switch x := n.(type) {
		case *ast.FuncLit:
			// synchronous closure: treated as executed where it is written
			w.block(x.Body.List)
			return false
		case *ast.CallExpr:
			if mode, key, ok := lockCall(x); ok {
				// an acquisition in expression position (not `v := …`): no variable, no release
				w.acquisition(x, nil, mode, key, nil)
				return false
			}
			if sel, ok := x.Fun.(*ast.SelectorExpr); ok && (sel.Sel.Name == "Go" || sel.Sel.Name == "AttachGoroutine") {
				for _, a := range x.Args {
					if _, ok := a.(*ast.FuncLit); ok {
						w.spawn(x)
						return false
					}
				}
			}
			// arguments are evaluated before the call
			for _, a := range x.Args {
				w.expr(a)
			}
			if sel, ok := x.Fun.(*ast.SelectorExpr); ok {
				w.expr(sel.X)
			}
			if callee, rpc, ok := w.resolve(x); ok {
				w.fn.evs = append(w.fn.evs, lkEv{kind: "call", callee: callee, rpc: rpc, inLoop: w.loop > 0})
			}
			return false
		}
		return true
	})
}

func genLocks(repo string) (string, error) {
	c := &lkCtx{repo: repo, fset: token.NewFileSet(), fns: map[string]*lkFn{}, prefix: map[string]string{}}
	type pf struct {
		f   *ast.File
		dir string
	}
	var files []pf
	outside := 0
	var outsideWhere []string
	// 1. parse
	err := filepath.Walk(repo, func(p string, info os.FileInfo, err error) error {
		if err != nil {
			return err
		}
		rel, _ := filepath.Rel(repo, p)
		if info.IsDir() {
			if strings.HasPrefix(info.Name(), ".") && rel != "." || rel == "build" || rel == "test" || rel == "design" || rel == "docs" {
				return filepath.SkipDir
			}
			return nil
		}
		if !strings.HasSuffix(p, ".go") || strings.HasSuffix(p, "_test.go") {
			return nil
		}
		dir := filepath.ToSlash(filepath.Dir(rel))
		inScope := dir == "server" || strings.HasPrefix(dir, "server/")
		if dir == "server/backend/sync" || dir == "pkg/locker" {
			return nil // the lock implementation itself
		}
		f, err := parser.ParseFile(c.fset, p, nil, 0)
		if err != nil {
			return err
		}
		if inScope {
			files = append(files, pf{f, dir})
			return nil
		}
		// outside the extracted packages nothing may touch Lockers
		ast.Inspect(f, func(n ast.Node) bool {
			if ce, ok := n.(*ast.CallExpr); ok {
				if _, _, ok := lockCall(ce); ok {
					outside++
					outsideWhere = append(outsideWhere, rel)
				}
			}
			return true
		})
		return nil
	})
	if err != nil {
		return "", err
	}
	sort.Slice(files, func(i, j int) bool {
		return c.fset.Position(files[i].f.Pos()).Filename < c.fset.Position(files[j].f.Pos()).Filename
	})
	// 2. declare all functions
	for _, p := range files {
		imports := map[string]string{}
		for _, im := range p.f.Imports {
			path, _ := strconv.Unquote(im.Path.Value)
			if !strings.HasPrefix(path, yorkieImport) {
				continue
			}
			dir := strings.TrimPrefix(path, yorkieImport)
			alias := filepath.Base(dir)
			if im.Name != nil {
				alias = im.Name.Name
			}
			imports[alias] = dir
		}
		for _, d := range p.f.Decls {
			fd, ok := d.(*ast.FuncDecl)
			if !ok || fd.Body == nil {
				continue
			}
			recv, recvName := "", ""
			if fd.Recv != nil && len(fd.Recv.List) == 1 {
				t := fd.Recv.List[0].Type
				if st, ok := t.(*ast.StarExpr); ok {
					t = st.X
				}
				if ix, ok := t.(*ast.IndexExpr); ok {
					t = ix.X
				}
				if id, ok := t.(*ast.Ident); ok {
					recv = id.Name
				}
				if len(fd.Recv.List[0].Names) == 1 {
					recvName = fd.Recv.List[0].Names[0].Name
				}
			}
			key := p.dir + "." + fd.Name.Name
			if recv != "" {
				key = p.dir + "." + recv + "." + fd.Name.Name
			}
			file, line := c.pos(fd)
			c.fns[key] = &lkFn{key: key, file: file, line: line, exported: fd.Name.IsExported(), recv: recv,
				recvName: recvName, decl: fd, dir: p.dir, imports: imports}
			c.order = append(c.order, key)
			// key constructors: `return sync.NewKey(fmt.Sprintf("<prefix>%s…", …))`
			if recv == "" && strings.HasSuffix(fd.Name.Name, "Key") {
				ast.Inspect(fd.Body, func(n ast.Node) bool {
					if ce, ok := n.(*ast.CallExpr); ok {
						if sel, ok := ce.Fun.(*ast.SelectorExpr); ok && sel.Sel.Name == "Sprintf" && len(ce.Args) > 0 {
							if bl, ok := ce.Args[0].(*ast.BasicLit); ok {
								s, _ := strconv.Unquote(bl.Value)
								if i := strings.IndexByte(s, '%'); i >= 0 {
									s = s[:i]
								}
								c.prefix[fd.Name.Name] = s
							}
						}
					}
					return true
				})
			}
		}
		// constant keys: `name = "literal"` whose name ends in Key
		ast.Inspect(p.f, func(n ast.Node) bool {
			if vs, ok := n.(*ast.ValueSpec); ok {
				for i, id := range vs.Names {
					if strings.HasSuffix(id.Name, "Key") && i < len(vs.Values) {
						if bl, ok := vs.Values[i].(*ast.BasicLit); ok && bl.Kind == token.STRING {
							s, _ := strconv.Unquote(bl.Value)
							c.prefix[id.Name] = s
						}
					}
				}
			}
			return true
		})
		// uses of Lockers that are not one of the three recognised call shapes
		recognised := map[*ast.SelectorExpr]bool{}
		ast.Inspect(p.f, func(n ast.Node) bool {
			if ce, ok := n.(*ast.CallExpr); ok {
				if _, _, ok := lockCall(ce); ok {
					recognised[ce.Fun.(*ast.SelectorExpr).X.(*ast.SelectorExpr)] = true
				}
			}
			return true
		})
		ast.Inspect(p.f, func(n ast.Node) bool {
			switch x := n.(type) {
			case *ast.SelectorExpr:
				if x.Sel.Name == "Lockers" && !recognised[x] {
					file, line := c.pos(x)
					c.opaque = append(c.opaque, fmt.Sprintf("%s:%d", file, line))
				}
			case *ast.KeyValueExpr:
				// `Lockers: sync.New()` in the Backend literal is the definition, not a use
				if id, ok := x.Key.(*ast.Ident); ok && id.Name == "Lockers" {
					return false
				}
			}
			return true
		})
	}
	// 3. walk the bodies
	decls := append([]string(nil), c.order...)
	for _, k := range decls {
		fn := c.fns[k]
		w := &lkWalker{c: c, fn: fn, lockVars: map[string]struct{ cls, mode string }{}, ccVars: map[string]bool{}}
		w.block(fn.decl.Body.List)
		fn.evs = append(fn.evs, reverseEvs(fn.deferred)...)
	}
	// 4. keep the functions from which an acquisition is reachable
	reach := map[string]bool{}
	for changed := true; changed; {
		changed = false
		for k, fn := range c.fns {
			if reach[k] {
				continue
			}
			for _, e := range fn.evs {
				if e.kind == "acq" || e.kind == "rel" || (e.kind == "call" || e.kind == "spawn") && reach[e.callee] {
					reach[k] = true
					changed = true
					break
				}
			}
		}
	}
	var keep []string
	for _, k := range c.order {
		if reach[k] {
			keep = append(keep, k)
		}
	}
	sort.Strings(keep)
	idx := map[string]int{}
	for i, k := range keep {
		idx[k] = i
	}
	called := map[string]bool{}
	for _, k := range keep {
		for _, e := range c.fns[k].evs {
			if e.kind == "call" && reach[e.callee] {
				called[e.callee] = true
			}
		}
	}
	// 5. emit
	var sb strings.Builder
	sb.WriteString("import YorkieModel.Model.Locks\n")
	sb.WriteString("namespace Yorkie.Generated.Locks\nopen Yorkie.Locks\n\n")
	sb.WriteString("/-- acquisition sites, in the order of `Ev.acq`'s `site` index -/\n")
	sb.WriteString("def sites : List Site := [\n")
	for i, s := range c.sites {
		sep := ","
		if i == len(c.sites)-1 {
			sep = ""
		}
		fmt.Fprintf(&sb, "  { fn := %s, cls := %s, mode := .%s, rel := .%s, relMatches := %s, gap := %d, guarded := %s, inLoop := %s, explicitRels := %d, returnsBeforeRel := %d, cond := %s, file := %s, line := %d }%s\n",
			leanStr(s.fn), leanStr(s.cls), s.mode, s.rel, leanBool(s.relMatches), s.gap, leanBool(s.guarded), leanBool(s.inLoop),
			s.explicitRels, s.returnsBeforeRel, leanStr(s.cond), leanStr(s.file), s.line, sep)
	}
	sb.WriteString("]\n\n")
	sb.WriteString("/-- functions from which a lock acquisition is reachable; `Ev.call`/`Ev.spawn` refer to positions in this list.\n")
	sb.WriteString("    `root` = not called by another listed function (RPC handler, goroutine body, housekeeping entry) -/\n")
	sb.WriteString("def fns : List Fn := [\n")
	for i, k := range keep {
		fn := c.fns[k]
		var evs []string
		for _, e := range fn.evs {
			switch e.kind {
			case "acq":
				evs = append(evs, fmt.Sprintf(".acq %s .%s %d", leanStr(e.cls), e.mode, e.site))
			case "rel":
				evs = append(evs, fmt.Sprintf(".rel %s", leanStr(e.cls)))
			case "call":
				if reach[e.callee] {
					evs = append(evs, fmt.Sprintf(".call %d %s %s", idx[e.callee], leanBool(e.rpc), leanBool(e.inLoop)))
				}
			case "spawn":
				if reach[e.callee] {
					evs = append(evs, fmt.Sprintf(".spawn %d", idx[e.callee]))
				}
			}
		}
		sep := ","
		if i == len(keep)-1 {
			sep = ""
		}
		handler := fn.exported && (fn.recv == "yorkieServer" || fn.recv == "adminServer" || fn.recv == "clusterServer") && !fn.spawned
		fmt.Fprintf(&sb, "  /- %d -/ { name := %s, file := %s, line := %d, handler := %s, spawned := %s, root := %s, body := [%s] }%s\n",
			i, leanStr(k), leanStr(fn.file), fn.line, leanBool(handler), leanBool(fn.spawned), leanBool(!called[k]),
			strings.Join(evs, ", "), sep)
	}
	sb.WriteString("]\n\n")
	// classes and their key prefixes
	clsSet := map[string]bool{}
	for _, s := range c.sites {
		clsSet[s.cls] = true
	}
	var classes []string
	for k := range clsSet {
		classes = append(classes, k)
	}
	sort.Strings(classes)
	sb.WriteString("/-- lock classes (key constructor / key constant) with the literal prefix of the key string they build -/\n")
	sb.WriteString("def classes : List (String × String) := [")
	for i, k := range classes {
		if i > 0 {
			sb.WriteString(", ")
		}
		fmt.Fprintf(&sb, "(%s, %s)", leanStr(k), leanStr(c.prefix[k]))
	}
	sb.WriteString("]\n\n")
	sort.Strings(c.opaque)
	fmt.Fprintf(&sb, "/-- uses of a `Lockers` field that are not `….Lockers.Locker/LockerWithRLock/LockerWithTryLock(k)` -/\ndef opaqueLockerUses : List String := [%s]\n\n",
		strings.Join(mapStr(c.opaque, leanStr), ", "))
	sort.Strings(outsideWhere)
	fmt.Fprintf(&sb, "/-- acquisitions found outside server/ (not extracted) -/\ndef lockerUsesOutsideScope : List String := [%s]\n\n",
		strings.Join(mapStr(outsideWhere, leanStr), ", "))
	_ = outside
	// the documented lock order: numbered list under "### Lock Ordering Rules"
	var documented []string
	if b, err := os.ReadFile(filepath.Join(repo, "docs/design/fine-grained-document-locking.md")); err == nil {
		in := false
		for _, ln := range strings.Split(string(b), "\n") {
			t := strings.TrimSpace(ln)
			if strings.HasPrefix(t, "#") {
				in = strings.Contains(t, "Lock Ordering Rules")
				continue
			}
			if !in || t == "" || t[0] < '0' || t[0] > '9' {
				continue
			}
			if i := strings.IndexByte(t, '`'); i >= 0 {
				if j := strings.IndexByte(t[i+1:], '`'); j >= 0 {
					documented = append(documented, t[i+1:i+1+j])
				}
			}
		}
	}
	fmt.Fprintf(&sb, "/-- lock names, with the key prefix `name[. ↦ -]-`, in the order documented in docs/design/fine-grained-document-locking.md (\"Lock Ordering Rules\") -/\ndef documentedOrder : List (String × String) := [%s]\n\n",
		strings.Join(mapStr(documented, func(n string) string {
			return "(" + leanStr(n) + ", " + leanStr(strings.ReplaceAll(n, ".", "-")+"-") + ")"
		}), ", "))
	sb.WriteString("end Yorkie.Generated.Locks\n")
	return sb.String(), nil
}

func mapExpr(l []ast.Expr, f func(ast.Expr) string) []string {
	r := make([]string, len(l))
	for i, e := range l {
		r[i] = f(e)
	}
	return r
}

func mapStr(l []string, f func(string) string) []string {
	r := make([]string, len(l))
	for i, s := range l {
		r[i] = f(s)
	}
	return r
}
