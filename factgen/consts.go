package main

// extractor `Consts`: constants the models depend on.

import (
	"fmt"
	"go/ast"
	"go/parser"
	"go/token"
	"path/filepath"
	"strings"
)

func init() { register("Consts", genConsts) }

// constInt finds `name = <int literal>` in a const/var block of file.
func constLit(repo, file, name string) (string, error) {
	fset := token.NewFileSet()
	f, err := parser.ParseFile(fset, filepath.Join(repo, file), nil, 0)
	if err != nil {
		return "", err
	}
	var res string
	ast.Inspect(f, func(n ast.Node) bool {
		vs, ok := n.(*ast.ValueSpec)
		if !ok {
			return true
		}
		for i, id := range vs.Names {
			if id.Name == name && i < len(vs.Values) {
				if bl, ok := vs.Values[i].(*ast.BasicLit); ok {
					res = bl.Value
				}
			}
		}
		return true
	})
	if res == "" {
		return "", fmt.Errorf("constant %s not found in %s", name, file)
	}
	return res, nil
}

func genConsts(repo string) (string, error) {
	var sb strings.Builder
	sb.WriteString("namespace Yorkie.Generated.Consts\n\n")
	items := []struct{ lean, file, name string }{
		{"initialLamport", "pkg/document/time/ticket.go", "InitialLamport"},
		{"initialClientSeq", "pkg/document/change/checkpoint.go", "InitialClientSeq"},
		{"initialServerSeq", "pkg/document/change/checkpoint.go", "InitialServerSeq"},
		{"maxUndoRedoStackDepth", "pkg/document/history.go", "MaxUndoRedoStackDepth"},
	}
	for _, it := range items {
		v, err := constLit(repo, it.file, it.name)
		if err != nil {
			return "", err
		}
		fmt.Fprintf(&sb, "def %s : Nat := %s\n", it.lean, v)
	}
	sb.WriteString("\nend Yorkie.Generated.Consts\n")
	return sb.String(), nil
}
