package main

// extractor `Watch` (C17, glue around the PubSub): purely syntactic facts about
//
//   - server/packs/pushpull.go `PushPull`: the conditions of the `if` statements that
//     enclose the `be.PubSub.Publish(…)` call (outermost first, through the `be.Go`
//     closure), the fields of the published `events.DocEvent` literal, and the
//     statement that defines `pushedChanges`;
//   - server/rpc/yorkie_server.go `subscribeResources`: every `if err != nil { … return }`
//     branch inside the loop over the resources with the calls it makes before the
//     return (is `cleanup()` among them?), and what the `cleanup` closure calls;
//   - `Watch`: the deferred block that unwatches what the request subscribed, and the
//     number of `return`s between `subscribeResources(…)` and that `defer` other than
//     the error check of the call itself;
//   - `watchDoc` / `unwatchDoc`: the ordered `s.backend.PubSub.<Method>` calls and the
//     event types they publish.
//
// Props/C17Watch.lean proves by evaluation that these are the forms Model/Watch.lean
// models (`Cfg.real`); a change of the publish condition or a removed cleanup call
// changes the table and breaks the `decide`.

import (
	"fmt"
	"go/ast"
	"go/parser"
	"go/token"
	"path/filepath"
	"strings"
)

func init() { register("Watch", genWatch) }

func wtFunc(f *ast.File, name string) *ast.FuncDecl {
	for _, d := range f.Decls {
		if fd, ok := d.(*ast.FuncDecl); ok && fd.Name.Name == name {
			return fd
		}
	}
	return nil
}

// wtSelChain renders a selector chain a.b.c ("" when it is not one).
func wtSelChain(e ast.Expr) string {
	switch x := e.(type) {
	case *ast.Ident:
		return x.Name
	case *ast.SelectorExpr:
		p := wtSelChain(x.X)
		if p == "" {
			return ""
		}
		return p + "." + x.Sel.Name
	}
	return ""
}

// wtGuards finds the first call whose function renders as `callee` and returns the
// conditions of the enclosing if statements (an else branch contributes "!(cond)").
func wtGuards(fset *token.FileSet, body ast.Node, callee string) (guards []string, call *ast.CallExpr) {
	var walk func(n ast.Node, conds []string) bool
	walk = func(n ast.Node, conds []string) bool {
		found := false
		ast.Inspect(n, func(m ast.Node) bool {
			if found || m == nil {
				return false
			}
			switch x := m.(type) {
			case *ast.IfStmt:
				if x.Init != nil && walk(x.Init, conds) {
					found = true
					return false
				}
				c := render(fset, x.Cond)
				if walk(x.Body, append(append([]string{}, conds...), c)) {
					found = true
					return false
				}
				if x.Else != nil && walk(x.Else, append(append([]string{}, conds...), "!("+c+")")) {
					found = true
				}
				return false
			case *ast.CallExpr:
				if wtSelChain(x.Fun) == callee {
					guards, call = conds, x
					found = true
					return false
				}
			}
			return true
		})
		return found
	}
	walk(body, nil)
	return guards, call
}

// wtCalls lists, in source order, the calls of a statement list rendered as selector chains
// (only calls whose function is an identifier or a selector chain).
func wtCalls(n ast.Node) []string {
	var out []string
	ast.Inspect(n, func(m ast.Node) bool {
		if ce, ok := m.(*ast.CallExpr); ok {
			if s := wtSelChain(ce.Fun); s != "" {
				out = append(out, s)
			}
		}
		return true
	})
	return out
}

type wtBranch struct {
	kind   string   // the `case` type of the resource switch
	callee string   // the call whose error is tested
	before []string // calls made in the branch before the return
	line   int
}

func wtStrList(l []string) string { return "[" + strings.Join(mapStr(l, leanStr), ", ") + "]" }

func genWatch(repo string) (string, error) {
	fset := token.NewFileSet()
	var sb strings.Builder
	sb.WriteString("namespace Yorkie.Generated.Watch\n\n")

	// ---- packs.PushPull
	pf := "server/packs/pushpull.go"
	f, err := parser.ParseFile(fset, filepath.Join(repo, pf), nil, 0)
	if err != nil {
		return "", err
	}
	pp := wtFunc(f, "PushPull")
	if pp == nil {
		return "", fmt.Errorf("PushPull not found in %s", pf)
	}
	guards, call := wtGuards(fset, pp.Body, "be.PubSub.Publish")
	if call == nil {
		return "", fmt.Errorf("no be.PubSub.Publish call in PushPull")
	}
	fields := map[string]string{}
	if len(call.Args) == 3 {
		if cl, ok := call.Args[2].(*ast.CompositeLit); ok {
			for _, el := range cl.Elts {
				if kv, ok := el.(*ast.KeyValueExpr); ok {
					fields[render(fset, kv.Key)] = render(fset, kv.Value)
				}
			}
		}
	}
	nPublish := 0
	for _, c := range wtCalls(pp.Body) {
		if c == "be.PubSub.Publish" {
			nPublish++
		}
	}
	pushedDef := ""
	ast.Inspect(pp.Body, func(n ast.Node) bool {
		if as, ok := n.(*ast.AssignStmt); ok && len(as.Lhs) > 0 && len(as.Rhs) == 1 {
			if id, ok := as.Lhs[0].(*ast.Ident); ok && id.Name == "pushedChanges" {
				if ce, ok := as.Rhs[0].(*ast.CallExpr); ok {
					pushedDef = fmt.Sprintf("%d:%s", len(as.Lhs), wtSelChain(ce.Fun))
				}
			}
		}
		return true
	})
	sb.WriteString("/-- conditions of the `if` statements enclosing `be.PubSub.Publish(…)` in `packs.PushPull`,\n    outermost first -/\n")
	fmt.Fprintf(&sb, "def publishGuards : List String := %s\n", wtStrList(guards))
	fmt.Fprintf(&sb, "def publishCalls : Nat := %d\n", nPublish)
	fmt.Fprintf(&sb, "def publishType : String := %s\n", leanStr(fields["Type"]))
	fmt.Fprintf(&sb, "def publishActor : String := %s\n", leanStr(fields["Actor"]))
	fmt.Fprintf(&sb, "def publishKey : String := %s\n", leanStr(fields["Key"]))
	sb.WriteString("/-- `<number of results>:<callee>` of the statement that assigns `pushedChanges` (first result) -/\n")
	fmt.Fprintf(&sb, "def pushedChangesDef : String := %s\n\n", leanStr(pushedDef))

	// ---- rpc: subscribeResources / Watch / watchDoc / unwatchDoc
	rf := "server/rpc/yorkie_server.go"
	g, err := parser.ParseFile(fset, filepath.Join(repo, rf), nil, 0)
	if err != nil {
		return "", err
	}
	sr := wtFunc(g, "subscribeResources")
	if sr == nil {
		return "", fmt.Errorf("subscribeResources not found in %s", rf)
	}
	var cleanupCalls []string
	var branches []wtBranch
	for _, st := range sr.Body.List {
		if as, ok := st.(*ast.AssignStmt); ok && len(as.Lhs) == 1 && len(as.Rhs) == 1 {
			if id, ok := as.Lhs[0].(*ast.Ident); ok && id.Name == "cleanup" {
				if fl, ok := as.Rhs[0].(*ast.FuncLit); ok {
					cleanupCalls = wtCalls(fl.Body)
				}
			}
		}
		rs, ok := st.(*ast.RangeStmt)
		if !ok {
			continue
		}
		ast.Inspect(rs.Body, func(n ast.Node) bool {
			cc, ok := n.(*ast.CaseClause)
			if !ok {
				return true
			}
			kind := "default"
			if len(cc.List) > 0 {
				kind = render(fset, cc.List[0])
			}
			lastCallee := ""
			for _, cs := range cc.Body {
				if as, ok := cs.(*ast.AssignStmt); ok && len(as.Rhs) == 1 {
					if ce, ok := as.Rhs[0].(*ast.CallExpr); ok {
						lastCallee = wtSelChain(ce.Fun)
					}
				}
				is, ok := cs.(*ast.IfStmt)
				if !ok || render(fset, is.Cond) != "err != nil" {
					continue
				}
				b := wtBranch{kind: kind, callee: lastCallee, line: fset.Position(is.Pos()).Line}
				returns := false
				for _, bs := range is.Body.List {
					if _, ok := bs.(*ast.ReturnStmt); ok {
						returns = true
						break
					}
					b.before = append(b.before, wtCalls(bs)...)
				}
				if returns {
					branches = append(branches, b)
				}
			}
			return false
		})
	}
	sb.WriteString("/-- an `if err != nil { …; return … }` branch of the resource loop of `subscribeResources` -/\n")
	sb.WriteString("structure ErrBranch where\n  kind : String\n  callee : String\n  before : List String\n  line : Nat\nderiving DecidableEq, Repr\n\n")
	sb.WriteString("def subscribeErrorBranches : List ErrBranch := [\n")
	for i, b := range branches {
		sep := ","
		if i == len(branches)-1 {
			sep = ""
		}
		fmt.Fprintf(&sb, "  { kind := %s, callee := %s, before := %s, line := %d }%s\n", leanStr(b.kind), leanStr(b.callee), wtStrList(b.before), b.line, sep)
	}
	sb.WriteString("]\n")
	sb.WriteString("/-- calls made by the `cleanup` closure of `subscribeResources` -/\n")
	fmt.Fprintf(&sb, "def cleanupCalls : List String := %s\n\n", wtStrList(cleanupCalls))

	wf := wtFunc(g, "Watch")
	if wf == nil {
		return "", fmt.Errorf("Watch not found in %s", rf)
	}
	var deferCalls []string
	returnsBetween, state := 0, 0 // 0 before subscribeResources, 1 after it, 2 after the defer
	for i, st := range wf.Body.List {
		switch state {
		case 0:
			for _, c := range wtCalls(st) {
				if c == "s.subscribeResources" {
					state = 1
				}
			}
		case 1:
			if ds, ok := st.(*ast.DeferStmt); ok {
				calls := wtCalls(ds.Call)
				for _, c := range calls {
					if c == "s.unwatchDoc" {
						deferCalls = calls
						state = 2
					}
				}
				if state == 2 {
					continue
				}
			}
			// the error check of the call itself is the statement right after it
			prevIsCall := false
			for _, c := range wtCalls(wf.Body.List[i-1]) {
				if c == "s.subscribeResources" {
					prevIsCall = true
				}
			}
			if is, ok := st.(*ast.IfStmt); ok && prevIsCall && render(fset, is.Cond) == "err != nil" {
				continue
			}
			ast.Inspect(st, func(n ast.Node) bool {
				if _, ok := n.(*ast.ReturnStmt); ok {
					returnsBetween++
				}
				return true
			})
		}
	}
	sb.WriteString("/-- calls of the deferred block of `Watch` that unwatches what the request subscribed\n    ([] = there is no such block after `subscribeResources`) -/\n")
	fmt.Fprintf(&sb, "def watchDeferCalls : List String := %s\n", wtStrList(deferCalls))
	sb.WriteString("/-- `return`s between `subscribeResources(…)` (and its own error check) and that `defer` -/\n")
	fmt.Fprintf(&sb, "def watchReturnsBeforeDefer : Nat := %d\n\n", returnsBetween)

	for _, name := range []string{"watchDoc", "unwatchDoc"} {
		fd := wtFunc(g, name)
		if fd == nil {
			return "", fmt.Errorf("%s not found in %s", name, rf)
		}
		var calls, types []string
		ast.Inspect(fd.Body, func(n ast.Node) bool {
			ce, ok := n.(*ast.CallExpr)
			if !ok {
				return true
			}
			c := wtSelChain(ce.Fun)
			if strings.HasPrefix(c, "s.backend.PubSub.") {
				calls = append(calls, strings.TrimPrefix(c, "s.backend.PubSub."))
				for _, a := range ce.Args {
					if cl, ok := a.(*ast.CompositeLit); ok {
						for _, el := range cl.Elts {
							if kv, ok := el.(*ast.KeyValueExpr); ok && render(fset, kv.Key) == "Type" {
								types = append(types, render(fset, kv.Value))
							}
						}
					}
				}
			}
			return true
		})
		fmt.Fprintf(&sb, "/-- `s.backend.PubSub.*` calls of `%s`, in order, and the event types they publish -/\n", name)
		fmt.Fprintf(&sb, "def %sCalls : List String := %s\n", name, wtStrList(calls))
		fmt.Fprintf(&sb, "def %sPublishes : List String := %s\n", name, wtStrList(types))
	}
	sb.WriteString("\nend Yorkie.Generated.Watch\n")
	return sb.String(), nil
}
