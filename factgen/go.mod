module verif/factgen

go 1.25.0
