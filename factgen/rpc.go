package main

// extractor `Rpc` (C13): the RPC surface and its guards, purely syntactic.
//
//  (i)   procedures        every `…Procedure = "/yorkie.v1.<Svc>/<Method>"` constant of
//                          api/yorkie/v1/v1connect/*.go
//  (ii)  handlers          for every procedure the handler method in server/rpc/*_server.go
//                          (receiver found through `v1connect.New<Svc>Handler(new…Server(…))` in
//                          server/rpc/server.go) and the ordered list of guard / lookup calls it
//                          makes (helper methods of the same receiver are inlined), each with two
//                          flags: does an argument derive from the request's project / user.
//                          A comparison `x.ProjectID != project.ID` is emitted as the pseudo
//                          call "check:ProjectID".
//  (iii) interceptors      the procedures `isRequiredAuth` exempts, the service prefix each
//                          interceptor claims, the ordered calls of Wrap*/buildContext/authenticate,
//                          the interceptors installed in server.go and whether every service
//                          handler is registered with them.
//  (iv)  auth webhook      server/rpc/auth/webhook.go: the expression `generateCacheKey` returns (format
//                          string and arguments of its single `fmt.Sprintf`), its parameters, the arguments
//                          at its call sites, and the ordered calls of `verifyAccess` with their arguments
//                          (which key the verdict cache is read / written under, whose URL is called).

import (
	"fmt"
	"go/ast"
	"go/parser"
	"go/printer"
	"go/token"
	"os"
	"path/filepath"
	"sort"
	"strconv"
	"strings"
)

func init() { register("Rpc", genRpc) }

type rpcCall struct {
	name       string
	proj, user bool
}

type rpcFile struct {
	f       *ast.File
	imports map[string]string // local name -> import path
}

func parseDir(repo, dir string, keep func(name string) bool) ([]*rpcFile, error) {
	ents, err := os.ReadDir(filepath.Join(repo, dir))
	if err != nil {
		return nil, err
	}
	var names []string
	for _, e := range ents {
		if !e.IsDir() && strings.HasSuffix(e.Name(), ".go") && !strings.HasSuffix(e.Name(), "_test.go") && keep(e.Name()) {
			names = append(names, e.Name())
		}
	}
	sort.Strings(names)
	fset := token.NewFileSet()
	var out []*rpcFile
	for _, n := range names {
		f, err := parser.ParseFile(fset, filepath.Join(repo, dir, n), nil, 0)
		if err != nil {
			return nil, err
		}
		rf := &rpcFile{f: f, imports: map[string]string{}}
		for _, im := range f.Imports {
			p, _ := strconv.Unquote(im.Path.Value)
			name := p[strings.LastIndex(p, "/")+1:]
			if im.Name != nil {
				name = im.Name.Name
			}
			rf.imports[name] = p
		}
		out = append(out, rf)
	}
	return out, nil
}

// exprName renders a selector chain `a.b.c`; "" for anything else.
func exprName(e ast.Expr) string {
	switch x := e.(type) {
	case *ast.Ident:
		return x.Name
	case *ast.SelectorExpr:
		if b := exprName(x.X); b != "" {
			return b + "." + x.Sel.Name
		}
	case *ast.IndexExpr: // generic instantiation f[T]
		return exprName(x.X)
	}
	return ""
}

func recvType(fd *ast.FuncDecl) string {
	if fd.Recv == nil || len(fd.Recv.List) == 0 {
		return ""
	}
	t := fd.Recv.List[0].Type
	if s, ok := t.(*ast.StarExpr); ok {
		t = s.X
	}
	if id, ok := t.(*ast.Ident); ok {
		return id.Name
	}
	return ""
}

func recvName(fd *ast.FuncDecl) string {
	if fd.Recv == nil || len(fd.Recv.List) == 0 || len(fd.Recv.List[0].Names) == 0 {
		return ""
	}
	return fd.Recv.List[0].Names[0].Name
}

var projIdents = map[string]bool{"project": true, "projectID": true, "prj": true}
var userIdents = map[string]bool{"user": true, "userID": true}

type taint struct{ proj, user map[string]bool }

// mentions reports whether e (deeply) mentions a project- / user-derived value.
func (t *taint) mentions(e ast.Node) (p, u bool) {
	if e == nil {
		return
	}
	ast.Inspect(e, func(n ast.Node) bool {
		switch x := n.(type) {
		case *ast.Ident:
			if projIdents[x.Name] || t.proj[x.Name] {
				p = true
			}
			if userIdents[x.Name] || t.user[x.Name] {
				u = true
			}
		case *ast.SelectorExpr:
			if x.Sel.Name == "ProjectID" {
				p = true
			}
			// cluster handlers: the (trusted) caller names the project in the payload
			if nm := exprName(x); nm == "req.Msg.ProjectId" || nm == "req.Msg.Project" {
				p = true
			}
			if nm := exprName(x); nm == "projects.From" {
				p = true
			} else if nm == "users.From" {
				u = true
			}
		case *ast.KeyValueExpr:
			// composite literal key `ProjectID:` is not itself a mention; the value is inspected
			if id, ok := x.Key.(*ast.Ident); ok && id.Name == "ProjectID" {
				pp, uu := t.mentions(x.Value)
				p, u = p || pp, u || uu
				return false
			}
		}
		return true
	})
	return
}

type rpcExtractor struct {
	methods map[string]map[string]*ast.FuncDecl // receiver type -> method -> decl
	imports map[*ast.FuncDecl]map[string]string
}

func (x *rpcExtractor) interesting(fd *ast.FuncDecl, name string) bool {
	parts := strings.Split(name, ".")
	if len(parts) < 2 {
		return false
	}
	root := parts[0]
	if p, ok := x.imports[fd][root]; ok {
		if strings.HasPrefix(p, "github.com/yorkie-team/yorkie/server/") && root != "logging" && root != "messaging" {
			return true
		}
		return name == "converter.FromProject"
	}
	if root == recvName(fd) && len(parts) >= 4 && parts[1] == "backend" {
		switch parts[2] {
		case "Metrics", "MsgBroker", "Lockers", "Config":
			return false
		}
		return true
	}
	if root == recvName(fd) && len(parts) == 3 && parts[1] == "backend" { // s.backend.ClusterClient / Broadcast…
		return true
	}
	last := parts[len(parts)-1]
	return strings.HasPrefix(last, "Ensure") || strings.HasPrefix(last, "CheckIf")
}

func paramNames(fd *ast.FuncDecl) []string {
	var out []string
	for _, f := range fd.Type.Params.List {
		if len(f.Names) == 0 {
			out = append(out, "_")
		}
		for _, n := range f.Names {
			out = append(out, n.Name)
		}
	}
	return out
}

func (x *rpcExtractor) calls(recv string, fd *ast.FuncDecl, depth int, t *taint) []rpcCall {
	var out []rpcCall
	if fd == nil || fd.Body == nil || depth > 4 {
		return out
	}
	if t == nil {
		t = &taint{proj: map[string]bool{}, user: map[string]bool{}}
	}
	self := recvName(fd)
	ast.Inspect(fd.Body, func(n ast.Node) bool {
		switch s := n.(type) {
		case *ast.AssignStmt:
			var p, u bool
			for _, r := range s.Rhs {
				pp, uu := t.mentions(r)
				p, u = p || pp, u || uu
			}
			for _, l := range s.Lhs {
				if id, ok := l.(*ast.Ident); ok && id.Name != "_" && id.Name != "err" {
					if p {
						t.proj[id.Name] = true
					}
					if u {
						t.user[id.Name] = true
					}
				}
			}
		case *ast.BinaryExpr:
			if s.Op == token.NEQ || s.Op == token.EQL {
				l, r := exprName(s.X), exprName(s.Y)
				if strings.HasSuffix(l, ".ProjectID") || strings.HasSuffix(r, ".ProjectID") {
					if p, _ := t.mentions(s); p {
						out = append(out, rpcCall{"check:ProjectID", true, false})
					}
				}
			}
		case *ast.CallExpr:
			name := exprName(s.Fun)
			if name == "" {
				return true
			}
			parts := strings.Split(name, ".")
			if len(parts) == 2 && parts[0] == self {
				if callee := x.methods[recv][parts[1]]; callee != nil {
					// taint of the arguments flows into the callee's parameters
					ct := &taint{proj: map[string]bool{}, user: map[string]bool{}}
					pn := paramNames(callee)
					for i, a := range s.Args {
						if i < len(pn) {
							pp, uu := t.mentions(a)
							if pp {
								ct.proj[pn[i]] = true
							}
							if uu {
								ct.user[pn[i]] = true
							}
						}
					}
					out = append(out, x.calls(recv, callee, depth+1, ct)...)
					return true
				}
			}
			if x.interesting(fd, name) {
				var p, u bool
				for _, a := range s.Args {
					pp, uu := t.mentions(a)
					p, u = p || pp, u || uu
				}
				// a method call on a project-derived value (clientInfo.Ensure…) is keyed by its receiver
				if sel, ok := s.Fun.(*ast.SelectorExpr); ok {
					pp, uu := t.mentions(sel.X)
					p, u = p || pp, u || uu
				}
				out = append(out, rpcCall{name, p, u})
			}
		}
		return true
	})
	return out
}

func leanStr(s string) string { return strconv.Quote(s) }
func leanBool(b bool) string {
	if b {
		return "true"
	}
	return "false"
}

func genRpc(repo string) (string, error) {
	// (i) procedure constants
	type proc struct{ svc, method string }
	var procs []proc
	cfiles, err := parseDir(repo, "api/yorkie/v1/v1connect", func(string) bool { return true })
	if err != nil {
		return "", err
	}
	for _, rf := range cfiles {
		ast.Inspect(rf.f, func(n ast.Node) bool {
			vs, ok := n.(*ast.ValueSpec)
			if !ok {
				return true
			}
			for i, id := range vs.Names {
				if !strings.HasSuffix(id.Name, "Procedure") || i >= len(vs.Values) {
					continue
				}
				bl, ok := vs.Values[i].(*ast.BasicLit)
				if !ok || bl.Kind != token.STRING {
					continue
				}
				v, _ := strconv.Unquote(bl.Value)
				if !strings.HasPrefix(v, "/yorkie.v1.") {
					continue
				}
				sm := strings.SplitN(strings.TrimPrefix(v, "/yorkie.v1."), "/", 2)
				if len(sm) == 2 {
					procs = append(procs, proc{sm[0], sm[1]})
				}
			}
			return true
		})
	}
	if len(procs) == 0 {
		return "", fmt.Errorf("no procedure constants found")
	}

	// (ii) handlers
	sfiles, err := parseDir(repo, "server/rpc", func(string) bool { return true })
	if err != nil {
		return "", err
	}
	x := &rpcExtractor{methods: map[string]map[string]*ast.FuncDecl{}, imports: map[*ast.FuncDecl]map[string]string{}}
	ctorResult := map[string]string{} // newXServer -> receiver type
	for _, rf := range sfiles {
		for _, d := range rf.f.Decls {
			fd, ok := d.(*ast.FuncDecl)
			if !ok {
				continue
			}
			x.imports[fd] = rf.imports
			if r := recvType(fd); r != "" {
				if x.methods[r] == nil {
					x.methods[r] = map[string]*ast.FuncDecl{}
				}
				x.methods[r][fd.Name.Name] = fd
			} else if fd.Type.Results != nil && len(fd.Type.Results.List) == 1 {
				if s, ok := fd.Type.Results.List[0].Type.(*ast.StarExpr); ok {
					if id, ok := s.X.(*ast.Ident); ok {
						ctorResult[fd.Name.Name] = id.Name
					}
				}
			}
		}
	}
	svcRecv := map[string]string{} // "YorkieService" -> "yorkieServer"
	type reg struct {
		ctor string
		opts bool
	}
	var regs []reg
	var installed []string
	for _, rf := range sfiles {
		ast.Inspect(rf.f, func(n ast.Node) bool {
			ce, ok := n.(*ast.CallExpr)
			if !ok {
				return true
			}
			name := exprName(ce.Fun)
			if strings.HasPrefix(name, "v1connect.New") && strings.HasSuffix(name, "Handler") && len(ce.Args) > 0 {
				svc := strings.TrimSuffix(strings.TrimPrefix(name, "v1connect.New"), "Handler")
				if inner, ok := ce.Args[0].(*ast.CallExpr); ok {
					if r, ok := ctorResult[exprName(inner.Fun)]; ok {
						svcRecv[svc] = r
					}
				}
				hasOpts := false
				for _, a := range ce.Args[1:] {
					if id, ok := a.(*ast.Ident); ok && id.Name == "opts" {
						hasOpts = true
					}
				}
				if ce.Ellipsis == token.NoPos {
					hasOpts = false
				}
				regs = append(regs, reg{strings.TrimPrefix(name, "v1connect."), hasOpts})
			}
			if name == "connect.WithInterceptors" {
				for _, a := range ce.Args {
					if id, ok := a.(*ast.Ident); ok {
						installed = append(installed, id.Name)
					}
				}
			}
			return true
		})
	}

	var sb strings.Builder
	sb.WriteString("namespace Yorkie.Generated.Rpc\n\n")
	sb.WriteString("/-- (service, method) of every `…Procedure` constant in api/yorkie/v1/v1connect/*.go -/\n")
	sb.WriteString("def procedures : List (String × String) := [\n")
	for i, p := range procs {
		sep := ","
		if i == len(procs)-1 {
			sep = ""
		}
		fmt.Fprintf(&sb, "  (%s, %s)%s\n", leanStr(p.svc), leanStr(p.method), sep)
	}
	sb.WriteString("]\n\n")
	sb.WriteString("/-- (service, method, ordered guard/lookup calls of the handler in server/rpc/*_server.go;\n    each call with: an argument derives from the request's project, … from the authenticated user).\n    A handler that does not exist is listed with the single call \"<missing>\". -/\n")
	sb.WriteString("def handlers : List (String × String × List (String × Bool × Bool)) := [\n")
	for i, p := range procs {
		var cs []rpcCall
		recv, ok := svcRecv[p.svc]
		if fd := x.methods[recv][p.method]; ok && fd != nil {
			cs = x.calls(recv, fd, 0, nil)
		} else {
			cs = []rpcCall{{"<missing>", false, false}}
		}
		var items []string
		for _, c := range cs {
			items = append(items, fmt.Sprintf("(%s, %s, %s)", leanStr(c.name), leanBool(c.proj), leanBool(c.user)))
		}
		sep := ","
		if i == len(procs)-1 {
			sep = ""
		}
		fmt.Fprintf(&sb, "  (%s, %s, [%s])%s\n", leanStr(p.svc), leanStr(p.method), strings.Join(items, ", "), sep)
	}
	sb.WriteString("]\n\n")

	// (iii) interceptors
	ifiles, err := parseDir(repo, "server/rpc/interceptors", func(n string) bool {
		return n == "admin.go" || n == "yorkie.go" || n == "cluster.go"
	})
	if err != nil {
		return "", err
	}
	var exempt []string
	type pref struct{ file, fn, lit string }
	var prefixes []pref
	type flow struct {
		file, fn string
		calls    []string
	}
	var flows []flow
	clusterOpen := false
	for idx, rf := range ifiles {
		fname := []string{"admin", "cluster", "yorkie"}[idx] // parseDir sorts names
		for _, d := range rf.f.Decls {
			fd, ok := d.(*ast.FuncDecl)
			if !ok || fd.Body == nil {
				continue
			}
			switch {
			case fd.Name.Name == "isRequiredAuth":
				ast.Inspect(fd.Body, func(n ast.Node) bool {
					if be, ok := n.(*ast.BinaryExpr); ok && be.Op == token.NEQ {
						if bl, ok := be.Y.(*ast.BasicLit); ok && bl.Kind == token.STRING {
							v, _ := strconv.Unquote(bl.Value)
							exempt = append(exempt, v)
						}
					}
					return true
				})
			case strings.HasPrefix(fd.Name.Name, "is") && strings.HasSuffix(fd.Name.Name, "Service"):
				ast.Inspect(fd.Body, func(n ast.Node) bool {
					if ce, ok := n.(*ast.CallExpr); ok && exprName(ce.Fun) == "strings.HasPrefix" && len(ce.Args) == 2 {
						if bl, ok := ce.Args[1].(*ast.BasicLit); ok {
							v, _ := strconv.Unquote(bl.Value)
							prefixes = append(prefixes, pref{fname, fd.Name.Name, v})
						}
					}
					return true
				})
			case fd.Name.Name == "WrapUnary" || fd.Name.Name == "WrapStreamingHandler" ||
				fd.Name.Name == "buildContext" || fd.Name.Name == "authenticate":
				self := recvName(fd)
				var cs []string
				ast.Inspect(fd.Body, func(n ast.Node) bool {
					switch s := n.(type) {
					case *ast.CallExpr:
						name := exprName(s.Fun)
						parts := strings.Split(name, ".")
						switch {
						case name == "next", strings.HasPrefix(name, "is") && len(parts) == 1:
							cs = append(cs, name)
						case parts[0] == self && len(parts) >= 2 && parts[1] != "backend" && parts[1] != "requestID":
							cs = append(cs, "i."+strings.Join(parts[1:], "."))
						case parts[0] == "projects" || parts[0] == "users" || name == "subtle.ConstantTimeCompare":
							cs = append(cs, name)
						}
					case *ast.IfStmt:
						if fname == "cluster" && fd.Name.Name == "authenticate" {
							if be, ok := s.Cond.(*ast.BinaryExpr); ok && be.Op == token.EQL &&
								strings.HasSuffix(exprName(be.X), ".clusterSecret") {
								if bl, ok := be.Y.(*ast.BasicLit); ok && bl.Value == `""` {
									clusterOpen = true
								}
							}
						}
					}
					return true
				})
				flows = append(flows, flow{fname, fd.Name.Name, cs})
			}
		}
	}
	q := func(l []string) string {
		var o []string
		for _, s := range l {
			o = append(o, leanStr(s))
		}
		return "[" + strings.Join(o, ", ") + "]"
	}
	sb.WriteString("/-- procedures `isRequiredAuth` (interceptors/admin.go) exempts from authentication -/\n")
	fmt.Fprintf(&sb, "def adminAuthExempt : List String := %s\n\n", q(exempt))
	sb.WriteString("/-- (interceptor file, predicate, literal prefix it claims) -/\n")
	sb.WriteString("def servicePrefix : List (String × String × String) := [")
	for i, p := range prefixes {
		if i > 0 {
			sb.WriteString(", ")
		}
		fmt.Fprintf(&sb, "(%s, %s, %s)", leanStr(p.file), leanStr(p.fn), leanStr(p.lit))
	}
	sb.WriteString("]\n\n")
	sb.WriteString("/-- (interceptor file, function, ordered calls: `next`, `is…`, `i.…`, `projects.…`, `users.…`, constant-time compare) -/\n")
	sb.WriteString("def interceptorFlow : List (String × String × List String) := [\n")
	for i, f := range flows {
		sep := ","
		if i == len(flows)-1 {
			sep = ""
		}
		fmt.Fprintf(&sb, "  (%s, %s, %s)%s\n", leanStr(f.file), leanStr(f.fn), q(f.calls), sep)
	}
	sb.WriteString("]\n\n")
	sb.WriteString("/-- cluster `authenticate` has the documented open mode `if i.clusterSecret == \"\" { return nil }` -/\n")
	fmt.Fprintf(&sb, "def clusterOpenWhenNoSecret : Bool := %s\n\n", leanBool(clusterOpen))
	sb.WriteString("/-- arguments of `connect.WithInterceptors(…)` in server/rpc/server.go -/\n")
	fmt.Fprintf(&sb, "def installedInterceptors : List String := %s\n\n", q(installed))
	sb.WriteString("/-- (`v1connect.New…Handler` call in server/rpc/server.go, registered with `opts...`) -/\n")
	sb.WriteString("def registeredHandlers : List (String × Bool) := [")
	for i, r := range regs {
		if i > 0 {
			sb.WriteString(", ")
		}
		fmt.Fprintf(&sb, "(%s, %s)", leanStr(r.ctor), leanBool(r.opts))
	}
	sb.WriteString("]\n\n")
	if err := genAuthWebhook(repo, &sb); err != nil {
		return "", err
	}
	sb.WriteString("end Yorkie.Generated.Rpc\n")
	return sb.String(), nil
}

// render prints an expression as source text.
func render(fset *token.FileSet, e ast.Node) string {
	var sb strings.Builder
	if err := printer.Fprint(&sb, fset, e); err != nil {
		return "<unprintable>"
	}
	return strings.Join(strings.Fields(sb.String()), " ")
}

// genAuthWebhook: (iv) the verdict cache of the auth webhook.
func genAuthWebhook(repo string, sb *strings.Builder) error {
	fset := token.NewFileSet()
	file := "server/rpc/auth/webhook.go"
	f, err := parser.ParseFile(fset, filepath.Join(repo, file), nil, 0)
	if err != nil {
		return err
	}
	q := func(l []string) string {
		var o []string
		for _, s := range l {
			o = append(o, leanStr(s))
		}
		return "[" + strings.Join(o, ", ") + "]"
	}
	format, stmts := "<generateCacheKey not found>", 0
	var args, params []string
	var callSites [][]string
	type vcall struct {
		name string
		args []string
	}
	var flow []vcall
	var assigns [][2]string // in verifyAccess: lhs := rhs for single-ident lhs
	for _, d := range f.Decls {
		fd, ok := d.(*ast.FuncDecl)
		if !ok || fd.Body == nil {
			continue
		}
		if fd.Name.Name == "generateCacheKey" {
			params = paramNames(fd)
			stmts = len(fd.Body.List)
			format = "<not a single return of fmt.Sprintf>"
			if len(fd.Body.List) == 1 {
				if rs, ok := fd.Body.List[0].(*ast.ReturnStmt); ok && len(rs.Results) == 1 {
					if ce, ok := rs.Results[0].(*ast.CallExpr); ok && exprName(ce.Fun) == "fmt.Sprintf" && len(ce.Args) >= 1 {
						if bl, ok := ce.Args[0].(*ast.BasicLit); ok && bl.Kind == token.STRING {
							format, _ = strconv.Unquote(bl.Value)
							for _, a := range ce.Args[1:] {
								args = append(args, render(fset, a))
							}
						}
					}
				}
			}
			if format == "<not a single return of fmt.Sprintf>" {
				// still say what the last return mentions, so that the failing obligation is readable
				ast.Inspect(fd.Body, func(n ast.Node) bool {
					if rs, ok := n.(*ast.ReturnStmt); ok && len(rs.Results) == 1 {
						args = []string{render(fset, rs.Results[0])}
					}
					return true
				})
			}
		}
		ast.Inspect(fd.Body, func(n ast.Node) bool {
			switch x := n.(type) {
			case *ast.CallExpr:
				if exprName(x.Fun) == "generateCacheKey" {
					var as []string
					for _, a := range x.Args {
						as = append(as, render(fset, a))
					}
					callSites = append(callSites, as)
				}
				if fd.Name.Name == "verifyAccess" {
					if nm := exprName(x.Fun); nm != "" && nm != "fmt.Errorf" {
						var as []string
						for _, a := range x.Args {
							as = append(as, render(fset, a))
						}
						flow = append(flow, vcall{nm, as})
					}
				}
			case *ast.AssignStmt:
				if fd.Name.Name == "verifyAccess" && len(x.Lhs) >= 1 && len(x.Rhs) == 1 {
					if id, ok := x.Lhs[0].(*ast.Ident); ok {
						assigns = append(assigns, [2]string{id.Name, render(fset, x.Rhs[0])})
					}
				}
			}
			return true
		})
	}
	sb.WriteString("/-- `generateCacheKey` (server/rpc/auth/webhook.go): format string of its single `return fmt.Sprintf(…)` -/\n")
	fmt.Fprintf(sb, "def authCacheKeyFormat : String := %s\n\n", leanStr(format))
	sb.WriteString("/-- … the arguments of that `Sprintf` (source text) -/\n")
	fmt.Fprintf(sb, "def authCacheKeyArgs : List String := %s\n\n", q(args))
	sb.WriteString("/-- … the parameters of `generateCacheKey` and the number of statements of its body -/\n")
	fmt.Fprintf(sb, "def authCacheKeyParams : List String := %s\n\n", q(params))
	fmt.Fprintf(sb, "def authCacheKeyBodyStmts : Nat := %d\n\n", stmts)
	sb.WriteString("/-- arguments at every call site of `generateCacheKey` -/\n")
	sb.WriteString("def authCacheKeyCallSites : List (List String) := [")
	for i, c := range callSites {
		if i > 0 {
			sb.WriteString(", ")
		}
		sb.WriteString(q(c))
	}
	sb.WriteString("]\n\n")
	sb.WriteString("/-- ordered calls of `verifyAccess` with their arguments (source text) -/\n")
	sb.WriteString("def authVerifyFlow : List (String × List String) := [\n")
	for i, c := range flow {
		sep := ","
		if i == len(flow)-1 {
			sep = ""
		}
		fmt.Fprintf(sb, "  (%s, %s)%s\n", leanStr(c.name), q(c.args), sep)
	}
	sb.WriteString("]\n\n")
	sb.WriteString("/-- single-identifier assignments of `verifyAccess`: (variable, right-hand side) -/\n")
	sb.WriteString("def authVerifyAssigns : List (String × String) := [")
	for i, a := range assigns {
		if i > 0 {
			sb.WriteString(", ")
		}
		fmt.Fprintf(sb, "(%s, %s)", leanStr(a[0]), leanStr(a[1]))
	}
	sb.WriteString("]\n\n")
	return nil
}
