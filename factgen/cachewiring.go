package main

// extractor `CacheWiring` (C20): which configuration value ends up as the size and the
// time-to-live of which cache. Purely syntactic, three hops:
//
//   (i)   server/backend/cache/manager.go, func New: every `v, err := cache.New<Ctor>[…](args…)`
//         (constructor name, source text of every argument, whitespace collapsed) and the
//         `&Manager{Field: v, …}` literal that says which Manager field each `v` becomes; plus
//         the fields of `type Manager struct` and of `type Options struct`;
//   (ii)  server/backend/backend.go: the `cache.Options{Key: value, …}` literal handed to
//         `cache.New` (source text of every value);
//   (iii) server/backend/config.go: for every `func (c *Config) Parse<X>() time.Duration` the
//         config field whose string it hands to `time.ParseDuration`.
//
// A constructor call the extractor does not understand (not assigned to a variable, variable
// not placed into the Manager literal, spread arguments, …) is emitted into `unrecognised`, which
// the theorems require to be empty.

import (
	"bytes"
	"fmt"
	"go/ast"
	"go/parser"
	"go/printer"
	"go/token"
	"path/filepath"
	"strings"
)

func init() { register("CacheWiring", genCacheWiring) }

type cwCache struct {
	field, variable, ctor string
	args                  []string
	line                  int
}

func cwText(fset *token.FileSet, n ast.Node) string {
	var buf bytes.Buffer
	if err := printer.Fprint(&buf, fset, n); err != nil {
		return "?"
	}
	return strings.Join(strings.Fields(buf.String()), " ")
}

// cwCtor recognises `cache.New…[…](…)` / `cache.New…(…)` and returns the constructor name.
func cwCtor(e ast.Expr) (string, *ast.CallExpr, bool) {
	ce, ok := e.(*ast.CallExpr)
	if !ok {
		return "", nil, false
	}
	fun := ce.Fun
	switch ix := fun.(type) {
	case *ast.IndexExpr:
		fun = ix.X
	case *ast.IndexListExpr:
		fun = ix.X
	}
	sel, ok := fun.(*ast.SelectorExpr)
	if !ok {
		return "", nil, false
	}
	pkg, ok := sel.X.(*ast.Ident)
	if !ok || pkg.Name != "cache" || !strings.HasPrefix(sel.Sel.Name, "New") {
		return "", nil, false
	}
	return sel.Sel.Name, ce, true
}

func cwStructFields(f *ast.File, name string) []string {
	var res []string
	ast.Inspect(f, func(n ast.Node) bool {
		ts, ok := n.(*ast.TypeSpec)
		if !ok || ts.Name.Name != name {
			return true
		}
		if st, ok := ts.Type.(*ast.StructType); ok {
			for _, fl := range st.Fields.List {
				for _, id := range fl.Names {
					res = append(res, id.Name)
				}
			}
		}
		return false
	})
	return res
}

func cwStrList(l []string) string { return "[" + strings.Join(mapStr(l, leanStr), ", ") + "]" }

func genCacheWiring(repo string) (string, error) {
	fset := token.NewFileSet()
	mgrPath := "server/backend/cache/manager.go"
	mf, err := parser.ParseFile(fset, filepath.Join(repo, mgrPath), nil, 0)
	if err != nil {
		return "", err
	}
	var newFn *ast.FuncDecl
	for _, d := range mf.Decls {
		if fd, ok := d.(*ast.FuncDecl); ok && fd.Recv == nil && fd.Name.Name == "New" && fd.Body != nil {
			newFn = fd
		}
	}
	if newFn == nil {
		return "", fmt.Errorf("func New not found in %s", mgrPath)
	}
	// (i) constructor calls and the Manager literal
	byVar := map[string]*cwCache{}
	var caches []*cwCache
	var unrecognised []string
	claimed := map[*ast.CallExpr]bool{}
	ast.Inspect(newFn.Body, func(n ast.Node) bool {
		as, ok := n.(*ast.AssignStmt)
		if !ok || len(as.Rhs) != 1 {
			return true
		}
		ctor, ce, ok := cwCtor(as.Rhs[0])
		if !ok {
			return true
		}
		claimed[ce] = true
		id, isID := as.Lhs[0].(*ast.Ident)
		if !isID || id.Name == "_" || ce.Ellipsis.IsValid() {
			unrecognised = append(unrecognised, fmt.Sprintf("%s:%d", mgrPath, fset.Position(ce.Pos()).Line))
			return true
		}
		c := &cwCache{variable: id.Name, ctor: ctor, line: fset.Position(ce.Pos()).Line}
		for _, a := range ce.Args {
			c.args = append(c.args, cwText(fset, a))
		}
		byVar[id.Name] = c
		caches = append(caches, c)
		return true
	})
	// constructor calls anywhere else in the file (not `v, err := …` inside New)
	ast.Inspect(mf, func(n ast.Node) bool {
		if ce, ok := n.(*ast.CallExpr); ok {
			if _, _, ok := cwCtor(ce); ok && !claimed[ce] {
				unrecognised = append(unrecognised, fmt.Sprintf("%s:%d", mgrPath, fset.Position(ce.Pos()).Line))
			}
		}
		return true
	})
	ast.Inspect(newFn.Body, func(n ast.Node) bool {
		cl, ok := n.(*ast.CompositeLit)
		if !ok {
			return true
		}
		if id, ok := cl.Type.(*ast.Ident); !ok || id.Name != "Manager" {
			return true
		}
		for _, el := range cl.Elts {
			kv, ok := el.(*ast.KeyValueExpr)
			if !ok {
				unrecognised = append(unrecognised, fmt.Sprintf("%s:%d", mgrPath, fset.Position(el.Pos()).Line))
				continue
			}
			k, _ := kv.Key.(*ast.Ident)
			v, _ := kv.Value.(*ast.Ident)
			if k == nil || v == nil || byVar[v.Name] == nil || byVar[v.Name].field != "" {
				unrecognised = append(unrecognised, fmt.Sprintf("%s:%d", mgrPath, fset.Position(el.Pos()).Line))
				continue
			}
			byVar[v.Name].field = k.Name
		}
		return true
	})
	for _, c := range caches {
		if c.field == "" {
			unrecognised = append(unrecognised, fmt.Sprintf("%s:%d", mgrPath, c.line))
		}
	}
	// (ii) the Options literal in backend.go
	bePath := "server/backend/backend.go"
	bf, err := parser.ParseFile(fset, filepath.Join(repo, bePath), nil, 0)
	if err != nil {
		return "", err
	}
	type kv struct{ k, v string }
	var fill []kv
	nLits := 0
	ast.Inspect(bf, func(n ast.Node) bool {
		cl, ok := n.(*ast.CompositeLit)
		if !ok {
			return true
		}
		sel, ok := cl.Type.(*ast.SelectorExpr)
		if !ok || sel.Sel.Name != "Options" {
			return true
		}
		if id, ok := sel.X.(*ast.Ident); !ok || id.Name != "cache" {
			return true
		}
		nLits++
		for _, el := range cl.Elts {
			e, ok := el.(*ast.KeyValueExpr)
			if !ok {
				unrecognised = append(unrecognised, fmt.Sprintf("%s:%d", bePath, fset.Position(el.Pos()).Line))
				continue
			}
			fill = append(fill, kv{cwText(fset, e.Key), cwText(fset, e.Value)})
		}
		return true
	})
	if nLits != 1 {
		unrecognised = append(unrecognised, fmt.Sprintf("%s: %d cache.Options literals", bePath, nLits))
	}
	// (iii) the duration parsers of the config
	cfPath := "server/backend/config.go"
	cf, err := parser.ParseFile(fset, filepath.Join(repo, cfPath), nil, 0)
	if err != nil {
		return "", err
	}
	var parsers []kv
	for _, d := range cf.Decls {
		fd, ok := d.(*ast.FuncDecl)
		if !ok || fd.Recv == nil || fd.Body == nil || !strings.HasPrefix(fd.Name.Name, "Parse") {
			continue
		}
		var fields []string
		ast.Inspect(fd.Body, func(n ast.Node) bool {
			ce, ok := n.(*ast.CallExpr)
			if !ok {
				return true
			}
			if sel, ok := ce.Fun.(*ast.SelectorExpr); ok && sel.Sel.Name == "ParseDuration" && len(ce.Args) == 1 {
				if a, ok := ce.Args[0].(*ast.SelectorExpr); ok {
					fields = append(fields, a.Sel.Name)
				} else {
					fields = append(fields, "?"+cwText(fset, ce.Args[0]))
				}
			}
			return true
		})
		if len(fields) > 0 {
			parsers = append(parsers, kv{fd.Name.Name, strings.Join(fields, ",")})
		}
	}
	// emit
	var sb strings.Builder
	sb.WriteString("namespace Yorkie.Generated.CacheWiring\n\n")
	sb.WriteString("/-- one cache the Manager constructs: the Manager field it becomes, the constructor of pkg/cache,\n")
	sb.WriteString("    and the source text of the constructor's arguments -/\n")
	sb.WriteString("structure Cache where\n  field : String\n  ctor : String\n  args : List String\n  line : Nat\n  deriving DecidableEq, Repr\n\n")
	fmt.Fprintf(&sb, "/-- %s, func New -/\ndef caches : List Cache := [\n", mgrPath)
	for i, c := range caches {
		sep := ","
		if i == len(caches)-1 {
			sep = ""
		}
		fmt.Fprintf(&sb, "  { field := %s, ctor := %s, args := %s, line := %d }%s\n", leanStr(c.field), leanStr(c.ctor), cwStrList(c.args), c.line, sep)
	}
	sb.WriteString("]\n\n")
	fmt.Fprintf(&sb, "/-- fields of `type Manager struct` -/\ndef managerFields : List String := %s\n\n", cwStrList(cwStructFields(mf, "Manager")))
	fmt.Fprintf(&sb, "/-- fields of `type Options struct` -/\ndef optionFields : List String := %s\n\n", cwStrList(cwStructFields(mf, "Options")))
	fmt.Fprintf(&sb, "/-- %s: the `cache.Options{…}` literal, (option field, source text of its value) -/\ndef optionsFill : List (String × String) := [", bePath)
	for i, e := range fill {
		if i > 0 {
			sb.WriteString(", ")
		}
		fmt.Fprintf(&sb, "(%s, %s)", leanStr(e.k), leanStr(e.v))
	}
	sb.WriteString("]\n\n")
	fmt.Fprintf(&sb, "/-- %s: (method `Parse<X>`, config field handed to time.ParseDuration) -/\ndef durationParsers : List (String × String) := [", cfPath)
	for i, e := range parsers {
		if i > 0 {
			sb.WriteString(", ")
		}
		fmt.Fprintf(&sb, "(%s, %s)", leanStr(e.k), leanStr(e.v))
	}
	sb.WriteString("]\n\n")
	fmt.Fprintf(&sb, "/-- constructor calls / literal elements the extractor could not interpret -/\ndef unrecognised : List String := %s\n\n", cwStrList(unrecognised))
	sb.WriteString("end Yorkie.Generated.CacheWiring\n")
	return sb.String(), nil
}
