#!/bin/bash
# sweep.sh [seeds...] : runs every registered quick check for each seed (unchanged tree), prints one line per run
cd "$(dirname "$0")"
[ -x .build/yk-harness ] || ./setup.sh >/dev/null 2>&1
SEEDS="${@:-1 2 3}"
IDS=$(python3 -c "import json;print(' '.join(c['property_id'] for c in json.load(open('MANIFEST.json'))['checks']))")
for s in $SEEDS; do for id in $IDS; do
  out=$(VERIF_SEED=$s timeout 1800 ./check.py $id --tier quick 2>&1); rc=$?
  echo "seed=$s $id rc=$rc $(echo "$out" | grep -c '^VIOLATION') violations :: $(echo "$out" | tail -n 1 | cut -c1-160)"
done; done
