#!/bin/sh
# Build the framework from files on disk only (offline).
set -e
cd "$(dirname "$0")"
export GOFLAGS=-mod=mod GOPROXY=off
mkdir -p .build evidence replay
(cd factgen && go build -o ../.build/factgen . )
./.build/factgen -repo /repo -out lean/YorkieModel/Generated
(cd lean && lake build 2>&1 | tail -5)
cp /repo/go.sum harness/go.sum
(cd harness && go build -tags verif -o ../.build/yk-harness . )
echo setup-ok
