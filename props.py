"""Per-property configuration for check.py: one file per property under props.d/."""
import importlib.util, os

_D = os.path.join(os.path.dirname(os.path.abspath(__file__)), "props.d")
PROPS = {}
for _f in sorted(os.listdir(_D)):
    if _f.endswith(".py"):
        _spec = importlib.util.spec_from_file_location("props_d_" + _f[:-3], os.path.join(_D, _f))
        _m = importlib.util.module_from_spec(_spec)
        _spec.loader.exec_module(_m)
        PROPS[_f[:-3]] = _m.PROP

# properties that are deliberately not claimed, with the reason (kept current)
NOT_APPLICABLE = {}
# /repo commits that add build-tag-guarded hooks
HOOK_COMMITS = ["a001e5fd", "3e1e5259", "77df935b"]
