from props_common import BASE_TB

PROP = {
    "modules": ["YorkieModel.Props.C14"],
    "engines": [
        {"name": "undo", "args": ["stream=c14"],
         "quick": {"n": 3200, "workers": 8, "args": ["workers=8"]},
         "thorough": {"n": 30000, "workers": 14, "args": ["workers=14"]}},
    ],
    "trusted_base": BASE_TB + [
        "Model/Undo.lean keeps one heap entry per identity (the registered instance); it models the tree WITH the repair hooks/fix-c14-reconcile-parent.patch (switch `fixReconcileParent := true`; the `false` instance is the tree before it and is kept for the witnesses of the old behaviour)",
        "forward edits are op-fed: the json layer's construction of forward operations is tied by the crdt engine (C01/C07), not here; every fed operation is checked to carry the ticket IssueTimeTicket would issue (`fresh=true`)",
    ],
    "level_text": "Theorems in Lean over every single-replica history state (unbounded size, tombstones, nested containers): undo∘do and redo∘undo∘do restore Marshal() for the content alphabet under an explicit side condition (the edited container has no removed ancestor), lifted over the stacks up to the generated depth limit; totality for move/set-by-index; witnesses of the repaired re-identification defect for the switch-off model and `…_fixed` theorems for the repaired one; tied to pkg/document (history.go, executeUndoRedo, operations/*.Execute reverse construction, ReconcileCreatedAt, re-ticketing) by differential replay in which the model computes the undo/redo operations itself.",
    "level_note": "Trusted: Lean kernel; the hand-written Model/Undo.lean agrees with the Go code as far as the `undo` engine's enumerated and random programs exercise it; text and tree undo are not modelled.",
    "technique": "Lean 4 proof (frame/congruence lemmas over the element heap, induction over the stacks) + differential replay of Document.Update/Undo/Redo",
    "partial": [
        "text insert/delete/replace/style undo and tree undo are not modelled (engine and theorems cover objects, arrays incl. move/set-by-index, counters)",
        "the re-identification defect (former F-C14-array-reid: stale parent, same-entry, dead twin) is repaired (known_findings.json `fixed`, 868855dc); its witnesses S1..S6 are regression traces in corpus/C14 and `…_fixed` theorems; the harness no longer tolerates any of it (a recurrence is a plain violation; `reid=old` re-enables the old predicates for a tree without the repair)",
        "depth-k theorems (undo_stack_inv_array / redo_stack_inv_array) cover the mixed alphabet of LEAF values (object set/delete, counter increase on object members, array insert/delete of leaves, incl. ReconcileCreatedAt); container-valued overwrite/delete: undo proved at depth 1 for tree-shaped subtrees (no removed descendants, no moved array elements), redo of container-valued edits and depth k with container values not proved; arrays with moved elements are outside PlainArrs",
        "array move / set-by-index: undo_total only (as the property says)",
        "inside the region of a listed finding the recorded-content oracle is switched off for the rest of the trace (correspondence with the model continues)",
    ],
    "not_modelled": ["presence entries of the history stacks", "Text/Tree reverse operations (ReconcileTextEdit/ReconcileTreeEdit)", "dedup counters"],
    "assumptions": ["no remote change is applied between do and undo (C14's premise); forward operations are the ones the json layer produced (op-fed, ticket freshness checked per change)"],
}
