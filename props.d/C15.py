from props_common import BASE_TB

PROP = {
    "modules": ["YorkieModel.Props.C15"],
    "engines": [
        {"name": "undo", "args": ["stream=c15"],
         "quick": {"n": 4000, "workers": 8, "args": ["workers=8"]},
         "thorough": {"n": 100000, "workers": 14, "args": ["workers=14"]}},
    ],
    "trusted_base": BASE_TB + [
        "simulated server (log in server order, no echo, wire round trip through api/converter per delivery, min version vector over the request vectors of both replicas when GC is on) instead of server/packs",
        "Model/Undo.lean has one heap entry per identity and no garbage collection: a trace is compared with the model only up to the first step at which the history matches the characterisation of a listed finding (identity re-use racing a concurrent edit, purge of a re-used identity, purged undo target); from there on only the oracle runs",
    ],
    "level_text": "Lean: operations produced by undo/redo, executed with source remote on a peer holding the same document, yield the same document as on the author when nothing was skipped (undo_ops_are_ordinary_partial); proved negation witnesses for the three ways the full statement fails (redo + peer GC, identity re-use racing a concurrent edit with GC off); tie: two real Documents over a simulated server, exhaustive small scope + random, GC off and on, the author's undo/redo operations computed by the model, deliveries op-fed.",
    "level_note": "The full property is false on the pinned tree (one upstream-documented and two further findings, all listed with witnesses); the theorem is therefore partial. Convergence of undo/redo changes that race concurrent edits is not proved (it is false in general).",
    "technique": "Lean 4 proof + witnesses by evaluation; differential replay with exhaustive small-scope enumeration of two-client histories",
    "partial": [
        "text and tree undo/redo not modelled; styles",
        "convergence is proved only for a peer that holds the author's document (no concurrent edit): in general it is FALSE (F-C15-reuse-concurrent)",
        "GC: the model has no purge; the GC half of redo_gc_witness lives in the minimal fragment Model/UndoGc.lean (objects), GC-on histories are otherwise covered by the implementation oracle only after the first purge that matters",
        "GC-on stream uses the object/counter alphabets only (array tombstone purges are C03's known findings)",
        "model gap (not a finding): a delivered operation whose parent is the OLD identity of an array element that the receiver re-inserted by undo/redo acts on the tombstone's own children in Go (invisible, replicas converge); the one-entry-per-identity heap cannot express it, such traces are compared only up to that delivery (counter muted-traces:remote-into-reid, corpus/C15/undo-remote-into-old-identity.trace)",
        "the single-replica re-identification defect (former F-C14-array-reid / F-C15-array-reid) is repaired (FIXU); S7 (collecting the tombstone of a re-identified container) is a regression trace in corpus/C15",
        "in GC-on traces removed members of objects are not compared in the structural dump of restored values (a replica may or may not have purged them)",
    ],
    "not_modelled": ["server/packs (real push-pull), snapshots", "presence"],
    "assumptions": ["each replica applies every change exactly once in server order (C04/C05)"],
}
