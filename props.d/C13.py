from props_common import BASE_TB

PROP = {
    "modules": ["YorkieModel.Props.C13"],
    "engines": [
        # finite space, enumerated exhaustively in both tiers. The engine shards its traces over the
        # workers: n must be workers^2 (each worker is started with -n workers and seed%1000 = its index).
        {"name": "access", "quick": {"n": 16, "workers": 4}, "thorough": {"n": 16, "workers": 4}},
    ],
    "trusted_base": BASE_TB + [
        "factgen/rpc.go: syntactic go/ast extraction (procedure constants, handler call lists with project/user taint by identifier flow, interceptor tables); a guard hidden behind an alias or a helper in another package is not seen by T-gen (the request matrix still sees its behaviour)",
        "the server runs WITH a cluster secret; the documented open mode of the cluster interceptor (no secret configured, docs/design/cluster-service-auth.md) is not a finding and is not exercised",
        "victim state = every memdb table row carrying the project's id (read through the unexported memdb handle by reflection) + the channel manager's per-project channel list; mongo backend, caches and session TTL timestamps are outside the dump",
        "requests are sent by a hand-written Connect-protocol client (harness/eng_access.go) so that arbitrary header combinations can be presented",
        "auth webhooks are two httptest endpoints inside the harness (one per project, verdict by token, call counters); the verdict cache TTL is set to 4s through backend.Config.AuthWebhookCacheTTL, a cold cache is produced by Cache.AuthWebhook.Purge(), real expiry is waited for once per configuration in the thorough tier only",
    ],
    "level_text": "Lean: frame theorem for the model's request execution over every store and request (a request resolves to one project; every other project is unchanged; the decision depends on that project's state only), decision table total over the procedure list re-extracted from api/yorkie/v1/v1connect on every run, guard obligations over the call lists re-extracted from server/rpc/*_server.go and the interceptors, foreign-denied / no-credential-denied / existence-hidden over the whole request matrix by kernel evaluation. Auth webhook: webhook_cache_transparent over every sequence of requests and evictions for any number of projects (a verdict is always the own project's webhook's, fresh or cached within the TTL), the cache-key expression re-extracted from server/rpc/auth/webhook.go, witness for the key without the project. Tie: the same matrix (every procedure x credential kind x target kind x UseDefaultProject on/off) sent to a real in-process server with two projects using identical keys, decision compared line by line with the model and the victim projects' memdb state compared byte-wise before/after every request; plus, with an auth webhook endpoint per project, every Yorkie procedure x home project x token in both orders inside the cache TTL and with a cold cache, decision and own-webhook call count compared with the model.",
    "level_note": "The full statements hold of the current tree. They were false of the pinned tree at three lookups by bare id (YorkieService/GetRevision; DetachChannel, RefreshChannel), found by this check and repaired in /repo (ddb0dfd3, 3821028d); the model follows the repaired handlers, getRevision_fixed_witness / sessionScope_fixed_witness document the old variants. Error *texts* are not modelled (oracle only); the text differences and the printed owning-project id the oracle found were repaired by /repo 863f1a42, no known finding is left. One documented text difference about project names/ids (membership vs existence) is counted, not reported – see not_modelled.",
    "technique": "Lean 4 proof (frame theorem + kernel-evaluated decision matrix over T-gen tables) + exhaustive differential replay against a real server",
    "partial": [],
    "not_modelled": [
        "text of error messages: not in the Lean model, oracle only. The oracle compares the text for a foreign id with the text for a nowhere-existing id and scans every response for identifiers of a victim project; since /repo 863f1a42 any difference for clients / documents / revisions / sessions and any printed foreign project id is a plain violation",
        "documented behaviour, counted but not reported (distribution key `documented:project-membership-vs-existence-text`): on the admin service a signed-up user can tell a project he is not a member of (`project member not found`, ErrMemberNotFound) from a project that does not exist (`<name|id>: project not found`, ErrProjectNotFound). That concerns project names / ids, which are globally unique (CreateProject answers already_exists) and which C13 (`clients and documents of another project`) does not cover; the status code is not_found in both cases",
        "auth webhook: modelled as a per-project verdict function plus the verdict cache keyed as the code keys it (webhook_cache_transparent; the key expression is a T-gen fact). The webhook lines run every Yorkie procedure with the own ids only; attributes (document / channel keys, verbs) are the shared names, the webhook's verdict depends on the token only; retries / back-off of pkg/webhook and the 401-is-not-cached rule are exercised (token `none`) but a webhook that changes its verdict over time is covered by the theorem only, not by the harness",
        "CORS origin check of the Yorkie interceptor; MCP and auth HTTP handlers (not part of the three service descriptors)",
        "malformed payloads (every request of the matrix is well-formed; validation order is not modelled)",
    ],
    "assumptions": [
        "handlers reach project data only through the calls T-gen extracts, and the database honours the project id it is given (checked behaviourally by the matrix against the memory DB, not against MongoDB)",
    ],
}
