from props_common import BASE_TB

PROP = {
    "modules": ["YorkieModel.Props.C02", "YorkieModel.Props.C20Srv"],
    "engines": [
        # integrated engine: real client SDK + real in-process server (memory DB), traffic captured at the HTTP transport
        {"name": "srv", "args": ["orc=c02"], "quick": {"n": 480, "workers": 8}, "thorough": {"n": 12000, "workers": 14}},
        {"name": "fdoc", "args": ["mix=c02"],
         "quick": {"n": 6400, "workers": 8}, "thorough": {"n": 40000, "workers": 14}},
    ],
    "trusted_base": BASE_TB + [
        "snapshot codec modelled at struct level in heap form (per container: what the wire message carries); protobuf byte encoding itself is C09's concern and is exercised here only through the real converter",
        "Go map iteration order of toRHTNodes is fed to the model (`perm`), read back from the encoded bytes",
        "server snapshot machinery is re-enacted by the harness with real InternalDocuments (stored-snapshot lineage, cached GC'd rebuild, DeepCopy hand-out) instead of a real server + memdb",
    ],
    "level_text": "Lean theorems over the faithful document model (unbounded roots, EVERY order in which the encoder walks its Go maps): decode∘encode (+NewRoot) and Root.DeepCopy preserve Marshal and every visible member / element list under the explicit decidable `SnapSafe` (current tree: only non-sanity clause is `no live LWW loser`; before repair 13fe0442 additionally the Add-anchor exclusion); rebuild from a stored snapshot state + log suffix = full fold; negation witnesses by kernel evaluation (open LWW-loser defect, repaired Add-anchor defect, garbageLen mismatch after ArraySet). Tied to the code by differential replay of real SnapshotToBytes/BytesToSnapshot (node order read back from the bytes), DeepCopy and NewInternalDocumentFromSnapshot with structural dumps on both sides of the round trip; the sanity part of SnapSafe is evaluated by the driver on every root a snapshot / deep copy is taken of.",
    "level_note": "Full statement is FALSE on the pinned tree (known findings c02-*); theorems are `_partial` + witnesses.",
    "technique": "Lean 4 proof + negation witnesses by kernel evaluation + differential replay of the snapshot path",
    "partial": [
        "norm_marshal_fixed_partial / norm_marshal_partial hold only under `SnapSafe` (no live LWW loser; pre-repair also: no element behind its own dead original slot) plus sanity conditions that are validated on reachable states by the engine, not proved invariant",
        "the garbageLen clause of the full statement is FALSE (snapshot_garbage_len_witness: ArraySet registers nothing for the replaced element) and is not claimed",
        "bisimulation for later operations (norm_bisim) is supported by the engine (edits continue on the snapshot-fed replica), not proved",
    ],
    "not_modelled": [
        "Text / Tree snapshots (text attribute IsRemoved flag defect, DESIGN §8 item 4)",
        "real server + memdb snapshot cache states, snapshot interval / threshold arithmetic, presence in snapshots",
    ],
    "assumptions": ["tickets of creating operations are fresh (C06)"],
}
