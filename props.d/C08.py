from props_common import BASE_TB

PROP = {
    "modules": ["YorkieModel.Props.C08", "YorkieModel.Props.C08Json"],
    "engines": [
        # integrated engine: real client SDK + real in-process server (memory DB), traffic captured at the HTTP transport
        {"name": "srv", "args": ["orc=c08"], "quick": {"n": 320, "workers": 8}, "thorough": {"n": 8000, "workers": 14}},
        {"name": "docupd", "quick": {"n": 1200, "workers": 8}, "thorough": {"n": 60000, "workers": 14}},
        {"name": "crdt", "quick": {"n": 600, "workers": 6}, "thorough": {"n": 30000, "workers": 14}},
        # presence dimension of all-or-nothing: failing updaters that touch presence
        {"name": "presence", "quick": {"n": 800, "workers": 4}, "thorough": {"n": 40000, "workers": 14}},
    ],
    "trusted_base": BASE_TB + [
        "Model/Document.lean is a functional model: the json-layer mutation of the clone and Execute on the root are the same function there; their agreement on the real code (incl. aliasing between clone and root, which no functional model can exhibit) is what the correspondence compares: clone Marshal and root Marshal are diffed against the model separately after every step",
        "the operations a failing callback performed are captured on a deep copy of the document (InternalDocument.DeepCopy) driven by the same PRNG stream",
    ],
    "level_text": "Lean theorems over every history of updates (successful, failing or panicking at any position, rejected by the size limit), remote packs, snapshots and acknowledgements: clone == root (clone_eq_root) and a failed update is a no-op on root, pending changes and change counter (update_failure_noop); tied to pkg/document/document.go by differential replay of Update with injected callback failures.",
    "level_note": "Trusted: Lean kernel; hand-written Model/Document.lean + Model/Crdt.lean agree with the Go code as far as the docupd/crdt engines exercise them; schema-validation rejections are represented by the size-limit rejection (same code path: clone dropped, error returned); undo-history preservation across failed updates is checked only through CanUndo-independent observables here (undo is C14).",
    "technique": "Lean 4 proof (invariant over update histories) + differential replay of Document.Update with failing/panicking callbacks",
    "partial": ["aliasing between clone and root (shallow DeepCopy) cannot be excluded by a functional model: detected by correspondence only",
                "schema-rule rejection is exercised through the size-limit branch only",
                "undo/redo stacks across failed updates: covered by C14's engine, not here"],
    "not_modelled": ["text/tree operations inside updates (opaque in Model/Crdt.lean)"],
    "assumptions": ["the callback's effect on the clone is determined by the operations it records (json layer == Execute), checked per step by the crdt engine"],
}
