from props_common import BASE_TB

PROP = {
    "modules": ["YorkieModel.Props.C08", "YorkieModel.Props.C08Json"],
    "engines": [
        # integrated engine: real client SDK + real in-process server (memory DB), traffic captured at the HTTP transport
        {"name": "srv", "args": ["orc=c08"], "quick": {"n": 320, "workers": 8}, "thorough": {"n": 8000, "workers": 14}},
        {"name": "docupd", "quick": {"n": 1200, "workers": 8}, "thorough": {"n": 60000, "workers": 14}},
        {"name": "crdt", "quick": {"n": 600, "workers": 6}, "thorough": {"n": 30000, "workers": 14}},
        # presence dimension of all-or-nothing: failing updaters that touch presence
        {"name": "presence", "quick": {"n": 800, "workers": 4}, "thorough": {"n": 40000, "workers": 14}},
    ],
    "trusted_base": BASE_TB + [
        "Model/Document.lean is a functional model: the json-layer mutation of the clone and Execute on the root are the same function there; their agreement on the real code (incl. aliasing between clone and root, which no functional model can exhibit) is what the correspondence compares: clone Marshal and root Marshal are diffed against the model separately after every step",
        "the operations a failing callback performed are captured on a deep copy of the document (InternalDocument.DeepCopy) driven by the same PRNG stream",
        "the harness reads the unexported fields Document.updating, Document.history.undoStack/redoStack by reflection (read only); a renamed field shows up as `updating=unobservable` (a correspondence failure, i.e. a request to update the harness)",
        "the control document of the unwinding oracle is a second real Document fed the same callbacks, remote packs and acknowledgements (same actor, same PRNG seeds) minus the failed updates",
    ],
    "level_text": "Lean theorems over every history of updates (successful, failing or panicking at any position, rejected by the size limit), remote packs, snapshots and acknowledgements: clone == root (clone_eq_root), a failed update is a no-op on root, pending changes and change counter (update_failure_noop), and after EVERY update outcome – a panicking callback included – the `updating` flag is lowered, so Undo/Redo/ClearHistory do not refuse and CanUndo/CanRedo report the stacks (failed_update_keeps_history_usable, history_usable_after_every_history); tied to pkg/document/document.go by differential replay of Update with injected callback failures: root, clone, pending changes and the `updating` flag (read by reflection) are compared with the model after every step; oracle: CanUndo/CanRedo and both stack depths are unchanged by a failed update, and in 40% of the traces a control document that receives the same history WITHOUT the failed updates must agree with the document while both histories are unwound and replayed (Undo*, Redo*).",
    "level_note": "Trusted: Lean kernel; hand-written Model/Document.lean + Model/Crdt.lean agree with the Go code as far as the docupd/crdt engines exercise them; schema-validation rejections are represented by the size-limit rejection (same code path: clone dropped, error returned); the CONTENT of the undo/redo stacks is not in Model/Document.lean (undo is C14): its preservation across failed updates is an oracle (stack depths by reflection + lockstep unwinding against a control document), the flag that makes the history usable is modelled and proved.",
    "technique": "Lean 4 proof (invariant over update histories) + differential replay of Document.Update with failing/panicking callbacks",
    "partial": ["aliasing between clone and root (shallow DeepCopy) cannot be excluded by a functional model: detected by correspondence only",
                "schema-rule rejection is exercised through the size-limit branch only",
                "undo/redo stack CONTENTS across failed updates: not modelled here (C14); checked by the oracle against a control document that never saw the failed updates"],
    "not_modelled": ["text/tree operations inside updates (opaque in Model/Crdt.lean)"],
    "assumptions": ["the callback's effect on the clone is determined by the operations it records (json layer == Execute), checked per step by the crdt engine"],
}
