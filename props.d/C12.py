from props_common import BASE_TB

PROP = {
    "modules": ["YorkieModel.Props.C12"],
    "engines": [
        # integrated engine: real client SDK + real in-process server (memory DB), traffic captured at the HTTP transport
        {"name": "srv", "args": ["orc=c12"], "quick": {"n": 480, "workers": 8}, "thorough": {"n": 12000, "workers": 14}},
        {"name": "presence", "quick": {"n": 2400, "workers": 8}, "thorough": {"n": 150000, "workers": 14}},
    ],
    "trusted_base": BASE_TB + [
        "presence data is a string map; the model keys replicas' maps by actor and counts presence changes per actor (ghost `seen`), which stands for clientSeq order",
        "the server side (strip on push / pull / snapshot for disable_presence documents, presence-only rows) is modelled only as the pure function `strip` on change shapes here; its use inside PushPull on a real server is exercised by the proto engine (C04/C11) through the hasPresence flags",
    ],
    "level_text": "Presence is an instance of the generic convergence theorem (a presence change creates the identity (actor, seq) and references (actor, seq-1)): quiescent replicas hold the same presence map for any number of clients and any interleaving (presence_converge); per actor the map is the last presence change of that actor among those applied (presence_register), a clear removes the participant everywhere (detach_clears); stripPresenceChanges leaves no presence and no empty change and keeps the operation-carrying changes in order (strip_no_presence, strip_no_empty, strip_keeps_ops_in_order). Tied to pkg/document/presence and internal_document.applyChanges by differential replay of real Documents incl. failing updaters and pending-change payloads.",
    "level_note": "Trusted: Lean kernel; Model/Presence.lean as far as the presence engine exercises it. Not covered by a theorem: the real server's use of strip in every path (response, snapshot) – correspondence only; watch-stream online/offline bookkeeping (onlineClients) is not modelled.",
    "technique": "Lean 4 proof (instance of the generic convergence theorem + register semantics + strip lemmas) + differential replay of Document presence",
    "partial": ["server-side enforcement of disable_presence on a real server: exercised by the proto engine, no end-to-end theorem"],
    "not_modelled": ["onlineClients / watch events", "presence undo history (WithHistory)"],
    "assumptions": ["each actor's presence changes reach every replica in the author's order (C04: per-actor order in the log)"],
}
