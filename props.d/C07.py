from props_common import BASE_TB

PROP = {
    # the CRDT-over-specification half (text/array/object/counter/tree) adds its module(s) here
    "modules": ["YorkieModel.Props.C07Trees", "YorkieModel.Props.C07Text", "YorkieModel.Props.C07Json"],
    "engines": [
        {"name": "splay", "quick": {"n": 2400, "workers": 8}, "thorough": {"n": 200000, "workers": 14}},
        {"name": "treelist", "quick": {"n": 2400, "workers": 8}, "thorough": {"n": 200000, "workers": 14}},
        {"name": "llrb", "quick": {"n": 2400, "workers": 8}, "thorough": {"n": 200000, "workers": 14}},
        {"name": "text", "quick": {"n": 2400, "workers": 8}, "thorough": {"n": 200000, "workers": 14}},
        {"name": "json", "quick": {"n": 1600, "workers": 8}, "thorough": {"n": 80000, "workers": 14}},
        # tree: local edits against the XML reference and index<->path conversions (random stream of the C19 engine)
        {"name": "tree", "args": ["stream=random", "pool=bmp"], "quick": {"n": 2000, "workers": 8}, "thorough": {"n": 60000, "workers": 14}},
        {"name": "crdt", "quick": {"n": 800, "workers": 4}, "thorough": {"n": 40000, "workers": 14}},
    ],
    "trusted_base": BASE_TB + [
        "node identity (Go pointer) modelled as a unique Nat id; value.Len()/IsRemoved() modelled as a field that an explicit "
        "setLen/mark step changes without touching cached weights (as the Go values do)",
        "Go int modelled as unbounded Nat (indices >= 0 only; no property here is about overflow)",
        "tree shapes, colours and every cached weight/count are read from the real packages by read-only reflection on "
        "unexported fields (the packages export no structure accessor) and compared node by node with the model",
        "pkg/treelist and pkg/llrb share one LLRB core in the model (Model/RBCore.lean) parametrised by exactly the "
        "differences of the two Go files",
        "the exhaustive scopes are split over workers 0..7: run with >= 8 workers per engine (as configured)",
    ],
    "level_text": "Tree half of C07. Theorems in Lean (unbounded trees and operation sequences): the splay index of Text, the "
                  "order-statistic LLRB tree of Array and the LLRB id map refine their sequential specifications (plain list of (id,len) / "
                  "list of (id,removed) / strictly sorted association list): every rotation and every exported operation keeps the in-order "
                  "sequence except for exactly the inserted/removed element; cached weights stay exact, and become exact again after a value "
                  "changed its length behind the tree and was re-splayed / UpdateWeight-ed (stale-weight invariant okD); "
                  "FindForText/FindForArray/IndexOf/Find/Len/Floor return what the prefix-sum / i-th-live / greatest-key-below specification "
                  "returns with the Go boundary conventions; DeleteRange is correct exactly under the len-0 precondition its only caller "
                  "establishes (negation witness without it); the LLRB Delete/Remove are correct exactly on left-leaning balanced trees "
                  "(negation witnesses on unbalanced ones), and the red-black invariants are proved to be preserved by insert and delete for "
                  "both packages (one generic proof, instantiated twice); everything lifted by induction to arbitrary operation sequences "
                  "(ops_refine_list, treelist_ops_refine_list, llrb_ops_refine_list). Tied to pkg/splay, pkg/treelist, pkg/llrb by differential "
                  "replay of random and small-scope exhaustive operation sequences comparing in-order lists, SHAPES with every cached "
                  "weight/count/colour, lookup results and CheckWeight() after every call.",
    "level_note": "Trusted: Lean kernel; the hand-written models agree with the Go code as far as the three engines exercise them "
                  "(incl. all op sequences of length 3-4 from small base trees); indices are non-negative.",
    "technique": "Lean 4 proof (refinement to list specifications; zipper splay; stale-weight invariant; generic LLRB colour/balance invariant under an abstract addressing interface) + differential replay of pkg/splay, pkg/treelist, pkg/llrb with shape dumps",
    "partial": [],
    "not_modelled": [
        "CRDT-over-specification half: text is covered (Model/Text.lean: text_edit_spec, length_spec, style_spec over every reachable block list); array/object/counter are covered (Model/Json.lean, Props/C07Json.lean: every json-layer call refines list insert/erase/move, finite-map update and BitVec addition in every reachable state); tree: local edits by index/path and index<->path conversions are tied by the random stream of the `tree` engine against Model/Tree.lean and an XML reference (no sequential-specification theorem for trees; listed deviation c19-path-mixed-content; c19-path-tombstone (c7104fed) and c19-findpos-after-element are repaired, 74247a0f)",
        "Text: TextValue.Split round-trips both halves through a Go string, so a cut inside a surrogate pair replaces both halves by U+FFFD (all replicas agree; content is altered): the plain splice statement is proved under the decidable condition Aligned (text_edit_spec_partial), the unconditional text_edit_spec carries sanitize, text_edit_spec_witness exhibits the case",
        "negative indices (FindForText with index < 0 returns the leftmost node with a negative offset and no error; FindForArray/Find reject them)",
        "calls outside the pointer preconditions (splay: InsertAfter after an unlinked node, Delete of an unlinked node -- which empties the whole tree --, DeleteRange with the right boundary not after the left; treelist: InsertAfter/Delete of an unlinked node): the Go trees get corrupted or panic; both sides print `precond` and skip such calls; llrb Remove of an absent key panics in Go and is modelled (`removePanics`)",
        "splay.Tree.Insert is modelled (inserts after the current ROOT, not `at the last` as its comment says) but not part of the refinement alphabet: the CRDT code never calls it",
    ],
    "assumptions": [
        "callers respect the pointer preconditions (Spec.valid in Lemmas/SplayRefine.lean, TreeListRefine.lean, LlrbRefine.lean): to be discharged for the CRDT code by the CRDT half",
        "node identities are distinct (Nodup ids): Go pointers",
    ],
}
