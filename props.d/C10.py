from props_common import BASE_TB

PROP = {
    "modules": ["YorkieModel.Props.C10"],
    "engines": [
        {"name": "compact", "args": ["orc=c10"],
         "quick": {"n": 304, "workers": 8},
         "thorough": {"n": 10080, "workers": 14}},
    ],
    "trusted_base": BASE_TB + [
        "Model/ServerCompact.lean (compactDoc = packs.Compact + CompactChangeInfos + purgeDocumentInternals) and Model/Server.lean are hand-written; they agree with the code only as far as the `compact` engine's request/compaction streams exercise them (sequential requests, memory DB)",
        "content is opaque in the model (ContentSem: fold / rebuild / eq); the driver instantiates it for the raw streams' only operation (Set root.k) as 'some stored change carries operations'; the content half of the property on real documents rests on the engine's cdoc oracle (real clients, real documents, Marshal equality), not on a theorem",
        "the all-zero InitialActorID of the compacted change is represented by the reserved actor number 1000000",
        "Yorkie.CompactDocument works on the default project; for the RemoveOnDetach project the harness repeats its three steps (exclusive document lock, FindDocInfoByKey, packs.Compact)",
        "harness reads the `versionvectors` table through the memory DB's unexported go-memdb handle (reflect/unsafe)",
    ],
    "level_text": "Theorems in Lean for every state, every request with every crafted pack, and every history of requests and compactions (unbounded): compaction is refused iff the document is attached/attaching and not forced, and a failed compaction changes nothing; a successful one raises the epoch by exactly one, nothing else ever changes an epoch, the epoch after a history is the initial one plus the number of successful compactions; a PushPull of a client whose stored epoch differs – push-only or not – adds no row and is answered ErrEpochMismatch with nothing persisted for the client; a stale Detach/Remove succeeds, writes no row, closes the attachment and erases the version-vector row; a fresh attach is answered with every row of the current generation and the head as checkpoint; the log stays serverSeq 1..N and the C04 delivery invariant, no-echo and per-actor client-sequence order are re-established across compactions (generation-aware). Tied to the real server by differential replay: compaction at every quiescent point of generated histories (normal, forced) followed by six stale/fresh follow-up mixes, plus real clients with real documents for the content half.",
    "level_note": "The one defect found (a push-only sync of a stale client was answered ok instead of ErrEpochMismatch) is repaired in /repo; the model follows the repaired tree (switch Server.stalePushOnlyRefused), the old behaviour is kept as a witness theorem. Content preservation is a guard in the model plus an oracle on real documents.",
    "technique": "Lean 4 proof (case analysis over the phase functions, invariants by induction over event histories) + differential replay against an in-process server + content oracle on real documents",
    "partial": [
        "compact_content: the rebuild-compare step is a guard over an abstract content semantics; that the guard's comparison is meaningful for real documents is checked by the cdoc oracle only",
        "across compactions C04's per_actor_clientSeq_ordered is re-established in the form that survives a compaction (per actor and attachment generation: consecutive client sequences in log order, for an open attachment the last ones up to the stored client sequence – per_actor_clientSeq_consecutive_across_compaction); that they start at 1 is a statement about the log between two compactions (C04). no_echo, log_gapfree and the delivery invariant are re-established in full",
    ],
    "not_modelled": ["snapshot pull branch and the snapshot cache/purge (threshold out of reach)", "housekeeping candidate selection (FindCompactionCandidates) and the cluster RPC hop", "MongoDB store", "concurrency (compaction holds the document lock exclusively; requests hold it shared)"],
    "assumptions": ["client discipline `WellBehaved` for the delivery clauses, as in C04"],
}
