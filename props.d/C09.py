from props_common import BASE_TB

PROP = {
    "modules": ["YorkieModel.Props.C09"],
    "engines": [
        {"name": "codec", "quick": {"n": 16000, "workers": 8}, "thorough": {"n": 400000, "workers": 14}},
        {"name": "pbfuzz", "quick": {"n": 960, "workers": 8}, "thorough": {"n": 12000, "workers": 12}},
    ],
    "trusted_base": BASE_TB + [
        "zstd (klauspost/compress) is an abstract pair compress/decompress; `decompress (compress b) = some b` is a HYPOTHESIS of "
        "snapshotHeader_roundtrip, not proved; the `codec` engine feeds the model the library's own answer at each queried point",
        "Go []byte/string = List UInt8; int32/int64 = BitVec 32/64; float64 = its IEEE bit pattern (no float arithmetic); "
        "time.Time = its UnixMilli (the encoder itself drops sub-millisecond precision and the location)",
        "int64 values inside version-vector bytes: unbounded model Int reduced mod 2^64; round trips are stated under the explicit "
        "decidable hypothesis InInt64 / actor < 2^96 (EntryOk)",
        "bytes.Reader.Read semantics (short read is not an error, error only at end of input) as transcribed in Model/ByteCodec.lean `readPad`",
        "the protobuf-level half (engine pbfuzz) is NOT tied to any Lean definition: proto.Marshal/Unmarshal, api/converter, "
        "database.ChangeInfo, the BSON registry are exercised directly; its harness-side evidence predicates (harness/eng_pbfuzz_diff.go; "
        "one per listed finding, none of them looks at the generator class) are trusted",
    ],
    "level_text": "Lean theorems over every value / every byte string: version-vector bytes round trip in any map order, exact accept set of "
                  "VersionVectorFromBytes, no iteration without input (huge counts), primitive and counter value bytes round trip for "
                  "every value type, exact accept sets, int32/int64 wrap-around of Counter.Increase, snapshot storage frame round trip "
                  "and exact reject set over an abstract zstd pair; tied to pkg/document/time, pkg/document/crdt and "
                  "server/backend/database by per-call differential replay including a malformed stream (every truncation length, bit "
                  "flips, rewritten counts, junk suffixes, foreign type tags). Protobuf-level codecs (change packs, operations, "
                  "snapshots, stored ChangeInfo incl. BSON) are checked on the real code only: round-trip oracles over random "
                  "multi-client histories and a no-panic stream of structurally mutated messages.",
    "level_note": "Proof level holds for the byte-level codecs only. The struct-level protobuf round trip and 'never a crash or hang' are "
                  "PARTIAL: oracle + fuzzing on the implementation, no theorem (no model of documents/operations in this round; a panic is "
                  "a Go runtime event no executable model exhibits).",
    "technique": "Lean 4 proof (arithmetic on byte lists, BitVec) + per-call differential replay of the byte codecs + oracle/mutation "
                 "stream on the protobuf codecs",
    "partial": [
        "GarbageLen through a snapshot: the property text compares the live document's GarbageLen with the decoded one. The live "
        "root's incremental bookkeeping differs from a rebuild of its OWN graph in several identified shapes (findings C09-n1, n2, "
        "n8, n9, k8, k9, k10; the predicates of n2/n9 read the registered pairs out of gcNodePairMap and state how owner and child "
        "relate to the graph); the former residual class C09-n7 is dissolved (nothing left of it in 200k histories), a "
        "bookkeeping difference that no predicate identifies is a violation now; those items never involve the codec. What the "
        "codec contributes is judged "
        "strictly: tombstones and owner-qualified GC pairs of the live graph vs the decoded graph, and the registrations of a root "
        "rebuilt from each - nothing unexplained is tolerated there",
        "never a crash or hang (hostile bytes): supported only by the malformed streams (codec: goroutine+timeout per call; pbfuzz: "
        "recover()+10 s timeout per input, structural protobuf mutation + raw byte mutation); no theorem",
        "struct-level round trip FromChangePack∘ToChangePack, BytesToSnapshot∘SnapshotToBytes, ChangeInfo (BSON) on the real code only "
        "(oracle over generated histories); op_roundtrip/pack_roundtrip/snapshot_roundtrip of DESIGN §5 are not stated in Lean yet "
        "(they need the document model built by another work item)",
        "vvBytes_decode_canonical (every accepted byte string is an encoder output) is FALSE of the code: kept as a comment in "
        "Props/C09.lean with the proved negation witness vvBytes_truncated_witness and the exact accept set vvBytes_accept_iff",
        "allocation behaviour of DecompressSnapshot (zstd declared content size) is outside the model; probed by the codec engine with a "
        "capped declared size (256 MiB) and reported as a known finding",
    ],
    "not_modelled": [
        "documents, operations, change packs, snapshots as protobuf structures (wellFormedPb accept/reject table of DESIGN §5): no Lean model in this round",
        "HyperLogLog registers of dedup counters (the value of a decoded dedup counter is recomputed from them); model: payload discarded, value 0",
        "Counter.Increase with a Double operand (Go float→int conversion), Primitive Marshal()/JSON text",
        "writeInt64/readInt64 are unexported: exercised only through VersionVector.Bytes/VersionVectorFromBytes",
        "T-gen tables codec_cases_symmetric / codec_fields_symmetric (factgen not built yet)",
        "time.Time location: a Date primitive decodes into the process-local zone, so Marshal() of a Date depends on TZ (not exercised: harness uses UTC dates)",
    ],
    "assumptions": [
        "Go's map iteration order is arbitrary but enumerates each key once (encode is stated for every duplicate-free enumeration)",
        "klauspost zstd EncodeAll/DecodeAll are inverse on the inputs the system produces (hypothesis Zstd.Sound)",
        "encoding/binary.LittleEndian and bytes.Reader behave as transcribed (checked per call by the `codec` engine)",
    ],
}
