from props_common import BASE_TB

PROP = {
    "modules": ["YorkieModel.Props.C11", "YorkieModel.Props.C11Remove"],
    "engines": [
        # integrated engine: real client SDK + real in-process server (memory DB), traffic captured at the HTTP transport
        {"name": "srv", "args": ["orc=c11"], "quick": {"n": 320, "workers": 8}, "thorough": {"n": 8000, "workers": 14}},
        {"name": "proto", "args": ["mix=lifecycle+malformed+schedules", "orc=c11"],
         "quick": {"n": 1600, "workers": 8, "args": ["shards=8", "len=5"]},
         "thorough": {"n": 60000, "workers": 14, "args": ["shards=14", "len=6"]}},
    ],
    "trusted_base": BASE_TB + [
        "Model/Server.lean is hand-written; it agrees with the handlers in server/rpc/yorkie_server.go, cluster_server.go DetachDocument, server/clients, database/client_info.go and the memory DB only as far as the `proto` engine's request streams exercise them",
        "the documented automaton (docs/design/document-client-lifecycle.md) is transcribed by hand into Props/C11 `spec`",
        "client and document ids modelled by creation order; `clients.Deactivate` iterates a Go map: the order is a parameter of the model's request and re-derived by the harness from the observed effect",
        "harness reads the `versionvectors` table through the memory DB's unexported go-memdb handle (reflect/unsafe)",
    ],
    "level_text": "Theorems in Lean for every state and every request: the model's accept/reject decision and resulting client/document statuses equal the documented lifecycle automaton (with the exact, proved list of deviations); version-vector row implies attached; removal is sticky; deactivation detaches everything; rows are written only by holders of the document once the detach/remove guard is in place (negation witness for the pinned tree). Tied to the real server by exhaustive enumeration of all request sequences up to the length bound over 2 clients x 2 documents plus random and malformed streams.",
    "level_note": "Two confirmed defects on the pinned tree are listed in known_findings.json (detached push/remove; push after remove). Deactivate deviates from the documented automaton in two proved ways (peer-removed document on the memory DB; no stored change of the actor).",
    "technique": "Lean 4 proof (case analysis over the handler model, reachable-state invariants) + exhaustive small-scope differential replay",
    "partial": [
        
        "removed_sticky: the 'stores no further change' clause is false on the pinned tree (push_after_remove_witness); proved: removed flag is permanent and echoed in every later response",
    ],
    "not_modelled": ["compaction", "housekeeping deactivation of inactive clients", "attachment limits", "MongoDB store"],
    "assumptions": [],
}
