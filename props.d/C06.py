from props_common import BASE_TB

PROP = {
    "modules": ["YorkieModel.Props.C06", "YorkieModel.Props.C06Srv"],
    "engines": [
        # integrated engine: real client SDK + real in-process server (memory DB), traffic captured at the HTTP transport
        {"name": "srv", "args": ["orc=c06"], "quick": {"n": 640, "workers": 8}, "thorough": {"n": 16000, "workers": 14}},
        # oracle-only: replicas that edit before SetActor/Attach (known finding c01-pre-attach-edit)
        {"name": "crdtpre", "quick": {"n": 240, "workers": 4}, "thorough": {"n": 20000, "workers": 8}},
        {"name": "time", "quick": {"n": 4000, "workers": 8}, "thorough": {"n": 400000, "workers": 14}},
        # real multi-replica Document histories: the model predicts the ID of every local change and the
        # document clock after every applied remote change (CID / CIDQ lines)
        {"name": "crdt", "quick": {"n": 1200, "workers": 6}, "thorough": {"n": 60000, "workers": 14}},
    ],
    "trusted_base": BASE_TB + [
        "int64 lamport / uint32 clientSeq modelled as unbounded Int/Nat (no property is about their wrap-around)",
        "ActorID modelled as the big-endian Nat of its 12 bytes; Go map as association list",
    ],
    "level_text": "Theorems in Lean over every client trace (unbounded): clock invariant, causality of every emitted change, strict growth and uniqueness of (lamport, actor), MinVersionVector never exceeds any participating row; tied to pkg/document/time and pkg/document/change by per-call differential replay.",
    "level_note": "Trusted: Lean kernel; the hand-written Model/Time.lean agrees with the Go code only as far as the `time` engine's generated call sequences exercise it; integers unbounded in the model.",
    "technique": "Lean 4 proof (induction over client traces) + differential replay of time/change packages",
    "partial": [],
    "not_modelled": ["pre-attach edits (SetActor rewrites only the actor of the ID): generator class not yet in the trace stream"],
    "assumptions": ["client applies changes through ID.Next/SyncClocks/SetClocks exactly as Model/Time.lean (checked per call by the `time` engine and on real Document histories by the CID/CIDQ lines of the `crdt` engine)",
                    "server rows / response minVV on a real server are compared by the proto engine (C04/C11) once merged; here MinVersionVector itself is tied per call"],
}
