from props_common import BASE_TB

PROP = {
    "modules": ["YorkieModel.Props.C16", "YorkieModel.Props.C16Locker"],
    "engines": [
        # one trace = one free-running load run (N clients x M documents, compaction, housekeeping,
        # snapshots, yields injected at lock boundaries) on a real in-process server; after the loads
        # every worker runs the three forced interleavings `REPRO last-detachers` (two last holders of a
        # document leave a RemoveOnDetach project without attachment limit concurrently; +3 traces, ~0.3 s)
        {"name": "locks",
         "quick": {"n": 48, "workers": 8},
         "thorough": {"n": 720, "workers": 8},
         # supporting evidence for the clause no model can decide (data races): the same load
         # under the Go race detector, thorough tier only (check.py builds .build/yk-harness-race)
         "thorough_race": {"n": 72, "workers": 4, "binary": "yk-harness-race",
                           "env": {"GORACE": "log_path={out}/race halt_on_error=0"}}},
        # pkg/locker itself: scripted episodes (2-4 goroutines, 1-2 names, every call released step by step,
        # outcome + map content predicted by Model/NamedLocker.lean) + one free-running STRESS trace per worker
        # (holder / parked waiter / TryLock poller: hits the hand-off window; oracle only)
        {"name": "locker",
         "quick": {"n": 800, "workers": 4},
         "thorough": {"n": 40000, "workers": 8}},
    ],
    "extra_builds": [{"name": "yk-harness-race", "flags": ["-race"], "tiers": ["thorough"]}],
    "generated_obligations": [],
    "trusted_base": BASE_TB + [
        "factgen/locks.go: syntactic extraction (go/ast) of `….Lockers.Locker/LockerWithRLock/LockerWithTryLock(KeyCtor(…))` sites, "
        "deferred releases and the name-resolved call graph of server/**; calls through interfaces and function values are not followed "
        "(the theorem `extraction_complete` only shows that no other *syntactic* use of `Lockers` exists); tied to the running code by the "
        "recorded acquisition sequences (`SEQ` lines: every observed per-request sequence must be an instance of the extracted script); "
        "`Site.cond` is the SOURCE TEXT of the enclosing if/case conditions (whitespace collapsed): an equivalent condition written differently "
        "fails `attachment_lock_conditions` and has to be re-reviewed against the expectation table (intended); early returns before an "
        "acquisition are not part of the condition; tied to the running code by the forced interleaving `REPRO last-detachers`",
        "Model/NamedLocker.lean: pkg/locker at the granularity of its own `Locker.mu` sections + the inner-mutex operations; sync.RWMutex/sync.Mutex "
        "themselves are trusted (an inner mutex is `writer : Option session, readers : List session`; release and acquisition are separate steps, "
        "any enabled waiter may win); Driver/LockerEngine.lean adds Go's grant policy (writer preference, readers first after an exclusive release, "
        "parked writers FIFO) to predict the scripted episodes – that policy is an observation about the Go runtime, not a theorem; "
        "the harness reads `Locker.locks` and `lockCtr.waiters` by reflection (read only, at rest)",
        "Model/Locks.lean lock table: every named lock is a Go sync.RWMutex with writer preference (pending writer blocks new readers), "
        "TryLock never blocks; which waiter is granted is left nondeterministic; a thread = one request goroutine executing the flattened "
        "script of its handler; waiting for an intra-cluster RPC is modelled by inlining the callee's script into the caller",
        "server/backend/sync verif hook (build tag verif): reports lock boundaries of the real Locker; goroutine ids parsed from runtime.Stack",
        "other mutexes of the server (pkg/cmap shards, pubsub, cache, memdb transactions, client SDK attachment mutex) are leaf locks "
        "(no named lock is requested while one is held is NOT proved here) – covered only by the completion watchdog and the -race load",
    ],
    "level_text": "Lean theorems: (generic, unbounded threads and interleavings) a strict rank order on blocking acquisitions of RW locks "
                  "with writer preference and try-locks excludes every stuck state and bounds every run, hence every request completes; "
                  "(by evaluation over the lock table regenerated from the Go source on every run) every extracted function's flattened "
                  "acquisition script respects doc < pull < attachment < push except the derived, listed inversion set, every site is "
                  "released by an adjacent matching `defer`, snapshot/housekeeping locks are try-only; every OPTIONAL acquisition (doc.attachment "
                  "in attach/detach/remove/admin update, doc.push in pushPack) is taken under exactly the expected condition, written down per handler "
                  "with the check-then-act pair it makes atomic (`attachment_lock_conditions`, `conditional_acquisitions_expected`); "
                  "(named-lock layer, unbounded sessions and interleavings, induction over the package's own mutex sections) pkg/locker's reference "
                  "count equals the number of users exactly (a failed TryLock gives its reference back), the map is empty whenever nobody uses the locker (map_empty_when_idle), an entry in use is never deleted or replaced, a holder's "
                  "Unlock never returns ErrNoSuchLock, mutual exclusion per name; the variant `TryLock takes a reference only on creation` is refuted "
                  "by a three-party schedule; "
                  "tie: lock recorder on a real server under free-running parallel load – every observed per-request sequence is an "
                  "instance of the extracted script and ordered; completion watchdog, replica convergence and change-log shape oracles; "
                  "forced interleaving of the two last detachers of a RemoveOnDetach document (outcome predicted from the extracted condition, "
                  "oracle: removed once nobody holds it); scripted + free-running episodes on the real pkg/locker (every call outcome and the "
                  "map's waiters predicted by the model; oracle: no ErrNoSuchLock for a holder, never two holders).",
    "level_note": "Trusted: Lean kernel; syntactic extraction + name-based call graph (tied by recorded sequences, not proved complete); "
                  "lock-table model of sync.RWMutex. Data-race freedom is NOT a theorem (Go memory model): race detector runs are "
                  "exploration evidence only.",
    "technique": "Lean 4 proof (maximal-lock argument on a lock-table transition system) + decide over go/ast-extracted lock facts + "
                 "recorded lock sequences / forced interleaving on the real server",
    "partial": [
        "no memory is accessed unsafely (data-race freedom): property of the Go memory model, no Lean model here can exhibit a race; "
        "supported only by the -race load in the thorough tier (detector reports are turned into oracle failures)",
        "all requests return within a bound: the theorem gives completion (finite runs, no stuck state) on the lock-table model; "
        "a wall-clock bound is only observed by the watchdog",
        "ordering and convergence of the result under concurrency are C01/C04's theorems; here only their oracles are evaluated on the load result",
    ],
    "not_modelled": [
        "mutexes other than the named Lockers (cmap shards, pubsub, caches, memdb, SDK) and channel/WaitGroup waits",
        "loops over documents inside one request (Deactivate detaches every attached document through one RPC each): one iteration is modelled",
        "the SEMANTICS of the conditions of optional acquisitions (what HasAttachmentLimit()/RemoveOnDetach evaluate to): only their source text is a fact; "
        "the atomicity the doc.attachment lock buys is exercised for the RemoveOnDetach detach/detach, detach/deactivate and deactivate/deactivate pairs only "
        "(not: attach vs last detach, the attachment-limit count, the schema check of admin UpdateDocument)",
        "pkg/locker: the hand-off window of sync.Mutex (a TryLock barging between a release and the wake-up of a parked waiter) cannot be scripted step by step; "
        "it is in the model (separate release / acquire steps) and is reached on the real code only by the free-running STRESS share",
    ],
    "assumptions": [
        "each request runs on its own goroutine and executes a subsequence of its handler's extracted script (checked on every recorded sequence)",
        "Go's sync.RWMutex blocks a reader only behind an exclusive holder or a pending writer, and a writer only behind holders",
    ],
}
