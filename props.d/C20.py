from props_common import BASE_TB

# `storex` shards its exhaustive enumeration over the workers: check.py hands every worker
# n // workers traces and seed*1000+k, so n = W*W makes "-n" the shard count and
# seed % 1000 the shard index (see runStoreX in harness/eng_store.go).
_WQ, _WT = 8, 14

PROP = {
    "modules": ["YorkieModel.Props.C20", "YorkieModel.Props.C20Srv", "YorkieModel.Props.C20Wiring"],
    "engines": [
        # integrated engine: real client SDK + real in-process server (memory DB), traffic captured at the HTTP transport
        {"name": "srv", "args": ["orc=c20"], "quick": {"n": 320, "workers": 8}, "thorough": {"n": 8000, "workers": 14}},
        {"name": "store", "quick": {"n": 16000, "workers": 4}, "thorough": {"n": 1000000, "workers": 10}},
        {"name": "storex", "quick": {"n": _WQ * _WQ, "workers": _WQ}, "thorough": {"n": _WT * _WT, "workers": _WT}},
        # + per worker two `WIRE` traces: the backend cache manager built with distinct TTL options, each expiring cache
        #   must expire by its own (wall clock, ~0.15 s each; oracle only)
        {"name": "lru", "quick": {"n": 6000, "workers": 2}, "thorough": {"n": 300000, "workers": 4}},
    ],
    "trusted_base": BASE_TB + [
        "int64 server sequences modelled as unbounded Nat (negative sequence numbers and the overflow of To+1 at MaxInt64 are outside the model)",
        "google/btree modelled by its in-order item list (ReplaceOrInsert/Delete/AscendGreaterOrEqual as list functions); sort.Slice modelled by a stable insertion sort (result of the merge loop is order-independent for ranges with From<=To)",
        "*ChangeInfo modelled as the value (seq, actor, presence kind, opaque tag); the harness compares rows by pointer in its oracle and by (seq,tag) in the diff",
        "the harness reads the unexported field ChangeStore.ranges by reflection",
        "factgen/cachewiring.go: syntactic extraction of the constructor calls in cache.New, the cache.Options literal in backend.New and the Config.Parse* duration parsers; the facts are SOURCE TEXTS of arguments (an alias such as `ttl := opts.X` before the call would have to be added to the expectation table); tied to the running code by the `WIRE` traces of the lru engine (cache.New with distinct TTLs, each expiring cache observed to expire by its own)",
    ],
    "level_text": "Theorems in Lean over every call sequence and every ground-truth table (unbounded sequence numbers): the cache invariant is inductive over EnsureChanges (with a failing fetcher), ReplaceOrInsert, ExpandRange, ChangesInRange, RemoveChangesByActor and the CreateChangeInfos write-through composite; after any valid history a successful EnsureChanges(lo,hi) followed by ChangesInRange(lo,hi) returns exactly the stored rows of [lo,hi] in order; every query returns only stored rows; a known range is served without any fetch; the fetcher is only called on maximal runs of sequence numbers that are neither cached nor covered (also w.r.t. the store at the moment of each call), never when the range is already known; mergeAdjacentRanges / calcMissingRanges specifications; sharded-LRU wrapper specification (a hit is the last Add); abstract snapshot-cache rebuild = cold rebuild; (by evaluation over the cache-wiring table regenerated from server/backend/cache/manager.go, backend.go and config.go on every run) each cache of the cache manager is built from its OWN size and TTL options, no option is used twice or left unused, every option is filled from the configuration value of the same name (each_cache_built_from_its_own_options, options_used_exactly_once, options_filled_from_same_named_config). Tied to server/backend/database/mongo/changestore.go by per-call differential replay (random + small-scope exhaustive) with the complete store state (ranges, tree) compared after every call.",
    "level_note": "Trusted: Lean kernel; the hand-written Model/ChangeStore.lean agrees with the Go code only as far as the `store`/`storex` engines exercise it (quick tier: exhaustively for all call sequences of length <= 4 over sequence numbers 1..6 and one table, length <= 3 for a second table); integers unbounded in the model; the RWMutex is not modelled (C16/C17 cover locking).",
    "technique": "Lean 4 proof (invariant + induction over call sequences) + differential replay of mongo.ChangeStore against a ground-truth table",
    "partial": [
        "snapshot cache (packs.BuildInternalDocForServerSeq): only the abstract statement is proved (rebuild_cached_eq_cold over an abstract document type with `apply` a fold: cached start = snapshot start = cold rebuild, for every history of pushes/rebuilds/evictions/stored snapshots); its tie to the real document code (ApplyChangePack, GC, DeepCopy aliasing) needs the C02/C03 document model and a server engine and is not part of this check",
        "sharded cache.LRU with evictions: the shard of a key depends on a random per-process maphash seed, so hit/miss is not replayable; that mode is checked by the oracle only (a hit returns the last Add). cache.LRUWithExpires (one LRU) and the eviction-free sharded mode are diffed against the model call by call",
    ],
    "not_modelled": [
        "concurrency of ChangeStore (sync.RWMutex) and of the LRU shards",
        "expirable LRU time-to-live (wall clock): not in the model; WHICH option becomes the TTL of which cache is a regenerated fact (Props/C20Wiring.lean) and is observed with tolerant timing by the `WIRE` traces (entry served right after Add, gone within 25 x TTL, the other cache's entry still served)",
        "the caches of the MongoDB client (server/backend/database/mongo/client.go, project_cache.go) are not part of the wiring table",
        "cache manager statistics (hits/misses counters) – not part of the answers",
    ],
    "assumptions": [
        "ReplaceOrInsert is only given rows of the table; ExpandRange(r) only after every table row in r was inserted (mongo.Client.CreateChangeInfos); RemoveChangesByActor only on the presence store (no ranges) or together with deleting the rows from the table",
        "the fetcher returns exactly the table rows of the requested range (mongo.Client's chunked Find with $gte/$lte and sort) or an error",
    ],
}
