from props_common import BASE_TB

PROP = {
    "modules": ["YorkieModel.Props.C03", "YorkieModel.Props.C03Text"],
    "engines": [
        # integrated engine: real client SDK + real in-process server (memory DB), traffic captured at the HTTP transport
        {"name": "srv", "args": ["orc=c03"], "quick": {"n": 320, "workers": 8}, "thorough": {"n": 8000, "workers": 14}},
        {"name": "fdoc", "args": ["mix=c03"],
         "quick": {"n": 9600, "workers": 8}, "thorough": {"n": 60000, "workers": 14}},
        # Text: the op-fed text engine with garbage collection on (server-style min vector, GC-off twin world,
        # one trace in five with a too-large vector); without the arg the engine is the C01/C07 engine unchanged
        {"name": "text", "args": ["gc=1"], "quick": {"n": 1600, "workers": 8}, "thorough": {"n": 60000, "workers": 14}},
    ],
    "trusted_base": BASE_TB + [
        "Go pointers modelled as creation tickets, Go maps as association lists; the order in which Root.GarbageCollect walks its maps is fixed in the model (the result is order independent; the engine compares full structural dumps after every purge)",
        "the simulated server (harness/eng_fdoc.go) stores the request-time vector per attached replica and computes MinVersionVector with the real time package, as server/packs/pushpull.go + database/memory do; requests are sequential",
        "DocSize accounting is not modelled",
        "Text (Model/TextGc.lean): the set of registered text NODES is taken to be the set of tombstones (true without undo/redo: Remove returns true once per node, pieces split off a tombstone go through pendingGCPairs, a rebuilt root registers Text.GCPairs()); attribute tombstones are purged through an explicit registration table keyed like gcNodePairMap (updatedAt:key, toggling - known finding C09-n2), updated by regStyle / regRebuild; the engine `text gc=1` compares full structural dumps (ids, removedAt, insPrev links, attribute registers incl. tombstoned keys) of clone and root after every GarbageCollect",
        "text engine, gc=1: the simulated server stores the request-time vector per replica and answers with time.MinVersionVector over those rows (as server/packs does); requests are sequential; Undo is only issued when no response has been applied since the undone update (Undo after GC is C14/C15 territory)",
    ],
    "level_text": "Lean theorems over the faithful document model (Model/FDoc.lean), all for unbounded roots / histories: Root.GarbageCollect with any vector is invisible (Marshal, every visible member / element list) and keeps the heap well-formed; well-formedness is preserved by every operation and every history; whatever is purged was covered by the vector; the GC-on run equals the GC-off run (no failing sync, same content after every step) for every history satisfying the explicit decidable `SafeRun` (simulation proof); negation witnesses by kernel evaluation for the four ways the full statement fails on the tree. Tied to the code by twin (GC on / GC off) differential replay with full structural dumps, GarbageLen, ElementMapLen and recomputed min version vectors.",
    "level_note": "Full statement is FALSE on the pinned tree (known findings c03-*, F-C03-text-reparent); theorems are `_partial` + witnesses. Text part (Props/C03Text.lean): a purge with any vector erases only tombstone cells, changes no observation, keeps the GC invariant (relinked insPrev = surviving predecessor piece) and is independent of the map walk order; positions whose left character survives resolve on the purged list whatever else of the insertion was purged (head piece included); purge commutes with a later enabled operation up to the character-level abstraction under the decidable, provably weakest side condition SafeSkip plus 'anchors kept' (implied by causal stability); lockstep lift (one replica, any stream of operations, purges with ANY vectors in between): same visible text, String() and Marshal() as the GC-off replica, no failing call; system-level corollary on top of C01Text; witnesses by kernel evaluation for the re-parenting divergence under a stable vector and for the three failure modes of a too-large vector; the sufficient purge rule of the fix candidate is proved (reparent_fix_sufficient).",
    "technique": "Lean 4 proof (invariant + simulation) + negation witnesses by kernel evaluation + twin differential replay",
    "partial": [
        "gc_equiv_partial: GC-on == GC-off only under `SafeRun`: array operations (add/move/arraySet) only on arrays nothing was purged from, no Set that loses against a purged occupant, every operation finds its targets; array edits after a purge in the same array are outside the theorem - that region contains all four known findings and is covered by correspondence + oracle only",
        "F.3 purge_after_delivery (protocol level) is exercised by the engine's schedules, not proved here",
        "text: purge_safe_partial / gc_equals_nogc_lockstep_partial / gc_replicas_converge_partial hold under SafeSkip (violated exactly by the states of F-C03-text-reparent) and 'anchors kept'; that the server's min vector gives 'anchors kept' for every in-flight operation is the protocol argument F.3 (engine only); commutation of attribute-tombstone purging with later Style operations is tied by the engine, not proved; one Text operation per change, single Text element (as C01Text)",
    ],
    "not_modelled": [
        "Tree garbage collection (gcNodePairMap entries of Tree nodes); Text GC is modelled in Model/TextGc.lean",
        "undo/redo (identity reuse), dedup counters",
        "truly parallel requests (minVV computed after the pull range was read): needs the yield hooks",
        "detach (row deletion) and client-side WithDisableGC mixes beyond the never-purging server fold",
    ],
    "assumptions": ["tickets of creating operations are fresh (C06); requests are processed sequentially"],
}
