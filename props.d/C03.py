from props_common import BASE_TB

PROP = {
    "modules": ["YorkieModel.Props.C03"],
    "engines": [
        # integrated engine: real client SDK + real in-process server (memory DB), traffic captured at the HTTP transport
        {"name": "srv", "args": ["orc=c03"], "quick": {"n": 320, "workers": 8}, "thorough": {"n": 8000, "workers": 14}},
        {"name": "fdoc", "args": ["mix=c03"],
         "quick": {"n": 9600, "workers": 8}, "thorough": {"n": 60000, "workers": 14}},
    ],
    "trusted_base": BASE_TB + [
        "Go pointers modelled as creation tickets, Go maps as association lists; the order in which Root.GarbageCollect walks its maps is fixed in the model (the result is order independent; the engine compares full structural dumps after every purge)",
        "the simulated server (harness/eng_fdoc.go) stores the request-time vector per attached replica and computes MinVersionVector with the real time package, as server/packs/pushpull.go + database/memory do; requests are sequential",
        "DocSize accounting is not modelled",
    ],
    "level_text": "Lean theorems over the faithful document model (Model/FDoc.lean), all for unbounded roots / histories: Root.GarbageCollect with any vector is invisible (Marshal, every visible member / element list) and keeps the heap well-formed; well-formedness is preserved by every operation and every history; whatever is purged was covered by the vector; the GC-on run equals the GC-off run (no failing sync, same content after every step) for every history satisfying the explicit decidable `SafeRun` (simulation proof); negation witnesses by kernel evaluation for the four ways the full statement fails on the tree. Tied to the code by twin (GC on / GC off) differential replay with full structural dumps, GarbageLen, ElementMapLen and recomputed min version vectors.",
    "level_note": "Full statement is FALSE on the pinned tree (known findings c03-*); theorems are `_partial` + witnesses.",
    "technique": "Lean 4 proof (invariant + simulation) + negation witnesses by kernel evaluation + twin differential replay",
    "partial": [
        "gc_equiv_partial: GC-on == GC-off only under `SafeRun`: array operations (add/move/arraySet) only on arrays nothing was purged from, no Set that loses against a purged occupant, every operation finds its targets; array edits after a purge in the same array are outside the theorem - that region contains all four known findings and is covered by correspondence + oracle only",
        "F.3 purge_after_delivery (protocol level) is exercised by the engine's schedules, not proved here",
    ],
    "not_modelled": [
        "Text / Tree garbage collection (gcNodePairMap entries of RGATreeSplit / Tree / RHT nodes)",
        "undo/redo (identity reuse), dedup counters",
        "truly parallel requests (minVV computed after the pull range was read): needs the yield hooks",
        "detach (row deletion) and client-side WithDisableGC mixes beyond the never-purging server fold",
    ],
    "assumptions": ["tickets of creating operations are fresh (C06); requests are processed sequentially"],
}
