from props_common import BASE_TB

PROP = {
    "modules": ["YorkieModel.Props.C17", "YorkieModel.Props.C17Watch"],
    "engines": [
        # lock-granularity schedules driven through the `verif` yield hooks; workers 0..7 each
        # explore one small configuration exhaustively (state-pruned DFS), then sample larger ones
        {"name": "pubsub",
         # n/workers = per-worker trace budget of the exhaustive part; the sampled part is capped
         # inside the engine (quick: 400, thorough: 20000 schedules per worker)
         "quick": {"n": 48000, "workers": 8},
         "thorough": {"n": 1680000, "workers": 14}},
        # free-running goroutines, real ticker/timeouts, stalled consumers; oracles only.
        # thorough tier: additionally the -race build of the harness (check.py extra_builds / thorough_race)
        {"name": "pubsubstress",
         "quick": {"n": 24, "workers": 2},
         "thorough": {"n": 96, "workers": 4},
         "thorough_race": {"n": 9600, "workers": 8, "binary": "yk-harness-race"}},
        # the glue around the PubSub (server/rpc Watch stream, packs.PushPull publish step): request
        # sequences on a real in-process server, raw unified Watch streams, SDK pushes of every kind;
        # batch publishers in manual-tick mode, observations taken at barrier events
        {"name": "watch",
         "quick": {"n": 800, "workers": 8},
         "thorough": {"n": 40000, "workers": 10}},
    ],
    "extra_builds": [{"name": "yk-harness-race", "flags": ["-race"], "tiers": ["thorough"]}],
    "trusted_base": BASE_TB + [
        "factgen/watch.go: syntactic extraction (go/ast) of the if-conditions enclosing be.PubSub.Publish in packs.PushPull, of the error branches and the cleanup closure of subscribeResources, of the deferred unwatch of Watch and of the PubSub calls of watchDoc/unwatchDoc; Model/Watch.lean is the hand-written reading of these forms (Cfg.real), tied by the `watch` engine",
        "watch engine: subscriber sets read through PubSub.ClientIDs, log heads from the memory DB, DocChanged deliveries observed on raw v1connect Watch streams up to a barrier event per document (manual-tick hook, backend WaitGroup reached by reflection)",
        "yield hooks in server/backend/pubsub (build tag verif: verif_hook.go + one-line verifYield calls at lock boundaries, manual tick case in processLoop); with the tag off they compile to empty functions",
        "harness scheduler: one goroutine released for one critical section per command; goroutine identity via runtime.Stack",
        "cmap.Upsert/Get/Delete(callback) atomic per key (one shard RWMutex); Subscriptions.Len()/Values() read as one atomic snapshot (the 32 inner shards are read one after the other in Go; argued sound for the properties in Model/PubSub.lean, not modelled)",
        "one document key; Go memory model / data races are not modelled (race detector in the thorough stress run only)",
    ],
    "level_text": "Theorems in Lean over every reachable state of a lock-granularity transition system of Subscribe/Unsubscribe/Publish/process loop/watchers (unbounded numbers of calls, any interleaving): no send on or double close of a subscription channel, closeChan closed at most once, map entry <=> open object, a finished Publish is followed by a notification (or closed stream) at every earlier subscriber of another client by the end of the next flush, nothing is left in the map once all have unsubscribed; negation witnesses for the two stronger readings that are false of the code; tied to server/backend/pubsub by yield-hook driven differential replay. Glue (Props/C17Watch): a request-level model of the unified Watch stream and of the publish step of packs.PushPull - a Watch request that fails leaves every subscription set unchanged, nothing is left once every stream has ended, every step that grows a document log publishes exactly one DocChanged of that document and client; the two decision points (cleanup() in every error branch of subscribeResources, the if-condition guarding the publish block) are re-read from the Go source on every run (Generated/Watch.lean) and proved by evaluation to be the modelled forms; tied by the `watch` engine on a real server.",
    "level_note": "Trusted: Lean kernel; the hand-written Model/PubSub.lean agrees with the Go code as far as the pubsub engine's schedules exercise it (exhaustive over scheduler choices for the listed small configurations, sampled for up to 4 subscribers + 3 publishers); wall-clock bounds are outside the model.",
    "technique": "Lean 4 proof (invariants by induction over steps of a small-step model) + yield-point driven differential replay + free-running stress (-race in thorough tier)",
    "partial": [
        "\"within bounded time\": the model proves \"by the end of the next flush of the Subscriptions object\"; that a flush starts within 100 ms (ticker) and that each send gives up after 100 ms (publishTimeout) are wall-clock facts checked only by the stress oracle (5 s bound)",
        "the strong reading \"receives the event\" is false by design for a watcher stalled across a publish timeout (one-slot buffer may hold an older non-change event; the DocChanged send is dropped): proved: the weaker unconditional statement notification_after_change, the strong statement under the side condition 'no send to the watcher timed out after the event was offered' (change_notification_partial), and the witness change_notification_witness",
        "\"every enqueued event is flushed\" is false (enqueue into a publisher whose loop has returned): witness no_lost_enqueue_witness; proved that no subscriber that existed when the Publish began can be open in that case (late_enqueue_has_no_watcher)",
        "data-race freedom: runtime property, race detector on the thorough stress run only",
    ],
    "not_modelled": [
        "ChannelSubscriptions / PublishChannel (same generic Subscriptions/BatchPublisher code, different buffer size and no dedup)",
        "several document keys (keys only share cmap shard locks, no state)",
        "per-shard non-atomicity of Subscriptions.Values()/Len()",
        "the order in which a flush walks its snapshot is Go's map iteration order: nondeterministic in the model (label parameter), followed – not forced – in the replay",
    ],
    "assumptions": [
        "every watcher eventually calls Unsubscribe exactly as WatchDocument/unwatchDoc do (no_leak hypothesis)",
        "callers only Unsubscribe subscriptions returned by Subscribe on the same key",
    ],
}
