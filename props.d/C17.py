from props_common import BASE_TB

PROP = {
    "modules": ["YorkieModel.Props.C17"],
    "engines": [
        # lock-granularity schedules driven through the `verif` yield hooks; workers 0..7 each
        # explore one small configuration exhaustively (state-pruned DFS), then sample larger ones
        {"name": "pubsub",
         # n/workers = per-worker trace budget of the exhaustive part; the sampled part is capped
         # inside the engine (quick: 400, thorough: 20000 schedules per worker)
         "quick": {"n": 48000, "workers": 8},
         "thorough": {"n": 1680000, "workers": 14}},
        # free-running goroutines, real ticker/timeouts, stalled consumers; oracles only.
        # thorough tier: additionally the -race build of the harness (check.py extra_builds / thorough_race)
        {"name": "pubsubstress",
         "quick": {"n": 24, "workers": 2},
         "thorough": {"n": 96, "workers": 4},
         "thorough_race": {"n": 9600, "workers": 8, "binary": "yk-harness-race"}},
    ],
    "extra_builds": [{"name": "yk-harness-race", "flags": ["-race"], "tiers": ["thorough"]}],
    "trusted_base": BASE_TB + [
        "yield hooks in server/backend/pubsub (build tag verif: verif_hook.go + one-line verifYield calls at lock boundaries, manual tick case in processLoop); with the tag off they compile to empty functions",
        "harness scheduler: one goroutine released for one critical section per command; goroutine identity via runtime.Stack",
        "cmap.Upsert/Get/Delete(callback) atomic per key (one shard RWMutex); Subscriptions.Len()/Values() read as one atomic snapshot (the 32 inner shards are read one after the other in Go; argued sound for the properties in Model/PubSub.lean, not modelled)",
        "one document key; Go memory model / data races are not modelled (race detector in the thorough stress run only)",
    ],
    "level_text": "Theorems in Lean over every reachable state of a lock-granularity transition system of Subscribe/Unsubscribe/Publish/process loop/watchers (unbounded numbers of calls, any interleaving): no send on or double close of a subscription channel, closeChan closed at most once, map entry <=> open object, a finished Publish is followed by a notification (or closed stream) at every earlier subscriber of another client by the end of the next flush, nothing is left in the map once all have unsubscribed; negation witnesses for the two stronger readings that are false of the code; tied to server/backend/pubsub by yield-hook driven differential replay.",
    "level_note": "Trusted: Lean kernel; the hand-written Model/PubSub.lean agrees with the Go code as far as the pubsub engine's schedules exercise it (exhaustive over scheduler choices for the listed small configurations, sampled for up to 4 subscribers + 3 publishers); wall-clock bounds are outside the model.",
    "technique": "Lean 4 proof (invariants by induction over steps of a small-step model) + yield-point driven differential replay + free-running stress (-race in thorough tier)",
    "partial": [
        "\"within bounded time\": the model proves \"by the end of the next flush of the Subscriptions object\"; that a flush starts within 100 ms (ticker) and that each send gives up after 100 ms (publishTimeout) are wall-clock facts checked only by the stress oracle (5 s bound)",
        "the strong reading \"receives the event\" is false by design for a watcher stalled across a publish timeout (one-slot buffer may hold an older non-change event; the DocChanged send is dropped): proved: the weaker unconditional statement notification_after_change, the strong statement under the side condition 'no send to the watcher timed out after the event was offered' (change_notification_partial), and the witness change_notification_witness",
        "\"every enqueued event is flushed\" is false (enqueue into a publisher whose loop has returned): witness no_lost_enqueue_witness; proved that no subscriber that existed when the Publish began can be open in that case (late_enqueue_has_no_watcher)",
        "data-race freedom: runtime property, race detector on the thorough stress run only",
    ],
    "not_modelled": [
        "ChannelSubscriptions / PublishChannel (same generic Subscriptions/BatchPublisher code, different buffer size and no dedup)",
        "several document keys (keys only share cmap shard locks, no state)",
        "per-shard non-atomicity of Subscriptions.Values()/Len()",
        "the order in which a flush walks its snapshot is Go's map iteration order: nondeterministic in the model (label parameter), followed – not forced – in the replay",
    ],
    "assumptions": [
        "every watcher eventually calls Unsubscribe exactly as WatchDocument/unwatchDoc do (no_leak hypothesis)",
        "callers only Unsubscribe subscriptions returned by Subscribe on the same key",
    ],
}
