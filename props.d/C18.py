from props_common import BASE_TB

PROP = {
    "modules": ["YorkieModel.Props.C18"],
    "engines": [
        {"name": "yson", "quick": {"n": 16000, "workers": 8}, "thorough": {"n": 400000, "workers": 14}},
    ],
    "trusted_base": BASE_TB + [
        "Go strings modelled as lists of Unicode scalar values (strings that are not valid UTF-8 are outside the model); Go maps as association lists with strictly increasing keys",
        "float64: finite doubles are carried as Go's %v text (strconv shortest formatting and ParseFloat are trusted to invert each other); "
        "integers are read with strconv.ParseInt from the json.Number literal (modelled exactly); ParseFloat range errors of bare numbers are not modelled",
        "time.Time carried as its RFC3339Nano text; the model accepts exactly what time.Format prints for years 0..9999",
        "strconv.IsPrint tables copied from go1.25.0 (tools/gen_isprint.py); encoding/json's nesting limit and ParseFloat range errors not modelled",
        "dedup counters: SetYSON recomputes the value from the HLL registers; the model keeps the value (generators only use consistent counters exported by FromCRDT)",
        "the CRDT side of SetYSON/FromCRDT is not modelled: `rebuild` is a value-level description of their composition, tied by differential replay on literals and on exports of documents built through the json API",
    ],
    "level_text": "Lean theorems over every YSON value (unbounded size/depth, structural induction): under the decidable YsonSafe, Unmarshal(Marshal(v)) = v on the "
                  "TEXT-level model of the Go code (quoteJSON with strconv.IsPrint, the string-literal-aware scanner of preprocessTypeValues with the regexp + ten ReplaceAll passes of preprocessTypeTokens, encoding/json into interface{}, "
                  "parseObject/parseArray/parseTypedValue/...): proved in three layers (pre-pass, JSON reader, tree-level parser), none of them trusted; "
                  "under RebuildSafe, SetYSON->FromCRDT is the identity (value-level model); one kernel-evaluated negation witness per unsafe shape. "
                  "Tied to pkg/document/yson and pkg/document/json by differential replay "
                  "(Marshal text byte for byte, Unmarshal outcome incl. error text and panic kind, re-marshalled result, rebuild result, and the harness' own unsafe-shape classifier against YsonSafe).",
    "level_note": "Trusted: Lean kernel; the hand-written model agrees with the Go code only as far as the `yson` engine's values exercise it.",
    "technique": "Lean 4 proof (structural induction over YSON values) + differential replay of yson.Marshal/Unmarshal and json.SetYSON/yson.FromCRDT",
    "partial": [
        "Unmarshal(Marshal(v)) = v is false of the code: proved under YsonSafe; 3 unsafe shapes remain listed as known findings with witnesses (type member, non-finite doubles, date range); repaired and now inside the theorem: text inside string literals and the empty dedup counter (/repo 0cf3884e), Long precision beyond 2^53 and the panics on `type` look-alikes (/repo 442be605; unmarshal_never_panics holds for every text), Go-only escapes and unescaped keys (JSON-string-literal fix: quoteJSON for every string and key). Their old failures are kept as witnesses about the OLD code (Model/YsonV0.lean: V0, V0Float, V0Quote)",
        "documents are explored by random multi-replica histories through the json API, not by a CRDT model: that every reachable export is RebuildSafe is tested (oracle), not proved",
    ],
    "not_modelled": [
        "strings that are not valid UTF-8 (strconv.Quote writes \\xNN, which is not JSON; raw in keys they are replaced by U+FFFD): Unmarshal fails or changes the key",
        "Unmarshal into *Text/*Tree/*Counter targets (only *Object and *Array roots)",
        "a real server run of packs.Compact / revisions.Restore: their steps are replayed through exported functions",
    ],
    "assumptions": [
        "compaction uses FromCRDT -> SetYSON -> FromCRDT on Go values (no text): server/packs/compaction.go; revision restore and the admin APIs use the text (server/revisions/revisions.go, server/rpc/admin_server.go)",
    ],
}
