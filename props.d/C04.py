from props_common import BASE_TB

PROP = {
    "modules": ["YorkieModel.Props.C04", "YorkieModel.Props.C04Conc"],
    "engines": [
        # integrated engine: real client SDK + real in-process server (memory DB), traffic captured at the HTTP transport
        {"name": "srv", "args": ["orc=c04"], "quick": {"n": 320, "workers": 8}, "thorough": {"n": 8000, "workers": 14}},
        {"name": "proto", "args": ["mix=schedules+malformed", "orc=c04"],
         "quick": {"n": 2400, "workers": 8, "args": ["shards=8"]},
         "thorough": {"n": 120000, "workers": 14, "args": ["shards=14"]}},
        # forced interleavings of the phases of concurrent PushPull requests (yield hooks in server/packs, tag verif)
        {"name": "conc", "args": ["orc=c04"],
         "quick": {"n": 480, "workers": 8, "args": ["shards=8", "mix=ex2+rand"]},
         "thorough": {"n": 8000, "workers": 14, "args": ["shards=14", "mix=ex2+ex3+rand"]}},
        # Checkpoint.Forward / NextServerSeq / SyncClientSeq on literal pairs (CP.* lines): ties the checkpoint-join theorems
        {"name": "time", "quick": {"n": 1500, "workers": 4}, "thorough": {"n": 100000, "workers": 14}},
    ],
    "trusted_base": BASE_TB + [
        "Model/Server.lean is hand-written; it agrees with server/rpc, server/clients, server/packs, database/client_info.go and the memory DB only as far as the `proto` engine's request streams exercise them (sequential requests on one in-process server, memory DB)",
        "int64 serverSeq / uint32 clientSeq modelled as unbounded Int/Nat; client and document ids modelled by creation order (the harness counts ObjectIDs that are not monotone)",
        "Model/Conc.lean: each phase of PushPull is one atomic step because each is one memdb transaction; memdb transactions are assumed atomic and isolated (validated by the forced interleavings, not proved). The point inside UpdateMinVersionVector is provided by a DB proxy that runs both transactions, discards the minimum, yields and re-reads (the second transaction is a pure read)",
        "yield hooks in server/packs (build tag verif, add-only: four verifYield calls in PushPull/pullPack)",
        "harness reads the `versionvectors` table through the memory DB's unexported go-memdb handle (reflect/unsafe); everything else through exported API",
    ],
    "level_text": "Theorems in Lean over every sequential schedule of requests (unbounded length, any number of clients and documents, crafted packs included): the stored log is exactly serverSeq 1..N with head N; for well-behaved clients (explicit decidable discipline) delivery is exact with respect to the other actors, never echoes a change of the current attachment, and response checkpoints are monotone and bounded by the head. Tied to the real server by differential replay of generated and malformed request streams over the raw RPC endpoints.",
    "level_note": "Concurrent part (Props/C04Conc.lean): a small-step system in which every phase of every in-flight PushPull is one step and the pull(client,doc-key) lock is modelled; gap-free append-only log, exact delivery, no echo, monotone checkpoints and per-actor clientSeq order are proved for every reachable state of every interleaving (conc_*), and a request run alone equals the sequential model (conc_solo_is_sequential); tied to the code by enumerating all interleavings of two (thorough: three) requests at the yield points and sampled larger schedules. Snapshot responses are not modelled (threshold configured out of reach). MongoDB implementation of the store is not run.",
    "technique": "Lean 4 proof (invariants by induction over request lists and over steps of a small-step concurrent system) + differential replay against an in-process server",
    "partial": [
        "conc_refines_seq: only conc_solo_is_sequential and conc_refines_seq_partial (pull half) are proved; moving a request's start to its push point and equality of stored client/vv rows are not proved (conc_minvv_may_lead shows the returned minimum vector may run ahead of the push-order sequential run). The four clauses are proved directly on the concurrent system",
        "per_actor_clientSeq_ordered: stated per attachment generation; holds for documents with presence enabled and requests that only write while holding the document (false under the C11 detached-push defect, see Props/C11)",
    ],
    "not_modelled": ["snapshot pull branch", "compaction", "MongoDB store (CreateChangeInfos under DocPushKey is one memdb write transaction here)", "Deactivate in the concurrent model", "free-running parallel load (only forced interleavings at the yield points)", "a crafted PushPull whose pack names another document key takes a different pull lock than its document's (lockOf models the well-formed case)"],
    "assumptions": ["client discipline `WellBehaved` for the delivery clauses (cp = last response cp, unacknowledged changes resent with consecutive clientSeq)"],
}
