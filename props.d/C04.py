from props_common import BASE_TB

PROP = {
    "modules": ["YorkieModel.Props.C04"],
    "engines": [
        {"name": "proto", "args": ["mix=schedules+malformed", "orc=c04"],
         "quick": {"n": 2400, "workers": 8, "args": ["shards=8"]},
         "thorough": {"n": 120000, "workers": 14, "args": ["shards=14"]}},
    ],
    "trusted_base": BASE_TB + [
        "Model/Server.lean is hand-written; it agrees with server/rpc, server/clients, server/packs, database/client_info.go and the memory DB only as far as the `proto` engine's request streams exercise them (sequential requests on one in-process server, memory DB)",
        "int64 serverSeq / uint32 clientSeq modelled as unbounded Int/Nat; client and document ids modelled by creation order (the harness counts ObjectIDs that are not monotone)",
        "harness reads the `versionvectors` table through the memory DB's unexported go-memdb handle (reflect/unsafe); everything else through exported API",
    ],
    "level_text": "Theorems in Lean over every sequential schedule of requests (unbounded length, any number of clients and documents, crafted packs included): the stored log is exactly serverSeq 1..N with head N; for well-behaved clients (explicit decidable discipline) delivery is exact with respect to the other actors, never echoes a change of the current attachment, and response checkpoints are monotone and bounded by the head. Tied to the real server by differential replay of generated and malformed request streams over the raw RPC endpoints.",
    "level_note": "Sequential part only: interleavings of concurrent requests (DESIGN F.2, yield hooks) are not covered yet. Snapshot responses are not modelled (threshold configured out of reach). MongoDB implementation of the store is not run.",
    "technique": "Lean 4 proof (invariants by induction over request lists) + differential replay against an in-process server",
    "partial": [
        "concurrent interleavings of push/pull phases (C04 'also when many clients push and pull at the same time'): not modelled yet, planned on the phase functions of Model/Server.lean",
        "per_actor_clientSeq_ordered: stated per attachment generation; holds for documents with presence enabled and requests that only write while holding the document (false under the C11 detached-push defect, see Props/C11)",
    ],
    "not_modelled": ["snapshot pull branch", "compaction", "MongoDB store", "concurrency"],
    "assumptions": ["client discipline `WellBehaved` for the delivery clauses (cp = last response cp, unacknowledged changes resent with consecutive clientSeq)"],
}
