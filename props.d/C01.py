from props_common import BASE_TB

PROP = {
    "modules": ["YorkieModel.Props.C01", "YorkieModel.Props.C01Text"],
    "engines": [
        # structure-preserving tree edits (text inside one element, whole-element insert/delete, style) by 2-4 replicas, op-fed into Model/Tree.lean
        {"name": "tree", "args": ["stream=random", "pool=bmp", "orc=c01"], "quick": {"n": 2000, "workers": 8}, "thorough": {"n": 60000, "workers": 14}},
        # integrated engine: real client SDK + real in-process server (memory DB), traffic captured at the HTTP transport
        {"name": "srv", "args": ["orc=c01"], "quick": {"n": 480, "workers": 8}, "thorough": {"n": 12000, "workers": 14}},
        # oracle-only: replicas that edit before SetActor/Attach (known finding c01-pre-attach-edit)
        {"name": "crdtpre", "quick": {"n": 240, "workers": 4}, "thorough": {"n": 20000, "workers": 8}},
        {"name": "crdt", "quick": {"n": 2400, "workers": 8}, "thorough": {"n": 150000, "workers": 14}},
        {"name": "text", "quick": {"n": 1600, "workers": 8}, "thorough": {"n": 100000, "workers": 14}},
        {"name": "textif", "quick": {"n": 1600, "workers": 8}, "thorough": {"n": 100000, "workers": 14}},
    ],
    "trusted_base": BASE_TB + [
        "Model/Crdt.lean is the OBSERVABLE document model: it keeps what Marshal() and the operation executor read and forgets removedAt ticket values, the tombstone flag of LWW losers, and the GC registries (header of the file); those are tied separately by the faithful model of C02/C03",
        "the system model of Lemmas/Convergence.lean (edit / push / pull as separate steps over a totally ordered log, no echo) stands for client.Client + server/packs; that the real server delivers exactly like that is property C04 (log order, exactly-once, no echo)",
        "global freshness of newly issued tickets is a step precondition of the system model; it is the content of C06 (ticket_unique)",
        "Primitive.Marshal() text is taken from the implementation as an opaque token (the model stores the marshalled form of primitives)",
    ],
    "level_text": "Machine-checked strong convergence for objects, arrays (insert, delete, move, set-by-index) and counters with GC off: for any number of clients, any program and any interleaving of edit/push/pull steps, every replica equals the fold of the server log prefix it has seen plus its own pending operations, quiescent replicas are equal heaps and marshal identically, and the server rebuild never meets a failing operation (Convergence.lean instantiated through 16 lemma files proving commutation of every pair of independent operations). Tied to the code per operation: every operation of every change of generated multi-replica histories is replayed by the model and Marshal() compared on every replica after every step. Text (Props/C01Text.lean): the same system theorem instantiated on a character-level abstraction of the block list (text_laws, text_converge_quiescent), tied to the block model of Model/Text.lean by text_enabled_means_call_ok and lifted to replicas that hold block lists and run the Go calls in their own arrival order (text_block_replicas_converge: equal abs, visible text, String() and Marshal(); text_block_no_call_fails); removedAt_diverges shows the block list itself (tombstone tickets) does not converge, only what is observable.",
    "level_note": "Trusted: Lean kernel; the hand-written model as far as the crdt engine exercises it; the delivery discipline (C04) and ticket uniqueness (C06) enter as the system model's step rules. Not covered by a theorem: text changes carrying several Text operations (one Text op per change in the theorem), tree convergence beyond the C19 matrix (correspondence + oracle only), histories with GC on (C03), documents edited before Attach (known finding of C01/C06: SetActor does not rewrite identities).",
    "technique": "Lean 4 proof (pairwise commutation + reorder lemma + system invariant) + op-fed differential replay",
    "partial": ["text: convergence proved for one Text operation per change, a single Text element, no GC, anchors (t, offset 0) with t != head excluded by Pre (split-order dependent in Go); the ghost fields seq/deps are argued, not proved, to annotate every real history",
                "tree (structure-preserving subset): modelled (Model/Tree.lean) and tied by the random stream of the `tree` engine (every operation replayed on clone and root of every replica, convergence oracle); no convergence THEOREM beyond the finite matrix of C19 (Props/C19.lean) and the well-formedness invariant wf_invariant_op",
                "GC on: see C03"],
    "not_modelled": ["dedup counters (HLL)", "undo/redo produced operations (C14/C15)", "edits made before Attach"],
    "assumptions": ["replicas attach (SetActor) before their first edit", "GC disabled (no version vector handed to ApplyChangePack)"],
}
