from props_common import BASE_TB

PROP = {
    "modules": ["YorkieModel.Props.C05", "YorkieModel.Props.C05Srv"],
    "engines": [
        # real clients + real server with LOST RESPONSES (the HTTP tap drops the answer of a sync after the server
        # produced it) and the retry – answered with changes or, at low thresholds, with a snapshot
        {"name": "srv", "args": ["orc=c05"], "quick": {"n": 480, "workers": 8}, "thorough": {"n": 12000, "workers": 14}},
        {"name": "faults", "args": ["orc=c05"],
         "quick": {"n": 152, "workers": 8},
         "thorough": {"n": 5040, "workers": 14}},
    ],
    "trusted_base": BASE_TB + [
        "Model/ServerFault.lean (stepF: one faulty storage call per request) and Model/Server.lean are hand-written; they agree with the code only as far as the `faults` engine exercises them: every storage call of every document request of generated histories, error before/after the call, memory DB",
        "the fault-injecting proxy wraps the exported interface field Backend.DB; an 'after' fault lets the call commit and then returns an error – real stores can also fail half-way inside a call, which is not modelled (each memory-DB call is one transaction)",
        "harness reads the `versionvectors` table through the memory DB's unexported go-memdb handle (reflect/unsafe)",
    ],
    "level_text": "Theorems in Lean for every state and every PushPull with every pack: after any single fault the identical retry is accepted whenever the fault-free request is; for every fault point outside the window 'changes committed, client checkpoint not persisted' (and inside it when the request pushes nothing) fault + retry leaves exactly the store of the fault-free request – same log, same checkpoints, same version-vector rows; a lost response followed by the resend leaves the store unchanged; inside the window the pushed changes are stored twice (general theorem and concrete witness). Tied to the real server by enumerating every storage call of every request of generated histories (error before/after, lost response), the identical retry, further edits and a quiescent round, compared with the model's faulty step; real clients with a counter document against the fault-free twin.",
    "level_note": "The window CreateChangeInfos:after … UpdateClientInfoAfterPushPull:before is a confirmed, upstream-known defect (skipped test in server/packs/pushpull_test.go) and is listed in known_findings.json.",
    "technique": "Lean 4 proof (phase-wise case analysis of the faulty composition) + exhaustive fault-point enumeration by differential replay + twin oracle on real clients",
    "partial": [
        "retry_idempotent: false inside the window (retry_duplicates_witness, window_duplicates); proved outside it (retry_idempotent_partial)",
        "failed_request_retryable is about sync requests (PushPull); a Detach/Remove/Attach whose LAST write committed before the error (or whose response was lost) is refused on retry with documentNotAttached / clientNotFound – the lifecycle step has happened, nothing is stored twice (lifecycle_retry_refused_witness)",
    ],
    "not_modelled": ["faults inside Deactivate's cluster detach", "partial effects inside one storage call", "MongoDB store", "concurrent requests during the retry"],
    "assumptions": [],
}
