import YorkieModel.Model.Time
import YorkieModel.Driver.Proto
import YorkieModel.Driver.TimeEngine
import YorkieModel.Model.Crdt
import YorkieModel.Driver.CrdtEngine
import YorkieModel.Lemmas.VV
import YorkieModel.Props.C06
