import YorkieModel.Model.Time
import YorkieModel.Driver.Proto
import YorkieModel.Driver.TimeEngine
