/- Line-protocol driver: `driver < cmds.txt > model.txt` (core Lean only). -/
import YorkieModel.Driver.Proto
import YorkieModel.Driver.TimeEngine
import YorkieModel.Driver.CrdtEngine
import YorkieModel.Driver.DocUpdEngine
import YorkieModel.Driver.ChangeStoreEngine
import YorkieModel.Driver.LruEngine
import YorkieModel.Driver.AccessEngine
import YorkieModel.Driver.SplayEngine
import YorkieModel.Driver.TreeListEngine
import YorkieModel.Driver.LlrbEngine
import YorkieModel.Driver.TextEngine
import YorkieModel.Driver.LocksEngine
import YorkieModel.Driver.YsonEngine
import YorkieModel.Driver.CodecEngine
import YorkieModel.Driver.PresenceEngine
import YorkieModel.Driver.ProtoEngine
import YorkieModel.Driver.FDocEngine
import YorkieModel.Driver.JsonEngine
import YorkieModel.Driver.PubSubEngine
import YorkieModel.Driver.WatchEngine
import YorkieModel.Driver.TreeEngine
import YorkieModel.Driver.ConcEngine
import YorkieModel.Driver.SrvEngine
import YorkieModel.Driver.UndoEngine
import YorkieModel.Driver.TextUndoEngine
import YorkieModel.Driver.TreeUndoEngine
import YorkieModel.Driver.LockerEngine
open Yorkie.Driver

def engines : List (String × Engine) := [
  ("time", TimeEngine.engine),
  ("crdt", CrdtEngine.engine),
  ("crdtpre", CrdtEngine.engine),
  ("docupd", DocUpdEngine.engine),
  ("store", ChangeStoreEngine.engine),
  ("storex", ChangeStoreEngine.engine),
  ("lru", LruEngine.engine),
  ("access", AccessEngine.engine),
  ("splay", SplayEngine.engine),
  ("treelist", TreeListEngine.engine),
  ("llrb", LlrbEngine.engine),
  ("text", TextEngine.engine),
  ("textif", TextEngine.engine),
  ("locks", LocksEngine.engine),
  ("yson", YsonEngine.engine),
  ("codec", CodecEngine.engine),
  ("pbfuzz", CodecEngine.pbfuzzEngine),
  ("presence", PresenceEngine.engine),
  ("proto", ProtoEngine.engine),
  ("fdoc", FDocEngine.engine), ("json", JsonEngine.engine),
  ("pubsub", PubSubEngine.engine), ("pubsubstress", PubSubEngine.engine), ("watch", WatchEngine.engine), ("tree", TreeEngine.engine), ("conc", ConcEngine.engine), ("srv", SrvEngine.engine),
  ("compact", ProtoEngine.X.engine), ("faults", ProtoEngine.X.engine), ("undo", UndoEngine.engine),
  ("textundo", TextUndoEngine.engine), ("treeundo", TreeUndoEngine.engine), ("locker", LockerEngine.engine)
]

partial def loop (e : Engine) (h : IO.FS.Stream) (out : IO.FS.Stream) (st : e.State) : IO Unit := do
  let line ← h.getLine
  if line.isEmpty then return ()
  let l := (line.dropEndWhile (fun c => c == '\n' || c == '\r')).toString
  let toks := (l.splitOn " ").filter (· ≠ "")
  match toks with
  | [] => loop e h out st
  | "T" :: _ =>
    out.putStrLn l
    loop e h out e.init
  | "#" :: _ => loop e h out st
  | _ =>
    let (st', outs) := e.step st toks
    for o in outs do out.putStrLn o
    loop e h out st'

def main (args : List String) : IO UInt32 := do
  let stdin ← IO.getStdin
  let stdout ← IO.getStdout
  let name := args.headD "time"
  match engines.find? (·.1 == name) with
  | none => IO.eprintln s!"unknown engine {name}"; return 2
  | some (_, e) =>
    loop e stdin stdout e.init
    stdout.flush
    return 0
