/-
C13  Projects are isolated and every data RPC requires the right credential.

Three kinds of statements:

* T-gen obligations over `Generated/Rpc.lean` (re-extracted from the Go source on every
  run): `classification_total`, `classification_no_stale`, `handlers_extracted`,
  `guards_present_*`, `model_guards_in_source`, `interceptors_installed`,
  `service_prefixes`, `admin_exempt_exact`, `cluster_behind_secret`.
  The quantifier of C13 is the finite extracted table, so `decide` over it is a proof.
* general theorems about the model's `exec` (every store, every request): `frame_generic`,
  `frame`, `frame_credential`, `denied_no_write`, `response_local`.
* the request matrix of the `access` engine evaluated in the model
  (`foreign_denied`, `no_credential_denied`, `existence_hidden`, `victim_unchanged`,
  `reads_only_resolved`, `baseline_ok`) – the same lines the real server answers in the
  differential replay.

* the auth webhook and its verdict cache (`webhook_cache_key_in_source`,
  `webhook_cache_transparent`, `webhook_cache_key_without_project_witness`, `webhook_off_same`,
  `webhook_matrix_own_verdict`).

The full statements hold of the current tree:

  foreign_denied      :  every foreign combination is denied
  victim_unchanged    :  every request leaves every project outside its authority unchanged
  guards_present_*    :  every lookup of a handler receives the project id (or is a lookup by a
                         global id immediately scoped to the project: `check:ProjectID`,
                         `EnsureSessionIn`)

They were false of the pinned tree at three lookups by bare id, found by this check and
repaired in /repo; the table models the repaired handlers, and the old behaviour is documented
by witness theorems about clearly named OLD variants of the handlers:

  ddb0dfd3  GetRevision (revisions.Get(revisionID))            `getRevision_fixed_witness`   on `Access.oldGetRevision`
  3821028d  DetachChannel / RefreshChannel (Channel.Detach /   `sessionScope_fixed_witness`  on `Access.oldDetachChannel`,
            Channel.Refresh(sessionID))                                                       `Access.oldRefreshChannel`
-/
import YorkieModel.Model.Access
import YorkieModel.Lemmas.Access
import YorkieModel.Generated.Rpc
namespace Yorkie.Props.C13
open Yorkie.Access Yorkie.Generated

/-! ## Expectations about the extracted tables -/

def svcOf : String → Option Svc
  | "YorkieService" => some .yorkie
  | "AdminService" => some .admin
  | "ClusterService" => some .cluster
  | _ => none

def svcName : Svc → String
  | .yorkie => "YorkieService" | .admin => "AdminService" | .cluster => "ClusterService"

def Svc.all : List Svc := [.yorkie, .admin, .cluster]

/-- the model's classification of an extracted procedure -/
def classify (sp : String × String) : Option Handler := (svcOf sp.1).bind (fun svc => handlerOf svc sp.2)

/-- extra request shapes of one procedure the matrix distinguishes -/
def variants : List (String × String) :=
  [("RefreshChannel+first", "RefreshChannel"), ("DeactivateClient+async", "DeactivateClient")]

def baseOf (name : String) : String :=
  match variants.find? (·.1 = name) with
  | some v => v.2
  | none => name

/-- extracted call list of a handler -/
def callsOf (svc : Svc) (method : String) : List (String × Bool × Bool) :=
  match Rpc.handlers.find? (fun h => h.1 = svcName svc && h.2.1 = method) with
  | some h => h.2.2
  | none => [("<missing>", false, false)]

/-- calls that are not lookups / writes of project data -/
def exemptCalls : List String :=
  ["auth.VerifyAccess", "auth.AccessAttributes", "projects.From", "users.From", "packs.DocKey", "packs.DocPullKey",
   "s.backend.PubSub.Unsubscribe", "s.backend.PubSub.UnsubscribeChannel", "s.backend.PubSub.Publish",
   "converter.FromProject", "s.backend.ClusterClient", "database.NewMemberRole", "s.backend.BroadcastCacheInvalidation",
   "users.SignUp", "users.IsCorrectPassword", "users.DeleteAccountByName", "users.ChangePassword", "check:ProjectID"]

/-- Lookups by bare id that are neither followed by a project comparison nor preceded by a
project-keyed scope check: none since /repo 3821028d. -/
def bareIdLookups : List (String × String) := []

/-- calls that act on a channel session by its (global) id -/
def sessionActs : List String := ["s.backend.Channel.Detach", "s.backend.Channel.Refresh"]

def keyedCall (method : String) (c : String × Bool × Bool) : Bool :=
  exemptCalls.contains c.1 || c.2.1 || bareIdLookups.contains (method, c.1)

/-- every data call of a Yorkie / cluster handler receives an argument derived from the
project. Two kinds of lookups by a global id are accepted only when scoped at once:
a revision fetched by its bare id is immediately followed by the comparison of its
`ProjectID` with the project (GetRevision since ddb0dfd3); `Channel.Detach` / `Channel.Refresh`
by bare session id are immediately preceded by `Channel.EnsureSessionIn` keyed by the project
(DetachChannel / RefreshChannel since 3821028d). -/
def keyedByProject (method : String) : List (String × Bool × Bool) → Bool
  | [] => true
  | [c] => c.1 ≠ "s.backend.DB.FindRevisionInfoByID" && !sessionActs.contains c.1 && keyedCall method c
  | c :: n :: rest =>
    if c.1 = "s.backend.DB.FindRevisionInfoByID" then
      n.1 = "check:ProjectID" && n.2.1 && keyedByProject method (n :: rest)
    else if c.1 = "s.backend.Channel.EnsureSessionIn" && c.2.1 && sessionActs.contains n.1 then
      keyedByProject method rest
    else !sessionActs.contains c.1 && keyedCall method c && keyedByProject method (n :: rest)

/-- admin: every data call receives the project or the authenticated user; a lookup by bare
revision id is immediately followed by the comparison of its `ProjectID` with the project -/
def adminKeyed : List (String × Bool × Bool) → Bool
  | [] => true
  | c :: rest =>
    (if c.1 = "s.backend.DB.FindRevisionInfoByID" then
        (match rest with
         | n :: _ => n.1 = "check:ProjectID" && n.2.1
         | [] => false)
      else exemptCalls.contains c.1 || c.2.1 || c.2.2)
    && adminKeyed rest

/-- calls that establish membership / ownership for the user-scoped admin procedures -/
def membershipCalls : List String :=
  ["projects.ProjectAndRole", "projects.UpdateProject", "projects.RotateProjectKeys", "invites.Accept",
   "projects.CreateProject", "projects.ListProjects"]

/-- documented public procedures of the admin service -/
def adminPublic : List String := ["LogIn", "SignUp", "ChangePassword", "DeleteAccount"]

/-- a user-scoped admin handler: first thing after `users.From` is a membership call keyed by the user -/
def membershipFirst (calls : List (String × Bool × Bool)) : Bool :=
  match calls with
  | u :: m :: _ => u.1 = "users.From" && membershipCalls.contains m.1 && m.2.2
  | _ => false

def adminGuarded (method : String) (calls : List (String × Bool × Bool)) : Bool :=
  if adminPublic.contains method then calls.all (fun c => c.1 ≠ "projects.From" && c.1 ≠ "users.From")
  else if method = "GetServerVersion" then calls.isEmpty
  else
    adminKeyed calls &&
    (match calls with
     | c :: _ => if c.1 = "users.From" then membershipFirst calls else c.1 = "projects.From"
     | [] => false)

/-- source calls that realise a model guard -/
def Guard.calls : Guard → List String
  | .verifyAccess => ["auth.VerifyAccess"]
  | .activeClient | .activeAttacher => ["clients.FindActiveClientInfo", "clients.Deactivate"]
  | .docByRef => ["documents.FindDocInfoByRefKey", "revisions.Create"]
  | .attachedTo => ["clientInfo.EnsureDocumentAttached", "clientInfo.EnsureDocumentAttachedOrAttaching"]
  | .docByKey => ["documents.FindDocInfoByKey", "documents.GetDocumentSummary"]
  | .docKeyFree => ["documents.CreateDocument"]
  | .schemaByName => ["schemas.GetSchema", "schemas.GetSchemas", "schemas.RemoveSchema"]
  | .revisionOfProject => ["revisions.Restore", "check:ProjectID"]
  | .revisionGlobal => ["revisions.Get"]
  | .sessionGlobal => ["s.backend.Channel.Detach", "s.backend.Channel.Refresh"]
  | .sessionOfChannel => ["s.backend.Channel.EnsureSessionIn"]
  | .docRemoved => ["packs.Purge"]
  | .projectAndRole => ["projects.ProjectAndRole"]
  | .permissionById => ["projects.UpdateProject", "projects.RotateProjectKeys"]
  | .permissionAdmin => ["authz.CheckPermission"]
  | .passwordOk => ["users.IsCorrectPassword"]
  | .inviteNotOwner => ["invites.Accept"]

/-- the guards occur in the call list in this order (each realised by one of its calls) -/
def inOrder : List (List String) → List String → Bool
  | [], _ => true
  | _ :: _, [] => false
  | g :: gs, c :: cs => if g.contains c then inOrder gs cs else inOrder (g :: gs) cs

/-- after the pass-through `next` for other services, `auth` is called before `next` -/
def authBeforeNext (auth : String) (flow : List String) : Bool :=
  match flow.dropWhile (· ≠ "next") with
  | _ :: rest => (rest.takeWhile (· ≠ "next")).contains auth && rest.contains "next"
  | [] => false

def flowOf (file fn : String) : List String :=
  match Rpc.interceptorFlow.find? (fun f => f.1 = file && f.2.1 = fn) with
  | some f => f.2.2
  | none => []

/-! ## T-gen obligations -/

/-- Every procedure constant of api/yorkie/v1/v1connect is classified by the model. A new RPC
in the source breaks this obligation until it is given a handler in Model/Access.lean. -/
theorem classification_total : ∀ sp ∈ Rpc.procedures, (classify sp).isSome := by decide +kernel

/-- No model entry is stale: every classified name is a procedure of the source. -/
theorem classification_no_stale :
    ∀ svc ∈ Svc.all, ∀ e ∈ handlersOf svc, (svcName svc, baseOf e.1) ∈ Rpc.procedures := by decide +kernel

/-- Every procedure constant has a handler method in server/rpc/*_server.go registered through
`v1connect.New…Handler(new…Server(…))`. -/
theorem handlers_extracted :
    Rpc.handlers.map (fun h => (h.1, h.2.1)) = Rpc.procedures ∧
    ∀ h ∈ Rpc.handlers, ¬ h.2.2.any (fun c => c.1 = "<missing>") := by decide +kernel

/-- Yorkie service: every handler takes the project from the request context (put there by
the interceptor from the API key), calls `auth.VerifyAccess`, and every lookup / write it
makes receives that project (a revision fetched by bare id is compared with the project at
once; a session is acted on by bare id only right after `EnsureSessionIn` keyed by the
project) – without exception (`bareIdLookups = []`). -/
theorem guards_present_yorkie :
    ∀ h ∈ Rpc.handlers, h.1 = "YorkieService" →
      h.2.2.any (fun c => c.1 = "projects.From") ∧ h.2.2.any (fun c => c.1 = "auth.VerifyAccess") ∧
      keyedByProject h.2.1 h.2.2 = true := by decide +kernel

/-- non-vacuity of the session rule: both handlers do act on a session by bare id, each time
directly after the project-keyed scope check -/
theorem session_lookups_scoped :
    inOrder [["s.backend.Channel.EnsureSessionIn"], ["s.backend.Channel.Detach"]]
        ((callsOf .yorkie "DetachChannel").map (·.1)) = true ∧
    inOrder [["s.backend.Channel.EnsureSessionIn"], ["s.backend.Channel.Refresh"]]
        ((callsOf .yorkie "RefreshChannel").map (·.1)) = true ∧
    ("s.backend.Channel.EnsureSessionIn", true, false) ∈ callsOf .yorkie "DetachChannel" ∧
    ("s.backend.Channel.EnsureSessionIn", true, false) ∈ callsOf .yorkie "RefreshChannel" ∧
    bareIdLookups = [] := by decide +kernel

/-- Admin service: the documented public procedures read no principal; every other handler
takes its principal from the context (user or project, set only by a successful
authentication), user-scoped handlers establish membership first, every data call is keyed
by project or user, a revision looked up by bare id is compared with the project at once. -/
theorem guards_present_admin :
    ∀ h ∈ Rpc.handlers, h.1 = "AdminService" → adminGuarded h.2.1 h.2.2 = true := by decide +kernel

/-- Cluster service: every data call is keyed by the project the (authenticated) peer names. -/
theorem guards_present_cluster :
    ∀ h ∈ Rpc.handlers, h.1 = "ClusterService" → keyedByProject h.2.1 h.2.2 = true := by decide +kernel

/-- The hand-written guard list of every model handler occurs, in order, in the call list
extracted from the source handler: removing or reordering a guard in the source breaks it. -/
theorem model_guards_in_source :
    ∀ svc ∈ Svc.all, ∀ e ∈ handlersOf svc,
      inOrder (e.2.guards.map Guard.calls) ((callsOf svc (baseOf e.1)).map (·.1)) = true := by decide +kernel

/-- server/rpc/server.go installs the three authenticating interceptors and registers every
service handler with them. -/
theorem interceptors_installed :
    (∀ i ∈ ["adminInterceptor", "yorkieInterceptor", "clusterInterceptor"], i ∈ Rpc.installedInterceptors) ∧
    (∀ r ∈ Rpc.registeredHandlers, r.2 = true) ∧
    (∀ c ∈ ["NewYorkieServiceHandler", "NewAdminServiceHandler", "NewClusterServiceHandler"],
        (c, true) ∈ Rpc.registeredHandlers) ∧
    Rpc.procedures.all (fun sp => (svcOf sp.1).isSome) = true := by decide +kernel

/-- each interceptor claims exactly its own service -/
theorem service_prefixes :
    Rpc.servicePrefix =
      [("admin", "isAdminService", "/yorkie.v1.AdminService"),
       ("cluster", "isClusterService", "/yorkie.v1.ClusterService/"),
       ("yorkie", "isYorkieService", "/yorkie.v1.YorkieService/")] := by decide +kernel

/-- `isRequiredAuth` exempts exactly the documented public procedures, and the model marks
exactly those `exempt`. Dropping or adding one in the source breaks this. -/
theorem admin_exempt_exact :
    (∀ x ∈ Rpc.adminAuthExempt, x ∈ adminPublic.map ("/yorkie.v1.AdminService/" ++ ·)) ∧
    (∀ x ∈ adminPublic.map ("/yorkie.v1.AdminService/" ++ ·), x ∈ Rpc.adminAuthExempt) ∧
    (∀ e ∈ adminHandlers, (e.2.scope = .exempt) ↔ e.1 ∈ adminPublic) := by decide +kernel

/-- every interceptor authenticates before it calls the handler, for unary and streaming
procedures; the Yorkie one resolves the project from the API key, the admin one consults
`isRequiredAuth`, the cluster one compares the secret in constant time. -/
theorem cluster_behind_secret :
    authBeforeNext "i.authenticate" (flowOf "cluster" "WrapUnary") = true ∧
    authBeforeNext "i.authenticate" (flowOf "cluster" "WrapStreamingHandler") = true ∧
    "subtle.ConstantTimeCompare" ∈ flowOf "cluster" "authenticate" ∧
    authBeforeNext "i.buildContext" (flowOf "admin" "WrapUnary") = true ∧
    authBeforeNext "i.buildContext" (flowOf "admin" "WrapStreamingHandler") = true ∧
    flowOf "admin" "buildContext" = ["isRequiredAuth", "i.authenticate"] ∧
    authBeforeNext "i.buildContext" (flowOf "yorkie" "WrapUnary") = true ∧
    authBeforeNext "i.buildContext" (flowOf "yorkie" "WrapStreamingHandler") = true ∧
    "projects.GetProjectFromAPIKey" ∈ flowOf "yorkie" "buildContext" := by decide +kernel

/-! ## General theorems about the model -/

/-- Generic frame theorem. A step that accesses a keyed store only through `get p` / `set p`
leaves every other key unchanged, and its response (and what it writes) is a function of
`p`'s state only. Modelling assumption of C13: handlers access project data only through
project-keyed lookups – tied to the source by `guards_present_*`. -/
theorem frame_generic {ι σ ρ : Type} [DecidableEq ι] (p : ι) (h : σ → ρ × σ) (s s' : ι → σ) :
    (∀ q, q ≠ p → (runAt p h s).2 q = s q) ∧
    (s p = s' p → (runAt p h s).1 = (runAt p h s').1 ∧ (runAt p h s).2 p = (runAt p h s').2 p) :=
  ⟨fun q hq => runAt_frame p h s q hq, fun hp => ⟨runAt_response p h s s' hp, runAt_own p h s s' hp⟩⟩

/-- A request that is not answered `ok` writes nothing at all (every handler, also the old variants with a non-local effect). -/
theorem denied_no_write (cfg : Cfg) (s : Store) (svc : Svc) (H : Handler) (c : Cred) (r : Req)
    (h : (execH cfg s svc H c r).1 ≠ .ok) : (execH cfg s svc H c r).2 = s := by
  unfold execH at h ⊢
  split
  · rfl
  · split
    · rfl
    · split
      · rfl
      · simp_all

/-- Frame theorem for the model's request execution: for every store, every handler whose
effect is local and every request, every project other than the one the request resolves to
(`target`: from the credential for the API-key / secret scopes, from the guarded payload for
the user / peer scopes; computed without the store) is left unchanged. -/
theorem frame (cfg : Cfg) (s : Store) (svc : Svc) (H : Handler) (c : Cred) (r : Req)
    (hl : H.effect.isLocal = true) (q : Proj)
    (hq : target cfg svc H c r ≠ some q) : (execH cfg s svc H c r).2 q = s q := by
  unfold execH
  unfold target at hq
  split
  · rfl
  · rename_i ctx hi
    rw [hi] at hq
    simp only at hq
    split
    · rfl
    · rename_i e he
      rw [he] at hq
      simp only at hq
      split
      · rfl
      · rename_i e' hg
        simp only
        rw [Effect.run_local hl, runGuards_proj hg]
        exact applyAt_other _ _ _ _ hq

/-- The statement of C13: a request whose *credential* resolves to project `p` (API key of
`p` on the Yorkie service, secret key of `p` on the admin service) leaves every `q ≠ p`
unchanged – for every handler whose guards do not re-resolve the project and whose effect is
local (`handlers_local` lists which handlers of the table that is). -/
theorem frame_credential (cfg : Cfg) (s : Store) (svc : Svc) (p q : Proj) (r : Req) (H : Handler)
    (hl : H.effect.isLocal = true)
    (hg : ∀ g ∈ H.guards, g ≠ .projectAndRole ∧ g ≠ .permissionById ∧ g ≠ .inviteNotOwner)
    (c : Cred)
    (hc : (svc = .yorkie ∧ H.scope = .apiKey ∧ c = .apiKey p) ∨ (svc = .admin ∧ H.scope = .secret ∧ c = .secret p))
    (hq : q ≠ p) :
    (execH cfg s svc H c r).2 q = s q := by
  by_cases hok : (execH cfg s svc H c r).1 = .ok
  · apply frame cfg s svc H c r hl
    have hpa : ∀ (gs : List Guard) (po : Option Proj),
        (∀ g ∈ gs, g ≠ .projectAndRole ∧ g ≠ .permissionById ∧ g ≠ .inviteNotOwner) → projAfter po r gs = po := by
      intro gs
      induction gs with
      | nil => intro po _; rfl
      | cons g gs ih =>
        intro po hgs
        have h1 := hgs g (by simp)
        have : projStep po r g = po := by
          cases g <;> simp_all [projStep]
        rw [projAfter, this]
        exact ih po (fun g' hg' => hgs g' (by simp [hg']))
    unfold target
    split
    · simp
    · rename_i ctx hi
      split
      · simp
      · rename_i e he
        rw [hpa _ _ hg]
        intro hcontra
        rcases hc with ⟨hsvc, hs, hc⟩ | ⟨hsvc, hs, hc⟩ <;> subst hsvc <;> subst hc <;>
          simp [intercept, hs] at hi <;>
          (try (split at hi <;> simp at hi)) <;>
          (try subst hi) <;> simp_all [enter] <;>
          (try (split at hi <;> simp_all)) <;> (try (cases he; simp_all))
  · rw [denied_no_write cfg s svc H c r hok]

/-- The decision of a request is a function of the state of the projects in `reads` only
(`reads` is computed from configuration, credential and request, not from the store). -/
theorem response_local (cfg : Cfg) (s s' : Store) (svc : Svc) (H : Handler) (c : Cred) (r : Req)
    (hs : ∀ p ∈ reads cfg svc H c r, s p = s' p) :
    (execH cfg s svc H c r).1 = (execH cfg s' svc H c r).1 := by
  unfold execH
  unfold reads at hs
  split
  · rfl
  · rename_i ctx hi
    rw [hi] at hs
    simp only at hs
    split
    · rfl
    · rename_i e he
      rw [he] at hs
      simp only at hs
      rw [runGuards_congr hs]
      split <;> rfl

/-! ## The request matrix, evaluated in the model -/

/-- the table is a function: a name looks up its own row (so `decideReq` / `victimOf`, which
the driver prints by name, are `decideH` / `victimH` of that row) -/
theorem table_lookup : ∀ svc ∈ Svc.all, ∀ e ∈ handlersOf svc, handlerOf svc e.1 = some e.2 := by decide +kernel

def cfgs : List Cfg := [{ udp := true }, { udp := false }]

/-- credential kinds the `access` engine presents to each service -/
def credsOf : Svc → List Cred
  | .yorkie => [.none, .badKey, .apiKey .B, .apiKey .A]
  | .admin => [.none, .badToken, .token .uN, .token .mA, .token .uA, .badSecret, .emptySecret, .secret .B, .secret .A]
  | .cluster => [.none, .wrongClusterSecret, .clusterSecret]

inductive Field | client | attacher | docId | rev | session | project
  deriving DecidableEq, Repr

def Field.get (r : Req) : Field → Obj
  | .client => r.client | .attacher => r.attacher | .docId => r.docId
  | .rev => r.rev | .session => r.session | .project => r.project

/-- ids a guard consults -/
def Guard.fields : Guard → List Field
  | .activeClient => [.client]
  | .activeAttacher => [.attacher]
  | .docByRef | .attachedTo => [.docId]
  | .revisionOfProject | .revisionGlobal => [.rev]
  | .sessionGlobal | .sessionOfChannel => [.session]
  | .projectAndRole | .permissionById => [.project]
  | _ => []

def consults (h : Handler) : List Field :=
  (if h.scope = .peer then [Field.project] else []) ++ h.guards.flatMap Guard.fields

/-- No handler of the table has a global guard or a non-local effect any more (before the
repairs ddb0dfd3 / 3821028d: GetRevision, DetachChannel, RefreshChannel). So `frame` and
`response_local` with `reads ⊆ {target}` apply to every procedure. -/
theorem leaks_exact :
    ∀ svc ∈ Svc.all, ∀ e ∈ handlersOf svc,
      e.2.guards.all Guard.isLocal = true ∧ e.2.effect.isLocal = true := by decide

/-- where `failed_precondition` can come from in `foreign_denied`: exactly the three Yorkie
handlers that check the client's attachment table (`EnsureDocumentAttached` in
PushPullChanges, `EnsureDocumentAttachedOrAttaching` in DetachDocument / RemoveDocument), and
in each the check follows the client lookup and precedes the document lookup -/
theorem attachedTo_exact :
    ∀ svc ∈ Svc.all, ∀ e ∈ handlersOf svc,
      (e.2.guards.contains .attachedTo = true ↔
        (svc = .yorkie ∧ e.1 ∈ ["PushPullChanges", "DetachDocument", "RemoveDocument"])) ∧
      (e.2.guards.contains .attachedTo = true →
        e.2.guards = [.verifyAccess, .activeClient, .attachedTo, .docByRef]) := by decide

/-- the request names, in a field the handler consults, an object of a project outside the
credential's authority -/
def foreignVia (auth : List Proj) (h : Handler) (r : Req) : Bool :=
  (consults h).any (fun f =>
    match f.get r with
    | .of q => !auth.contains q
    | .ghost => false)

/-- the credential is of the wrong kind for the procedure (`projects.From` / `users.From` panic) -/
def kindMismatch (h : Handler) : Cred → Bool
  | .token _ => h.scope = .secret
  | .secret _ => h.scope = .user
  | _ => false

def strictDenial (d : Decision) : Bool := d = .notFound || d = .unauthenticated || d = .permissionDenied

/-- `foreign_denied` (C13, full statement, no side condition): for
every procedure of the model table (= the generated table, by `classification_*`), every
configuration, credential kind and target kind: if the request names – in a field the handler
consults – an object of a project outside the credential's authority, the decision is
not-found / unauthenticated / permission-denied; the only other codes are
`failed_precondition` from `EnsureDocumentAttached` / `EnsureDocumentAttachedOrAttaching`
(PushPullChanges, and since /repo 7f055575 DetachDocument and RemoveDocument, where it precedes
the document lookup; the document id is looked up in the
*client's* attachment table) and the panic of a credential of the wrong kind. -/
theorem foreign_denied :
    ∀ cfg ∈ cfgs, ∀ svc ∈ Svc.all, ∀ e ∈ handlersOf svc, ∀ c ∈ credsOf svc, ∀ t ∈ Target.all,
      foreignVia (authority cfg (worldFor e.2) svc e.2 c) e.2 (mkReq e.2 t) = true →
        strictDenial (decideH cfg svc e.2 c t) = true ∨
        (decideH cfg svc e.2 c t = .failedPrecondition ∧ e.2.guards.contains .attachedTo = true) ∨
        (decideH cfg svc e.2 c t = .crash ∧ kindMismatch e.2 c = true) := by decide +kernel

/-- The defect repaired by /repo commit ddb0dfd3, stated about the old variant of the handler
(`Access.oldGetRevision`: revision loaded by bare id): with A's key, client and document it
answered `ok` to B's revision id and its decision depended on B's state; the handler of the
table answers `not_found`, exactly as for an id that exists nowhere, and reads A only. -/
theorem getRevision_fixed_witness :
    decideH {} .yorkie oldGetRevision (.apiKey .A) (.rev false) = .ok ∧
    decideH {} .yorkie oldGetRevision (.apiKey .A) (.rev true) = .notFound ∧
    (execH {} (world0.set .B {}) .yorkie oldGetRevision (.apiKey .A) { rev := .of .B }).1 = .notFound ∧
    decideReq {} .yorkie "GetRevision" (.apiKey .A) (.rev false) = .notFound ∧
    decideReq {} .yorkie "GetRevision" (.apiKey .A) (.rev true) = .notFound ∧
    decideReq {} .yorkie "GetRevision" (.apiKey .A) .own = .ok ∧
    (∃ H, handlerOf .yorkie "GetRevision" = some H ∧ H.guards.all Guard.isLocal = true ∧
      ∀ p ∈ reads {} .yorkie H (.apiKey .A) { rev := .of .B }, p = .A) := by
  refine ⟨by decide, by decide, by decide, by decide, by decide, by decide, _, rfl, by decide, by decide⟩

/-- The defect repaired by /repo commit 3821028d, stated about the old variants of the
handlers (`Access.oldDetachChannel`, `Access.oldRefreshChannel`: bare session id handed to
`Channel.Detach` / `Channel.Refresh`): with A's key and client they answered `ok` to B's
session id (`not_found` to an id that exists nowhere), the old DetachChannel removed B's
session (`frame` false of it: its effect is not local); the handlers of the table answer
`not_found` exactly as for an id that exists nowhere – also for a session of another channel
of the own project – leave B unchanged, and still serve the own session. -/
theorem sessionScope_fixed_witness :
    decideH {} .yorkie oldDetachChannel (.apiKey .A) (.session false) = .ok ∧
    decideH {} .yorkie oldDetachChannel (.apiKey .A) (.session true) = .notFound ∧
    victimH {} .yorkie oldDetachChannel (.apiKey .A) (.session false) = true ∧
    (execH {} world0 .yorkie oldDetachChannel (.apiKey .A) { session := .of .B }).2 .B ≠ world0 .B ∧
    oldDetachChannel.effect.isLocal = false ∧
    decideH {} .yorkie oldRefreshChannel (.apiKey .A) (.session false) = .ok ∧
    decideH {} .yorkie oldRefreshChannel .none .own = .ok ∧
    decideH {} .yorkie oldRefreshChannel (.apiKey .A) (.session true) = .notFound ∧
    decideReq {} .yorkie "DetachChannel" (.apiKey .A) (.session false) = .notFound ∧
    decideReq {} .yorkie "DetachChannel" (.apiKey .A) (.session true) = .notFound ∧
    decideReq {} .yorkie "DetachChannel" (.apiKey .A) (.name false) = .notFound ∧
    decideReq {} .yorkie "DetachChannel" (.apiKey .A) .own = .ok ∧
    victimOf {} .yorkie "DetachChannel" (.apiKey .A) (.session false) = false ∧
    decideReq {} .yorkie "RefreshChannel" (.apiKey .A) (.session false) = .notFound ∧
    decideReq {} .yorkie "RefreshChannel" .none .own = .notFound ∧
    decideReq {} .yorkie "RefreshChannel" (.apiKey .A) .own = .ok := by decide

def validCred : Cred → Bool
  | .apiKey _ | .token _ | .secret _ | .clusterSecret => true
  | _ => false

/-- Without a valid credential nothing but the documented public admin procedures (and, when
`UseDefaultProject` is on, the default project of the Yorkie service) is reachable: every
other combination is `unauthenticated` (`not_found` for an unknown API key), whatever ids it
names. Administrative calls need a token / secret, cluster calls the cluster secret. -/
theorem no_credential_denied :
    ∀ cfg ∈ cfgs, ∀ svc ∈ Svc.all, ∀ e ∈ handlersOf svc, ∀ c ∈ credsOf svc, ∀ t ∈ Target.all,
      validCred c = false → e.2.scope ≠ .exempt → ¬ (svc = .yorkie ∧ cfg.udp = true ∧ c = .none) →
        decideH cfg svc e.2 c t = .unauthenticated ∨ (c = .badKey ∧ decideH cfg svc e.2 c t = .notFound) := by
  decide +kernel

/-- the ghost twin of a target kind -/
def twinOf : Target → Option (Target × Field)
  | .client false => some (.client true, .client)
  | .docid false => some (.docid true, .docId)
  | .rev false => some (.rev true, .rev)
  | .session false => some (.session true, .session)
  | .project false => some (.project true, .project)
  | _ => none

/-- Existence of a foreign object is not observable: when `B` is outside the credential's
authority, a request naming `B`'s client / document / revision / session / project id is
decided exactly like the same request with an id that exists nowhere – without exception.
Names (document / channel key, schema name) that only `B` uses are decided like names nobody
uses, without exception. -/
theorem existence_hidden :
    ∀ cfg ∈ cfgs, ∀ svc ∈ Svc.all, ∀ e ∈ handlersOf svc, ∀ c ∈ credsOf svc,
      (authority cfg (worldFor e.2) svc e.2 c).contains .B = false →
        decideH cfg svc e.2 c (.name false) = decideH cfg svc e.2 c (.name true) ∧
        ∀ t ∈ Target.all, ∀ tw ∈ twinOf t,
          decideH cfg svc e.2 c t = decideH cfg svc e.2 c tw.1 := by decide +kernel

/-- a request that is answered `ok` has resolved to a project of its credential's authority -/
def targetInAuthority (cfg : Cfg) (svc : Svc) (h : Handler) (c : Cred) (t : Target) : Bool :=
  match target cfg svc h c (mkReq h t) with
  | some p => (authority cfg (worldFor h) svc h c).contains p
  | none => true

/-- On the matrix every successful request has resolved to a project inside the authority of
its credential (in particular: never to another project than the API key's / secret's, and
for user tokens only to projects the user owns or is a member of). -/
theorem writes_within_authority :
    ∀ cfg ∈ cfgs, ∀ svc ∈ Svc.all, ∀ e ∈ handlersOf svc, ∀ c ∈ credsOf svc, ∀ t ∈ Target.all,
      decideH cfg svc e.2 c t = .ok → targetInAuthority cfg svc e.2 c t = true := by decide +kernel

/-- `frame` on the matrix, full statement (derived from `frame`, `denied_no_write`,
`leaks_exact` and `writes_within_authority`): no request changes a project outside its
credential's authority. -/
theorem victim_unchanged :
    ∀ cfg ∈ cfgs, ∀ svc ∈ Svc.all, ∀ e ∈ handlersOf svc, ∀ c ∈ credsOf svc, ∀ t ∈ Target.all,
      victimH cfg svc e.2 c t = false := by
  intro cfg hcfg svc hsvc e he c hc t ht
  have hl := (leaks_exact svc hsvc e he).2
  have hw := writes_within_authority cfg hcfg svc hsvc e he c hc t ht
  unfold victimH victimChanged
  simp only [List.any_eq_false]
  intro q _
  by_cases hok : decideH cfg svc e.2 c t = .ok
  · by_cases hq : (authority cfg (worldFor e.2) svc e.2 c).contains q = true
    · have hq' : q ∈ authority cfg (worldFor e.2) svc e.2 c := by simpa using hq
      simp [hq']
    · have hne : target cfg svc e.2 c (mkReq e.2 t) ≠ some q := by
        intro h
        have := hw hok
        unfold targetInAuthority at this
        rw [h] at this
        exact hq this
      rw [frame cfg (worldFor e.2) svc e.2 c (mkReq e.2 t) hl q hne]
      simp
  · have : (execH cfg (worldFor e.2) svc e.2 c (mkReq e.2 t)).1 ≠ .ok := hok
    rw [denied_no_write cfg (worldFor e.2) svc e.2 c (mkReq e.2 t) this]
    simp

/-- On the matrix, the decision of every handler depends on the state of the resolved project
only (`response_local` with `reads ⊆ {target}`). -/
theorem reads_only_resolved :
    ∀ cfg ∈ cfgs, ∀ svc ∈ Svc.all, ∀ e ∈ handlersOf svc, ∀ c ∈ credsOf svc, ∀ t ∈ Target.all,
      ∀ p ∈ reads cfg svc e.2 c (mkReq e.2 t), target cfg svc e.2 c (mkReq e.2 t) = some p := by decide +kernel

/-- Non-vacuity of the matrix: every procedure is answered `ok` for the own ids under some
credential (the foreign requests differ from a succeeding request in one id only). -/
theorem baseline_ok :
    ∀ svc ∈ Svc.all, ∀ e ∈ handlersOf svc, ∃ c ∈ credsOf svc, decideH {} svc e.2 c .own = .ok := by decide +kernel

/-! ## The auth webhook and its verdict cache -/

/-- T-gen: `generateCacheKey(publicKey, body)` is exactly `fmt.Sprintf("%s:auth:%s", publicKey,
body)` – the key mentions the project's public key and the whole body –, `verifyAccess` calls
it with the request's own project (`prj.PublicKey`), reads and writes the verdict cache under
that one key, and POSTs to the same project's URL (`prj.AuthWebhookURL`) between the two.
`Access.fixtureWebhook.key` (the pair) models this expression. -/
theorem webhook_cache_key_in_source :
    Rpc.authCacheKeyFormat = "%s:auth:%s" ∧
    Rpc.authCacheKeyArgs = ["publicKey", "body"] ∧
    Rpc.authCacheKeyParams = ["publicKey", "body"] ∧
    Rpc.authCacheKeyBodyStmts = 1 ∧
    Rpc.authCacheKeyCallSites = [["prj.PublicKey", "body"]] ∧
    ("cacheKey", "generateCacheKey(prj.PublicKey, body)") ∈ Rpc.authVerifyAssigns ∧
    ("body", "json.Marshal(req)") ∈ Rpc.authVerifyAssigns ∧
    ("be.Cache.AuthWebhook.Get", ["cacheKey"]) ∈ Rpc.authVerifyFlow ∧
    ("be.AuthWebhookClient.Send", ["ctx", "prj.AuthWebhookURL", "\"\"", "body", "options"]) ∈ Rpc.authVerifyFlow ∧
    Rpc.authVerifyFlow.any (fun c => c.1 = "be.Cache.AuthWebhook.Add" && c.2.head? = some "cacheKey") = true ∧
    inOrder [["generateCacheKey"], ["be.Cache.AuthWebhook.Get"], ["be.AuthWebhookClient.Send"], ["be.Cache.AuthWebhook.Add"]]
      (Rpc.authVerifyFlow.map (·.1)) = true := by decide +kernel

/-- `webhook_cache_transparent`. For every webhook configuration over any types of projects,
bodies and keys whose cache key determines project and body (as the code's key does), every
sequence of requests and cache evictions started with an empty cache, and every request in
it: the verdict is the one the request's OWN project's webhook gave for the same body –
now, if the webhook was consulted; otherwise at a time `t0` less than the TTL ago, obtained by
an earlier logged request of the same project and body that did consult the webhook. In
particular it is never another project's verdict. -/
theorem webhook_cache_transparent {π β κ : Type} [DecidableEq κ] (w : Webhook π β κ)
    (hkey : ∀ p b p' b', w.key p b = w.key p' b' → p = p' ∧ b = b')
    (ops : List (WOp π β κ)) :
    ∀ x ∈ w.run ops [],
      (x.consulted = true → x.verdict = w.hook x.proj x.time x.body) ∧
      (x.consulted = false → ∃ t0, x.time < t0 + w.ttl ∧ x.verdict = w.hook x.proj t0 x.body ∧
        ∃ y ∈ w.run ops [], y.proj = x.proj ∧ y.body = x.body ∧ y.time = t0 ∧
          y.verdict = x.verdict ∧ y.consulted = true) := by
  intro x hx
  have := Webhook.run_good w hkey ops [] [] (by intro e he; simp at he) x hx
  simpa [WGood] using this

/-- the model's key (pair of project and body) satisfies the hypothesis of `webhook_cache_transparent` -/
theorem fixture_key_determines_project :
    ∀ p b p' b', fixtureWebhook.key p b = fixtureWebhook.key p' b' → p = p' ∧ b = b' := by
  intro p b p' b' h
  simpa [fixtureWebhook] using h

/-- the variant of the cache key that omits the project (`"auth:" ++ hash body`) -/
def webhookKeyWithoutProject : Webhook Proj Body Body :=
  { hook := fixtureHook, key := fun _ b => b, ttl := fixtureWebhook.ttl }

/-- `webhook_cache_transparent` is false of the variant whose key omits the project: after A's
webhook has allowed a token, project B admits the same token from the cache although B's own
webhook denies it – and B's webhook is not even consulted. -/
theorem webhook_cache_key_without_project_witness :
    let b : Body := ⟨.ta, "PushPullChanges", 0⟩
    let log := webhookKeyWithoutProject.run [.req .A b 0, .req .B b 1] []
    log.map (fun x => (x.proj, x.verdict, x.consulted)) = [(.A, .allow, true), (.B, .allow, false)] ∧
    fixtureHook .B 1 b = .deny ∧
    (fixtureWebhook.run [.req .A b 0, .req .B b 1] []).map (fun x => (x.proj, x.verdict, x.consulted))
      = [(.A, .allow, true), (.B, .deny, true)] := by decide

/-- Without a configured webhook the token-aware execution is `execH`: the webhook-free matrix
theorems above speak about the same handler execution. -/
theorem webhook_off_same (cfg : Cfg) (s : Store) (svc : Svc) (proc : String) (H : Handler) (c : Cred)
    (tok : Token) (r : Req) (a : AuthSt) (ha : a.on = false) :
    (execA cfg s svc proc H c tok r a).1 = (execH cfg s svc H c r).1 ∧
    (execA cfg s svc proc H c tok r a).2.1 = (execH cfg s svc H c r).2 := by
  unfold execA execH
  split
  · simp
  · split
    · simp
    · rw [runGuardsA_off cfg s tok proc r _ _ a 0 0 ha]
      split <;> simp_all

/-- the decision the home project's own webhook stands for -/
def ownVerdictDecision (home : Proj) (tok : Token) : Decision :=
  match (fixtureHook home 0 ⟨tok, "", 0⟩).denial with
  | some d => d
  | none => .ok

/-- The webhook lines of the matrix in the model: with webhooks configured on A and B, for
every Yorkie procedure, every token and every order of two home projects, the first request
(cold cache) and the second one (cache warmed by the first, possibly by the OTHER project)
are both decided by their home project's own webhook, and the second consults its own
webhook unless the first was the same project with a cacheable verdict. -/
theorem webhook_matrix_own_verdict :
    ∀ e ∈ yorkieHandlers, ∀ tok ∈ [Token.none, .ta, .tb, .terr], ∀ h1 ∈ [Proj.A, .B], ∀ h2 ∈ [Proj.A, .B],
      let r1 := execA {} (worldFor e.2) .yorkie e.1 e.2 (.apiKey h1) tok (homeReq h1) { on := true }
      let r2 := execA {} (worldFor e.2) .yorkie e.1 e.2 (.apiKey h2) tok (homeReq h2) { r1.2.2.1 with now := 1 }
      r1.1 = ownVerdictDecision h1 tok ∧ r2.1 = ownVerdictDecision h2 tok ∧
      (h1 ≠ h2 → r2.2.2.2 ≥ 1) ∧ 1 ≤ r1.2.2.2 := by decide +kernel

/-! ## Non-vacuity examples -/

/-- the hypotheses of `frame` are met by a data handler, and it does write -/
example : ∃ H, handlerOf .yorkie "PushPullChanges" = some H ∧ H.effect.isLocal = true ∧
    target {} .yorkie H (.apiKey .A) {} = some .A ∧
    (execH {} world0 .yorkie H (.apiKey .A) {}).1 = .ok ∧
    (execH {} world0 .yorkie H (.apiKey .A) {}).2 .A ≠ world0 .A ∧
    (execH {} world0 .yorkie H (.apiKey .A) {}).2 .B = world0 .B := by
  refine ⟨_, rfl, ?_⟩
  decide

/-- identical document keys in two projects are different documents: attaching the shared key
with A's credential writes A and leaves B (which has a live document of that key) alone -/
example : (world0 .B).doc = .live ∧
    (exec {} world0 .yorkie "AttachDocument" (.apiKey .A) { name := .shared }).1 = .ok ∧
    (exec {} world0 .yorkie "AttachDocument" (.apiKey .A) { name := .shared }).2 .B = world0 .B ∧
    (exec {} world0 .admin "RemoveDocumentByAdmin" (.secret .A) { name := .shared }).2 .B = world0 .B ∧
    ((exec {} world0 .admin "RemoveDocumentByAdmin" (.secret .A) { name := .shared }).2 .A).doc = .removed := by decide

/-- the hypothesis of `foreign_denied` is met, and every code it allows occurs -/
example : ∃ H, handlerOf .yorkie "PushPullChanges" = some H ∧
    foreignVia (authority {} world0 .yorkie H (.apiKey .A)) H (mkReq H (.client false)) = true ∧
    decideReq {} .yorkie "PushPullChanges" (.apiKey .A) (.client false) = .notFound ∧
    decideReq {} .yorkie "PushPullChanges" (.apiKey .A) (.docid false) = .failedPrecondition ∧
    decideReq {} .admin "UpdateProject" (.token .uA) (.project false) = .notFound ∧
    decideReq {} .admin "UpdateProject" (.token .mA) .own = .permissionDenied ∧
    decideReq {} .admin "GetDocument" (.token .uN) .own = .crash ∧
    decideReq {} .cluster "PurgeDocument" .none .own = .unauthenticated ∧
    decideReq {} .cluster "PurgeDocument" .clusterSecret .own = .ok := by
  refine ⟨_, rfl, ?_⟩
  decide

/-- the hypotheses of `response_local` are met non-trivially: two stores that differ in B -/
example : ∃ H, handlerOf .yorkie "ListRevisions" = some H ∧
    (∀ p ∈ reads {} .yorkie H (.apiKey .A) {}, p = .A) ∧
    (world0.set .B {}) .A = world0 .A ∧ (world0.set .B {}) .B ≠ world0 .B := by
  refine ⟨_, rfl, ?_⟩
  decide

/-- `webhook_cache_transparent` is not vacuous: a sequence over the fixture's webhooks in which a
verdict does come from the cache (third request), one is refused by the own webhook although the
other project's cached verdict allows it (second), and an eviction forces a new consultation -/
example :
    let b : Body := ⟨.ta, "AttachDocument", 0⟩
    (fixtureWebhook.run [.req .A b 0, .req .B b 1, .req .A b 2, .evict (fun _ => false), .req .A b 3] []).map
        (fun x => (x.proj, x.time, x.verdict, x.consulted)) =
      [(.A, 0, .allow, true), (.B, 1, .deny, true), (.A, 2, .allow, false), (.A, 3, .allow, true)] := by decide

end Yorkie.Props.C13
