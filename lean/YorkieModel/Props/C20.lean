/-
C20  Server-side caches are transparent.

`ChangeStore` (server/backend/database/mongo/changestore.go) against a ground-truth table
`T : Nat → Option Change` (the `changes` collection of one document; `none` = hole: the
sequence number belongs to a presence-only change kept in the presence store, or to no
change at all).  The fetcher handed to `EnsureChanges` is the table's range query
(`Truth.fetch`), possibly failing after `okCalls` successful calls.

Recorded preconditions (how `mongo.Client` uses the store):
* `ReplaceOrInsert` is given rows of the table                      (`OpOk (.insert cs)`),
* `ExpandRange r` is called when every table row inside `r` has been inserted
  (`CreateChangeInfos`: `ReplaceOrInsert(opChanges)` then `ExpandRange(initial+1 .. new)`),
* `push` is that composite against a *growing* table: fresh rows are written to the
  table, inserted, and the fresh range is marked fetched,
* `RemoveChangesByActor` deletes the rows from the system (table and cache alike: this is
  the presence store, which *is* its own ground truth); the reading "eviction against an
  unchanged table" is `inv_removeByActor_uncovered`.

Everything is stated for unbounded sequence numbers and unbounded operation sequences.
-/
import YorkieModel.Lemmas.ChangeStore
import YorkieModel.Lemmas.Lru
namespace Yorkie.Props.C20
open Yorkie Yorkie.CS

/-! ## single operations -/

/-- `mergeAdjacentRanges` on non-empty ranges: result sorted, disjoint, non-adjacent, and it
    covers exactly the union of its inputs -/
theorem merge_adjacent_spec (rs : List Range) (hv : ∀ r ∈ rs, r.lo ≤ r.hi) :
    RangesOk (mergeAdjacent rs) ∧ ∀ q, Covered (mergeAdjacent rs) q ↔ Covered rs q :=
  mergeAdjacent_spec rs hv

/-- `calcMissingRanges(lo,hi)` returns the sorted, pairwise non-adjacent runs of
    `[lo,hi]` minus (cached ∪ covered): each returned range is inside `[lo,hi]` and
    contains no known sequence number, and every unknown number of `[lo,hi]` is in one. -/
theorem calc_missing_spec (s : Store) (lo hi : Nat) (hs : Sorted s.tree) (hle : lo ≤ hi) :
    MissingSpec (Known s) lo hi (calcMissing s lo hi) :=
  calcMissing_spec s lo hi hs hle

theorem inv_init (T : Truth) : Inv T Store.new := inv_new T

theorem inv_ensureChanges {T : Truth} (hT : T.WF) {s : Store} (h : Inv T s) (lo hi okCalls : Nat) :
    Inv T (ensure T.fetch s lo hi okCalls).store :=
  ensure_inv hT h lo hi okCalls

theorem inv_replaceOrInsert {T : Truth} {s : Store} (h : Inv T s) (cs : List Change)
    (hcs : ∀ c ∈ cs, T c.seq = some c) : Inv T (replaceOrInsert s cs) :=
  CS.inv_replaceOrInsert h cs hcs

theorem inv_expandRange {T : Truth} {s : Store} (h : Inv T s) (r : Range)
    (hr : ∀ q c, r.lo ≤ q → q ≤ r.hi → T q = some c → c ∈ s.tree) : Inv T (expandRange s r) :=
  CS.inv_expandRange h r hr

/-- `removeByActor_spec`: ranges untouched, exactly the rows of the actor that are not
    `Clear` disappear; the call panics iff a row of that actor has a nil `PresenceChange` -/
theorem removeByActor_spec {s s' : Store} (a : Nat) (hs : Sorted s.tree) (h : removeByActor s a = some s') :
    s'.ranges = s.ranges ∧ Sorted s'.tree ∧
    (∀ x, x ∈ s'.tree ↔ x ∈ s.tree ∧ removable a x = false) ∧
    (∀ c ∈ s.tree, c.actor = a → c.pres ≠ Pres.none) :=
  CS.removeByActor_spec a hs h

theorem inv_removeByActor {T : Truth} {s s' : Store} (a : Nat) (h : Inv T s)
    (hr : removeByActor s a = some s') : Inv (T.remove a) s' :=
  CS.inv_removeByActor a h hr

theorem inv_removeByActor_uncovered {T : Truth} (hT : T.WF) {s s' : Store} (a : Nat) (h : Inv T s)
    (hr : removeByActor s a = some s')
    (hu : ∀ c ∈ s.tree, removable a c = true → ¬ Covered s.ranges c.seq) : Inv T s' :=
  CS.inv_removeByActor_uncovered hT a h hr hu

theorem inv_push {T : Truth} {s : Store} (h : Inv T s) (cs : List Change) (r : Range)
    (hd : cs.Pairwise (fun a b => a.seq ≠ b.seq)) (hf : ∀ c ∈ cs, T c.seq = none)
    (hr : ∀ q, r.lo ≤ q → q ≤ r.hi → T q = none) :
    Inv (T.add cs) (expandRange (replaceOrInsert s cs) r) :=
  CS.inv_push h cs r hd hf hr

/-- Whatever `ChangesInRange` returns is, at any time, a strictly ordered list of
    ground-truth rows of the requested range (never a stale or foreign row). -/
theorem query_sound {T : Truth} {s : Store} (h : Inv T s) (lo hi : Nat) :
    Sorted (changesInRange s lo hi) ∧
    ∀ x ∈ changesInRange s lo hi, T x.seq = some x ∧ lo ≤ x.seq ∧ x.seq ≤ hi := by
  unfold changesInRange
  split
  · exact ⟨List.Pairwise.nil, by simp⟩
  · split
    · exact ⟨List.Pairwise.nil, by simp⟩
    · refine ⟨sorted_ascendRange lo hi h.sorted, ?_⟩
      intro x hx
      have := (mem_ascendRange lo hi x h.sorted).mp hx
      exact ⟨h.cachedTruth x this.1, this.2⟩

/-- …and it is the complete answer whenever the whole range is cached or covered. -/
theorem query_eq_truth_of_known {T : Truth} (hT : T.WF) {s : Store} (h : Inv T s) (lo hi : Nat)
    (hk : ∀ q, lo ≤ q → q ≤ hi → Known s q) : changesInRange s lo hi = T.fetch lo hi :=
  range_eq_truth_of_known hT h lo hi hk

/-- After a successful `EnsureChanges(lo,hi)`, `ChangesInRange(lo,hi)` is exactly the sorted
    restriction of the ground-truth table to `[lo,hi]`. -/
theorem ensure_then_range_eq_truth {T : Truth} (hT : T.WF) {s : Store} (h : Inv T s) (lo hi okCalls : Nat)
    (hok : (ensure T.fetch s lo hi okCalls).ok = true) :
    changesInRange (ensure T.fetch s lo hi okCalls).store lo hi = T.fetch lo hi :=
  range_eq_truth_of_known hT (ensure_inv hT h lo hi okCalls) lo hi
    (fun q h1 h2 => ensure_known hT h lo hi okCalls hok q h1 h2)

/-- The fetcher is only called on sub-ranges of `[lo,hi]` that contain no cached and no
    covered sequence number, and the calls are pairwise separated by at least one
    sequence number (entry-state form). -/
theorem fetch_minimal {T : Truth} {s : Store} (h : Inv T s) (lo hi okCalls : Nat) :
    (∀ r ∈ (ensure T.fetch s lo hi okCalls).calls,
      lo ≤ r.lo ∧ r.lo ≤ r.hi ∧ r.hi ≤ hi ∧ ∀ q, r.lo ≤ q → q ≤ r.hi → ¬ Known s q) ∧
    (ensure T.fetch s lo hi okCalls).calls.Pairwise (fun a b => a.hi + 1 < b.lo) := by
  unfold ensure
  split
  · exact ⟨by simp, List.Pairwise.nil⟩
  · rename_i hle
    have hm := calcMissing_spec s lo hi h.sorted (by omega)
    have hpre := ensureLoop_calls_prefix T.fetch (calcMissing s lo hi) s okCalls
    refine ⟨?_, List.Pairwise.sublist hpre.sublist hm.ok.2⟩
    intro r hr
    have hr' := hpre.subset hr
    have := hm.sound r hr'
    exact ⟨this.1, hm.ok.1 r hr', this.2.1, this.2.2⟩

/-- Same, with respect to the store *at the moment of each call* (the ghost function
    `ensureLoopStates` pairs every call with the store it was made on). -/
theorem fetch_minimal_at_call {T : Truth} (hT : T.WF) {s : Store} (h : Inv T s) (lo hi okCalls : Nat)
    (hle : lo ≤ hi) :
    (ensureLoopStates T.fetch s (calcMissing s lo hi) okCalls).map Prod.snd =
      (ensure T.fetch s lo hi okCalls).calls ∧
    ∀ p ∈ ensureLoopStates T.fetch s (calcMissing s lo hi) okCalls,
      ∀ q, p.2.lo ≤ q → q ≤ p.2.hi → ¬ Known p.1 q := by
  have hm := calcMissing_spec s lo hi h.sorted hle
  refine ⟨?_, ensureLoopStates_minimal hT _ s okCalls h hm.ok (fun r hr => (hm.sound r hr).2.2)⟩
  rw [ensureLoopStates_calls]
  unfold ensure
  rw [if_neg (by omega)]

/-- A range that is already cached/covered is served without calling the fetcher at all. -/
theorem no_fetch_when_known {T : Truth} {s : Store} (h : Inv T s) (lo hi okCalls : Nat)
    (hk : ∀ q, lo ≤ q → q ≤ hi → Known s q) :
    (ensure T.fetch s lo hi okCalls).calls = [] := by
  have := (fetch_minimal (T := T) h lo hi okCalls).1
  cases hc : (ensure T.fetch s lo hi okCalls).calls with
  | nil => rfl
  | cons r rs =>
    have hr := this r (by rw [hc]; exact List.mem_cons_self ..)
    exact absurd (hk r.lo hr.1 (by omega)) (hr.2.2.2 r.lo (Nat.le_refl _) hr.2.1)

/-- Hence a repeated pull of the same range never reaches the database. -/
theorem ensure_twice_no_fetch {T : Truth} (hT : T.WF) {s : Store} (h : Inv T s) (lo hi k k' : Nat)
    (hok : (ensure T.fetch s lo hi k).ok = true) :
    (ensure T.fetch (ensure T.fetch s lo hi k).store lo hi k').calls = [] :=
  no_fetch_when_known (ensure_inv hT h lo hi k) lo hi k'
    (fun q h1 h2 => ensure_known hT h lo hi k hok q h1 h2)

/-! ## arbitrary operation sequences -/

structure World where
  truth : Truth
  store : Store

inductive Op
  | ensure (lo hi okCalls : Nat)
  | insert (cs : List Change)
  | expand (r : Range)
  | query (lo hi : Nat)
  | removeByActor (a : Nat)
  | push (cs : List Change) (r : Range)
  /-- the document's `ChangeStore` is evicted from the `changeCache` LRU; the next
      access starts from `NewChangeStore()` -/
  | evict

inductive Out
  | ensured (calls : List Range) (ok : Bool)
  | rows (cs : List Change)
  | unit
  | panic
  deriving DecidableEq, Repr

def step (w : World) : Op → World × Out
  | .ensure lo hi k =>
    let res := ensure w.truth.fetch w.store lo hi k
    ({ w with store := res.store }, .ensured res.calls res.ok)
  | .insert cs => ({ w with store := replaceOrInsert w.store cs }, .unit)
  | .expand r => ({ w with store := expandRange w.store r }, .unit)
  | .query lo hi => (w, .rows (changesInRange w.store lo hi))
  | .removeByActor a =>
    match removeByActor w.store a with
    | some s' => ({ truth := w.truth.remove a, store := s' }, .unit)
    | none => (w, .panic)
  | .push cs r =>
    ({ truth := w.truth.add cs, store := expandRange (replaceOrInsert w.store cs) r }, .unit)
  | .evict => ({ w with store := Store.new }, .unit)

/-- the recorded preconditions -/
def OpOk (w : World) : Op → Prop
  | .insert cs => ∀ c ∈ cs, w.truth c.seq = some c
  | .expand r => ∀ q c, r.lo ≤ q → q ≤ r.hi → w.truth q = some c → c ∈ w.store.tree
  | .push cs r => cs.Pairwise (fun a b => a.seq ≠ b.seq) ∧ (∀ c ∈ cs, w.truth c.seq = none) ∧
      (∀ q, r.lo ≤ q → q ≤ r.hi → w.truth q = none)
  | _ => True

def run (w : World) : List Op → World × List Out
  | [] => (w, [])
  | op :: ops => ((run (step w op).1 ops).1, (step w op).2 :: (run (step w op).1 ops).2)

def RunOk (w : World) : List Op → Prop
  | [] => True
  | op :: ops => OpOk w op ∧ RunOk (step w op).1 ops

def WInv (w : World) : Prop := w.truth.WF ∧ Inv w.truth w.store

theorem winv_init (T : Truth) (hT : T.WF) : WInv ⟨T, Store.new⟩ := ⟨hT, inv_new T⟩

/-- `Inv` is inductive over every operation -/
theorem inv_step {w : World} (h : WInv w) (op : Op) (hop : OpOk w op) : WInv (step w op).1 := by
  obtain ⟨hT, hI⟩ := h
  cases op with
  | ensure lo hi k => exact ⟨hT, ensure_inv hT hI lo hi k⟩
  | insert cs => exact ⟨hT, CS.inv_replaceOrInsert hI cs hop⟩
  | expand r => exact ⟨hT, CS.inv_expandRange hI r hop⟩
  | query lo hi => exact ⟨hT, hI⟩
  | removeByActor a =>
    simp only [step]
    split
    · rename_i s' hs
      exact ⟨wf_remove hT a, CS.inv_removeByActor a hI hs⟩
    · exact ⟨hT, hI⟩
  | push cs r => exact ⟨wf_add hT cs, CS.inv_push hI cs r hop.1 hop.2.1 hop.2.2⟩
  | evict => exact ⟨hT, inv_new _⟩

/-- …hence over every operation sequence -/
theorem inv_run (ops : List Op) : ∀ {w : World}, WInv w → RunOk w ops → WInv (run w ops).1 := by
  induction ops with
  | nil => intro w h _; exact h
  | cons op ops ih =>
    intro w h hok
    exact ih (inv_step h op hok.1) hok.2

theorem run_append (a b : List Op) : ∀ (w : World),
    run w (a ++ b) = ((run (run w a).1 b).1, (run w a).2 ++ (run (run w a).1 b).2) := by
  induction a with
  | nil => intro w; rfl
  | cons op a ih => intro w; simp only [List.cons_append, run, ih]

theorem runOk_append (a b : List Op) : ∀ (w : World),
    RunOk w (a ++ b) ↔ RunOk w a ∧ RunOk (run w a).1 b := by
  induction a with
  | nil => intro w; simp [RunOk, run]
  | cons op a ih => intro w; simp only [List.cons_append, RunOk, run, ih, and_assoc]

theorem run_length (ops : List Op) : ∀ (w : World), (run w ops).2.length = ops.length := by
  induction ops with
  | nil => intro w; rfl
  | cons op ops ih => intro w; simp only [run, List.length_cons, ih]

/-- **Cache transparency over histories.**  After *any* valid history, a successful
    `EnsureChanges(lo,hi)` followed by `ChangesInRange(lo,hi)` returns exactly the stored
    rows of `[lo,hi]`, in order – regardless of which ranges were fetched, inserted,
    expanded, pushed or removed before. -/
theorem transparent_after_any_history (w₀ : World) (h₀ : WInv w₀) (ops : List Op) (hok : RunOk w₀ ops)
    (lo hi okCalls : Nat)
    (hfetch : (ensure (run w₀ ops).1.truth.fetch (run w₀ ops).1.store lo hi okCalls).ok = true) :
    changesInRange (ensure (run w₀ ops).1.truth.fetch (run w₀ ops).1.store lo hi okCalls).store lo hi
      = (run w₀ ops).1.truth.fetch lo hi := by
  have := inv_run ops h₀ hok
  exact ensure_then_range_eq_truth this.1 this.2 lo hi okCalls hfetch

/-- At every point of every valid history a query returns only ground-truth rows of the
    requested range, in order, and all of them when the range is known. -/
theorem query_after_any_history (w₀ : World) (h₀ : WInv w₀) (ops : List Op) (hok : RunOk w₀ ops)
    (lo hi : Nat) :
    (∀ x ∈ changesInRange (run w₀ ops).1.store lo hi,
      (run w₀ ops).1.truth x.seq = some x ∧ lo ≤ x.seq ∧ x.seq ≤ hi) ∧
    ((∀ q, lo ≤ q → q ≤ hi → Known (run w₀ ops).1.store q) →
      changesInRange (run w₀ ops).1.store lo hi = (run w₀ ops).1.truth.fetch lo hi) := by
  have := inv_run ops h₀ hok
  exact ⟨(query_sound this.2 lo hi).2, range_eq_truth_of_known this.1 this.2 lo hi⟩

/-- **Fetch minimality over histories.**  Whenever an `EnsureChanges` occurs anywhere in a
    valid history, the output recorded for it lists only fetcher calls on ranges that, in the
    store as it was at that point, contained no cached and no covered sequence number. -/
theorem run_fetch_minimal (w₀ : World) (h₀ : WInv w₀) (pre post : List Op) (lo hi okCalls : Nat)
    (hok : RunOk w₀ (pre ++ Op.ensure lo hi okCalls :: post)) :
    ∃ calls ok, (run w₀ (pre ++ Op.ensure lo hi okCalls :: post)).2[pre.length]? = some (Out.ensured calls ok) ∧
      ∀ r ∈ calls, lo ≤ r.lo ∧ r.hi ≤ hi ∧ ∀ q, r.lo ≤ q → q ≤ r.hi → ¬ Known (run w₀ pre).1.store q := by
  have hpre := ((runOk_append pre _ w₀).mp hok).1
  have hinv := inv_run pre h₀ hpre
  refine ⟨(ensure (run w₀ pre).1.truth.fetch (run w₀ pre).1.store lo hi okCalls).calls,
    (ensure (run w₀ pre).1.truth.fetch (run w₀ pre).1.store lo hi okCalls).ok, ?_, ?_⟩
  · rw [run_append]
    simp only []
    rw [List.getElem?_append_right (by rw [run_length]; exact Nat.le_refl _), run_length, Nat.sub_self]
    rfl
  · intro r hr
    have := (fetch_minimal hinv.2 lo hi okCalls).1 r hr
    exact ⟨this.1, this.2.2.1, this.2.2.2⟩

/-! ## non-vacuity -/

def c1 : Change := ⟨1, 7, .put, 101⟩
def c2 : Change := ⟨2, 8, .put, 102⟩
def c4 : Change := ⟨4, 7, .clear, 104⟩
def c6 : Change := ⟨6, 8, .none, 106⟩
def c8 : Change := ⟨8, 7, .put, 108⟩

/-- rows at 1, 2, 4, 6; holes at 3, 5 and everywhere else -/
def exT : Truth := fun q => [c1, c2, c4, c6].find? (fun c => c.seq == q)

theorem exT_wf : exT.WF := by
  intro q c h
  simpa using List.find?_some h

/-- the model computes: partial fetches around cached rows and covered holes, merging,
    the transparent answer, removal, a failing fetcher -/
example : (run ⟨exT, Store.new⟩
    [.insert [c2], .ensure 1 3 9, .query 1 3, .ensure 2 6 9, .query 1 6, .ensure 1 6 9]).2 =
    [.unit, .ensured [⟨1, 1⟩, ⟨3, 3⟩] true, .rows [c1, c2],
     .ensured [⟨4, 6⟩] true, .rows [c1, c2, c4, c6], .ensured [] true] := by decide

example : (run ⟨exT, Store.new⟩ [.ensure 1 6 9]).1.store.ranges = [⟨1, 6⟩] := by decide
example : (run ⟨exT, Store.new⟩ [.insert [c2, c4], .ensure 1 6 1, .query 1 6]).2 =
    [.unit, .ensured [⟨1, 1⟩, ⟨3, 3⟩] false, .rows [c1, c2, c4]] := by decide
example : (run ⟨exT, Store.new⟩ [.ensure 1 4 9, .removeByActor 7, .query 1 6]).2 =
    [.ensured [⟨1, 4⟩] true, .unit, .rows [c2, c4]] := by decide
example : (run ⟨exT, Store.new⟩ [.ensure 1 6 9, .evict, .query 1 6, .ensure 2 4 9, .query 1 6]).2 =
    [.ensured [⟨1, 6⟩] true, .unit, .rows [], .ensured [⟨2, 4⟩] true, .rows [c2, c4]] := by decide

/-- the hypotheses of the history theorems are met by a non-trivial history that uses all
    operations (including a failing fetch and an eviction) -/
example : WInv ⟨exT, Store.new⟩ ∧
    RunOk ⟨exT, Store.new⟩ [.ensure 1 3 9, .insert [c4], .expand ⟨4, 5⟩, .removeByActor 8,
      .push [c8] ⟨7, 8⟩, .ensure 1 8 0, .ensure 1 8 9, .query 1 8, .evict, .ensure 4 8 9] := by
  refine ⟨winv_init exT exT_wf, trivial, ?_, ?_, trivial, ?_, trivial, trivial, trivial, trivial, trivial, trivial⟩
  · intro c hc
    simp only [List.mem_singleton] at hc
    subst hc; decide
  · intro q c h1 h2 hc
    simp only [] at h1 h2
    have hq : q = 4 ∨ q = 5 := by omega
    rcases hq with rfl | rfl
    · have : c = c4 := by
        have : (step (step ⟨exT, Store.new⟩ (.ensure 1 3 9)).1 (.insert [c4])).1.truth 4 = some c4 := by decide
        rw [this] at hc; injection hc with hc; exact hc.symm
      subst this; decide
    · have : (step (step ⟨exT, Store.new⟩ (.ensure 1 3 9)).1 (.insert [c4])).1.truth 5 = none := by decide
      rw [this] at hc; simp at hc
  · refine ⟨by simp, ?_, ?_⟩
    · intro c hc
      simp only [List.mem_singleton] at hc
      subst hc; decide
    · intro q h1 h2
      simp only [] at h1 h2
      have hq : q = 7 ∨ q = 8 := by omega
      rcases hq with rfl | rfl <;> decide

example : (run ⟨exT, Store.new⟩ [.ensure 1 3 9, .insert [c4], .expand ⟨4, 5⟩, .removeByActor 8,
      .push [c8] ⟨7, 8⟩, .ensure 1 8 0, .ensure 1 8 9, .query 1 8]).2 =
    [.ensured [⟨1, 3⟩] true, .unit, .unit, .unit, .unit, .ensured [⟨6, 6⟩] false,
     .ensured [⟨6, 6⟩] true, .rows [c1, c4, c8]] := by decide

/-- hypotheses of `ensure_then_range_eq_truth` / `fetch_minimal` on a concrete state -/
example : (ensure exT.fetch (replaceOrInsert Store.new [c2]) 1 6 9).ok = true ∧
    (ensure exT.fetch (replaceOrInsert Store.new [c2]) 1 6 9).calls = [⟨1, 1⟩, ⟨3, 6⟩] := by decide

/-- faithful detail: `RemoveChangesByActor` dereferences a nil `PresenceChange`
    (`item.PresenceChange.IsClear()`); the model reports the panic. Unreachable through
    `mongo.Client`, which calls it on the presence store only. -/
example : removeByActor (replaceOrInsert Store.new [c6]) 8 = none := by decide

/-- hypotheses of `inv_removeByActor_uncovered` hold on a store without ranges -/
example : ∀ c ∈ (replaceOrInsert Store.new [c1, c2]).tree, removable 7 c = true →
    ¬ Covered (replaceOrInsert Store.new [c1, c2]).ranges c.seq := by
  intro c _ _ h
  obtain ⟨r, hr, _⟩ := h
  simp [replaceOrInsert, Store.new] at hr

/-! ## LRU wrappers and the snapshot cache (secondary) -/
section Lru
open Yorkie.Lru
variable {K V : Type} [DecidableEq K]

/-- `lru_shard_spec`: after any history of `Add/Get/Peek/Remove/Purge` and arbitrary
    evictions/expiries on the sharded LRU (any capacity, any shard function), a `Get`/`Peek`
    hit returns the value of the last `Add` of that key (not followed by `Remove`/`Purge`);
    the only other possible answer is a miss. -/
theorem lru_shard_spec (cap : Nat) (shardOf : K → Nat) (ops : List (Lru.Op K V)) (k : K) (v : V) :
    (((Lru.run (Cache.empty cap shardOf) ops).get k).2 = some v → Lru.ref (fun _ => none) ops k = some v) ∧
    ((Lru.run (Cache.empty cap shardOf) ops).peek k = some v → Lru.ref (fun _ => none) ops k = some v) := by
  have hinv := Lru.inv_run ops (Lru.inv_empty cap shardOf (fun _ => (none : Option V)))
  constructor
  · intro h
    unfold Cache.get at h
    split at h
    · rename_i v' hv
      simp only [Option.some.injEq] at h
      subst h
      exact (hinv _ k v' (lookup_mem hv)).2
    · simp at h
  · intro h
    exact (hinv _ k v (lookup_mem h)).2

/-- the cache does cache: right after `Add k v` (capacity ≥ 1) `Get k` is a hit -/
theorem lru_get_after_add (c : Cache K V) (hc : 1 ≤ c.cap) (k : K) (v : V) :
    ((c.add k v).get k).2 = some v := by
  have : (c.add k v).lookup k = some v := by
    unfold Cache.lookup Cache.add Cache.onShard touch
    simp only [if_pos]
    obtain ⟨n, hn⟩ : ∃ n, c.cap = n + 1 := ⟨c.cap - 1, by omega⟩
    rw [hn, List.take_succ_cons]
    simp
  unfold Cache.get
  rw [this]

/-- invalidation works: right after `Remove k` both `Get k` and `Peek k` miss (the next read goes to the source),
    in every cache state -/
theorem lru_miss_after_remove (c : Cache K V) (k : K) :
    ((c.remove k).get k).2 = none ∧ (c.remove k).peek k = none := by
  have h : (c.remove k).lookup k = none := by
    unfold Cache.lookup Cache.remove Cache.onShard
    simp only [if_pos, Option.map_eq_none_iff, List.find?_eq_none]
    intro x hx
    have := (List.mem_filter.mp hx).2
    simpa using this
  refine ⟨?_, h⟩
  unfold Cache.get
  rw [h]

/-- … and after `Purge` every key misses -/
theorem lru_miss_after_purge (c : Cache K V) (k : K) :
    (c.purge.get k).2 = none ∧ c.purge.peek k = none := by
  have h : c.purge.lookup k = none := by simp [Cache.lookup, Cache.purge]
  refine ⟨?_, h⟩
  unfold Cache.get
  rw [h]

variable {D C : Type}

/-- `rebuild_cached_eq_cold` (abstract document, `apply` = applying one change): after any
    history of pushes, rebuilds, cache evictions and stored snapshots,
    `BuildInternalDocForServerSeq(k)` – whether it starts from the cached document, from a
    stored snapshot or from scratch – returns the document obtained by replaying the first
    `k` changes. -/
theorem rebuild_cached_eq_cold (apply : D → C → D) (init : D) (ops : List (SnapOp C)) (k : Nat)
    (hk : k ≤ (snapRun apply init ⟨[], [], none⟩ ops).log.length) :
    (build apply init (snapRun apply init ⟨[], [], none⟩ ops) k).2 =
      cold apply init (snapRun apply init ⟨[], [], none⟩ ops).log k := by
  have h0 : SnapInv apply init (⟨[], [], none⟩ : SnapWorld D C) :=
    ⟨by intro s hs; simp at hs, by intro s hs; simp at hs⟩
  exact (build_spec apply init _ (snapInv_run apply init ops _ h0) k hk).1

end Lru

/-- a hit, an eviction by capacity (miss) and an update, computed by the model:
    two keys in the same shard of capacity 1 -/
example : let c := Lru.run (Lru.Cache.empty 1 (fun _ : Nat => 0)) [.add 1 10, .add 2 20, .add 2 21]
    (c.get 1).2 = none ∧ (c.get 2).2 = some 21 := by decide

/-- cached, snapshot and cold starts agree on a concrete history (documents = list of applied changes) -/
example : (Lru.build (fun (d : List Nat) c => d ++ [c]) []
    (Lru.snapRun (fun (d : List Nat) c => d ++ [c]) [] ⟨[], [], none⟩
      [.push [1, 2, 3], .build 2, .storeSnapshot, .push [4, 5], .build 5, .evict, .push [6]]) 4).2 = [1, 2, 3, 4] := by
  decide

end Yorkie.Props.C20
