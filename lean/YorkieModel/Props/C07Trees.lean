/-
C07 (tree half)  Each edit does locally what its index-based API says: the three
balancing trees below the CRDTs refine their sequential specifications.

  * pkg/splay      (index of RGATreeSplit / Text)  : `Yorkie.Splay`,    spec = `List (id × len)`
  * pkg/treelist   (index of RGATreeList / Array)  : `Yorkie.TreeList`, spec = `List (id × removed)`
  * pkg/llrb       (id map of RGATreeSplit, Tree)  : `Yorkie.Llrb`,     spec = sorted association list

Property theorems only; definitions of the specifications and helper lemmas live in
Lemmas/Splay*.lean, Lemmas/TreeList*.lean, Lemmas/Llrb*.lean.
-/
import YorkieModel.Lemmas.SplayInorder
import YorkieModel.Lemmas.TreeListRefine
import YorkieModel.Lemmas.LlrbRefine
namespace Yorkie.Props.C07Trees
open Yorkie

/-! ## splay (pkg/splay/splay.go)

`T.toList` is the in-order sequence of `(id, value.Len())`; `T.wf` is `CheckWeight()`;
`Spec.*` are the operations on the plain list (Lemmas/SplayOps.lean). -/
section SplayTree
open Yorkie.Splay Yorkie.Splay.T

/-- `rotateRight` / `rotateLeft` keep the in-order sequence -/
theorem rotate_inorder (t : T) : (rotR t).toList = t.toList ∧ (rotL t).toList = t.toList :=
  ⟨toList_rotR t, toList_rotL t⟩

/-- … and exact weights (`UpdateWeight(root); UpdateWeight(pivot)`) -/
theorem rotate_wf (t : T) (h : t.wf) : (rotR t).wf ∧ (rotL t).wf := ⟨wf_rotR h, wf_rotL h⟩

/-- `Splay`, `FindForText`, `FindForArray`, `IndexOf`, `DeleteRange`, `UpdateWeight` never
change the in-order sequence — for EVERY tree and argument, no invariant needed
(`DeleteRange` unlinks nothing: it only regroups the range and resets weights). -/
theorem splay_inorder_preserved (t : T) (x p : Nat) (rb : Option Nat) :
    (splay x t).toList = t.toList ∧ (findForText t p).2.toList = t.toList ∧
    (findForArray t p).2.toList = t.toList ∧ (indexOf x t).2.toList = t.toList ∧
    (deleteRange x rb t).toList = t.toList ∧ (t.updateWeightAt x).toList = t.toList :=
  ⟨toList_splay x t, toList_findForText t p, toList_findForArray t p, toList_indexOf x t,
    toList_deleteRange x rb t, toList_updateWeightAt x t⟩

/-- `InsertAfter(prev, n)` inserts exactly `n` right after `prev`; `Delete(x)` removes
exactly `x`; both leave exact weights — even when the weights above the argument were
stale because its value had just changed its length (`okD (· == x)`, implied by `wf`). -/
theorem splay_insert_delete_spec (t : T) (x id len : Nat) (hn : t.ids.Nodup)
    (h : okD (· == x) t) (hx : x ∈ t.ids) :
    (insertAfter x id len t).toList = Spec.insertAfter x (id, len) t.toList ∧
    (insertAfter x id len t).wf ∧
    (delete x t).toList = Spec.delete x t.toList ∧ (delete x t).wf :=
  ⟨(insertAfter_spec hn h hx).1, (insertAfter_spec hn h hx).2, (delete_spec hn h hx).1, (delete_spec hn h hx).2⟩

/-- exact weights are preserved by every operation that does not depend on a value
mutation (for `InsertAfter`/`Delete` see `splay_insert_delete_spec`) -/
theorem splay_wf_preserved (t : T) (h : t.wf) (x p : Nat) :
    (splay x t).wf ∧ (findForText t p).2.wf ∧ (findForArray t p).2.wf := 
  ⟨wf_splay h, (findForText_spec h p).2.1, (findForArray_spec h p).2.1⟩

/-- `SetRemovedAt(..); Splay(node)` (restore / retombstone) and `value.Split; InsertAfter`:
after the value of `x` changed its length, the weights above `x` are stale
(`CheckWeight()` is false); `Splay(x)` makes all of them exact again. -/
theorem splay_restores_wf (t : T) (x n : Nat) (h : t.wf) (hn : t.ids.Nodup) :
    (splay x (t.setLen x n)).wf ∧ (splay x (t.setLen x n)).toList = Spec.setLen x n t.toList :=
  ⟨Splay.splay_restores_wf (by simpa using hn) (okD_setLen h), by simp⟩

/-- `FindForText(p)` on exact weights: the FIRST node `k` (in order) with
`p ≤ prefix(k) + len(k)` and the offset `p - prefix(k)`; `ErrOutOfIndex` (and no
splay) iff `p` exceeds the total; `(nil, 0, nil)` on the empty tree. -/
theorem find_spec (t : T) (h : t.wf) (p : Nat) :
    (findForText t p).1 = Spec.findRes t.toList p := (findForText_spec h p).2.2

/-- `FindForArray(i)`: the node `k` with `prefix(k) ≤ i < prefix(k) + len(k)` -/
theorem findArray_spec (t : T) (h : t.wf) (i : Nat) :
    (findForArray t i).1 = Spec.findArrRes t.toList i := (findForArray_spec h i).2.2

/-- `IndexOf(x)`: the sum of the lens before `x`; `-1` (`none`) for an unlinked node -/
theorem indexOf_spec (t : T) (x : Nat) (h : t.wf) (hn : t.ids.Nodup) :
    (indexOf x t).1 = Spec.indexOf x t.toList ∧ (indexOf x t).2.wf :=
  ⟨(Splay.indexOf_spec hn (okD_of_wf h)).1, (Splay.indexOf_spec hn (okD_of_wf h)).2.2⟩

/-- what a specification lookup means: it is characterised by prefix sums -/
theorem spec_find_prefix (A B : Spec.L) (x lx p : Nat) (h1 : A = [] ∨ sumLen A < p)
    (h2 : p ≤ sumLen A + lx) : Spec.find (A ++ (x, lx) :: B) p = some (x, p - sumLen A) := by
  rw [Spec.find_append_right h1]; simp only [Spec.find]; rw [if_pos (by omega)]

theorem spec_indexOf_prefix (A B : Spec.L) (x lx : Nat) (h : x ∉ Spec.ids A) :
    Spec.indexOf x (A ++ (x, lx) :: B) = some (sumLen A) := Spec.indexOf_decomp h

/-- deleted content never influences lookups: a zero-length node is never returned by
`FindForText` (except as the head for position 0), `FindForArray`, and does not move
any other node's `IndexOf` -/
theorem tombstones_invisible (A B : Spec.L) (x p y : Nat) (hp : A ≠ [] ∨ 0 < p) (hy : y ≠ x) :
    Spec.find (A ++ (x, 0) :: B) p = Spec.find (A ++ B) p ∧
    Spec.findArr (A ++ (x, 0) :: B) p = Spec.findArr (A ++ B) p ∧
    Spec.indexOf y (A ++ (x, 0) :: B) = Spec.indexOf y (A ++ B) :=
  ⟨Spec.find_ignores_tombstone A B x p hp, Spec.findArr_ignores_tombstone A B x p,
    Spec.indexOf_ignores_tombstone A B x y hy⟩

/-- `DeleteRange(lb, rb)` under the precondition its only caller establishes
(`deleteIndexNodes`: every node strictly between the boundaries has live length 0;
their old lengths are still in the cached weights, `okD D` with `D ⊆ ids mid`):
all weights are exact afterwards, the sequence is unchanged. -/
theorem deleteRange_spec (t : T) (lb rb ll lr : Nat) (pre mid post : Spec.L) (D : Nat → Bool)
    (hn : t.ids.Nodup) (hl : t.toList = pre ++ (lb, ll) :: (mid ++ (rb, lr) :: post))
    (hD : ∀ y, D y = true → y ∈ Spec.ids mid) (h : okD D t) (h0 : ∀ e ∈ mid, e.2 = 0) :
    (deleteRange lb (some rb) t).toList = t.toList ∧ (deleteRange lb (some rb) t).wf :=
  deleteRange_some_spec hn hl hD h h0

/-- … and with an open right end (`rightBoundary == nil`) -/
theorem deleteRange_open_spec (t : T) (lb ll : Nat) (pre mid : Spec.L) (D : Nat → Bool)
    (hn : t.ids.Nodup) (hl : t.toList = pre ++ (lb, ll) :: mid)
    (hD : ∀ y, D y = true → y ∈ Spec.ids mid) (h : okD D t) (h0 : ∀ e ∈ mid, e.2 = 0) :
    (deleteRange lb none t).toList = t.toList ∧ (deleteRange lb none t).wf :=
  deleteRange_none_spec hn hl hD h h0

/-- the tree used by the witnesses/examples: ids 1..4, every len 1, exact weights -/
def t4 : T := node (node nil 1 1 1 nil) 2 1 4 (node nil 3 1 2 (node nil 4 1 1 nil))

/-- Without the len-0 precondition `DeleteRange` breaks the weights: `cutOffRight`
re-initialises every node of the range to its OWN length, which is exact only if the
children below it weigh 0.  (Full statement "DeleteRange preserves wf" is false.) -/
theorem deleteRange_witness : t4.wf ∧ t4.ids.Nodup ∧ ¬ (deleteRange 1 (some 4) t4).wf := by decide

/-- the precondition is necessary in general: exact weights after `cutOffRight` force
the children of every re-initialised node to weigh 0 -/
theorem resetW_needs_zero (l : T) (id len w : Nat) (r : T) (h : (node l id len w r).resetW.wf) :
    sumLen l.toList = 0 ∧ sumLen r.toList = 0 := wf_resetW_iff_children_zero l id len w r h

/-- One call of the CRDT-level alphabet (`Splay.Op`) on a tree satisfying the invariant
(`wf` + distinct node identities), inside the pointer preconditions of the Go code:
same effect on the in-order sequence as the list specification, same lookup result,
invariant re-established. -/
theorem splay_step_refines (t : T) (op : Op) (hi : Inv t) (hv : Spec.valid t.toList op) :
    (step t op).1.toList = (Spec.step t.toList op).1 ∧ (step t op).2 = (Spec.step t.toList op).2 ∧
    Inv (step t op).1 := step_refines hi hv

/-- Refinement for arbitrary operation sequences (induction over the sequence): from
any tree satisfying the invariant, the in-order sequence after the run is the run of
the list specification, EVERY lookup along the way returns what the prefix-sum
specification returns, and the invariant holds at the end. -/
theorem ops_refine_list (ops : List Op) (t : T) (hi : Inv t) (hv : Spec.validSeq t.toList ops) :
    (run t ops).1.toList = (Spec.run t.toList ops).1 ∧ (run t ops).2 = (Spec.run t.toList ops).2 ∧
    Inv (run t ops).1 := by
  induction ops generalizing t with
  | nil => exact ⟨rfl, rfl, hi⟩
  | cons op ops ih =>
    obtain ⟨h1, h2, h3⟩ := step_refines hi hv.1
    have hv' : Spec.validSeq (step t op).1.toList ops := by rw [h1]; exact hv.2
    obtain ⟨g1, g2, g3⟩ := ih (step t op).1 h3 hv'
    simp only [run, Spec.run]
    rw [← h1, ← h2]
    exact ⟨g1, by rw [g2], g3⟩

/-! non-vacuity -/

example : Inv t4 := by decide
example : okD (· == 2) (t4.setLen 2 0) ∧ ¬ (t4.setLen 2 0).wf ∧ (splay 2 (t4.setLen 2 0)).wf :=
  ⟨okD_setLen (by decide), by decide, by decide⟩
/-- a run that exercises every kind of call, inside the preconditions -/
def ops4 : List Op :=
  [.findText 2, .removeRange 1 (some 4), .findText 2, .indexOf 4, .split 4 0 9 1, .delete 2,
   .insertAfter 1 7 3, .setLen 7 0, .findText 1, .findArray 1, .findText 5, .removeRange 3 none, .splay 1]
example : Spec.validSeq t4.toList ops4 := by decide
example : (run t4 ops4).2 =
    [.find (.found 2 1), .unit, .find (.found 4 1), .index (some 1), .unit, .unit, .unit, .unit,
     .find (.found 1 1), .find (.found 9 0), .find .outOfIndex, .unit, .unit] := by decide
example : (run t4 ops4).1.toList = [(1, 1), (7, 0), (3, 0), (4, 0), (9, 0)] := by decide
-- the precondition of `deleteRange_spec` is met by a state with stale weights
example : (deleteRange 1 (some 4) ((t4.setLen 2 0).setLen 3 0)).wf ∧
    ¬ ((t4.setLen 2 0).setLen 3 0).wf := by decide
-- boundary convention of FindForText: position 1 = end of node 1 = start of node 2 → node 1
example : Spec.find t4.toList 1 = some (1, 1) ∧ Spec.find t4.toList 0 = some (1, 0) ∧
    Spec.find t4.toList 4 = some (4, 1) ∧ Spec.find t4.toList 5 = none := by decide
-- … and of FindForArray: index 1 → node 2
example : Spec.findArr t4.toList 1 = some 2 ∧ Spec.findArr t4.toList 4 = none := by decide

end SplayTree

/-! ## the LLRB core shared by pkg/treelist and pkg/llrb (Model/RBCore.lean)

Unlike what one might hope, functional correctness of the LLRB *delete* is NOT
independent of the colour invariants: `deleteByCount`/`remove` return `nil` for a node
with `right == nil` (dropping its left subtree) and `removeMin` returns `nil` for a node
with `left == nil` (dropping its right subtree); those subtrees are empty only in a
balanced left-leaning tree.  So the red-black invariants are part of the refinement
invariant, and they are proved to be preserved by insert and delete. -/
section LLRB
open Yorkie.RB

/-- every restructuring step keeps the in-order sequence (of whatever the aggregate
recomputation leaves alone) -/
theorem rb_restructure_inorder {α Q β : Type} (cfg : Cfg α Q) (key : α → β) (hk : KeyOK cfg key)
    (s : Bool) (t : T α) :
    klist key (rotateLeft cfg t) = klist key t ∧ klist key (rotateRight cfg t) = klist key t ∧
    klist key (flipColors t) = klist key t ∧ klist key (fixUp cfg s t) = klist key t ∧
    klist key (moveRedLeft cfg t) = klist key t ∧ klist key (moveRedRight cfg t) = klist key t :=
  ⟨klist_rotateLeft hk t, klist_rotateRight hk t, klist_flipColors t, klist_fixUp hk s t,
    klist_moveRedLeft hk t, klist_moveRedRight hk t⟩

/-- insert keeps a left-leaning, balanced tree with black root (for any addressing) -/
theorem rb_insert_invariant {α Q : Type} (cfg : Cfg α Q) (t : T α) (q : Q) (new : α) (h : RBInv t) :
    RBInv (insert cfg t q new) := insert_good t q new h.1 h.2.1

/-- delete removes exactly the addressed in-order position and keeps the red-black
invariants, for every addressing scheme satisfying `NavSpec` -/
theorem rb_delete_spec {α Q β : Type} (cfg : Cfg α Q) (key : α → β) (Tgt : T α → Q → Nat → Prop)
    (hk : KeyOK cfg key) (ns : NavSpec cfg Tgt) (t : T α) (q : Q) (i : Nat) (ht : Tgt t q i) (h : RBInv t) :
    RBInv (delete cfg t q) ∧ klist key (delete cfg t q) = (klist key t).eraseIdx i :=
  delete_good hk ns ht h

end LLRB

/-! ## treelist (pkg/treelist/treelist.go)

`toList` is the structural sequence of `(id, IsRemoved())`; `wf`: every cached `weight`
(live nodes) and `count` (all nodes) is exact. -/
section TreeListTree
open Yorkie.TreeList

/-- `InsertAfter(prev, n)`: exactly `n` right after `prev` in the STRUCTURAL sequence
(tombstones count: addressing is by `count`, not by `weight`) -/
theorem treelist_insertAfter_spec (t : T) (prev id : Nat) (rm : Bool) (h : Inv t) (hp : prev ∈ ids t) :
    toList (insertAfter prev id rm t) = Spec.insertAfter prev (id, rm) (toList t) ∧
    wf (insertAfter prev id rm t) := insertAfter_spec h.1 h.2.1 hp

/-- `Delete(x)`: exactly `x` disappears -/
theorem treelist_delete_spec (t : T) (x : Nat) (h : Inv t) (hx : x ∈ ids t) :
    toList (delete x t) = Spec.delete x (toList t) ∧ wf (delete x t) ∧ RB.RBInv (delete x t) :=
  delete_spec h hx

/-- the full statement "Delete removes exactly x from every tree with exact aggregates"
is false of the code: on an unbalanced tree `deleteByCount` drops a whole subtree -/
def tlUnbalanced : T := .node (.node .nil ⟨1, false, 1, 1⟩ false .nil) ⟨2, false, 2, 2⟩ false .nil
theorem treelist_delete_witness :
    wf tlUnbalanced ∧ (ids tlUnbalanced).Nodup ∧ toList (delete 2 tlUnbalanced) = [] ∧
    Spec.delete 2 (toList tlUnbalanced) = [(1, false)] := by decide

/-- `Find(i)` on exact weights: the i-th LIVE node (tombstones are skipped and never
returned); `ErrOutOfIndex` iff `i ≥ Len()` -/
theorem treelist_find_spec (t : T) (h : wf t) (i : Nat) : find t i = Spec.findRes (toList t) i :=
  TreeList.find_spec h i

/-- `Len()` is the number of live nodes -/
theorem treelist_len_spec (t : T) (h : wf t) : len t = Spec.live (toList t) := weight_eq_live h

/-- a value toggles `IsRemoved()`, then `UpdateWeight(node)`: weights exact again, only
the flag of that node changes -/
theorem treelist_setRemoved_spec (t : T) (x : Nat) (b : Bool) (h : wf t) (hn : (ids t).Nodup) :
    wf (setRemoved x b t) ∧ toList (setRemoved x b t) = Spec.setRm x b (toList t) :=
  ⟨(setRemoved_spec h hn).1, (setRemoved_spec h hn).2.1⟩

/-- deleted content never influences `Find`: a tombstone can be dropped from the list -/
theorem treelist_tombstones_invisible (A B : Spec.L) (x i : Nat) :
    Spec.find (A ++ (x, true) :: B) i = Spec.find (A ++ B) i ∧
    Spec.live (A ++ (x, true) :: B) = Spec.live (A ++ B) := by
  refine ⟨?_, by simp [Spec.live, sz]⟩
  induction A generalizing i with
  | nil => simp [Spec.find]
  | cons a A ih => simp only [List.cons_append, Spec.find, ih]

theorem treelist_step_refines (t : T) (op : Op) (hi : Inv t) (hv : Spec.valid (toList t) op) :
    toList (step t op).1 = (Spec.step (toList t) op).1 ∧ (step t op).2 = (Spec.step (toList t) op).2 ∧
    Inv (step t op).1 := step_refines hi hv

/-- refinement for arbitrary operation sequences -/
theorem treelist_ops_refine_list (ops : List Op) (t : T) (hi : Inv t) (hv : Spec.validSeq (toList t) ops) :
    toList (run t ops).1 = (Spec.run (toList t) ops).1 ∧ (run t ops).2 = (Spec.run (toList t) ops).2 ∧
    Inv (run t ops).1 := by
  induction ops generalizing t with
  | nil => exact ⟨rfl, rfl, hi⟩
  | cons op ops ih =>
    obtain ⟨h1, h2, h3⟩ := step_refines hi hv.1
    have hv' : Spec.validSeq (toList (step t op).1) ops := by rw [h1]; exact hv.2
    obtain ⟨g1, g2, g3⟩ := ih (step t op).1 h3 hv'
    simp only [run, Spec.run]
    rw [← h1, ← h2]
    exact ⟨g1, by rw [g2], g3⟩

/-- the tree `NewTree(dummyHead)` of `NewRGATreeList` satisfies the invariant -/
theorem treelist_init (id : Nat) (rm : Bool) : Inv (newTree id rm) := inv_newTree id rm

/-! non-vacuity -/
def tlOps0 : List Op :=
  [.insertAfter 1 2 false, .insertAfter 2 3 false, .insertAfter 1 4 true, .insertAfter 3 5 false,
   .insertAfter 5 6 false]
def tlOps1 : List Op :=
  [.find 0, .find 3, .find 4, .setRemoved 3 true, .find 1, .delete 2, .find 0, .len, .delete 1, .len]
example : Spec.validSeq (toList (newTree 1 true)) (tlOps0 ++ tlOps1) := by decide
example : toList (run (newTree 1 true) tlOps0).1 =
    [(1, true), (4, true), (2, false), (3, false), (5, false), (6, false)] := by decide
example : (run (newTree 1 true) (tlOps0 ++ tlOps1)).2.drop 5 =
    [.find (.found 2), .find (.found 6), .find .outOfIndex, .unit, .find (.found 5), .unit,
     .find (.found 5), .len 2, .unit, .len 2] := by decide
example : Inv (run (newTree 1 true) (tlOps0 ++ tlOps1)).1 := by decide

end TreeListTree

/-! ## llrb (pkg/llrb/llrb.go)

`toList` is the in-order sequence of `(key, value)`; the specification is a strictly
sorted association list. -/
section LlrbMap
open Yorkie.Llrb

/-- `Put` inserts or replaces in key order; the BST ordering, the red-black invariants
and `Len()` are maintained -/
theorem llrb_put_spec (m : M) (k v : Nat) (h : Inv m) :
    toList (put m k v).t = Spec.put k v (toList m.t) ∧ Inv (put m k v) := put_spec k v h

/-- `Remove` of a present key does not panic and removes exactly that key -/
theorem llrb_remove_spec (m : M) (k : Nat) (h : Inv m) (hk : k ∈ Spec.keys (toList m.t)) :
    removePanics m k = false ∧ toList (remove m k).t = Spec.remove k (toList m.t) ∧ Inv (remove m k) :=
  remove_spec h hk

/-- the BST ordering is an invariant: after any step the keys are strictly increasing -/
theorem llrb_bst_preserved (m : M) (op : Op) (h : Inv m) (hv : Spec.valid (toList m.t) op) :
    Spec.Sorted (toList (step m op).1.t) := (step_refines h hv).2.2.1

/-- `Floor(q)` returns the entry with the GREATEST key `≤ q` of the key set, and the zero
result exactly when every key is greater than `q` -/
theorem floor_spec (m : M) (h : Inv m) (q : Nat) :
    (∀ e, floor m q = some e → e ∈ toList m.t ∧ e.1 ≤ q ∧ ∀ x ∈ Spec.keys (toList m.t), x ≤ q → x ≤ e.1) ∧
    (floor m q = none ↔ ∀ x ∈ Spec.keys (toList m.t), q < x) :=
  (Llrb.floor_spec h q).2

/-- the full statement "Remove removes exactly k from every search tree" is false of the
code: on an unbalanced tree `remove` drops a whole subtree -/
def llUnbalanced : M := { t := .node (.node .nil ⟨1, 10⟩ false .nil) ⟨2, 20⟩ false .nil, size := 2 }
theorem llrb_remove_witness :
    BST llUnbalanced.t ∧ toList (remove llUnbalanced 2).t = [] ∧
    Spec.remove 2 (toList llUnbalanced.t) = [(1, 10)] := by
  refine ⟨?_, by decide, by decide⟩
  unfold BST Spec.Sorted; decide

theorem llrb_step_refines (m : M) (op : Op) (hi : Inv m) (hv : Spec.valid (toList m.t) op) :
    toList (step m op).1.t = (Spec.step (toList m.t) op).1 ∧ (step m op).2 = (Spec.step (toList m.t) op).2 ∧
    Inv (step m op).1 := Llrb.step_refines hi hv

/-- refinement for arbitrary sequences of Put/Remove/Floor/Len -/
theorem llrb_ops_refine_list (ops : List Op) (m : M) (hi : Inv m) (hv : Spec.validSeq (toList m.t) ops) :
    toList (run m ops).1.t = (Spec.run (toList m.t) ops).1 ∧ (run m ops).2 = (Spec.run (toList m.t) ops).2 ∧
    Inv (run m ops).1 := by
  induction ops generalizing m with
  | nil => exact ⟨rfl, rfl, hi⟩
  | cons op ops ih =>
    obtain ⟨h1, h2, h3⟩ := Llrb.step_refines hi hv.1
    have hv' : Spec.validSeq (toList (step m op).1.t) ops := by rw [h1]; exact hv.2
    obtain ⟨g1, g2, g3⟩ := ih (step m op).1 h3 hv'
    simp only [run, Spec.run]
    rw [← h1, ← h2]
    exact ⟨g1, by rw [g2], g3⟩

/-- `NewTree()` satisfies the invariant, so every map built through the API does -/
theorem llrb_init : Inv {} := inv_empty

/-! non-vacuity -/
def llOps : List Op :=
  [.put 5 50, .put 3 30, .put 8 80, .put 1 10, .put 4 40, .put 3 31,
   .floor 0, .floor 2, .floor 4, .floor 9, .remove 3, .floor 3, .len, .remove 5, .floor 7]
example : Spec.validSeq (toList ({} : M).t) llOps := by decide
example : (run {} llOps).2.drop 6 =
    [.floor none, .floor (some (1, 10)), .floor (some (4, 40)), .floor (some (8, 80)), .unit,
     .floor (some (1, 10)), .len 4, .unit, .floor (some (4, 40))] := by decide
example : toList (run {} llOps).1.t = [(1, 10), (4, 40), (8, 80)] := by decide
example : Inv (run {} llOps).1 := by decide

end LlrbMap
end Yorkie.Props.C07Trees
