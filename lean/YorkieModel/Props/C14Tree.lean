/-
C14 "undo/redo", TREE part: a document holding one `crdt.Tree`, edited by `Tree.Edit` without split levels (text
insert / delete / replace, whole-element insert / delete, deletes over mixed siblings) and by `Style`/`RemoveStyle`,
with `Document.Undo` / `Redo` (Model/TreeUndo.lean; tied to pkg/document by engine `treeundo`, in which the model
computes every reverse, both stacks and every undo/redo operation from its own state).

What is proved, and at which strength:

UNBOUNDED (every arena, every size, every stack content; Lemmas/TreeUndo.lean)
  * `tree_restore_retombstone_node`, `tree_restore_retombstone_node_xml`: re-removing a live node and restoring it
    gives back every field of every node - ids, the id index, parents, children, values, attributes, split links -
    except the cached lengths; `ToXML()` is unchanged. (Identity preservation: the same node comes back, no copy.)
  * `tree_restore_retombstone_node_exact`: with the ancestor walk acyclic (a hypothesis: `Tree.WF` does not state it),
    the arena comes back EXACTLY, cached `VisibleLength` of every ancestor included.
  * `tree_restore_identity`, `tree_undo_do_whole_nodes`, `tree_redo_undo_do_whole_nodes`: the same for ANY NUMBER of whole nodes (elements, text nodes
    covered entirely): `Retombstone` of the spans tombstones exactly them, `Restore` brings all of them back; with it
    undo∘do = id on `ToXML()`/`Marshal()` for deletes of whole nodes, stated on what Phase 5 of `Tree.Edit` does.
  * `tree_undo_depth_k_whole_nodes`: DEPTH K, unbounded, for deletes of whole nodes: any number of such deletes followed
    by the undos in LIFO order (each on the arena the previous undo left) gives back the first `ToXML()`/`Marshal()`.
  * `tree_undo_redo_wf`, `tree_update_wf`, `tree_exec_restore_wf`: Update, Undo and Redo of ANY stacked operation keep
    the structural invariant `Tree.WF` on root and clone, also when they fail half-way ("never corrupt the document",
    structural part), the arena never shrinks.
  * `tree_undo_total_style`: the undo / redo of a style fails only if `Tree.Style` itself fails on the stored positions.
  * `tree_redo_is_flipped_undo`: the reverse pushed by an identity reverse carries the same two span sets with the mode
    flipped.
  * `tree_update_clears_redo`, `tree_history_bounded`, `tree_undo_pops_one`: the history rules (redo cleared by a new
    edit, both stacks within `MaxUndoRedoStackDepth`, exactly one entry moves).

BOUNDED-EXHAUSTIVE (kernel evaluation of the executable machine, `_partial`; Lemmas/TreeUndoTable*.lean)
  * `tree_undo_do_partial` / `tree_redo_undo_do_partial`: on two documents (element content, mixed content) EVERY edit call
    - all index pairs x {delete, text, element} - that lies in the domain (executes, reverse = identity or no-op
    reverse, i.e. neither merge nor split) satisfies do;undo = before, do;undo;redo = after, and undo again; the clone
    shows the same XML, cached lengths stay exact, a receiver applying all produced changes ends with the same XML.
  * `tree_undo_depth3_partial`: the same to depth 3 after a text split and a mixed-sibling delete, for every third call.
  * `tree_history_scripts_partial`: calls, Undo and Redo in ANY order: all 625 words of length 4 over a five-letter
    alphabet and 216 scripts of depth 3, each step compared with the XML the history rules predict.
  * `tree_undo_total_partial`: every Style / RemoveStyle call over every range of a styled document, followed by a
    content edit: undo-all, redo-all, undo-all never fail, never break clone = root or the cached lengths, and the
    receiver converges.
  The unbounded forms of these four (for every `Tree.WF` tree and every call of the domain) are NOT proved: they need
  a specification of `Tree.edit` in terms of the XML (text splits, tombstoned insertions), which Lemmas/Tree*.lean
  does not have yet.

WITNESSES of the hypotheses / of approximate restoration (each replayed on the Go code, corpus/C14/treeundo-*.trace)
  * `tree_undo_do_surrogate_witness`: an edit boundary inside a surrogate pair (listed finding c19-surrogate-cut): do;undo
    shows two U+FFFD.
  * `tree_style_undo_approx_witness`: the undo of a Style restores the FIRST styled node's previous value on every node.
  * `tree_style_no_reverse_witness`: a RemoveStyle that visibly changes the document pushes no undo entry.
-/
import YorkieModel.Lemmas.TreeUndo
import YorkieModel.Lemmas.TreeUndoWhole
import YorkieModel.Lemmas.TreeUndoExact
import YorkieModel.Lemmas.TreeUndoDepth
import YorkieModel.Lemmas.TreeUndoTableA
import YorkieModel.Lemmas.TreeUndoTableB
import YorkieModel.Lemmas.TreeUndoTableC
import YorkieModel.Lemmas.TreeUndoTableD
import YorkieModel.Lemmas.TreeUndoTableE
import YorkieModel.Lemmas.TreeUndoTableS
import YorkieModel.Lemmas.TreeUndoTableT
namespace Yorkie.Props.C14Tree
open Yorkie Yorkie.Tree Yorkie.TreeUndo Yorkie.TreeUndo.Table

/-! ### unbounded -/

/-- **identity-preserving restore**: `TreeNode.remove(ts)` of a live node followed by `TreeNode.unremove()` gives back
    the arena up to the cached lengths: same size, same root, same `NodeMapByID`, and every node agrees on id, type,
    value, tombstone, split / merge links, attributes, parent and children. -/
theorem tree_restore_retombstone_node (t : Tree) (n : Ptr) (ts : Ticket) (h : (t.get n).removedAt = none) :
    SameCore t (unremove (t.removeNode n ts) n) := sameCore_unremove_removeNode t n ts h

theorem tree_restore_retombstone_node_xml (t : Tree) (n : Ptr) (ts : Ticket) (h : (t.get n).removedAt = none) :
    (unremove (t.removeNode n ts) n).toXMLCodes = t.toXMLCodes := toXML_unremove_removeNode t n ts h

/-- **the cached lengths come back too**: when the ancestor walk of `UpdateAncestorsLength` from the node's parent meets
    no node twice and not the node itself (no cycle among the parents - not part of `Tree.WF`, hence a hypothesis),
    `remove` then `unremove` of a live node gives back THE SAME ARENA, `VisibleLength` of every ancestor included -/
theorem tree_restore_retombstone_node_exact (t : Tree) (n : Ptr) (ts : Ticket) (hl : (t.get n).removedAt = none)
    (hn : n < t.nodes.length) (hnd : (chain t.fuel t (t.parentOf n)).Nodup)
    (hlt : ∀ q ∈ chain t.fuel t (t.parentOf n), q < t.nodes.length) (hself : n ∉ chain t.fuel t (t.parentOf n)) :
    unremove (t.removeNode n ts) n = t := unremove_removeNode_exact t n ts hl hn hnd hlt hself

/-- **identity-preserving restore, any number of whole nodes**: when the spans name pairwise different whole, attached,
    live nodes (elements by id, text nodes covered entirely - what a whole-element / whole-paragraph / multi-sibling
    delete records), `Retombstone` tombstones exactly them and `Restore` of the same spans brings back the arena up
    to the cached lengths: the same nodes under the same ids. -/
theorem tree_restore_identity (t : Tree) (spans : List Span) (ns : List Ptr) (ts : Ticket)
    (hw : Wholes t spans ns) (hlive : ∀ n ∈ ns, (t.get n).removedAt = none) (hnd : ns.Nodup) :
    ∃ t1 t2, retombstone t spans ts = .ok t1 ∧ (∀ n ∈ ns, (t1.get n).removedAt = some ts) ∧
      (∀ q, q ∉ ns → (t1.get q).removedAt = (t.get q).removedAt) ∧
      restore t1 spans = .ok t2 ∧ SameCore t t2 := restore_retombstone_whole t spans ns ts hw hlive hnd

/-- **undo∘do = id for deletes of whole nodes (unbounded)**: tombstoning any set of whole live nodes (Phase 5 of
    `Tree.Edit` on the collected nodes) and executing the identity reverse gives back `ToXML()` and `Marshal()` -/
theorem tree_undo_do_whole_nodes (t : Tree) (spans : List Span) (ns : List Ptr) (ts ts' : Ticket)
    (hw : Wholes t spans ns) (hlive : ∀ n ∈ ns, (t.get n).removedAt = none) (hnd : ns.Nodup) :
    ∃ t1 t2, retombstone t spans ts = .ok t1 ∧ execRestore t1 spans [] .restore ts' = .ok t2 ∧
      t2.toXMLCodes = t.toXMLCodes ∧ t2.marshalCodes = t.marshalCodes :=
  undo_whole_delete_xml t spans ns ts ts' hw hlive hnd

/-- **redo∘undo∘do = do for deletes of whole nodes (unbounded)**: re-removing the restored nodes with a new ticket
    shows the same `ToXML()` / `Marshal()` as the first removal -/
theorem tree_redo_undo_do_whole_nodes (t : Tree) (spans : List Span) (ns : List Ptr) (ts ts2 : Ticket)
    (hw : Wholes t spans ns) (hlive : ∀ n ∈ ns, (t.get n).removedAt = none) (hnd : ns.Nodup) :
    ∃ t1 t2 t3, retombstone t spans ts = .ok t1 ∧ restore t1 spans = .ok t2 ∧ retombstone t2 spans ts2 = .ok t3 ∧
      t3.toXMLCodes = t1.toXMLCodes ∧ t3.marshalCodes = t1.marshalCodes :=
  redo_whole_delete_xml t spans ns ts ts2 hw hlive hnd

/-- **depth k (unbounded) for deletes of whole nodes**: after ANY NUMBER of deletes, each tombstoning any number of whole
    live nodes of the arena it runs on (`Deletes`), the recorded identity reverses executed in LIFO order - every undo on
    the arena the previous undo produced - all succeed and give back `ToXML()` / `Marshal()` of the first arena
    (`undoAll_deletes`: in fact every field of every node except the cached lengths) -/
theorem tree_undo_depth_k_whole_nodes {t tk : Tree} {L : List (List Span)} (h : Deletes t L tk) :
    ∃ a', undoAll tk L.reverse = .ok a' ∧ a'.toXMLCodes = t.toXMLCodes ∧ a'.marshalCodes = t.marshalCodes :=
  undoAll_deletes_xml h

/-- the tree of table A as the seed document creates it -/
def treeA : Tree := initialTree seedActor docA

set_option maxRecDepth 100000 in
/-- non-vacuity of `Wholes`: the second paragraph of `<root><p>ab</p><p>cd</p></root>` and its text node -/
theorem wholes_example :
    Wholes treeA [⟨⟨⟨1, 4, 1⟩, 0⟩, false, 0⟩, ⟨⟨⟨1, 5, 1⟩, 0⟩, true, 2⟩] [3, 4] := by
  refine .cons ⟨(by decide +kernel), (by decide +kernel), (fun h => by cases h), (fun _ => by decide +kernel)⟩
    (.cons ⟨(by decide +kernel), (by decide +kernel), (fun _ => by decide +kernel), (fun h => by cases h)⟩ .nil)

set_option maxRecDepth 100000 in
/-- non-vacuity of the hypotheses of `tree_restore_retombstone_node_exact`: the text node "cd" of table A's tree -/
theorem exact_example :
    (treeA.get 4).removedAt = none ∧ 4 < treeA.nodes.length ∧ (chain treeA.fuel treeA (treeA.parentOf 4)).Nodup ∧
    (∀ q ∈ chain treeA.fuel treeA (treeA.parentOf 4), q < treeA.nodes.length) ∧
    4 ∉ chain treeA.fuel treeA (treeA.parentOf 4) := by decide +kernel

/-! non-vacuity of `Deletes`: on table A's tree, delete the text "ab", then the second paragraph with its text -/

def okOr (x : Except Err Tree) (d : Tree) : Tree :=
  match x with
  | .ok y => y
  | .error _ => d

def isOkB (x : Except Err Tree) : Bool :=
  match x with
  | .ok _ => true
  | .error _ => false

theorem ok_okOr (x : Except Err Tree) (d : Tree) (h : isOkB x = true) : x = .ok (okOr x d) := by
  cases x with
  | ok y => rfl
  | error e => cases h

def spansAb : List Span := [⟨⟨⟨1, 3, 1⟩, 0⟩, true, 2⟩]
def spansP2 : List Span := [⟨⟨⟨1, 4, 1⟩, 0⟩, false, 0⟩, ⟨⟨⟨1, 5, 1⟩, 0⟩, true, 2⟩]
def treeA1 : Tree := okOr (retombstone treeA spansAb ⟨5, 1, 2⟩) treeA
def treeA2 : Tree := okOr (retombstone treeA1 spansP2 ⟨6, 1, 2⟩) treeA1

set_option maxRecDepth 100000 in
theorem wholes_ab : Wholes treeA spansAb [2] :=
  .cons ⟨(by decide +kernel), (by decide +kernel), (fun _ => by decide +kernel), (fun h => by cases h)⟩ .nil

set_option maxRecDepth 100000 in
theorem wholes_p2 : Wholes treeA1 spansP2 [3, 4] :=
  .cons ⟨(by decide +kernel), (by decide +kernel), (fun h => by cases h), (fun _ => by decide +kernel)⟩
    (.cons ⟨(by decide +kernel), (by decide +kernel), (fun _ => by decide +kernel), (fun h => by cases h)⟩ .nil)

set_option maxRecDepth 100000 in
theorem deletes_example : Deletes treeA [spansAb, spansP2] treeA2 :=
  .cons ⟨5, 1, 2⟩ wholes_ab (by decide +kernel) (by decide +kernel) (ok_okOr _ _ (by decide +kernel))
    (.cons ⟨6, 1, 2⟩ wholes_p2 (by decide +kernel) (by decide +kernel) (ok_okOr _ _ (by decide +kernel)) (.nil _))

set_option maxRecDepth 100000 in
/-- the two deletes are visible: `<root><p></p></root>` -/
theorem deletes_example_xml : treeA2.toXMLCodes = "<root><p></p></root>".toList.map Char.toNat := by decide +kernel

/-- **the identity path of `TreeEdit.Execute` never corrupts the structure**, whatever spans it is given -/
theorem tree_exec_restore_wf {t t' : Tree} (w : t.WF) (rs tbs : List Span) (mode : RMode) (ts : Ticket)
    (h : execRestore t rs tbs mode ts = .ok t') : t'.WF ∧ t.size ≤ t'.size :=
  ⟨(execRestore_wf w rs tbs mode ts h).1, (execRestore_wf w rs tbs mode ts h).2.1⟩

/-- **`Document.Update` keeps root and clone well-formed** -/
theorem tree_update_wf {d d' : Doc} {ch : Option WChange} (w : d.WF) (c : Call) (h : d.update c = .ok (d', ch)) : d'.WF :=
  Doc.update_wf w c h

/-- **Undo and Redo never corrupt the structure**: whatever the stacks hold, a successful step and a step that fails
    half-way (clone executed, root refused) both leave root and clone well-formed -/
theorem tree_undo_redo_wf {d : Doc} (w : d.WF) (isUndo : Bool) :
    (∀ d' ch, d.undoRedo isUndo = .done d' ch → d'.WF) ∧ (∀ d' e, d.undoRedo isUndo = .failed d' e → d'.WF) :=
  Doc.undoRedo_wf w isUndo

/-- **redo is the flipped undo**: executing an identity reverse pushes the same span sets with the other mode -/
theorem tree_redo_is_flipped_undo {t t' : Tree} {r : Option UOp} (fr to : Pos) (rs tbs : List Span) (mode : RMode)
    (ts : Ticket) (vv : VV) (h : execUOp t (.restore fr to rs tbs mode) ts vv = .ok (t', r)) :
    r = some (.restore fr to rs tbs mode.flip) ∧ mode.flip.flip = mode :=
  ⟨execUOp_restore_reverse fr to rs tbs mode ts vv h, RMode.flip_flip mode⟩

/-- **`tree_undo_total` for styles, relative to `Tree.Style` (unbounded)**: executing a stacked style reverse (undo or
    redo of Style / RemoveStyle) fails only if `Tree.Style` / `RemoveStyle` itself fails on the stored positions; building
    the next reverse never adds a failure. With `tree_undo_redo_wf` (the result is well-formed) and the bounded
    `tree_undo_total_partial` (no failure on every range of a styled document) this is the "never fail, never corrupt"
    half of C14 for styles. That `Tree.Style` cannot fail on positions it once resolved is NOT proved (it needs: ids are
    never unregistered while nothing is purged). -/
theorem tree_undo_total_style {t t' : Tree} (fr to : Pos) (set : List (Str × Str)) (rem : List Str) (ts : Ticket) (vv : VV)
    (h : t.style fr to (styleArgOf set rem) ts vv = .ok t') :
    ∃ r, execUOp t (.style fr to set rem) ts vv = .ok (t', r) ∧ (t.WF → t'.WF) :=
  let ⟨r, hr⟩ := execUOp_style_total fr to set rem ts vv h
  ⟨r, hr, fun w => execUOp_wf w _ ts vv hr⟩

/-- **a new edit clears the redo stack** and keeps the bound -/
theorem tree_update_clears_redo {d d' : Doc} {ch : WChange} (b : d.Bounded) (c : Call)
    (h : d.update c = .ok (d', some ch)) : d'.redo = [] ∧ d'.Bounded := Doc.update_stacks b c h

/-- **both stacks stay within `MaxUndoRedoStackDepth` (50)** along any sequence of Undo / Redo -/
theorem tree_history_bounded {d d' : Doc} {ch : WChange} (b : d.Bounded) (isUndo : Bool)
    (h : d.undoRedo isUndo = .done d' ch) : d'.undo.length ≤ 50 ∧ d'.redo.length ≤ 50 :=
  (Doc.undoRedo_stacks b isUndo h).1

/-- **Undo moves exactly one entry**: the undo stack loses its top, the redo stack gains at most one entry -/
theorem tree_undo_pops_one {d d' : Doc} {ch : WChange} (b : d.Bounded) (h : d.undoRedo true = .done d' ch) :
    ∃ u, d.undo = u :: d'.undo ∧ (d'.redo = d.redo ∨ ∃ r, d'.redo = push d.redo r) :=
  (Doc.undoRedo_stacks b true h).2.1 rfl

/-! ### bounded-exhaustive (kernel evaluation) -/

/-- what `c14OK init calls = true` says, spelled out: if the program lies in the domain then `progOK` holds -/
theorem c14OK_spec (init : List JItem) (calls : List Call) (h : c14OK init calls = true) (hd : inDomain init calls = true) :
    progOK init calls = true := by
  unfold c14OK at h
  rw [hd] at h
  simpa using h

/-- **undo∘do = id, redo∘undo∘do = do (bounded)**: every edit call of the domain on `<root><p>ab</p><p>cd</p></root>`
    and on the mixed-content `<root><p>ab<b>c</b>de</p></root>` -/
theorem tree_undo_do_partial :
    (∀ c ∈ callsA, inDomain docA [c] = true → progOK docA [c] = true) ∧
    (∀ c ∈ callsB, inDomain docB [c] = true → progOK docB [c] = true) :=
  ⟨fun c hc hd => c14OK_spec _ _ (tableA c hc) hd, fun c hc hd => c14OK_spec _ _ (tableB c hc) hd⟩

/-- `progOK` contains the redo leg: named separately because the task names it so -/
theorem tree_redo_undo_do_partial :
    (∀ c ∈ callsA, c14OK docA [c] = true) ∧ (∀ c ∈ callsB, c14OK docB [c] = true) := ⟨tableA, tableB⟩

/-- **depth 3 (bounded)**: after a text split and a mixed-sibling delete, every third call of the domain: three undos
    walk back through the three recorded XMLs, three redos forth, three undos back again -/
theorem tree_undo_depth3_partial :
    ∀ c ∈ callsC, inDomain docC (preC ++ [c]) = true → progOK docC (preC ++ [c]) = true :=
  fun c hc hd => c14OK_spec _ _ (tableC c hc) hd

/-- **styles: undo / redo never fail (bounded)**: every Style / RemoveStyle call over every range of the styled document,
    followed by a text replace -/
theorem tree_undo_total_partial :
    (∀ c ∈ callsD, totalOK docD [c, Call.edit 1 2 [[tx "Z"]] 0] = true) ∧
    (∀ c ∈ callsE, totalOK docE [c, Call.edit 1 2 [[tx "Z"]] 0] = true) := ⟨tableD, tableE⟩

/-- **the history machine along scripts (bounded)**: EVERY word of length 4 over {text insert, range delete, replace
    of a mixed range by an element, Undo, Redo} on the mixed-content document, and every sequence of three calls followed
    by every word of length 3 over {Undo, Redo}: after each step the XML is the one the history rules predict from the
    recorded XMLs (a new edit clears the redo stack; Undo / Redo on an empty stack do nothing), the stack depths are the
    predicted ones, clone = root, cached lengths exact, the receiver converges -/
theorem tree_history_scripts_partial :
    (∀ w ∈ scriptsS, scriptOK docS w = true) ∧ (∀ w ∈ scriptsT, scriptOK docT w = true) := ⟨tableS, tableT⟩

/-! ### non-vacuity -/

set_option maxRecDepth 100000 in
/-- 81 of the 135 calls of table A lie in the domain (the others cross an element boundary: merge, outside C14) -/
theorem tableA_domain : (callsA.filter (fun c => inDomain docA [c])).length = 81 := by decide +kernel

set_option maxRecDepth 100000 in
/-- 69 of the 84 third calls of table C lie in the domain (36 before the repair of c19-findpos-after-element, 74247a0f: the second
    call of the prefix, `Edit(3,7)`, has its end right after `</b>` and right before "de" and used to delete "de" as well) -/
theorem tableC_domain : (callsC.filter (fun c => inDomain docC (preC ++ [c]))).length = 69 := by decide +kernel

set_option maxRecDepth 100000 in
/-- a replace inside a text, a delete over mixed siblings and an inline element inside a text are in the domain -/
theorem domain_examples :
    inDomain docB [Call.edit 1 3 [[tx "QR"]] 0] = true ∧ inDomain docB [Call.edit 2 7 [] 0] = true ∧
    inDomain docB [Call.edit 2 2 [[el "b", at' 1 (tx "S")]] 0] = true := by decide +kernel

/-! ### witnesses -/

def docSur : List JItem := [el "root", el "p" 1, at' 2 (tx "😀ab")]

/-- XML before, and after do;undo -/
def doUndoXML (init : List JItem) (c : Call) : Option (Str × Str) :=
  match seedDoc edActor seedActor init with
  | .error _ => none
  | .ok d0 =>
    match d0.update c with
    | .ok (d1, some _) =>
      match d1.undoRedo true with
      | .done d2 _ => some (d0.root.toXMLCodes, d2.root.toXMLCodes)
      | _ => none
    | _ => none

set_option maxRecDepth 100000 in
/-- **the BMP hypothesis is forced**: on `<p>😀ab</p>` deleting the first UTF-16 unit of the emoji and undoing it shows
    `<p>��ab</p>`: the edit boundary lies INSIDE the surrogate pair, `SplitText` cuts it and both halves are re-decoded to
    U+FFFD for good (listed finding c19-surrogate-cut; the length defect c19-surrogate is repaired, 0e18e1d8;
    corpus/C14/treeundo-surrogate-witness.trace) -/
theorem tree_undo_do_surrogate_witness :
    (doUndoXML docSur (Call.edit 1 2 [] 0)).map (fun p => (p.1 == p.2, p.2)) =
      some (false, "<root><p>��ab</p></root>".toList.map Char.toNat) := by decide +kernel

def two : Str := "2".toList.map Char.toNat

set_option maxRecDepth 100000 in
/-- **style restoration is approximate**: Style(0,11,bold=2) then Undo puts the FIRST styled node's previous value
    (bold="1") on every element of the range; before, the second paragraph had no `bold` and the `<i>` had bold="3" -/
theorem tree_style_undo_approx_witness :
    (doUndoXML docD (Call.style 0 11 [(bold, two)])).map (·.2) =
      some ("<root><p bold=\"1\">ab</p><p bold=\"1\">cd<i bold=\"1\">e</i></p></root>".toList.map Char.toNat) := by
  decide +kernel

/-- XML before and after one call, and the number of undo entries it pushed -/
def doXML (init : List JItem) (c : Call) : Option (Str × Str × Nat) :=
  match seedDoc edActor seedActor init with
  | .error _ => none
  | .ok d0 =>
    match d0.update c with
    | .ok (d1, some _) => some (d0.root.toXMLCodes, d1.root.toXMLCodes, d1.undo.length)
    | _ => none

set_option maxRecDepth 100000 in
/-- **a visible style change without an undo entry**: RemoveStyle(4,11,[bold]) first styles the second paragraph, which
    has no `bold`; the `<i bold="3">` later in the range loses it, and no reverse is pushed
    (corpus/C14/treeundo-style-no-reverse.trace) -/
theorem tree_style_no_reverse_witness :
    doXML docD (Call.removeStyle 4 11 [bold]) =
      some ("<root><p bold=\"1\">ab</p><p>cd<i bold=\"3\">e</i></p></root>".toList.map Char.toNat,
            "<root><p bold=\"1\">ab</p><p>cd<i>e</i></p></root>".toList.map Char.toNat, 0) := by decide +kernel

end Yorkie.Props.C14Tree
