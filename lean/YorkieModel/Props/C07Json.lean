/-
C07 (array / object / counter half)  Each index- or key-based API call of the json layer does what
its sequential specification says – on EVERY well-formed document: any number of tombstones, dead
slots (positions abandoned by moves), moved elements, LWW losers, nested containers, and whatever
remote operations left behind.

Model: `Model/Json.lean` (`callOp`: the operation a call pushes; `localCall`) over the observable
heap model `Model/Crdt.lean`.  `visible d arr` is the list of live elements in list order – what
`Array.Len()`, `Array.Get(i)` and `Marshal()` show.

Hypotheses that occur everywhere
  * `Inv d`   = `WF` (DocEffect) + per-array `NodesOK` (unique position identities, never the dummy
                head's; every element in exactly one node; `posMovedAt` points at a position) +
                per-object `ObjOK`. It holds initially (`inv_init`) and is preserved by EVERY enabled
                operation, local or remote (`inv_preserved`).
  * `Newer d ts` = the call's ticket is after every ticket in the document. It is what makes the RGA
                skip rule skip nothing for a LOCAL call. It holds for every ticket `Ctx.issue`
                hands out when the context dominates the document (`newer_of_issue`, `dom_begin`,
                `dom_preserved`).
Every specification also states that the pushed operation is enabled (`Pre`), so C01's theorems
apply to it.

FINDING (reproduced on the Go code, see `array_set_spec_witness`): `SetInteger(idx, …)` /
`SetString(idx, …)` on an element that was MOVED before does not replace it in place: the new value
appears at the element's ORIGINAL slot (`RGATreeList.Set` anchors on `nodeMapByCreatedAt[createdAt]`).
The in-place statement is therefore `…_partial` (side condition: the element still sits in its
original slot); `array_set_origin_spec` is the strongest statement true of the code in all states.
-/
import YorkieModel.Lemmas.JsonSpec
namespace Yorkie.Props.C07Json
open Yorkie Yorkie.Crdt Yorkie.Json

/-- live elements of the array cell `arr`, in list order -/
def visible (d : Doc) (arr : Ticket) : List Ticket := arrLive d arr

/-- the document an updater run ends in (concrete witnesses below are built by real calls) -/
def docOf : Except Err Out → Doc
  | .ok o => o.doc
  | .error _ => Doc.init

/-! ### the hypotheses are invariants / dischargeable -/

theorem inv_init : Inv Doc.init := Inv.init

/-- every enabled operation – a local one or one pulled from a peer – keeps `Inv` -/
theorem inv_preserved {d : Doc} {op : Op} (hi : Inv d) (h : Pre d op) : Inv (apply d op) :=
  inv_apply hi h

/-- a ticket issued by a context that dominates the document is `Newer` than the document -/
theorem newer_of_issue {ctx : Ctx} {d : Doc} (h : Dom ctx d) : Newer d ctx.issue.1 := h.newer

/-- `change.NewContext` dominates: the next change's lamport exceeds every lamport in the document -/
theorem dom_begin {d : Doc} {lamport : Int} (actor : Nat) (h : ∀ i, used d i → i.lamport ≤ lamport) :
    Dom (Ctx.begin lamport actor) d := Dom.begin actor h

/-- …and stays dominating through the calls of one updater, together with `Inv` -/
theorem dom_preserved {d : Doc} {ctx : Ctx} {c : Call} {out : Out} (hi : Inv d) (hd : Dom ctx d)
    (h : localCall d ctx c = .ok out) : Inv out.doc ∧ Dom out.ctx out.doc :=
  ⟨(localCall_sound hi hd h).1, (localCall_sound hi hd h).2.1⟩

/-! ### arrays -/

/-- `AddInteger` / `AddNewObject` / …: the new element is appended -/
theorem array_add_spec {d : Doc} {arr ts : Ticket} {nodes : List PosNode} (v : Val) (hi : Inv d)
    (hn : Newer d ts) (ha : arrNodes d arr = some nodes) :
    ∃ op, callOp d ts (.arrAdd arr v) = .ok (some op) ∧ Pre d op ∧
      visible (apply d op) arr = visible d arr ++ [ts] := by
  exact ⟨.add arr (lastLivePos d nodes) v ts, by simp [callOp, ha], add_spec v hi hn ha⟩

/-- `InsertIntegerAfter(idx, …)`: the new element sits directly after the `idx`-th visible element,
    however many tombstones / dead slots / concurrently inserted nodes follow that element -/
theorem array_insertAfter_spec {d : Doc} {arr ts prev : Ticket} {idx : Nat} (v : Val) (hi : Inv d)
    (hn : Newer d ts) (hidx : (visible d arr)[idx]? = some prev) :
    ∃ op, callOp d ts (.arrInsertAfter arr idx v) = .ok (some op) ∧ Pre d op ∧
      visible (apply d op) arr =
        (visible d arr).take (idx + 1) ++ ts :: (visible d arr).drop (idx + 1) := by
  obtain ⟨nodes, ha, _, hget⟩ := arrLive_get hidx
  refine ⟨.add arr (anchorOf nodes prev) v ts, by simp [callOp, ha, arrInsertOp, hget], ?_⟩
  exact insertAfter_spec v hi hn ha hget

/-- `Newer` cannot be dropped: a ticket OLDER than the node that follows the anchor is skipped
    past it (this is the remote / concurrent case, where the skip rule is what makes replicas
    converge). `a = [1,2]` with `2` created at lamport 5; an insert after index 0 carrying the
    stale ticket `3:1:9` lands after the `2`. -/
def nwDoc : Doc :=
  docOf (runCalls (docOf (runCalls Doc.init (Ctx.begin 0 7) [.setNewArr rootId "a", .addPrim ⟨1, 1, 7⟩ "1"]))
    (Ctx.begin 4 7) [.addPrim ⟨1, 1, 7⟩ "2"])

def applyCall (d : Doc) (ts : Ticket) (c : Call) : Doc :=
  match callOp d ts c with
  | .ok (some op) => apply d op
  | _ => d

set_option maxRecDepth 100000 in
theorem array_insertAfter_needs_newer_witness :
    visible nwDoc ⟨1, 1, 7⟩ = [⟨1, 2, 7⟩, ⟨5, 1, 7⟩] ∧
    visible (applyCall nwDoc ⟨3, 1, 9⟩ (.arrInsertAfter ⟨1, 1, 7⟩ 0 (.prim "0"))) ⟨1, 1, 7⟩ =
      [⟨1, 2, 7⟩, ⟨5, 1, 7⟩, ⟨3, 1, 9⟩] ∧
    visible (applyCall nwDoc ⟨6, 1, 9⟩ (.arrInsertAfter ⟨1, 1, 7⟩ 0 (.prim "0"))) ⟨1, 1, 7⟩ =
      [⟨1, 2, 7⟩, ⟨6, 1, 9⟩, ⟨5, 1, 7⟩] := by
  refine ⟨by decide, by decide, by decide⟩

/-- `Delete(idx)`: the `idx`-th visible element disappears, the others keep their order -/
theorem array_delete_spec {d : Doc} {arr ts t : Ticket} {idx : Nat} (hi : Inv d) (hn : Newer d ts)
    (hidx : (visible d arr)[idx]? = some t) :
    ∃ op, callOp d ts (.arrDelete arr idx) = .ok (some op) ∧ Pre d op ∧
      visible (apply d op) arr = (visible d arr).eraseIdx idx := by
  obtain ⟨nodes, ha, _, hget⟩ := arrLive_get hidx
  refine ⟨.remove arr t ts, by simp [callOp, ha, arrDeleteOp, hget], ?_⟩
  exact delete_spec hi hn ha hget

/-- `Delete(idx)` with an out-of-range index returns nil: no ticket, no operation -/
theorem array_delete_out_of_range {d : Doc} {arr ts : Ticket} {nodes : List PosNode} {idx : Nat}
    (ha : arrNodes d arr = some nodes) (hidx : (visible d arr).length ≤ idx) :
    callOp d ts (.arrDelete arr idx) = .ok none := by
  have e : visible d arr = liveOf d nodes := by unfold visible arrLive; rw [ha]
  rw [e] at hidx
  simp [callOp, ha, arrDeleteOp, List.getElem?_eq_none hidx]

/-- the moves as plain list moves (`moveTo l k x`: take `x` out, put it back directly after the
    first `k` elements of the original list). Dead slots, tombstones and foreign nodes between the
    anchor and its visible successor do not matter: the result is the obvious list move in every
    state.
      `MoveAfterByIndex(i, j)`            ↦ `moveTo l (i+1) l[j]`
      `MoveBefore(Get(i), Get(j))`        ↦ `moveTo l i l[j]`
      `MoveFront(Get(j))`                 ↦ `l[j] :: l.eraseIdx j`
      `MoveLast(Get(j))`                  ↦ `l.eraseIdx j ++ [l[j]]` -/
theorem array_move_spec {d : Doc} {arr ts : Ticket} (hi : Inv d) (hn : Newer d ts) :
    (∀ i j prev target, (visible d arr)[i]? = some prev → (visible d arr)[j]? = some target →
      ∃ op, callOp d ts (.arrMoveAfter arr i j) = .ok (some op) ∧ Pre d op ∧
        visible (apply d op) arr = moveTo (visible d arr) (i + 1) target) ∧
    (∀ i j next target, (visible d arr)[i]? = some next → (visible d arr)[j]? = some target →
      ∃ op, callOp d ts (.arrMoveBefore arr i j) = .ok (some op) ∧ Pre d op ∧
        visible (apply d op) arr = moveTo (visible d arr) i target) ∧
    (∀ j target, (visible d arr)[j]? = some target →
      ∃ op, callOp d ts (.arrMoveFront arr j) = .ok (some op) ∧ Pre d op ∧
        visible (apply d op) arr = target :: (visible d arr).eraseIdx j) ∧
    (∀ j target, (visible d arr)[j]? = some target →
      ∃ op, callOp d ts (.arrMoveLast arr j) = .ok (some op) ∧ Pre d op ∧
        visible (apply d op) arr = (visible d arr).eraseIdx j ++ [target]) := by
  have hnd : (visible d arr).Nodup := visible_nodup hi
  refine ⟨?_, ?_, ?_, ?_⟩
  · intro i j prev target hp ht
    obtain ⟨nodes, ha, _, hgp⟩ := arrLive_get hp
    obtain ⟨nodes', ha', _, hgt⟩ := arrLive_get ht
    rw [ha] at ha'; cases ha'
    refine ⟨.move arr (anchorOf nodes prev) target ts,
      by simp [callOp, ha, arrMoveAfterOp, hgp, hgt], ?_⟩
    obtain ⟨h1, h2⟩ := moveAfter_spec hi hn ha hgp hgt
    exact ⟨h1, by unfold visible at hnd ⊢; rw [h2, moveTo_of_filter hnd]⟩
  · intro i j next target hp ht
    obtain ⟨nodes, ha, _, hgp⟩ := arrLive_get hp
    obtain ⟨nodes', ha', _, hgt⟩ := arrLive_get ht
    rw [ha] at ha'; cases ha'
    obtain ⟨prev, hprev, h1, h2⟩ := moveBefore_spec hi hn ha hgp hgt
    refine ⟨.move arr prev target ts,
      by simp [callOp, ha, arrMoveBeforeOp, hgp, hgt, hprev], h1, ?_⟩
    unfold visible at hnd ⊢; rw [h2, moveTo_of_filter hnd]
  · intro j target ht
    obtain ⟨nodes, ha, hvis, hgt⟩ := arrLive_get ht
    have hlen : 0 < (liveOf d nodes).length := by
      have := (List.getElem?_eq_some_iff.1 hgt).1; omega
    have hg0 : (liveOf d nodes)[0]? = some ((liveOf d nodes)[0]) := List.getElem?_eq_getElem hlen
    obtain ⟨prev, hprev, h1, h2⟩ := moveBefore_spec hi hn ha hg0 hgt
    refine ⟨.move arr prev target ts,
      by simp [callOp, ha, arrMoveBeforeOp, hg0, hgt, hprev], h1, ?_⟩
    unfold visible at hnd ht ⊢
    rw [h2, moveTo_of_filter hnd, moveTo_zero hnd ht]
  · intro j target ht
    obtain ⟨nodes, ha, _, hgt⟩ := arrLive_get ht
    refine ⟨.move arr (lastLivePos d nodes) target ts, by simp [callOp, ha, arrMoveLastOp, hgt], ?_⟩
    exact moveLast_spec hi hn ha hgt

/-- a move only permutes the visible list -/
theorem array_move_perm {l : List Ticket} (hn : l.Nodup) (k : Nat) {x : Ticket} (hx : x ∈ l) :
    (moveTo l k x).Perm l := moveTo_perm hn k hx

/-- `MoveBefore(next, x)` with `next = Get(i)`, `x = Get(j)`, `next ≠ x`: `x` leaves its place and
    lands DIRECTLY BEFORE `next` in the visible list; every other element keeps its relative order.
    The pushed operation is `Move(prev = FindPrevCreatedAt(next), x)`, see `moveBefore_anchor_spec`. -/
theorem array_moveBefore_spec {d : Doc} {arr ts next x : Ticket} {i j : Nat} (hi : Inv d)
    (hn : Newer d ts) (hnext : (visible d arr)[i]? = some next) (hx : (visible d arr)[j]? = some x)
    (hne : next ≠ x) :
    ∃ op, callOp d ts (.arrMoveBefore arr i j) = .ok (some op) ∧ Pre d op ∧
      visible (apply d op) arr =
        ((visible d arr).take i).erase x ++ x :: next :: ((visible d arr).drop (i + 1)).erase x := by
  obtain ⟨op, h1, h2, h3⟩ := (array_move_spec (arr := arr) hi hn).2.1 i j next x hnext hx
  exact ⟨op, h1, h2, by rw [h3, moveTo_before hnext hne]⟩

/-- `MoveBefore(x, x)` leaves the visible list as it is (a position node is still created) -/
theorem array_moveBefore_self_spec {d : Doc} {arr ts x : Ticket} {i : Nat} (hi : Inv d)
    (hn : Newer d ts) (hx : (visible d arr)[i]? = some x) :
    ∃ op, callOp d ts (.arrMoveBefore arr i i) = .ok (some op) ∧ Pre d op ∧
      visible (apply d op) arr = visible d arr := by
  obtain ⟨op, h1, h2, h3⟩ := (array_move_spec (arr := arr) hi hn).2.1 i i x x hx hx
  have hnd : (visible d arr).Nodup := visible_nodup hi
  exact ⟨op, h1, h2, by rw [h3, moveTo_self hnd hx]⟩

/-- the anchor `moveBeforeInternal` computes: `FindPrevCreatedAt(next)` is the dummy head for the
    first visible element, otherwise the POSITION identity of the node showing the previous visible
    element (`PosCreatedAt(prev)`: for a previously moved `prev` this differs from `prev`'s own
    ticket, whose node is a dead slot somewhere else) – whatever dead slots and tombstones lie
    between the two -/
theorem moveBefore_anchor_spec {d : Doc} {arr : Ticket} {nodes : List PosNode} (hi : Inv d)
    (ha : arrNodes d arr = some nodes) :
    (∀ first, (liveOf d nodes)[0]? = some first → prevOf d nodes first = some headId) ∧
    (∀ k prev next, (liveOf d nodes)[k]? = some prev → (liveOf d nodes)[k + 1]? = some next →
      prevOf d nodes next = some (anchorOf nodes prev)) :=
  ⟨fun _ h => prevOf_first hi ha h, fun _ _ _ hp hn => prevOf_succ hi ha hn hp⟩

/-- the anchor of appends and of `MoveLast` (`lastLivePosCreatedAt()`): the dummy head when nothing
    is visible, else the position of a node that shows a live element – never a tombstone or a dead
    slot, which peers may already have purged (C03) -/
theorem append_anchor_is_live {d : Doc} {arr : Ticket} {nodes : List PosNode} (hi : Inv d)
    (ha : arrNodes d arr = some nodes) :
    (liveOf d nodes = [] ∧ lastLivePos d nodes = headId) ∨
      ∃ n ∈ nodes, n.pos = lastLivePos d nodes ∧ (nodeLive d n).isSome = true :=
  lastLivePos_live hi ha

/-- `MoveFront` anchors on the dummy head: `FindPrevCreatedAt` of the first visible element skips
    every dead slot and tombstone in front of it -/
theorem moveFront_anchor_is_head {d : Doc} {arr first : Ticket} {nodes : List PosNode} (hi : Inv d)
    (ha : arrNodes d arr = some nodes) (h : (liveOf d nodes)[0]? = some first) :
    prevOf d nodes first = some headId := prevOf_first hi ha h

/-
FULL STATEMENT (false of the code, see the witness):
  theorem array_set_spec : … (visible d arr)[idx]? = some target →
    ∃ op, callOp d ts (.arrSet arr idx v) = .ok (some op) ∧ Pre d op ∧
      visible (apply d op) arr = (visible d arr).set idx ts
-/

/-- the element still sits in the position node created for it (it was never moved) -/
def Unmoved (d : Doc) (arr target : Ticket) : Prop :=
  ∃ nodes, arrNodes d arr = some nodes ∧ posOf nodes target = some target

instance (d : Doc) (arr target : Ticket) : Decidable (Unmoved d arr target) := by
  unfold Unmoved
  cases h : arrNodes d arr with
  | none => exact isFalse (by rintro ⟨n, hn, _⟩; cases hn)
  | some nodes =>
    by_cases hp : posOf nodes target = some target
    · exact isTrue ⟨nodes, rfl, hp⟩
    · exact isFalse (by rintro ⟨n, hn, hp'⟩; cases hn; exact hp hp')

/-- `SetInteger(idx, …)` replaces the `idx`-th visible element in place – provided that element
    was never moved -/
theorem array_set_spec_partial {d : Doc} {arr ts target : Ticket} {idx : Nat} (v : Val) (hi : Inv d)
    (hn : Newer d ts) (hidx : (visible d arr)[idx]? = some target) (hu : Unmoved d arr target) :
    ∃ op, callOp d ts (.arrSet arr idx v) = .ok (some op) ∧ Pre d op ∧
      visible (apply d op) arr = (visible d arr).set idx ts := by
  obtain ⟨nodes, ha, _, hget⟩ := arrLive_get hidx
  obtain ⟨nodes', ha', hpos⟩ := hu
  rw [ha] at ha'; cases ha'
  refine ⟨.arraySet arr target v ts, by simp [callOp, ha, arrSetOp, hget], ?_⟩
  exact set_inplace_spec v hi hn ha hget hpos

/-- the strongest statement true in every state: the operation is enabled, the target disappears
    from wherever it is shown, and the new element appears directly after the target's ORIGINAL
    slot `o` (position identity = the target's own ticket), i.e. after the elements shown by the
    nodes up to and including `o` -/
theorem array_set_origin_spec {d : Doc} {arr ts target : Ticket} {idx : Nat} (v : Val) (hi : Inv d)
    (hn : Newer d ts) (hidx : (visible d arr)[idx]? = some target) :
    ∃ op, callOp d ts (.arrSet arr idx v) = .ok (some op) ∧ Pre d op ∧
      ∃ nodes pre o post, arrNodes d arr = some nodes ∧ nodes = pre ++ o :: post ∧ o.pos = target ∧
        visible (apply d op) arr =
          (liveOf d (pre ++ [o])).erase target ++ ts :: (liveOf d post).erase target := by
  obtain ⟨nodes, ha, _, hget⟩ := arrLive_get hidx
  refine ⟨.arraySet arr target v ts, by simp [callOp, ha, arrSetOp, hget], ?_⟩
  obtain ⟨h1, pre, o, post, hsplit, hopos, hlive⟩ := set_origin_spec v hi hn ha hget
  refine ⟨h1, nodes, pre, o, post, ha, hsplit, hopos, ?_⟩
  obtain ⟨pe, moved, ha'⟩ := arrNodes_eq_some.1 ha
  have hnd : (elemList nodes).Nodup := (ha'.ok hi).elemNodup
  rw [hsplit] at hnd
  have e0 : pre ++ o :: post = (pre ++ [o]) ++ post := by simp
  rw [e0, elemList_append] at hnd
  have hnd' := List.nodup_append.1 hnd
  unfold visible
  rw [hlive, filter_isNot_eq_erase (liveOf_nodup hnd'.1), filter_isNot_eq_erase (liveOf_nodup hnd'.2.1)]

/-! the witness: `a = [1,2,3]; MoveLast(a[0]); SetInteger(2, 9)` gives `[9,2,3]`, not `[2,3,9]`
    (replayed on the Go code: corpus/C07/json-set-on-moved-element.trace) -/

def wArr : Ticket := ⟨1, 1, 7⟩

def wCalls : List Call :=
  [.setNewArr rootId "a", .addPrim wArr "1", .addPrim wArr "2", .addPrim wArr "3", .arrMoveLast wArr 0]

/-- `{"a":[2,3,1]}`, the `1` moved to the end -/
def wDoc : Doc := docOf (runCalls Doc.init (Ctx.begin 0 7) wCalls)

/-- after `SetInteger(2, 9)` issued as ticket `2:1:7` -/
def wDoc' : Doc := docOf (localCall wDoc (Ctx.begin 1 7) (.arrSet wArr 2 (.prim "9")))

set_option maxRecDepth 100000 in
theorem array_set_spec_witness :
    visible wDoc wArr = [⟨1, 3, 7⟩, ⟨1, 4, 7⟩, ⟨1, 2, 7⟩] ∧
    visible wDoc' wArr = [⟨2, 1, 7⟩, ⟨1, 3, 7⟩, ⟨1, 4, 7⟩] ∧
    visible wDoc' wArr ≠ (visible wDoc wArr).set 2 ⟨2, 1, 7⟩ ∧
    marshal wDoc 4 rootId = "{\"a\":[2,3,1]}" ∧ marshal wDoc' 4 rootId = "{\"a\":[9,2,3]}" := by
  refine ⟨by decide, by decide, by decide, by decide, by decide⟩

/- the side condition is met by non-trivial states: in the witness document the two elements
   that were not moved satisfy it, the moved one does not -/
set_option maxRecDepth 100000 in
example : Unmoved wDoc wArr ⟨1, 3, 7⟩ ∧ Unmoved wDoc wArr ⟨1, 4, 7⟩ ∧ ¬ Unmoved wDoc wArr ⟨1, 2, 7⟩ := by
  refine ⟨by decide, by decide, by decide⟩

/-- `Len()` / `Get(i)` are length / index of the visible list, and the visible list ignores dead
    slots and tombstones wherever they sit -/
theorem array_len_get_spec (d : Doc) (arr : Ticket) :
    arrLen d arr = (visible d arr).length ∧ (∀ i, arrGet d arr i = (visible d arr)[i]?) ∧
    (∀ xs ys p, liveOf d (xs ++ ⟨p, none⟩ :: ys) = liveOf d (xs ++ ys)) ∧
    (∀ xs ys p c, live d c = false → liveOf d (xs ++ ⟨p, some c⟩ :: ys) = liveOf d (xs ++ ys)) := by
  refine ⟨rfl, fun _ => rfl, ?_, ?_⟩
  · intro xs ys p
    rw [liveOf_append, liveOf_cons, liveOf_append]; rfl
  · intro xs ys p c hc
    rw [liveOf_append, liveOf_cons, liveOf_append]
    simp [nodeLive, hc]

/-- `Marshal()` of an array prints exactly the visible elements, in order: the observable the
    correspondence compares is the one the specifications speak about -/
theorem marshal_shows_visible {d : Doc} {arr : Ticket} {nodes : List PosNode} (fuel : Nat)
    (ha : arrNodes d arr = some nodes) :
    marshal d (fuel + 1) arr = "[" ++ joinComma ((visible d arr).map (marshal d fuel)) ++ "]" :=
  marshal_arr fuel ha

/-! ### objects -/

/-- `Marshal()` of an object prints exactly the visible keys with their live members -/
theorem marshal_shows_keys {d : Doc} {obj : Ticket} {keys : List String}
    {member : String → Option Member} (fuel : Nat) (ho : objBody d obj = some (keys, member)) :
    marshal d (fuel + 1) obj =
      "{" ++ joinComma ((objKeys d obj).map (showMember d fuel obj)) ++ "}" :=
  marshal_obj fuel ho


/-- `SetInteger(k, …)` / `SetNewObject(k)` / …: finite-map update `m[k ↦ new]`; the new cell holds
    the value -/
theorem object_set_spec {d : Doc} {obj ts : Ticket} {keys : List String}
    {member : String → Option Member} (k : String) (v : Val) (hi : Inv d) (hn : Newer d ts)
    (ho : objBody d obj = some (keys, member)) :
    ∃ op, callOp d ts (.objSet obj k v) = .ok (some op) ∧ Pre d op ∧
      (∀ k', objGet (apply d op) obj k' = if k' = k then some ts else objGet d obj k') ∧
      (∀ k', k' ∈ objKeys (apply d op) obj ↔ k' = k ∨ k' ∈ objKeys d obj) ∧
      apply d op ts = some (newElem obj v) := by
  refine ⟨.set obj k v ts, by simp [callOp, ho], ?_⟩
  obtain ⟨h1, h2, h3⟩ := objSet_spec k v hi hn ho
  refine ⟨h1, h2, ?_, h3⟩
  intro k'
  rw [mem_objKeys (inv_apply hi h1), mem_objKeys hi, h2]
  by_cases hk : k' = k <;> simp [hk]

/-- `Delete(k)` of a present key: finite-map erase -/
theorem object_delete_spec {d : Doc} {obj ts c : Ticket} {k : String} (hi : Inv d) (hn : Newer d ts)
    (hk : objGet d obj k = some c) :
    ∃ op, callOp d ts (.objDelete obj k) = .ok (some op) ∧ Pre d op ∧
      (∀ k', objGet (apply d op) obj k' = if k' = k then none else objGet d obj k') ∧
      (∀ k', k' ∈ objKeys (apply d op) obj ↔ k' ≠ k ∧ k' ∈ objKeys d obj) := by
  unfold objGet at hk
  cases hob : objBody d obj with
  | none => rw [hob] at hk; cases hk
  | some p =>
    obtain ⟨keys, member⟩ := p
    rw [hob] at hk
    simp only at hk
    refine ⟨.remove obj c ts, by simp [callOp, hob, objDeleteOp, hk], ?_⟩
    obtain ⟨h1, h2⟩ := objDelete_spec hi hn hob hk
    refine ⟨h1, h2, ?_⟩
    intro k'
    rw [mem_objKeys (inv_apply hi h1), mem_objKeys hi, h2]
    by_cases hk' : k' = k <;> simp [hk']

/-- `Delete(k)` of an absent (or already deleted) key returns nil: no ticket, no operation -/
theorem object_delete_absent {d : Doc} {obj ts : Ticket} {keys : List String}
    {member : String → Option Member} {k : String} (ho : objBody d obj = some (keys, member))
    (hk : objGet d obj k = none) : callOp d ts (.objDelete obj k) = .ok none := by
  unfold objGet at hk
  rw [ho] at hk
  simp only at hk
  simp [callOp, ho, objDeleteOp, hk]

/-! ### counters -/

def width (long : Bool) : Nat := if long then 64 else 32

/-- `Increase(delta)`: two's-complement addition at the counter's width (`int32` / `int64`),
    the operand truncated to that width first -/
theorem counter_increase_spec {d : Doc} {cnt ts : Ticket} {long : Bool} {v : Int} (delta : Int)
    (hi : Inv d) (hc : counterOf d cnt = some (long, v)) :
    ∃ op, callOp d ts (.cntIncrease cnt delta) = .ok (some op) ∧ Pre d op ∧
      counterOf (apply d op) cnt =
        some (long, (BitVec.ofInt (width long) v + BitVec.ofInt (width long) delta).toInt) := by
  refine ⟨.increase cnt (wrap long delta) ts, by simp [callOp, hc], ?_⟩
  obtain ⟨h1, h2⟩ := increase_spec (ts := ts) delta hi hc
  refine ⟨h1, ?_⟩
  rw [h2, ← BitVec.ofInt_add, BitVec.toInt_ofInt]
  unfold wrap width
  cases long <;> rfl

/-! ### non-vacuity: the hypotheses hold on a document with a tombstone, a dead slot and a moved
    element, built by real calls -/

/-- `a = [1,2,3]`, `MoveLast(a[0])`, `Delete(0)`: nodes `[dead, tomb(2), 3, 1]`, visible `[3,1]` -/
def nvDoc : Doc := docOf (runCalls Doc.init (Ctx.begin 0 7) (wCalls ++ [.arrDelete wArr 0]))

set_option maxRecDepth 100000 in
example : visible nvDoc wArr = [⟨1, 4, 7⟩, ⟨1, 2, 7⟩] ∧
    (arrNodes nvDoc wArr).map (·.map (·.elem)) =
      some [none, some ⟨1, 3, 7⟩, some ⟨1, 4, 7⟩, some ⟨1, 2, 7⟩] := by
  refine ⟨by decide, by decide⟩

/-- `Inv` and `Dom` hold of it (and of every document an updater reaches) -/
example : ∀ out, runCalls Doc.init (Ctx.begin 0 7) (wCalls ++ [.arrDelete wArr 0]) = .ok out →
    Inv out.doc ∧ Dom out.ctx out.doc := by
  intro out h
  have hd : Dom (Ctx.begin 0 7) Doc.init := by
    apply Dom.begin
    intro i hi
    by_cases hr : i = rootId
    · subst hr; decide
    · exact absurd ⟨hr, hi⟩ (H0 i)
  exact ⟨(runCalls_sound Inv.init hd h).1, (runCalls_sound Inv.init hd h).2.1⟩

example : moveTo [⟨1, 1, 1⟩, ⟨1, 2, 1⟩, ⟨1, 3, 1⟩, ⟨1, 4, 1⟩] 1 ⟨1, 4, 1⟩ =
    [⟨1, 1, 1⟩, ⟨1, 4, 1⟩, ⟨1, 2, 1⟩, ⟨1, 3, 1⟩] := by decide

end Yorkie.Props.C07Json
