/-
C01 (text part): replicas of a `crdt.Text` converge.

Scope: ONE Text element, operations `Text.Edit` (insert, delete, replace; any positions) and
`operations.Style` (set / remove attributes), garbage collection off, no undo/redo; ANY number of
clients, ANY schedule of local edits, pushes and pulls (`Convergence.Sem.Step`); one Text operation
per change (every operation has its own Lamport value).

Two layers.
  * Abstract layer (`textSem : Sem TState TOp TId`, Lemmas/TextConvSem.lean): the state is the
    character-level content `TState.cells` – per UTF-16 unit: identity `(createdAt, offset)`, current
    code unit, tombstone FLAG, attribute register of live characters in canonical form, block
    boundaries – plus ghost bookkeeping of applied tickets.  `textLaws` instantiates the generic
    theorem; `text_converge_quiescent` is strong convergence for any history.
  * Block layer (Model/Text.lean, the model tied to the Go code): `abs : TextSt → Cells`;
    an enabled abstract operation is a successful `edit`/`styleOp` call and `abs` commutes with it
    (`text_enabled_means_call_ok`); replicas holding block lists and applying operations in their own
    arrival order (`BReach`) have equal `abs`, equal live content, equal `Text.String()` and equal
    `Text.Marshal()` when quiescent (`text_block_replicas_converge`); the author's local call with `vv = nil` agrees with the
    call with the change's vector (`text_local_call_agrees`).
The block list itself does NOT converge as a list: `removedAt_diverges` is the witness (internal
metadata that depends on the arrival order; same visible text).
`Text.Marshal()` is determined by `abs` as well (`text_marshal_determined_by_abs`), using the extra
invariant "attribute keys of a node are unique" (`AttrsNodup`, preserved by every call).
The design of `TOp`, `creates`, `refs`, `Pre` is explained in Lemmas/TextConvSem.lean.
-/
import YorkieModel.Lemmas.TextConvMarshal
namespace Yorkie.Props.C01Text
open Yorkie Yorkie.Text Yorkie.TextConv Yorkie.Convergence

abbrev TextSys := Sys TState TOp

/-- two independent operations commute on every state on which they are enabled, and stay enabled -/
theorem concurrent_ops_commute {d : TState} {a b : TOp}
    (ha : Pre d a) (hb : Pre (tapply d a) b) (hi : Indep a b) :
    Pre d b ∧ Pre (tapply d b) a ∧ tapply (tapply d a) b = tapply (tapply d b) a :=
  textLaws.H2 d a b ha hb hi

/-- co-enabled independent operations are concurrent in the sense of the Go code: different
    authors, and neither version vector covers the other's ticket -/
theorem independent_ops_are_concurrent {d : TState} {a b : TOp}
    (ha : Pre d a) (hb : Pre d b) (hi : Indep a b) :
    a.ts.actor ≠ b.ts.actor ∧ sees a.vv b.ts = false ∧ sees b.vv a.ts = false :=
  have hne := actors_ne ha hb hi
  ⟨hne, not_sees ha hb.2.2.2.2.2.2.2.2.1 (Ne.symm hne) hb.2.2.2.2.2.2.1,
    not_sees hb ha.2.2.2.2.2.2.2.2.1 hne ha.2.2.2.2.2.2.1⟩

/-- the text model satisfies every law the generic convergence theorem needs -/
theorem text_laws : textSem.Laws := textLaws

/-- every replica is the fold of the log prefix it has pulled, its own operations beyond that
    point, and its unpushed operations -/
theorem text_replica_is_server_fold {s : TextSys} (hr : textSem.Reachable s) (c : Nat) :
    (s.clients c).st =
      (s.log.take (s.clients c).cp ++
        (s.log.drop (s.clients c).cp).filter (fun b => textSem.author b = c) ++
        (s.clients c).pending).foldl tapply TState.init :=
  Sem.replica_eq_fold textLaws hr c

/-- **strong convergence**: two clients that have pushed everything and pulled up to the head hold
    the same text -/
theorem text_converge_quiescent {s : TextSys} (hr : textSem.Reachable s) (c₁ c₂ : Nat)
    (hp₁ : (s.clients c₁).pending = []) (hc₁ : (s.clients c₁).cp = s.log.length)
    (hp₂ : (s.clients c₂).pending = []) (hc₂ : (s.clients c₂).cp = s.log.length) :
    (s.clients c₁).st = (s.clients c₂).st :=
  Sem.converge_quiescent textLaws hr c₁ c₂ hp₁ hc₁ hp₂ hc₂

/-- the common result is a function of the server log alone -/
theorem text_result_is_log_fold {s : TextSys} (hr : textSem.Reachable s) (c : Nat)
    (hp : (s.clients c).pending = []) (hc : (s.clients c).cp = s.log.length) :
    (s.clients c).st = s.log.foldl tapply TState.init :=
  Sem.server_fold textLaws hr c hp hc

/-- the server's own rebuild never meets a disabled operation -/
theorem text_server_rebuild_never_fails {s : TextSys} (hr : textSem.Reachable s) :
    textSem.Valid TState.init s.log :=
  Sem.server_valid textLaws hr

/-- no synchronisation step fails: every pulled operation is enabled when it is applied -/
theorem text_pulled_ops_never_fail {s : TextSys} (hr : textSem.Reachable s) (c : Nat) :
    textSem.Valid (s.clients c).st (textSem.news s c) :=
  Sem.pull_valid textLaws hr c


/-! ### tie to the block model (`Model/Text.lean`, differential-tested against the Go code)

`abs : TextSt → Cells` forgets the order-dependent, unobservable parts of the block list.  `BReach s B`:
`B c` is the block list replica `c` holds after running the modelled Go calls in its own arrival
order (local calls with `vv = nil` or with the change's vector). -/

/-- an enabled operation is a successful `Text.Edit`/`Style.Execute` call on any block list that
    abstracts to the state, and the abstraction commutes with the call -/
theorem text_enabled_means_call_ok {d : TState} {o : TOp} {s : TextSt} (wf : WF s)
    (hd : abs s = d.cells) (hp : Pre d o) :
    ∃ s', exec o s = .ok s' ∧ WF s' ∧ abs s' = (tapply d o).cells :=
  exec_refines wf hd hp

/-- a valid operation sequence (e.g. the server log, `text_server_rebuild_never_fails`) replays on
    the block list without error -/
theorem text_valid_sequence_replays {L : List TOp} (hv : textSem.Valid TState.init L) :
    ∃ s', execAll L Text.init = .ok s' ∧ WF s' ∧ abs s' = (L.foldl tapply TState.init).cells :=
  execAll_refines wf_init abs_init hv

/-- every block replica is well-formed and abstracts to the abstract replica -/
theorem text_block_replica_abs {s : TextSys} {B : Nat → TextSt} (h : BReach s B) (c : Nat) :
    WF (B c) ∧ abs (B c) = (s.clients c).st.cells :=
  (breach_abs h).2 c

/-- on block replicas no local call of an enabled operation and no pull fails -/
theorem text_block_no_call_fails {s : TextSys} {B : Nat → TextSt} (h : BReach s B) (c : Nat) :
    (∀ a, Pre (s.clients c).st a → ∃ b', exec a (B c) = .ok b') ∧
    (∃ b', execAll (textSem.news s c) (B c) = .ok b') :=
  ⟨fun _ hp => exec_enabled h c hp, pull_enabled h c⟩

/-- **strong convergence of the block replicas**: two quiescent clients hold block lists with the same
    abstraction; in particular `Text.String()`, `Text.Marshal()` and the live content agree -/
theorem text_block_replicas_converge {s : TextSys} {B : Nat → TextSt} (h : BReach s B) (c₁ c₂ : Nat)
    (hp₁ : (s.clients c₁).pending = []) (hc₁ : (s.clients c₁).cp = s.log.length)
    (hp₂ : (s.clients c₂).pending = []) (hc₂ : (s.clients c₂).cp = s.log.length) :
    abs (B c₁) = abs (B c₂) ∧ visible (B c₁) = visible (B c₂) ∧
      (∀ tc, Text.toString tc (B c₁) = Text.toString tc (B c₂)) ∧
      (∀ tc, Text.marshal tc (B c₁) = Text.marshal tc (B c₂)) := by
  obtain ⟨hr, hB⟩ := breach_abs h
  have e : abs (B c₁) = abs (B c₂) := by
    rw [(hB c₁).2, (hB c₂).2, text_converge_quiescent hr c₁ c₂ hp₁ hc₁ hp₂ hc₂]
  refine ⟨e, by rw [visible_eq_liveUnits, visible_eq_liveUnits, e], fun tc => ?_, fun tc => ?_⟩
  · rw [toString_eq (hB c₁).1.toG, toString_eq (hB c₂).1.toG, e]
  · exact marshal_eq_of_abs (hB c₁).1.toG (hB c₂).1.toG (breach_attrs h c₁) (breach_attrs h c₂) e tc

/-- `Text.String()`, `Text.Marshal()` and the live content are determined by the abstract state -/
theorem text_marshal_determined_by_abs {s s' : TextSt} (wf : WF s) (wf' : WF s')
    (a : AttrsNodup s) (a' : AttrsNodup s') (h : abs s = abs s') (tc : Ticket) :
    Text.marshal tc s = Text.marshal tc s' ∧ Text.toString tc s = Text.toString tc s' ∧
      visible s = visible s' :=
  ⟨marshal_eq_of_abs wf.toG wf'.toG a a' h tc, by rw [toString_eq wf.toG, toString_eq wf'.toG, h],
    by rw [visible_eq_liveUnits, visible_eq_liveUnits, h]⟩

/-- the author's local call (`vv = nil`) and the call with the change's vector have the same
    abstraction -/
theorem text_local_call_agrees {d : TState} {o : TOp} {s : TextSt} (wf : WF s) (hd : abs s = d.cells)
    (hp : Pre d o) (hl : LocalOK o s) {b' : TextSt} (he : execLocal o s = .ok b') :
    WF b' ∧ abs b' = (tapply d o).cells :=
  execLocal_refines wf hd hp hl he

/-! ### why the state is not the block list: `removedAt` depends on the arrival order

Node "a" (created by actor 1) was deleted by actor 3 (ticket `wr`).  Actor 1, not having seen that,
deletes it again (`wa`); actor 2, having seen it, deletes it too (`wb`, the largest ticket).
`RGATreeSplitNode.Remove` overwrites a tombstone only when the previous one was unknown to the
deleter: in the order `wa, wb` the result is `wb`, in the order `wb, wa` it is `wa`.  The two
operations are concurrent; the visible text is the same (empty). -/
namespace Witness
def w0 : Ticket := ⟨1, 0, 1⟩
def wr : Ticket := ⟨5, 0, 3⟩
def wa : Ticket := ⟨6, 0, 1⟩
def wb : Ticket := ⟨7, 0, 2⟩
def pH : Pos := ⟨headId, 0⟩
def pE : Pos := ⟨(w0, 0), 1⟩
def base : Except Err TextSt :=
  (edit pH pH [97] [] w0 (some [(1, 1)]) Text.init).bind (edit pH pE [] [] wr (some [(1, 1), (3, 5)]))
def opA := edit pH pE [] [] wa (some [(1, 6)])
def opB := edit pH pE [] [] wb (some [(1, 1), (3, 5), (2, 7)])
def tombs (r : Except Err TextSt) : Option (List (Option Ticket)) := r.toOption.map (·.map (·.removedAt))
end Witness

open Witness in
theorem removedAt_diverges :
    tombs ((base.bind opA).bind opB) = some [none, some wb] ∧
    tombs ((base.bind opB).bind opA) = some [none, some wa] ∧
    ((base.bind opA).bind opB).toOption.map visible = ((base.bind opB).bind opA).toOption.map visible := by
  decide

/-! ### non-vacuity -/

def ts0 : Ticket := ⟨1, 0, 1⟩
def tsa : Ticket := ⟨2, 0, 1⟩
def tsb : Ticket := ⟨2, 0, 2⟩
def pHead : Pos := ⟨headId, 0⟩

/-- actor 1 types "ab" into the empty text -/
def o0 : TOp := { fr := pHead, to := pHead, body := .edit [97, 98] [], ts := ts0, vv := [(1, 1)], seq := 0, deps := [] }
/-- actor 1 deletes "ab" -/
def oa : TOp := { fr := pHead, to := ⟨(ts0, 0), 2⟩, body := .edit [] [], ts := tsa, vv := [(1, 2)], seq := 1, deps := [] }
/-- actor 2, having seen only "ab", concurrently inserts "X" between `a` and `b` -/
def ob : TOp := { fr := ⟨(ts0, 0), 1⟩, to := ⟨(ts0, 0), 1⟩, body := .edit [88] [], ts := tsb, vv := [(1, 1), (2, 2)], seq := 0, deps := [ts0] }

def d1 : TState := tapply TState.init o0

/-- what a vector with entries for actors 1 (up to `l1`) and possibly 2 sees of other actors -/
theorem sees_elim {vv : VV} {t : Ticket} (h : sees vv t = true) (hne : vv ≠ []) (hpos : 0 < t.lamport) :
    ∃ l, vv.get? t.actor = some l ∧ t.lamport ≤ l := by
  rcases sees_cases h with h | h | ⟨_, h⟩
  · exact absurd h hne
  · exact h
  · omega

theorem static_o0 : KB o0 ∧ Static o0 := by
  have key : ∀ t : Ticket, sees o0.vv t = true → t.actor ≠ o0.ts.actor → t.lamport ≤ 0 := by
    intro t hs hne
    rcases sees_cases hs with h | ⟨l, h1, _⟩ | ⟨_, h⟩
    · cases h
    · simp only [o0, VV.get?, ts0] at h1 hne
      split at h1
      · rename_i e; exact absurd e.symm hne
      · cases h1
    · exact h
  refine ⟨?_, by decide, ?_, ?_, ?_, ?_⟩
  · intro t hpos hs hne; have := key t hs hne; omega
  · intro t hs hne
    have := key t hs hne
    cases h : t.after o0.ts
    · rfl
    · rw [Ticket.after_iff] at h; simp only [o0, ts0] at h; omega
  · intro j hj; simp [o0, pHead, anchorOf, headId] at hj
  · intro c a h; simp only [o0] at h; injection h with h1 _; subst h1; unfold Fixed; decide
  · intro a k h; simp only [o0] at h; cases h

theorem pre_o0 : Pre TState.init o0 := by
  refine ⟨?_, Or.inl ⟨rfl, rfl⟩, Or.inl ⟨rfl, rfl⟩, rfl, rfl, ?_, ?_, static_o0.1, static_o0.2⟩
  · intro c hc; cases hc
  · intro u hu; cases hu
  · intro u hu; cases hu

theorem d1_applied (u : Ticket) : d1.applied u = true ↔ u = ts0 := by
  simp only [d1, tapply, TState.init, o0, Bool.or_false]
  exact ⟨of_decide_eq_true, decide_eq_true⟩

theorem static_oa : KB oa ∧ Static oa := by
  have key : ∀ t : Ticket, sees oa.vv t = true → t.actor ≠ oa.ts.actor → t.lamport ≤ 0 := by
    intro t hs hne
    rcases sees_cases hs with h | ⟨l, h1, _⟩ | ⟨_, h⟩
    · cases h
    · simp only [oa, VV.get?, tsa] at h1 hne
      split at h1
      · rename_i e; exact absurd e.symm hne
      · cases h1
    · exact h
  refine ⟨?_, by decide, ?_, ?_, ?_, ?_⟩
  · intro t hpos hs hne; have := key t hs hne; omega
  · intro t hs hne
    have := key t hs hne
    cases h : t.after oa.ts
    · rfl
    · rw [Ticket.after_iff] at h; simp only [oa, tsa] at h; omega
  · intro j hj
    have : (ts0, 1) = j := by simpa [oa, pHead, anchorOf, headId] using hj
    subst this; decide
  · intro c a h; simp only [oa] at h; injection h with h1 _; subst h1; unfold Fixed; decide
  · intro a k h; simp only [oa] at h; cases h

theorem static_ob : KB ob ∧ Static ob := by
  have key : ∀ t : Ticket, sees ob.vv t = true → t.actor ≠ ob.ts.actor →
      t.lamport ≤ 0 ∨ (t.actor = 1 ∧ t.lamport ≤ 1) := by
    intro t hs hne
    rcases sees_cases hs with h | ⟨l, h1, h2⟩ | ⟨_, h⟩
    · cases h
    · simp only [ob, VV.get?, tsb] at h1 hne
      split at h1
      · rename_i e; injection h1 with h1; right; exact ⟨e.symm, by omega⟩
      · split at h1
        · rename_i e; exact absurd e.symm hne
        · cases h1
    · exact Or.inl h
  refine ⟨?_, by decide, ?_, ?_, ?_, ?_⟩
  · intro t hpos hs hne
    rcases key t hs hne with h | ⟨h1, h2⟩
    · omega
    · exact ⟨ts0, by simp [ob], by simp [ts0, h1], by simpa [ts0] using h2⟩
  · intro t hs hne
    cases h : t.after ob.ts
    · rfl
    · rw [Ticket.after_iff] at h; simp only [ob, tsb] at h
      rcases key t hs hne with h' | ⟨_, h'⟩ <;> omega
  · intro j hj
    have : (ts0, 0) = j := by simpa [ob, anchorOf] using hj
    subst this; decide
  · intro c a h; simp only [ob] at h; injection h with h1 _; subst h1; unfold Fixed; decide
  · intro a k h; simp only [ob] at h; cases h

theorem inv_d1 : Inv d1 := inv_tapply (by intro c hc; cases hc)

theorem cids_d1 : cids d1.cells = [(ts0, 0), (ts0, 1)] := by decide

theorem pre_oa : Pre d1 oa := by
  refine ⟨inv_d1, Or.inl ⟨rfl, rfl⟩, Or.inr ⟨by decide, ?_⟩, by decide, by decide, ?_, ?_, static_oa.1, static_oa.2⟩
  · rw [cids_d1]; decide
  · intro u hu; cases hu
  · intro u hu _; rw [d1_applied] at hu; subst hu; decide

theorem pre_ob : Pre d1 ob := by
  refine ⟨inv_d1, Or.inr ⟨by decide, ?_⟩, Or.inr ⟨by decide, ?_⟩, by decide, by decide, ?_, ?_, static_ob.1, static_ob.2⟩
  · rw [cids_d1]; decide
  · rw [cids_d1]; decide
  · intro u hu; simp only [ob, List.mem_singleton] at hu; subst hu; decide
  · intro u hu ha; rw [d1_applied] at hu; subst hu; revert ha; decide

theorem indep_ab : Indep oa ob := by
  unfold Indep Sem.Indep textSem creates refs anchorRefs
  decide


/-! the run: 1 types "ab", pushes; 2 pulls; 1 deletes "ab" while 2 inserts "X" in the middle;
    2 pushes, 1 pushes (so the log order is insert, delete); both pull -/
def s1 : TextSys := textSem.editSys textSem.initSys 1 o0
def s3 : TextSys := textSem.pullSys (Sem.pushSys s1 1) 2
def s5 : TextSys := textSem.editSys (textSem.editSys s3 1 oa) 2 ob
def s9 : TextSys := textSem.pullSys (textSem.pullSys (Sem.pushSys (Sem.pushSys s5 2) 1) 1) 2

theorem tids_init (i : TId) : ¬ tids TState.init i := H0 i

theorem fresh_o0 : textSem.Fresh textSem.initSys o0 := by
  intro i _
  exact ⟨fun c' => tids_init i, fun b hb => (by cases hb), fun c' b hb => (by cases hb)⟩

theorem s1_reachable : textSem.Reachable s1 :=
  Sem.Reachable.init.step (Sem.Step.edit _ 1 o0 rfl pre_o0 fresh_o0)

theorem s3_reachable : textSem.Reachable s3 :=
  (s1_reachable.step (Sem.Step.push _ 1)).step (Sem.Step.pull _ 2)

theorem s3_st (c : Nat) : (s3.clients c).st = if c = 1 ∨ c = 2 then d1 else TState.init := by
  by_cases h1 : c = 1
  · subst h1; rfl
  · by_cases h2 : c = 2
    · subst h2; rfl
    · simp [s3, s1, Sem.pullSys, Sem.pushSys, Sem.editSys, Sem.initSys, upd, h1, h2, textSem]

theorem s3_pending (c : Nat) : (s3.clients c).pending = [] := by
  by_cases h1 : c = 1
  · subst h1; rfl
  · by_cases h2 : c = 2
    · subst h2; rfl
    · simp [s3, s1, Sem.pullSys, Sem.pushSys, Sem.editSys, Sem.initSys, upd, h1, h2]

theorem not_tids_d1 {i : TId} (h : i = .tk tsa ∨ i = .sq 1 1 ∨ i = .tk tsb ∨ i = .sq 2 0) :
    ¬ tids d1 i ∧ ¬ tids TState.init i := by
  rcases h with rfl | rfl | rfl | rfl <;> exact ⟨by decide, by decide⟩

theorem pre_oa' : Pre (s3.clients 1).st oa := by rw [s3_st]; exact pre_oa

theorem fresh_oa : textSem.Fresh s3 oa := by
  intro i hi
  have hi' : i = .tk tsa ∨ i = .sq 1 1 := by simpa [textSem, creates, oa, tsa] using hi
  have hn := not_tids_d1 (i := i) (by rcases hi' with h | h <;> simp [h])
  refine ⟨fun c' => ?_, fun b hb => ?_, fun c' b hb => ?_⟩
  · show ¬ tids (s3.clients c').st i
    rw [s3_st]; split
    · exact hn.1
    · exact hn.2
  · have : b = o0 := by simpa [s3, s1, Sem.pullSys, Sem.pushSys, Sem.editSys, Sem.initSys, upd] using hb
    subst this
    rcases hi' with rfl | rfl <;> decide
  · rw [s3_pending] at hb; cases hb

theorem pre_ob' : Pre ((textSem.editSys s3 1 oa).clients 2).st ob := by
  have : ((textSem.editSys s3 1 oa).clients 2).st = d1 := rfl
  rw [this]; exact pre_ob

theorem fresh_ob : textSem.Fresh (textSem.editSys s3 1 oa) ob := by
  intro i hi
  have hi' : i = .tk tsb ∨ i = .sq 2 0 := by simpa [textSem, creates, ob, tsb] using hi
  have hn := not_tids_d1 (i := i) (by rcases hi' with h | h <;> simp [h])
  refine ⟨fun c' => ?_, fun b hb => ?_, fun c' b hb => ?_⟩
  · show ¬ tids ((textSem.editSys s3 1 oa).clients c').st i
    by_cases h1 : c' = 1
    · subst h1
      have : ((textSem.editSys s3 1 oa).clients 1).st = tapply d1 oa := rfl
      rw [this]
      rcases hi' with rfl | rfl <;> decide
    · have : ((textSem.editSys s3 1 oa).clients c').st = (s3.clients c').st := by
        simp [Sem.editSys, upd, h1]
      rw [this, s3_st]; split
      · exact hn.1
      · exact hn.2
  · have : b = o0 := by simpa [s3, s1, Sem.pullSys, Sem.pushSys, Sem.editSys, Sem.initSys, upd] using hb
    subst this
    rcases hi' with rfl | rfl <;> decide
  · by_cases h1 : c' = 1
    · subst h1
      have : b = oa := by simpa [Sem.editSys, upd, s3_pending] using hb
      subst this
      rcases hi' with rfl | rfl <;> decide
    · have : ((textSem.editSys s3 1 oa).clients c').pending = [] := by
        simp [Sem.editSys, upd, h1, s3_pending]
      rw [this] at hb; cases hb

theorem s5_reachable : textSem.Reachable s5 :=
  (s3_reachable.step (Sem.Step.edit _ 1 oa rfl pre_oa' fresh_oa)).step
    (Sem.Step.edit _ 2 ob rfl pre_ob' fresh_ob)

theorem s9_reachable : textSem.Reachable s9 :=
  (((s5_reachable.step (Sem.Step.push _ 2)).step (Sem.Step.push _ 1)).step
    (Sem.Step.pull _ 1)).step (Sem.Step.pull _ 2)

/-- NON-VACUITY: a reachable execution with a concurrent delete / insert pair (log order: insert,
    then delete; client 1 applied them in the opposite order); both clients are quiescent, agree
    (by the theorem), and show "X": the concurrent insertion survives the deletion around it -/
example :
    textSem.Reachable s9 ∧ s9.log.map (·.ts) = [ts0, tsb, tsa] ∧
    (s9.clients 1).pending = [] ∧ (s9.clients 1).cp = s9.log.length ∧
    (s9.clients 2).pending = [] ∧ (s9.clients 2).cp = s9.log.length ∧
    (s9.clients 1).st = (s9.clients 2).st ∧
    liveUnits (s9.clients 1).st.cells = [88] ∧ cids (s9.clients 1).st.cells = [(ts0, 0), (tsb, 0), (ts0, 1)] :=
  ⟨s9_reachable, by decide, by decide, by decide, by decide, by decide,
    text_converge_quiescent s9_reachable 1 2 (by decide) (by decide) (by decide) (by decide),
    by decide, by decide⟩

/-- the two concurrent operations satisfy every hypothesis of the commutation law -/
example : Pre d1 oa ∧ Pre d1 ob ∧ Indep oa ob ∧ tapply (tapply d1 oa) ob = tapply (tapply d1 ob) oa :=
  ⟨pre_oa, pre_ob, indep_ab, swap_eq pre_oa pre_ob indep_ab⟩

/-- block lists along the run (computed by the model of the Go code) -/
def okOr (r : Except Err TextSt) : TextSt := match r with | .ok b => b | .error _ => []
def isOk (r : Except Err TextSt) : Bool := match r with | .ok _ => true | .error _ => false
theorem ok_of_isOk {r : Except Err TextSt} (h : isOk r = true) : r = .ok (okOr r) := by
  cases r with
  | ok b => rfl
  | error e => cases h
def b1 : TextSt := okOr (execLocal o0 Text.init)      -- client 1 after typing "ab" (local call)
def b2 : TextSt := okOr (execAll [o0] Text.init)      -- client 2 after pulling it
def b1a : TextSt := okOr (execLocal oa b1)            -- client 1 after its local delete
def b2b : TextSt := okOr (execLocal ob b2)            -- client 2 after its local insert
def b1f : TextSt := okOr (execAll [ob] b1a)           -- client 1 after pulling the insert
def b2f : TextSt := okOr (execAll [oa] b2b)           -- client 2 after pulling the delete

def B3 : Nat → TextSt := updB (updB (fun _ => Text.init) 1 b1) 2 b2
def B5 : Nat → TextSt := updB (updB B3 1 b1a) 2 b2b
def B9 : Nat → TextSt := updB (updB B5 1 b1f) 2 b2f

theorem breach_s9 : BReach s9 B9 := by
  have r1 : BReach s1 (updB (fun _ => Text.init) 1 b1) :=
    BReach.editLocal 1 o0 b1 BReach.init rfl pre_o0 fresh_o0 (by unfold LocalOK; decide) (ok_of_isOk (by decide))
  have r3 : BReach s3 B3 := BReach.pull 2 b2 (BReach.push 1 r1) (ok_of_isOk (by decide))
  have r4 : BReach (textSem.editSys s3 1 oa) (updB B3 1 b1a) :=
    BReach.editLocal 1 oa b1a r3 rfl pre_oa' fresh_oa (by unfold LocalOK; decide) (ok_of_isOk (by decide))
  have r5 : BReach s5 B5 :=
    BReach.editLocal 2 ob b2b r4 rfl pre_ob' fresh_ob (by unfold LocalOK; decide) (ok_of_isOk (by decide))
  exact BReach.pull 2 b2f (BReach.pull 1 b1f (BReach.push 1 (BReach.push 2 r5)) (ok_of_isOk (by decide))) (ok_of_isOk (by decide))


/-- NON-VACUITY at block level: the same run on block lists (local calls with `vv = nil`); both
    replicas show "X", and – by the theorem – print the same string -/
example :
    BReach s9 B9 ∧ visible (B9 1) = [88] ∧ visible (B9 2) = [88] ∧
    (∀ tc, Text.toString tc (B9 1) = Text.toString tc (B9 2)) :=
  ⟨breach_s9, by decide, by decide,
    (text_block_replicas_converge breach_s9 1 2 (by decide) (by decide) (by decide) (by decide)).2.2.1⟩

/-- actor 2, having seen only "ab", concurrently makes "ab" bold -/
def osty : TOp :=
  { fr := pHead, to := ⟨(ts0, 0), 2⟩, body := Body.style [("bold", "true")] [], ts := tsb,
    vv := [(1, 1), (2, 2)], seq := 0, deps := [ts0] }

theorem static_osty : KB osty ∧ Static osty := by
  have key : ∀ t : Ticket, sees osty.vv t = true → t.actor ≠ osty.ts.actor →
      t.lamport ≤ 0 ∨ (t.actor = 1 ∧ t.lamport ≤ 1) := by
    intro t hs hne
    rcases sees_cases hs with h | ⟨l, h1, h2⟩ | ⟨_, h⟩
    · cases h
    · simp only [osty, VV.get?, tsb] at h1 hne
      split at h1
      · rename_i e; injection h1 with h1; right; exact ⟨e.symm, by omega⟩
      · split at h1
        · rename_i e; exact absurd e.symm hne
        · cases h1
    · exact Or.inl h
  refine ⟨?_, by decide, ?_, ?_, ?_, ?_⟩
  · intro t hpos hs hne
    rcases key t hs hne with h | ⟨h1, h2⟩
    · omega
    · exact ⟨ts0, by simp [osty], by simp [ts0, h1], by simpa [ts0] using h2⟩
  · intro t hs hne
    cases h : t.after osty.ts
    · rfl
    · rw [Ticket.after_iff] at h; simp only [osty, tsb] at h
      rcases key t hs hne with h' | ⟨_, h'⟩ <;> omega
  · intro j hj
    have : (ts0, 1) = j := by simpa [osty, pHead, anchorOf, headId] using hj
    subst this; decide
  · intro c a h; simp only [osty] at h; cases h
  · intro a k h; simp only [osty] at h; injection h with h1 _; subst h1; simp

theorem pre_osty : Pre d1 osty := by
  refine ⟨inv_d1, Or.inl ⟨rfl, rfl⟩, Or.inr ⟨by decide, ?_⟩, by decide, by decide, ?_, ?_,
    static_osty.1, static_osty.2⟩
  · rw [cids_d1]; decide
  · intro u hu; simp only [osty, List.mem_singleton] at hu; subst hu; decide
  · intro u hu ha; rw [d1_applied] at hu; subst hu; revert ha; decide

/-- NON-VACUITY for `Style`: a style operation concurrent with the deletion `oa` is enabled,
    independent of it, the two commute, and it is a successful `Style.Execute` on the block list -/
example :
    Pre d1 osty ∧ Indep oa osty ∧ tapply (tapply d1 oa) osty = tapply (tapply d1 osty) oa ∧
    (∃ s', exec osty b2 = .ok s' ∧ WF s' ∧ abs s' = (tapply d1 osty).cells) := by
  have hi : Indep oa osty := by
    unfold Indep Sem.Indep textSem creates refs anchorRefs
    decide
  have hb2 : WF b2 ∧ abs b2 = d1.cells := by
    have := text_block_replica_abs (s := s3) (B := B3)
      (BReach.pull 2 b2 (BReach.push 1 (BReach.editLocal 1 o0 b1 BReach.init rfl pre_o0 fresh_o0
        (by unfold LocalOK; decide) (ok_of_isOk (by decide)))) (ok_of_isOk (by decide))) 2
    rw [s3_st] at this
    exact this
  exact ⟨pre_osty, hi, swap_eq pre_oa pre_osty hi, text_enabled_means_call_ok hb2.1 hb2.2 pre_osty⟩

end Yorkie.Props.C01Text
