/-
C03 "Garbage collection never breaks a later edit" (objects, arrays incl. move/set, counters).
Model: Model/FDoc.lean (faithful: removedAt tickets, LWW loser flags, dead slots, GC registries).

FULL STATEMENT (false of the pinned code; kept here, never weakened silently):
  for every history h of one replica (operations in arrival order interleaved with the purges that
  `ApplyChangePack` runs with the server's min version vector), `run true h init` and `run false h init` both
  succeed and end in equal `marshal`; lifted to all replicas and to the server's own rebuild.
What IS proved, for every root / history (unbounded):
  * `purge_invisible`, `purge_content`, `purge_wf`: `Root.GarbageCollect` with ANY vector changes neither
    `Marshal()` nor any visible member / element list (index, length, key lookup) of any surviving container
    and keeps the heap well-formed (`WF`), for every well-formed root; `wf_fexecute`, `wf_run`: every
    operation / history keeps roots well-formed;
  * `purge_only_covered`, `purge_slots_only_covered`: whatever leaves the heap / the slot registry was covered
    by the vector;
  * `gc_equiv_partial`, `gc_equiv_every_step`: GC-on run ≡ GC-off run (no failing sync, same content after
    every step) for every history satisfying the explicit decidable `SafeRun`: array operations only on arrays
    nothing was purged from, no `Set` that loses against a purged occupant; proved by a simulation relation
    (`Sim`: GC-on root = GC-off root minus invisible nodes) preserved by every purge and every `OpSafe` operation;
  * negation witnesses: four concrete histories (each the stream one replica executed in a corpus trace that is
    replayed on the real code on every run) on which the full statement fails.
-/
import YorkieModel.Lemmas.FDocWitness
import YorkieModel.Lemmas.FDocCovered
import YorkieModel.Lemmas.FDocEquiv
namespace Yorkie.Props.C03
open Yorkie Yorkie.FDoc Yorkie.FDoc.Witness Yorkie.Crdt

/-! ### purge is invisible -/

/-- `Root.GarbageCollect(v)` never changes `Marshal()` (any vector, any well-formed root). -/
theorem purge_invisible {v : VV} {r r' : Root} {n : Nat} (w : WF r) (h : garbageCollect v r = .ok (r', n)) :
    marshal r' = marshal r :=
  let inv := invisible_garbageCollect w h
  (inv.same rootId inv.root).2.1 64

/-- every container that survives a purge shows the same element list (hence the same length and the same
    element at every visible index) and the same member list (hence the same `Get/Has/Members`), and marshals
    alike at every nesting depth. -/
theorem purge_content {v : VV} {r r' : Root} {n : Nat} (w : WF r) (h : garbageCollect v r = .ok (r', n))
    (t : Ticket) (ht : r'.get t ≠ none) :
    arrayContent r' t = arrayContent r t ∧ objectContent r' t = objectContent r t ∧
      ∀ f, marshalAt r' f t = marshalAt r f t :=
  let s := (invisible_garbageCollect w h).same t ht
  ⟨s.2.2.1, s.2.2.2, s.2.1⟩

/-- a purge keeps the heap well-formed and never removes the root object. -/
theorem purge_wf {v : VV} {r r' : Root} {n : Nat} (w : WF r) (h : garbageCollect v r = .ok (r', n)) :
    WF r' ∧ r'.get rootId ≠ none :=
  let inv := invisible_garbageCollect w h
  ⟨inv.wf, inv.root⟩

/-- everything that leaves the heap is a tombstone whose `removedAt` the vector covers
    (`EqualToOrAfter`: absent actor ⇒ not covered), or a structural descendant of one. -/
theorem purge_only_covered {v : VV} {r r' : Root} {n : Nat} (h : garbageCollect v r = .ok (r', n))
    (t : Ticket) (h1 : r.get t ≠ none) (h2 : r'.get t = none) :
    ∃ c ce ra, r.get c = some ce ∧ ce.removedAt = some ra ∧ v.equalToOrAfter ra = true ∧ (t = c ∨ Desc r c t) :=
  (onlyCovered_garbageCollect h).2 t h1 h2

/-- survivors keep their `removedAt` and lose no structural child other than purged ones; dead-slot registry
    entries that disappear in the second loop were covered by the vector. -/
theorem purge_slots_only_covered (v : VV) (l : List GcNode) (r : Root) (n : Nat) (g : GcNode)
    (hg : g ∈ r.gcNodes) (hn : g ∉ (purgeNodes v l r n).1.gcNodes) :
    ∃ g' ∈ l, g'.pos = g.pos ∧ v.equalToOrAfter g'.removedAt = true :=
  purgeNodes_entries l r n g hg hn

/-! ### well-formedness is an invariant of every history -/

/-- every operation that executes keeps the heap well-formed (tickets of creating operations fresh). -/
theorem wf_fexecute {r r' : Root} {op : Op} (w : WF r) (hf : Fresh r op) (h : fexecute r op = .ok r') : WF r' :=
  FDoc.wf_fexecute w hf h

/-- operations and purges (no snapshot steps) keep every reachable root well-formed (`FreshRun`: tickets of creating
    operations are fresh along the run, Lemmas/FDocEquiv.lean). -/
theorem wf_run (gcOn : Bool) : ∀ (h : List Step) (r r' : Root), WF r → FreshRun gcOn h r →
    (∀ s ∈ h, ∀ p, s ≠ .snap p) → run gcOn h r = .ok r' → WF r' := by
  intro h
  induction h with
  | nil => intro r r' w _ _ hr; simp only [run] at hr; injection hr with hr; subst hr; exact w
  | cons s rest ih =>
    intro r r' w hf hns hr
    simp only [run] at hr
    obtain ⟨hf1, hf2⟩ := hf
    cases hs : runStep gcOn r s with
    | error e => simp [hs] at hr
    | ok r1 =>
      simp only [hs] at hr hf2
      have w1 : WF r1 := by
        cases s with
        | op o => exact FDoc.wf_fexecute w hf1 hs
        | gc v =>
          simp only [runStep] at hs
          split at hs
          · cases hg : garbageCollect v r with
            | error e => simp [hg] at hs
            | ok p =>
              simp only [hg] at hs
              injection hs with hs
              subst hs
              exact (invisible_garbageCollect (n := p.2) w (by rw [hg])).wf
          · injection hs with hs; subst hs; exact w
        | snap p => exact absurd rfl (hns _ (List.mem_cons_self ..) p)
      exact ih r1 r' w1 hf2 (fun s hs p => hns s (List.mem_cons_of_mem _ hs) p) hr

/-! ### GC-on run ≡ GC-off run under an explicit side condition

`SafeRun h g n` (Lemmas/FDocEquiv.lean) is `Safe`, evaluated along the two runs in lock-step (decidable).  At every
operation that the GC-off run executes: the operation's ticket is fresh, `OpSafe` holds between the two current
roots – array operations (`add`, `move`, `arraySet`) act on an array from which nothing has been purged
(`Untouched`), a `Set` does not lose against an occupant that has been purged (`SetSafe`), `remove` and `increase`
are unrestricted – and the operation finds its parent / anchors / targets in the GC-on root as well (it executes);
every purge executes.  The four C03 findings all violate `Untouched` (examples at the end). -/

/-- **`gc_equiv_partial`**: for every history that is `Safe` from the initial root, if the GC-off run succeeds
    then so does the GC-on run (every sync applies, every purge executes) and both end in the same content. -/
theorem gc_equiv_partial (h : List Step) (n' : Root) (safe : SafeRun h Root.init Root.init)
    (hr : run false h Root.init = .ok n') :
    ∃ g', run true h Root.init = .ok g' ∧ marshal g' = marshal n' := by
  obtain ⟨g', h1, s, wg, _⟩ := gc_equiv_sim h Root.init Root.init n' (Sim.refl wf_init) wf_init wf_init safe hr
  refine ⟨g', h1, sim_marshal s ?_⟩
  obtain ⟨b, hb⟩ := wg.root
  obtain ⟨e, he, _⟩ := get_of_skel hb
  exact present_of_get he

/-- … and the two runs show the same content after EVERY step, not only at the end. -/
theorem gc_equiv_every_step (h₁ h₂ : List Step) (n' : Root) (safe : SafeRun (h₁ ++ h₂) Root.init Root.init)
    (hr : run false (h₁ ++ h₂) Root.init = .ok n') :
    ∃ g₁ n₁, run true h₁ Root.init = .ok g₁ ∧ run false h₁ Root.init = .ok n₁ ∧ marshal g₁ = marshal n₁ := by
  obtain ⟨n₁, hn₁⟩ := run_prefix_ok false h₁ h₂ Root.init n' hr
  obtain ⟨g₁, hg₁, hm⟩ := gc_equiv_partial h₁ n₁ (safeRun_prefix h₁ h₂ _ _ safe) hn₁
  exact ⟨g₁, n₁, hg₁, hn₁, hm⟩

/-! ### negation witnesses (by kernel evaluation) -/

/-- json `Array.addInternal` anchored on `LastCreatedAt()` = the author's trailing tombstone; this replica
    purged it: the GC-on run fails with `child not found` where the GC-off run succeeds. -/
theorem gc_append_after_own_delete_witness :
    errOf (run true appendAfterOwnDelete Root.init) = some .childNotFound ∧
    errOf (run false appendAfterOwnDelete Root.init) = none := by decide

/-- purging a tombstone that has an insertion descendant changes where a concurrent insert lands:
    both runs succeed, the visible order differs. -/
theorem gc_reparenting_witness :
    contentOf (run true reparent Root.init) arr = some [⟨2, 1, 1⟩, ⟨13, 1, 2⟩, ⟨6, 1, 3⟩] ∧
    contentOf (run false reparent Root.init) arr = some [⟨2, 1, 1⟩, ⟨6, 1, 3⟩, ⟨13, 1, 2⟩] := by decide

/-- `ArraySet` on a moved element anchors on its original dead slot if present, else on its current
    position: purging the slot moves the replaced value. -/
theorem gc_set_anchor_purged_witness :
    contentOf (run true setAnchorPurged Root.init) arr = some [⟨3, 1, 1⟩, ⟨4, 1, 1⟩, ⟨6, 1, 1⟩] ∧
    contentOf (run false setAnchorPurged Root.init) arr = some [⟨6, 1, 1⟩, ⟨3, 1, 1⟩, ⟨4, 1, 1⟩] := by decide

/-- the same on ONE replica: after the move is acked the dead slot is purged; `SetInteger(idx)` on the moved element
    then puts the new value next to the element's current position, without GC next to its original slot. -/
theorem gc_set_anchor_purged_single_witness :
    contentOf (run true setAnchorPurgedSingle Root.init) arr = some [⟨3, 1, 1⟩, ⟨4, 1, 1⟩, ⟨6, 1, 1⟩] ∧
    contentOf (run false setAnchorPurgedSingle Root.init) arr = some [⟨6, 1, 1⟩, ⟨3, 1, 1⟩, ⟨4, 1, 1⟩] := by decide

/-- the dead slot of a losing move carries the move's own ticket as `removedAt` and is purged while the
    author still anchors on the position. -/
theorem gc_losing_move_slot_witness :
    errOf (run true losingMoveSlot Root.init) = some .childNotFound ∧
    errOf (run false losingMoveSlot Root.init) = none := by decide

/-! ### non-vacuity -/

/-- the initial root is well-formed; a history with inserts, a delete in the middle of an array, an
    overwritten key and a purge is fresh, runs, and really purges two tombstones (the GC-on and GC-off heaps
    differ in size) – so `WF`, `FreshRun` and the hypotheses of `purge_invisible` are met non-trivially. -/
example : WF Root.init := wf_init
example : FreshRun true safeExample Root.init := by decide
example : (match run true safeExample Root.init, run false safeExample Root.init with
    | .ok g, .ok n => g.elems.length + 2 == n.elems.length && garbageLen n == 2 && garbageLen g == 0
    | _, _ => false) = true := by decide
example : (match run true safeExample Root.init, run false safeExample Root.init with
    | .ok g, .ok n => marshal g == marshal n
    | _, _ => false) = true := by decide

/-- `Safe` holds of a non-trivial history (array filled, element deleted, keys overwritten and deleted, counter
    increased, a move, two purges that remove four tombstones and a dead slot, object edited after the purges incl. a `Set` on a key whose
    deleted occupant was purged) and fails on every witness history. -/
example : SafeRun safeRunExample Root.init Root.init := by decide
example : (match run true safeRunExample Root.init, run false safeRunExample Root.init with
    | .ok g, .ok n => g.elems.length + 4 == n.elems.length && garbageLen n == 5 && garbageLen g == 0
    | _, _ => false) = true := by decide
example : ¬ SafeRun appendAfterOwnDelete Root.init Root.init := by decide
example : ¬ SafeRun reparent Root.init Root.init := by decide
example : ¬ SafeRun setAnchorPurged Root.init Root.init := by decide
example : ¬ SafeRun setAnchorPurgedSingle Root.init Root.init := by decide
example : ¬ SafeRun losingMoveSlot Root.init Root.init := by decide

end Yorkie.Props.C03
