/-
C06  Logical clocks are causal and the server's minimum vector never overstates.

Property theorems only (helper lemmas live in Lemmas/VV.lean).  The client is the
state machine of `Document`'s clock handling: `localEdit` = `Update` creating a
clock-carrying change (`ID.Next()`), `recv d` = applying a remote change
(`ID.SyncClocks(d)`), `snap l v` = applying a snapshot (`ID.SetClocks(l, v)`).
Presence-only changes (`Next(true)`) carry no clock by design and are outside the
causal clauses; `nextPresenceOnly_noClock` states that.
-/
import YorkieModel.Lemmas.FDocSnapArr
import YorkieModel.Lemmas.VV
import YorkieModel.Generated.Consts
namespace Yorkie.Props.C06
open Yorkie

/-- replica clock invariant: every entry is between 0 and the replica's lamport -/
def Inv (id : ChangeID) : Prop :=
  (∀ a x, id.vv.get? a = some x → 0 ≤ x ∧ x ≤ id.lamport) ∧ 0 ≤ id.lamport

inductive Ev
  | localEdit
  | recv (d : ChangeID)
  | snap (l : Int) (v : VV)

def step (id : ChangeID) : Ev → ChangeID
  | .localEdit => id.next
  | .recv d => id.syncClocks d
  | .snap l v => id.setClocks l v

/-- what a remote input must satisfy to be a clock produced by the system -/
def EvOk : Ev → Prop
  | .localEdit => True
  | .recv d => Inv d
  | .snap l v => 0 ≤ l ∧ ∀ a x, v.get? a = some x → 0 ≤ x ∧ x ≤ l

/-- clause 1: a clock-carrying change names its own author at exactly its own timestamp -/
theorem next_self (id : ChangeID) : (id.next).vv.get? (id.next).actor = some (id.next).lamport := by
  simp [ChangeID.next, VV.get?_set]

theorem nextPresenceOnly_noClock (id : ChangeID) : (id.nextPresenceOnly).hasClocks = false := by
  simp [ChangeID.nextPresenceOnly, ChangeID.hasClocks]

theorem inv_initial (a : Actor) : Inv (ChangeID.initial.setActor a) := by
  simp [Inv, ChangeID.initial, ChangeID.setActor]

theorem inv_next (id : ChangeID) (h : Inv id) : Inv id.next := by
  obtain ⟨h1, h2⟩ := h
  refine ⟨?_, by simp [ChangeID.next]; omega⟩
  intro a x hx
  simp only [ChangeID.next, VV.get?_set] at hx ⊢
  split at hx
  · injection hx with hx; omega
  · have := h1 a x hx; omega

theorem inv_syncClocks (id d : ChangeID) (h : Inv id) (hd : Inv d) : Inv (id.syncClocks d) := by
  unfold ChangeID.syncClocks
  split
  · exact h
  · obtain ⟨h1, h2⟩ := h
    obtain ⟨d1, d2⟩ := hd
    refine ⟨?_, by simp only []; omega⟩
    intro a x hx
    simp only [VV.get?_set] at hx
    simp only []
    split at hx
    · injection hx with hx; omega
    · rcases VV.max_entry_cases _ _ _ _ hx with hx | hx
      · have := h1 a x hx; omega
      · have := d1 a x hx; omega

theorem inv_setClocks (id : ChangeID) (l : Int) (v : VV) (h : Inv id)
    (hv : 0 ≤ l ∧ ∀ a x, v.get? a = some x → 0 ≤ x ∧ x ≤ l) : Inv (id.setClocks l v) := by
  obtain ⟨h1, h2⟩ := h
  obtain ⟨v0, v1⟩ := hv
  unfold ChangeID.setClocks
  refine ⟨?_, by simp only []; omega⟩
  intro a x hx
  simp only [VV.get?_set] at hx
  simp only []
  split at hx
  · injection hx with hx; omega
  · rcases VV.max_entry_cases _ _ _ _ hx with hx | hx
    · have := h1 a x hx; omega
    · have := v1 a x hx; omega

theorem inv_step (id : ChangeID) (e : Ev) (h : Inv id) (he : EvOk e) : Inv (step id e) := by
  cases e with
  | localEdit => exact inv_next id h
  | recv d => exact inv_syncClocks id d h he
  | snap l v => exact inv_setClocks id l v h he

/-- every step only grows the replica's clock, and keeps its actor -/
theorem step_mono (id : ChangeID) (e : Ev) (h : Inv id) (he : EvOk e) :
    id.lamport ≤ (step id e).lamport ∧ VV.le id.vv (step id e).vv ∧ (step id e).actor = id.actor := by
  obtain ⟨h1, h2⟩ := h
  cases e with
  | localEdit =>
    refine ⟨by simp only [step, ChangeID.next]; omega, ?_, rfl⟩
    exact VV.le_set _ _ _ (fun x hx => by have := h1 _ x hx; omega)
  | recv d =>
    obtain ⟨d1, d2⟩ := he
    simp only [step, ChangeID.syncClocks]
    split
    · exact ⟨Int.le_refl _, VV.le_refl _, rfl⟩
    · refine ⟨by simp only []; omega, ?_, rfl⟩
      refine VV.le_trans (VV.le_max_left id.vv d.vv) (VV.le_set _ _ _ ?_)
      intro x hx
      rcases VV.max_entry_cases _ _ _ _ hx with hx | hx
      · have := h1 _ x hx; omega
      · have := d1 _ x hx; omega
  | snap l v =>
    obtain ⟨v0, v1⟩ := he
    simp only [step, ChangeID.setClocks]
    refine ⟨by omega, ?_, trivial⟩
    refine VV.le_trans (VV.le_max_left id.vv v) (VV.le_set _ _ _ ?_)
    intro x hx
    rcases VV.max_entry_cases _ _ _ _ hx with hx | hx
    · have := h1 _ x hx; omega
    · have := v1 _ x hx; omega

/-- clause 2a: applying a clock-carrying change `d` makes the replica strictly newer than `d`
    and at least `d`'s vector -/
theorem recv_dominates (id d : ChangeID) (h : Inv id) (hd : Inv d) (hc : d.hasClocks = true) :
    d.lamport < (id.syncClocks d).lamport ∧ VV.le d.vv (id.syncClocks d).vv := by
  obtain ⟨h1, h2⟩ := h
  obtain ⟨d1, d2⟩ := hd
  simp only [ChangeID.syncClocks, hc, Bool.not_true, Bool.false_eq_true, if_false]
  refine ⟨by omega, ?_⟩
  refine VV.le_trans (VV.le_max_right id.vv d.vv) (VV.le_set _ _ _ ?_)
  intro x hx
  rcases VV.max_entry_cases _ _ _ _ hx with hx | hx
  · have := h1 _ x hx; omega
  · have := d1 _ x hx; omega

def run (id : ChangeID) (evs : List Ev) : ChangeID := evs.foldl step id

theorem inv_run (id : ChangeID) (evs : List Ev) (h : Inv id) (he : ∀ e ∈ evs, EvOk e) : Inv (run id evs) := by
  induction evs generalizing id with
  | nil => exact h
  | cons e r ih =>
    exact ih (step id e) (inv_step id e h (he e (List.mem_cons_self ..)))
      (fun e' h' => he e' (List.mem_cons_of_mem _ h'))

theorem run_mono (id : ChangeID) (evs : List Ev) (h : Inv id) (he : ∀ e ∈ evs, EvOk e) :
    id.lamport ≤ (run id evs).lamport ∧ VV.le id.vv (run id evs).vv ∧ (run id evs).actor = id.actor := by
  induction evs generalizing id with
  | nil => exact ⟨Int.le_refl _, VV.le_refl _, rfl⟩
  | cons e r ih =>
    have he0 := he e (List.mem_cons_self ..)
    obtain ⟨a1, a2, a3⟩ := step_mono id e h he0
    obtain ⟨b1, b2, b3⟩ := ih (step id e) (inv_step id e h he0) (fun e' h' => he e' (List.mem_cons_of_mem _ h'))
    exact ⟨Int.le_trans a1 b1, VV.le_trans a2 b2, by simpa [run, a3] using b3⟩

/-- clause 2 (causality), for every client trace: a change `c` created after the author applied
    `d` (with any events in between) has `vv(c) ≥ vv(d)` and `lamport(c) > lamport(d)`. -/
theorem change_causal (id d : ChangeID) (pre mid : List Ev) (h : Inv id)
    (hpre : ∀ e ∈ pre, EvOk e) (hmid : ∀ e ∈ mid, EvOk e) (hd : Inv d) (hc : d.hasClocks = true) :
    let c := (run id (pre ++ [Ev.recv d] ++ mid)).next
    d.lamport < c.lamport ∧ VV.le d.vv c.vv := by
  intro c
  have hs : run id (pre ++ [Ev.recv d] ++ mid) = run ((run id pre).syncClocks d) mid := by
    simp [run, List.foldl_append, step]
  have i1 := inv_run id pre h hpre
  have i2 := inv_syncClocks _ d i1 hd
  obtain ⟨r1, r2⟩ := recv_dominates _ d i1 hd hc
  obtain ⟨m1, m2, _⟩ := run_mono _ mid i2 hmid
  have i3 := inv_run _ mid i2 hmid
  obtain ⟨n1, n2, _⟩ := step_mono _ Ev.localEdit i3 trivial
  simp only [c, hs]
  refine ⟨?_, VV.le_trans r2 (VV.le_trans m2 n2)⟩
  have : (run ((run id pre).syncClocks d) mid).next.lamport = (run ((run id pre).syncClocks d) mid).lamport + 1 := rfl
  omega

/-- clause 2 for the author's own earlier change: it is also dominated, strictly in lamport. -/
theorem own_change_causal (id : ChangeID) (mid : List Ev) (h : Inv id) (hmid : ∀ e ∈ mid, EvOk e) :
    let d := id.next
    let c := (run d mid).next
    d.lamport < c.lamport ∧ VV.le d.vv c.vv ∧ c.actor = d.actor := by
  intro d c
  have i1 := inv_next id h
  obtain ⟨m1, m2, m3⟩ := run_mono d mid i1 hmid
  have i2 := inv_run d mid i1 hmid
  obtain ⟨n1, n2, n3⟩ := step_mono _ Ev.localEdit i2 trivial
  refine ⟨?_, VV.le_trans m2 n2, ?_⟩
  · have : c.lamport = (run d mid).lamport + 1 := rfl
    omega
  · show (run d mid).next.actor = d.actor
    simpa [ChangeID.next] using m3

/-- the changes a client emits along a trace (state *after* `Next`) -/
def emitted : ChangeID → List Ev → List ChangeID
  | _, [] => []
  | id, .localEdit :: r => id.next :: emitted id.next r
  | id, e :: r => emitted (step id e) r

theorem emitted_bounds (id : ChangeID) (evs : List Ev) (h : Inv id) (he : ∀ e ∈ evs, EvOk e) :
    ∀ c ∈ emitted id evs, id.lamport < c.lamport ∧ c.actor = id.actor := by
  induction evs generalizing id with
  | nil => simp [emitted]
  | cons e r ih =>
    have he0 := he e (List.mem_cons_self ..)
    have her : ∀ e' ∈ r, EvOk e' := fun e' h' => he e' (List.mem_cons_of_mem _ h')
    obtain ⟨a1, _, a3⟩ := step_mono id e h he0
    have hi := inv_step id e h he0
    cases e with
    | localEdit =>
      intro c hc
      simp only [emitted, List.mem_cons] at hc
      rcases hc with rfl | hc
      · exact ⟨by simp only [ChangeID.next]; omega, rfl⟩
      · have := ih id.next hi her c hc
        simp only [step] at a1 a3
        exact ⟨by omega, by rw [this.2, a3]⟩
    | recv d =>
      intro c hc
      have := ih _ hi her c (by simpa [emitted] using hc)
      exact ⟨by omega, by rw [this.2, a3]⟩
    | snap l v =>
      intro c hc
      have := ih _ hi her c (by simpa [emitted] using hc)
      exact ⟨by omega, by rw [this.2, a3]⟩

/-- clause 3a: timestamps of one author only grow – along any trace the emitted lamports are
    strictly increasing, hence pairwise distinct. -/
theorem emitted_strictMono (id : ChangeID) (evs : List Ev) (h : Inv id) (he : ∀ e ∈ evs, EvOk e) :
    (emitted id evs).Pairwise (fun c₁ c₂ => c₁.lamport < c₂.lamport) := by
  induction evs generalizing id with
  | nil => simp [emitted]
  | cons e r ih =>
    have he0 := he e (List.mem_cons_self ..)
    have her : ∀ e' ∈ r, EvOk e' := fun e' h' => he e' (List.mem_cons_of_mem _ h')
    have hi := inv_step id e h he0
    cases e with
    | localEdit =>
      simp only [emitted, List.pairwise_cons]
      exact ⟨fun c hc => (emitted_bounds id.next r hi her c hc).1, ih id.next hi her⟩
    | recv d => simpa [emitted] using ih _ hi her
    | snap l v => simpa [emitted] using ih _ hi her

/-- clause 3 (uniqueness per document): clients with pairwise different actors, each running any
    trace of its own, never emit two changes with the same `(lamport, actor)`. -/
theorem ticket_unique (clients : List (Actor × List Ev))
    (hact : (clients.map (·.1)).Nodup) (hev : ∀ p ∈ clients, ∀ e ∈ p.2, EvOk e) :
    (clients.flatMap (fun p => emitted (ChangeID.initial.setActor p.1) p.2)).Pairwise
      (fun c₁ c₂ => ¬ (c₁.lamport = c₂.lamport ∧ c₁.actor = c₂.actor)) := by
  induction clients with
  | nil => simp
  | cons p r ih =>
    simp only [List.flatMap_cons, List.pairwise_append]
    simp only [List.map_cons, List.nodup_cons] at hact
    refine ⟨?_, ih hact.2 (fun q hq => hev q (List.mem_cons_of_mem _ hq)), ?_⟩
    · have := emitted_strictMono (ChangeID.initial.setActor p.1) p.2 (inv_initial _) (hev p (List.mem_cons_self ..))
      exact this.imp (fun hlt hEq => by omega)
    · intro c₁ h₁ c₂ h₂ hEq
      have a1 := (emitted_bounds _ p.2 (inv_initial _) (hev p (List.mem_cons_self ..)) c₁ h₁).2
      obtain ⟨q, hq, hc₂⟩ := List.mem_flatMap.mp h₂
      have a2 := (emitted_bounds _ q.2 (inv_initial _) (hev q (List.mem_cons_of_mem _ hq)) c₂ hc₂).2
      have : p.1 = q.1 := by
        simp only [ChangeID.setActor, ChangeID.initial] at a1 a2
        rw [← a1, ← a2]; exact hEq.2
      exact hact.1 (this ▸ List.mem_map_of_mem (f := (·.1)) hq)

/-- clause 4: the minimum vector handed out with a response (`MinVersionVector(request vector,
    stored rows…)`) is, for every actor, no greater than any participating row. -/
theorem minVV_never_overstates (req : VV) (rows : List VV)
    (hreq : req.NonNeg) (hrows : ∀ v ∈ rows, v.NonNeg) :
    ∀ v ∈ req :: rows, ∀ a x, (minVV (req :: rows)).get? a = some x → x ≤ v.versionOf a :=
  minVV_le_versionOf (req :: rows) (by
    intro v hv
    rcases List.mem_cons.mp hv with rfl | hv
    · exact hreq
    · exact hrows v hv)

/-- clause 4 in the form garbage collection uses it (`EqualToOrAfter(removedAt)`): whatever the handed-out minimum
    vector COVERS – so whatever any peer is allowed to purge on its account – every participating vector (the
    requester's and every stored row) covers too: no client is asked to forget a tombstone that some attached
    participating client has not yet acknowledged. (`0 < t.lamport`: real tickets; the initial ticket has lamport 0
    and is never a removal time.) -/
theorem minVV_covered_is_acknowledged_by_all (req : VV) (rows : List VV)
    (hreq : req.NonNeg) (hrows : ∀ v ∈ rows, v.NonNeg) (t : Ticket) (ht : 0 < t.lamport)
    (hcov : (minVV (req :: rows)).equalToOrAfter t = true) :
    ∀ v ∈ req :: rows, v.equalToOrAfter t = true := by
  intro v hv
  unfold VV.equalToOrAfter at hcov ⊢
  cases hm : (minVV (req :: rows)).get? t.actor with
  | none => simp [hm] at hcov
  | some l =>
    simp only [hm, decide_eq_true_eq] at hcov
    have hle := minVV_never_overstates req rows hreq hrows v hv t.actor l hm
    unfold VV.versionOf at hle
    cases hg : v.get? t.actor with
    | none => simp only [hg, Option.getD_none] at hle; omega
    | some y => simp only [hg, Option.getD_some] at hle; simp only [decide_eq_true_eq]; omega

/-- contrapositive, the way a violation would look: one participating vector that has NOT seen `t` keeps the
    minimum from covering it -/
theorem unacknowledged_not_covered (req : VV) (rows : List VV)
    (hreq : req.NonNeg) (hrows : ∀ v ∈ rows, v.NonNeg) (t : Ticket) (ht : 0 < t.lamport)
    (v : VV) (hv : v ∈ req :: rows) (hno : v.equalToOrAfter t = false) :
    (minVV (req :: rows)).equalToOrAfter t = false := by
  cases h : (minVV (req :: rows)).equalToOrAfter t with
  | false => rfl
  | true =>
    have := minVV_covered_is_acknowledged_by_all req rows hreq hrows t ht h v hv
    rw [this] at hno; cases hno

example : (minVV [[(1, 5), (2, 3)], [(1, 4), (2, 7)]]).equalToOrAfter ⟨4, 0, 1⟩ = true ∧
    (minVV [[(1, 5), (2, 3)], [(1, 4), (2, 7)]]).equalToOrAfter ⟨5, 0, 1⟩ = false := by decide

/-- …and what a client has acknowledged only grows, so a stored row (its vector at request time)
    never exceeds the client's current vector. -/
theorem row_le_current (atRequest : ChangeID) (later : List Ev) (h : Inv atRequest)
    (he : ∀ e ∈ later, EvOk e) (a : Actor) :
    atRequest.vv.versionOf a ≤ (run atRequest later).vv.versionOf a := by
  obtain ⟨_, m2, _⟩ := run_mono atRequest later h he
  exact VV.versionOf_le_of_le m2 (fun a y hy => ((inv_run atRequest later h he).1 a y hy).1) a

/-! ### the merge of vectors is a least upper bound; coverage is monotone (added; tie: engine `time`, `VV.max` lines) -/

/-- `Max` is the LEAST upper bound: anything that dominates both dominates the merge (a replica's vector is
    never larger than what the changes it applied account for) -/
theorem vv_max_lub {v o w : VV} (hv : VV.le v w) (ho : VV.le o w) : VV.le (v.max o) w := by
  intro a x h
  rcases VV.max_entry_cases v o a x h with h1 | h1
  · exact hv a x h1
  · exact ho a x h1

/-- the order in which two vectors are merged does not matter, entry by entry -/
theorem vv_max_get_comm (v o : VV) (a : Actor) : (v.max o).get? a = (o.max v).get? a := by
  rw [VV.get?_max, VV.get?_max]
  cases hv : v.get? a <;> cases ho : o.get? a <;> simp [VV.maxVal, hv, ho, Int.max_comm]

/-- merging a vector again changes no entry (a re-delivered change does not move the clock) -/
theorem vv_max_get_idem (v o : VV) (a : Actor) : ((v.max o).max o).get? a = (v.max o).get? a := by
  rw [VV.get?_max (v.max o) o, VV.get?_max v o]
  cases hv : v.get? a <;> cases ho : o.get? a <;> simp [VV.maxVal, ho, Int.max_assoc]

theorem vv_max_get_assoc (u v w : VV) (a : Actor) : ((u.max v).max w).get? a = (u.max (v.max w)).get? a := by
  rw [VV.get?_max (u.max v) w, VV.get?_max u v, VV.get?_max u (v.max w)]
  cases hu : u.get? a <;> cases hv : v.get? a <;> cases hw : w.get? a <;>
    simp [VV.maxVal, VV.get?_max, hv, hw, Int.max_assoc]

/-- coverage is monotone: a larger vector covers every ticket a smaller one covers … -/
theorem covers_mono {v w : VV} (h : VV.le v w) (t : Ticket) (hc : v.equalToOrAfter t = true) :
    w.equalToOrAfter t = true := by
  unfold VV.equalToOrAfter at hc ⊢
  cases hv : v.get? t.actor with
  | none => simp [hv] at hc
  | some l =>
    simp only [hv, decide_eq_true_eq] at hc
    obtain ⟨y, hy, hle⟩ := h _ _ hv
    simp only [hy, decide_eq_true_eq]; omega

/-- … hence a replica that covers a ticket covers it after any further well-formed events: what was purgeable
    once stays purgeable, GC decisions are never revoked by later clock movement -/
theorem covers_forever (id : ChangeID) (later : List Ev) (h : Inv id) (he : ∀ e ∈ later, EvOk e) (t : Ticket)
    (hc : id.vv.equalToOrAfter t = true) : (run id later).vv.equalToOrAfter t = true :=
  covers_mono (run_mono id later h he).2.1 t hc

example : VV.le [(1, 2)] [(2, 9), (1, 3)] ∧ VV.equalToOrAfter [(1, 2)] ⟨2, 0, 1⟩ = true := by
  refine ⟨?_, by decide⟩
  intro a x h
  simp only [VV.get?] at h
  split at h
  · rename_i ha; subst ha; injection h with h; subst h; exact ⟨3, by decide, by decide⟩
  · cases h

/-! ### `Ticket.Compare` is a strict total order on tickets (added; tie: engine `time`, `TK.cmp` / `TK.after` lines):
    every last-writer-wins decision is well defined, independent of the order of comparison, and two different
    tickets are never tied -/

theorem ticket_cmp_eq_iff (a b : Ticket) : a.cmp b = .eq ↔ a = b := by
  cases a; cases b
  simp only [Ticket.cmp, Ticket.mk.injEq]
  grind

theorem ticket_cmp_swap (a b : Ticket) : a.cmp b = .gt ↔ b.cmp a = .lt := by
  unfold Ticket.cmp; grind

theorem ticket_after_irrefl (a : Ticket) : a.after a = false := by
  simp [Ticket.after, Ticket.cmp]

theorem ticket_after_asymm (a b : Ticket) (h : a.after b = true) : b.after a = false := by
  cases hb : b.after a with
  | false => rfl
  | true =>
    simp only [Ticket.after, beq_iff_eq] at h hb
    exact absurd ((FDoc.cmp_gt_iff b a).mp hb) (FDoc.gt3_asymm ((FDoc.cmp_gt_iff a b).mp h))

theorem ticket_after_trans (a b c : Ticket) (h₁ : a.after b = true) (h₂ : b.after c = true) : a.after c = true := by
  simp only [Ticket.after, beq_iff_eq] at *
  exact (FDoc.cmp_gt_iff a c).mpr (FDoc.gt3_trans ((FDoc.cmp_gt_iff a b).mp h₁) ((FDoc.cmp_gt_iff b c).mp h₂))

theorem ticket_after_total (a b : Ticket) (h : a ≠ b) : a.after b = true ∨ b.after a = true := by
  cases a; cases b
  simp only [ne_eq, Ticket.mk.injEq] at h
  simp only [Ticket.after, Ticket.cmp]
  grind

/-- T-gen tie: the initial values the model starts from are the constants in the source. -/
theorem consts_match :
    ChangeID.initial.lamport = (Generated.Consts.initialLamport : Int) ∧
    ChangeID.initial.clientSeq = Generated.Consts.initialClientSeq ∧
    ChangeID.initial.serverSeq = (Generated.Consts.initialServerSeq : Int) ∧
    Checkpoint.initial = ⟨(Generated.Consts.initialServerSeq : Int), Generated.Consts.initialClientSeq⟩ := by
  decide

/-! Non-vacuity: a concrete three-actor exchange satisfies every hypothesis used above. -/
example :
    let a := (ChangeID.initial.setActor 1).next
    let b := ((ChangeID.initial.setActor 2).next).next
    Inv a ∧ Inv b ∧ b.hasClocks = true ∧ EvOk (.recv b) ∧
    (run (ChangeID.initial.setActor 1) [.localEdit, .recv b, .localEdit]).lamport = 4 := by
  refine ⟨inv_next _ (inv_initial 1), inv_next _ (inv_next _ (inv_initial 2)), by decide,
    inv_next _ (inv_next _ (inv_initial 2)), by decide⟩

end Yorkie.Props.C06
