/-
C16  The sync pipeline is free of deadlocks under load (data-race freedom: see
props.d/C16.py `partial` – a property of the Go memory model, not expressible here).

Structure of the argument

  (G)  `lock_order_deadlock_free`, `lock_order_runs_complete`, `lock_order_no_wait_cycle` – generic, for any
       number of threads and any interleaving: threads that execute finite scripts of
       acquire/release on named RW locks (Go `sync.RWMutex`: exclusive, shared with
       **writer preference**, and non-blocking try-lock) and that take every
       *blocking* lock strictly above – in a fixed rank on locks – everything they
       hold, never reach a state in which an unfinished thread exists and nobody can
       move; every run has at most `measure S₀` steps; hence every maximal run ends
       with all threads finished and nothing held (no thread, and no subset of
       threads, blocks forever).  Proof: the classic maximal-lock argument
       (Lemmas/Locks.lean `progress`).

  (T)  Theorems by evaluation over `Generated/Locks.lean` (regenerated from the Go
       source on every run): every extracted function's flattened script respects
       doc < pull < attachment < push (+ the undocumented classes, see
       `Model/Locks.lean` `rankTable`), except for the functions in `knownInversions`,
       which is itself *derived* from the table; the snapshot and housekeeping locks
       are only ever try-locked; every acquisition is released by an immediately
       following `defer` with the matching unlock method; nothing else touches
       `Lockers`.

  (C)  Also over `Generated/Locks.lean`: every *optional* acquisition (`doc.attachment`
       in attach/detach/remove/admin update, `doc.push` in `pushPack`) is taken under
       exactly the condition the check-then-act pair it protects needs
       (`attachment_lock_conditions`, `conditional_acquisitions_expected`).

  (I)  `handlers_deadlock_free` – (G) instantiated with (T): any number of concurrent
       instances, with arbitrary keys, of the extracted functions whose script has no
       violation is deadlock free.

  (W)  Pinned tree only (delete this block once the `fix:` commit is in, and enable
       `no_known_inversions`): `clusterServer.DetachDocument` takes pull before doc;
       with a PushPull of the same client and a compaction this reaches a stuck
       state of the model.

The file works unchanged on the pinned and on the repaired tree except for block (W).
-/
import YorkieModel.Lemmas.Locks
import YorkieModel.Generated.Locks
namespace Yorkie.Props.C16
open Yorkie.Locks Yorkie.Generated.Locks

/-! ## (G) the generic theorem -/

/-- **Deadlock freedom from a lock order.**  `rank` assigns a natural number to every
    lock (instance).  If every thread's script, started with nothing held, has no
    violation – i.e. on every path each *blocking* acquisition (`W` = `Lock`,
    `R` = `RLock`) is of a lock whose rank is strictly above the rank of every lock
    the thread holds (so a thread never holds two locks of the same rank, in
    particular never re-enters a lock), every release is of a held lock and nothing
    is held at the end; try-locks (`T`) are unconstrained – then in every reachable
    state either all threads are finished or some thread can perform its next
    operation.  Blocking is `blockedOn`, the predicate of a writer-preferring RW lock:
    `Lock` is a two-step operation (call = the thread becomes a pending writer, grant =
    nobody holds the lock any more); a reader is blocked by an exclusive holder *and by
    every pending writer*; `TryLock` and releases never block. -/
theorem lock_order_deadlock_free {α : Type} [DecidableEq α] (rank : α → Option Nat)
    (scripts : List (List (Op α))) (hord : ∀ s ∈ scripts, violations rank none [] s = []) :
    ∀ S, Reach (initState scripts) S → allDone S = true ∨ ∃ S', Step S S' := by
  intro S hr
  have hok := stateOK_reach rank _ S (stateOK_init rank scripts hord) hr
  cases hd : allDone S with
  | true => exact Or.inl rfl
  | false => exact Or.inr (progress rank S hok hd)

/-- Progress does not depend on how the state was reached: *every* state in which each
    thread's remaining script respects the discipline relative to what the thread holds
    (`StateOK`) and somebody is unfinished has an enabled step.  (So the result also
    covers lock-table states that Go's actual grant policy could produce but the model's
    nondeterministic one would order differently.) -/
theorem lock_order_progress_any_state {α : Type} [DecidableEq α] (rank : α → Option Nat)
    (S : State α) (hok : StateOK rank S) (hnd : allDone S = false) : ∃ S', Step S S' :=
  progress rank S hok hnd

/-- **Every request completes.**  Under the same hypothesis every run from a
    reachable state has at most `measure S` (twice the number of remaining script
    operations plus one per thread) steps, and a state from which no step is possible has all threads finished with
    nothing held.  So every maximal run is finite and ends with every thread done:
    no thread – and no subset of threads – waits forever. -/
theorem lock_order_runs_complete {α : Type} [DecidableEq α] (rank : α → Option Nat)
    (scripts : List (List (Op α))) (hord : ∀ s ∈ scripts, violations rank none [] s = []) :
    ∀ S n S', Reach (initState scripts) S → Run S n S' →
      n ≤ measure S ∧
      ((∀ S'', ¬ Step S' S'') → allDone S' = true ∧ ∀ t ∈ S', t.held = []) := by
  intro S n S' hr hrun
  refine ⟨by have := run_measure S S' n hrun; omega, ?_⟩
  intro hstuck
  have hr' := run_reach _ S S' n hr hrun
  have hok := stateOK_reach rank _ S' (stateOK_init rank scripts hord) hr'
  have hdone : allDone S' = true := by
    rcases lock_order_deadlock_free rank scripts hord S' hr' with h | ⟨S'', h⟩
    · exact h
    · exact absurd h (hstuck S'')
  refine ⟨hdone, ?_⟩
  intro t ht
  have hnil : t.rest = [] := by
    simp only [allDone, Thread.done, List.all_eq_true, List.isEmpty_iff] at hdone
    exact hdone t ht
  have := hok t ht
  rw [hnil] at this
  exact held_nil_of_violations_nil rank t.held this

/-- **No wait-for cycle, no deadlocked set.**  Under the same hypothesis no reachable
    state contains a non-empty collection `C` of threads in which every member waits for
    (`waitsFor`: is blocked by a lock held by, or – for a reader – by the pending
    exclusive request of) some member of `C`.  A wait-for cycle is such a collection. -/
theorem lock_order_no_wait_cycle {α : Type} [DecidableEq α] (rank : α → Option Nat)
    (scripts : List (List (Op α))) (hord : ∀ s ∈ scripts, violations rank none [] s = []) :
    ∀ S, Reach (initState scripts) S →
      ∀ C : List (Thread α), C ≠ [] → (∀ t ∈ C, t ∈ S) → ¬ (∀ t ∈ C, ∃ u ∈ C, waitsFor t u = true) := by
  intro S hr C hne hsub hwait
  exact no_deadlocked_set rank S (stateOK_reach rank _ S (stateOK_init rank scripts hord) hr) C hne hsub hwait

/-- the discipline is an inductive invariant of the transition system -/
theorem lock_order_invariant {α : Type} [DecidableEq α] (rank : α → Option Nat) (S S' : State α)
    (h : StateOK rank S) (hs : Step S S') : StateOK rank S' :=
  stateOK_step rank S S' h hs

/-- class-level check ⇒ instance-level check: replacing every lock class `c` of a
    script by the instance `(c, key c)` (any key assignment) and ranking instances by
    their class preserves "no violation" -/
theorem instantiate_preserves_order (rank : String → Option Nat) (key : String → Nat)
    (s : List (Op String)) (h : violations rank none [] s = []) :
    violations (fun l : String × Nat => rank l.1) none [] (s.map (Op.map (fun c => (c, key c)))) = [] := by
  have := violations_map (fun c : String => (c, key c)) (fun a b e => by simpa using congrArg Prod.fst e)
    rank (fun l : String × Nat => rank l.1) (fun _ => rfl) none [] s
  simp only [Option.map_none, List.map_nil] at this
  rw [this, h]; rfl

/-! ## (T) the extracted lock facts -/

/-- script of function `i`, intra-cluster RPC calls inlined (the caller waits for the callee) -/
def flat (i : Nat) : List (Op String) := flatten fns true flattenFuel i
/-- script of function `i` on its own goroutine (RPC callees are separate threads) -/
def flatLocal (i : Nat) : List (Op String) := flatten fns false flattenFuel i

def violationsOf (i : Nat) : List (Viol String) := violations classRank none [] (flat i)

def fnName (i : Nat) : String := ((fns[i]?).map (·.name)).getD "?"
def idx (name : String) : Nat := (fns.findIdx? (fun f => f.name == name)).getD noOrigin

def dedup : List String → List String
  | [] => []
  | a :: l => if (dedup l).contains a then dedup l else a :: dedup l

/-- functions that lexically contain an acquisition violating the order in some extracted context (derived) -/
def invertedOrigins : List String :=
  dedup ((List.range fns.length).flatMap (fun i => (violationsOf i).map (fun v => fnName v.origin)))

/-- Inversions that are listed in /verif/known_findings.json.  Remove an entry when its
    `fix:` commit is in; the theorems below do not depend on the entry being present. -/
def allowedInversions : List String := []

/-- the listed inversions that the current tree really has (derived from the table:
    `[]` as soon as the code is repaired) -/
def knownInversions : List String := allowedInversions.filter (fun n => invertedOrigins.contains n)

/-- Every violation in every extracted function's flattened script (all of them are
    checked as thread entry points, RPC callees inlined) is located in a function
    listed in `knownInversions`. -/
theorem handlers_ordered_partial :
    ∀ i ∈ List.range fns.length, ∀ v ∈ violationsOf i, fnName v.origin ∈ knownInversions := by
  decide

/-- `knownInversions` is not an escape hatch: each of its members really is inverted
    (a violation of kind `order` located in it exists in its own script) -/
theorem known_inversions_genuine :
    ∀ n ∈ knownInversions, ∃ v ∈ violationsOf (idx n), fnName v.origin = n ∧ v.kind = .order := by
  decide

/-- the full statement, conditional on the derived exception set being empty -/
theorem handlers_ordered_of_no_known_inversions (h : knownInversions = []) :
    ∀ i ∈ List.range fns.length, violationsOf i = [] := by
  intro i hi
  apply List.eq_nil_iff_forall_not_mem.mpr
  intro v hv
  have := handlers_ordered_partial i hi v hv
  rw [h] at this
  simp at this

/-- the derived exception set is empty: the fix is in -/
theorem no_known_inversions : knownInversions = [] := by decide

/-- FULL STATEMENT: every extracted function respects doc < pull < attachment < push -/
theorem handlers_ordered : ∀ i ∈ List.range fns.length, violationsOf i = [] :=
  handlers_ordered_of_no_known_inversions no_known_inversions

/-- the goroutine-local scripts (RPC callees not inlined) of all functions outside
    `knownInversions`' callers are ordered as well -/
theorem handlers_ordered_local_partial :
    ∀ i ∈ List.range fns.length,
      ∀ v ∈ violations classRank none [] (flatLocal i), fnName v.origin ∈ knownInversions := by
  decide

def isRecursionMarker : Op String → Bool
  | .acq c _ _ => c == recursionMarker
  | .rel _ _ => false

/-- every lock class that occurs has a rank, and `flatten` never ran out of fuel -/
theorem all_classes_ranked :
    (∀ c ∈ classes, (classRank c.1).isSome = true) ∧
    (∀ i ∈ List.range fns.length, ∀ op ∈ flat i, isRecursionMarker op = false) := by
  decide

/-- class of a documented lock name: the key constructor whose key prefix is the
    name with `.` replaced by `-`, followed by `-` (`doc.pull` ↦ `doc-pull-…` ↦ DocPullKey) -/
def classOfDocumented (n : String × String) : String :=
  ((classes.find? (fun c => c.2 == n.2)).map (·.1)).getD "?"

def strictlyIncreasing : List (Option Nat) → Bool
  | some a :: some b :: r => decide (a < b) && strictlyIncreasing (some b :: r)
  | [some _] => true
  | [] => true
  | _ => false

/-- the rank table is the documented order doc → doc.pull → doc.attachment → doc.push -/
theorem rank_is_documented_order :
    documentedOrder.map (·.1) = ["doc", "doc.pull", "doc.attachment", "doc.push"] ∧
    documentedOrder.map classOfDocumented = ["DocKey", "DocPullKey", "DocAttachmentKey", "DocPushKey"] ∧
    strictlyIncreasing ((documentedOrder.map classOfDocumented).map classRank) = true := by
  decide

/-- classes outside the documented order that may only be try-locked -/
def tryOnlyClasses : List String := ["SnapshotKey", "compactionKey", "deactivationKey", "statsRefreshKey"]

/-- the snapshot lock (and the housekeeping locks) are only ever taken by try-lock:
    nobody ever waits for them -/
theorem snapshot_only_trylock :
    (∀ s ∈ sites, s.cls = "SnapshotKey" → s.mode = .T) ∧
    (∀ s ∈ sites, s.cls ∈ tryOnlyClasses → s.mode = .T) ∧
    (∀ s ∈ sites, s.mode = .T → s.cls ∈ tryOnlyClasses) := by
  decide

/-- held classes at the moment of each acquisition of class `c` in a script -/
def heldAt (c : String) : List String → List (Op String) → List (List String)
  | _, [] => []
  | held, .acq l _ _ :: r => (if l = c then [held] else []) ++ heldAt c (l :: held) r
  | held, .rel l _ :: r => heldAt c (held.erase l) r

/-- classes acquired while `c` is held -/
def takenUnder (c : String) : List String → List (Op String) → List String
  | _, [] => []
  | held, .acq l _ _ :: r => (if held.contains c then [l] else []) ++ takenUnder c (l :: held) r
  | held, .rel l _ :: r => takenUnder c (held.erase l) r

/-- the one blocking class that is not in the documented order, the watch-stream
    lock, is never nested with anything: it is taken with nothing held and nothing is
    taken under it -/
theorem watchstream_not_nested :
    ∀ i ∈ List.range fns.length,
      (∀ h ∈ heldAt "DocWatchStreamKey" [] (flat i), h = []) ∧ takenUnder "DocWatchStreamKey" [] (flat i) = [] := by
  decide

/-- Every acquisition site is released on every path, as far as syntax can tell:
    the release is a `defer` of the matching method (`Unlock` for Lock/TryLock,
    `RUnlock` for RLock) that directly follows the acquisition (for a try-lock:
    directly follows the `if !ok { return … }` guard), so no return can lie between
    acquisition and registration of the release; no acquisition sits in a loop (a
    deferred release in a loop would accumulate).  Together with "no `leak`/`unheld`
    violation" in `handlers_ordered_partial` (script level). -/
theorem releases_on_every_path :
    ∀ s ∈ sites, s.rel = .deferred ∧ s.relMatches = true ∧ s.guarded = true ∧ s.inLoop = false := by
  decide

/-- the extraction is complete w.r.t. its own syntactic criterion: no use of a
    `Lockers` field other than the three recognised call shapes, and none outside the
    extracted packages -/
theorem extraction_complete : opaqueLockerUses = [] ∧ lockerUsesOutsideScope = [] := by
  decide

/-! ## (C) the optional acquisitions are taken under the right condition

The order theorems above are blind to *whether* an optional lock is taken: a handler
that stops taking `doc.attachment` in one of the configurations that need it still has
an ordered script (dropping an acquisition never creates an inversion, and the recorded
sequences stay instances of the extracted script).  What such a change loses is the
atomicity of a check-then-act pair, i.e. the *outcome* clause of C16 ("the result under
concurrent attach/detach is the one some serial order gives").  `Site.cond` is the
source text of the enclosing `if` conditions of every acquisition, regenerated on every
run; the expectations below are written by hand from the handlers and from
docs/design/fine-grained-document-locking.md ("Lock Acquisition Patterns"). -/

/-- For every function that takes `doc.attachment`: the condition under which it must.

  * SDK `AttachDocument` – `HasAttachmentLimit() || RemoveOnDetach ||` (the document has no
    schema yet and the request brings one).  The lock makes atomic
    (limit) "count the attached clients, refuse when the limit is reached" and the
    PushPull that stores this client's attachment: without it two attachers both see
    `limit - 1` and both get in;
    (RemoveOnDetach) this attach against a last detacher's decision "nobody else is
    attached or attaching ⇒ remove": without it a document is removed under a client whose
    attach is in flight;
    (schema) "nobody is attached (`count == 0`) ⇒ set the document's schema" against the
    admin's "somebody is attached ⇒ refuse the schema update" and against a second first
    attacher.
  * SDK `DetachDocument` and cluster `DetachDocument` (the handler `clients.Deactivate`
    calls for every attached document) – `HasAttachmentLimit() || RemoveOnDetach`.
    (limit) the stored detach frees a slot that the attachers' count-then-attach is
    serialised with; (RemoveOnDetach) "is any OTHER client still attached or attaching
    (`IsDocumentAttachedOrAttaching`)?  if not, this detach removes the document" and the
    PushPull that stores the detach: without the lock the last two detachers each see the
    other one still attached, both detach, nobody removes the document – it stays alive
    with zero attachments.
  * SDK `RemoveDocument` – `HasAttachmentLimit()` only: the removal frees the slots the
    attachers count under the lock; it takes no decision of its own from the attachment
    set (the status is `removed` unconditionally), so RemoveOnDetach alone gives it no
    check-then-act pair to protect.
  * admin `UpdateDocument` – every mode that touches the schema
    (`updateMode != UpdateModeRootOnly`): "no client is attached (`FindAttachedClientCount
    = 0`), else `ErrDocumentAttached`" and the schema write, against an SDK attach. -/
def attachmentLockCondition : List (String × String) :=
  [("server/rpc.yorkieServer.AttachDocument",
      "project.HasAttachmentLimit() || project.RemoveOnDetach || (docInfo.Schema == \"\" && req.Msg.SchemaKey != \"\")"),
   ("server/rpc.yorkieServer.DetachDocument", "project.HasAttachmentLimit() || project.RemoveOnDetach"),
   ("server/rpc.clusterServer.DetachDocument", "project.HasAttachmentLimit() || project.RemoveOnDetach"),
   ("server/rpc.yorkieServer.RemoveDocument", "project.HasAttachmentLimit()"),
   ("server/rpc.adminServer.UpdateDocument", "updateMode != documents.UpdateModeRootOnly")]

def attachmentSitesOf (fn : String) : List Site :=
  sites.filter (fun s => s.cls == "DocAttachmentKey" && s.fn == fn)

/-- **Every `doc.attachment` acquisition is taken under exactly the expected condition**,
    every expected function has exactly one such acquisition (so deleting the lock, or
    moving it into a helper, is seen as well), and nobody else takes the lock. -/
theorem attachment_lock_conditions :
    (∀ s ∈ sites, s.cls = "DocAttachmentKey" → attachmentLockCondition.lookup s.fn = some s.cond) ∧
    (∀ e ∈ attachmentLockCondition, (attachmentSitesOf e.1).map (·.cond) = [e.2]) := by
  decide

/-- all acquisition sites that are not unconditional: (function, class, condition).
    `pushPack` takes `doc.push` only when it has something to store (`len(pushables) > 0`)
    or the request removes the document: the lock makes "read the document's `server_seq`
    and epoch, validate the pack against them" and "append the changes, advance
    `server_seq`" atomic; a pack that stores nothing has no such pair. -/
def conditionalSites : List (String × String × String) :=
  ("server/packs.pushPack", "DocPushKey", "len(pushables) > 0 || reqPack.IsRemoved") ::
    attachmentLockCondition.map (fun e => (e.1, "DocAttachmentKey", e.2))

/-- **Every conditional acquisition's condition is one of the expected forms**, and the
    two outer locks of every request, `doc` and `doc.pull`, as well as the watch-stream,
    snapshot and housekeeping locks, are taken unconditionally. -/
theorem conditional_acquisitions_expected :
    (∀ s ∈ sites, s.cond = "" ∨ (s.fn, s.cls, s.cond) ∈ conditionalSites) ∧
    (∀ s ∈ sites, s.cls ∉ ["DocAttachmentKey", "DocPushKey"] → s.cond = "") := by
  decide

/-! ## (I) generic theorem ∘ extracted facts -/

/-- a running instance of an extracted function: which function, whether it is the
    logical thread including its RPC callees, and the keys (client/document) it uses
    for each lock class -/
structure Inst where
  fn : Nat
  rpcInlined : Bool
  key : String → Nat

def Inst.script (x : Inst) : List (Op (String × Nat)) :=
  (flatten fns x.rpcInlined flattenFuel x.fn).map (Op.map (fun c => (c, x.key c)))

/-- Any number of concurrent instances – same or different documents and clients –
    of extracted functions whose class-level script has no violation never deadlock,
    and all of them complete. -/
theorem handlers_deadlock_free (insts : List Inst)
    (hord : ∀ x ∈ insts, violations classRank none [] (flatten fns x.rpcInlined flattenFuel x.fn) = []) :
    (∀ S, Reach (initState (insts.map Inst.script)) S → allDone S = true ∨ ∃ S', Step S S') ∧
    (∀ S n S', Reach (initState (insts.map Inst.script)) S → Run S n S' →
      n ≤ measure S ∧ ((∀ S'', ¬ Step S' S'') → allDone S' = true ∧ ∀ t ∈ S', t.held = [])) := by
  have h : ∀ s ∈ insts.map Inst.script, violations (fun l : String × Nat => classRank l.1) none [] s = [] := by
    intro s hs
    obtain ⟨x, hx, rfl⟩ := List.mem_map.mp hs
    exact instantiate_preserves_order classRank x.key _ (hord x hx)
  exact ⟨lock_order_deadlock_free _ _ h, lock_order_runs_complete _ _ h⟩

/-- the SDK handlers and the background paths are all covered by `handlers_deadlock_free`
    on the pinned tree (they are not affected by the known inversion) -/
def coveredNames : List String :=
  ["server/rpc.yorkieServer.AttachDocument", "server/rpc.yorkieServer.DetachDocument",
   "server/rpc.yorkieServer.PushPullChanges", "server/rpc.yorkieServer.RemoveDocument",
   "server/rpc.yorkieServer.RestoreRevision", "server/rpc.yorkieServer.Watch",
   "server/rpc.yorkieServer.WatchDocument",
   "server/rpc.adminServer.CreateDocument", "server/rpc.adminServer.UpdateDocument",
   "server/rpc.adminServer.RemoveDocumentByAdmin", "server/rpc.adminServer.CompactDocumentByAdmin",
   "server/rpc.adminServer.RestoreRevisionByAdmin",
   "server/rpc.clusterServer.CompactDocument", "server/rpc.clusterServer.PurgeDocument",
   "server/packs.PushPull$go1", "server/documents.CompactDocuments", "server/projects.RefreshStats",
   "server.Yorkie.CompactDocument"]

theorem sdk_and_background_handlers_ordered :
    ∀ n ∈ coveredNames, idx n < fns.length ∧ violationsOf (idx n) = [] ∧ (flat (idx n)).length ≥ 2 := by
  decide

/-! ## non-vacuity -/

/-- a script that satisfies the hypothesis of the generic theorem and uses all modes -/
example : violations classRank none []
    [.acq "SnapshotKey" .T 0, .acq "DocKey" .R 0, .acq "DocPullKey" .W 0, .acq "DocPushKey" .W 0,
     .rel "DocPushKey" 0, .rel "DocPullKey" 0, .rel "DocKey" 0, .rel "SnapshotKey" 0] = [] := by decide

/-- the extracted script of PushPullChanges: doc(R) → pull → push, released in reverse -/
example : (flat (idx "server/rpc.yorkieServer.PushPullChanges")).map (fun op =>
      match op with | .acq c m _ => "+" ++ c ++ ":" ++ showMode m | .rel c _ => "-" ++ c)
    = ["+DocKey:R", "+DocPullKey:W", "+DocPushKey:W", "-DocPushKey", "-DocPullKey", "-DocKey"] := by decide

/-- the check is not vacuous: it rejects an inverted script, a leaked lock and an unheld release -/
example : (violations classRank none [] [.acq "DocPullKey" .W 7, .acq "DocKey" .R 7, .rel "DocKey" 7, .rel "DocPullKey" 7]).length = 1
    ∧ (violations classRank none [] [.acq "DocKey" .W 7]).length = 1
    ∧ (violations classRank none [] [.rel "DocKey" 7]).length = 1
    ∧ (violations classRank none [] [.acq "DocKey" .R 1, .acq "DocKey" .R 2, .rel "DocKey" 2, .rel "DocKey" 1]).length = 1 := by decide

/-- three concurrent ordered instances on the same document/client satisfy the hypotheses of
    `handlers_deadlock_free` -/
example : ∀ x ∈ ([⟨idx "server/rpc.yorkieServer.PushPullChanges", true, fun _ => 1⟩,
                  ⟨idx "server/rpc.yorkieServer.AttachDocument", true, fun _ => 1⟩,
                  ⟨idx "server/rpc.clusterServer.CompactDocument", true, fun _ => 1⟩] : List Inst),
    violations classRank none [] (flatten fns x.rpcInlined flattenFuel x.fn) = [] := by decide

/-- the condition facts are not vacuous: five `doc.attachment` sites, all conditional, and the
    check rejects the SDK detach taking the lock under the attachment limit only -/
example : (sites.filter (fun s => s.cls == "DocAttachmentKey")).length = 5
    ∧ (sites.filter (fun s => s.cls == "DocAttachmentKey")).all (fun s => s.cond != "") = true
    ∧ attachmentLockCondition.lookup "server/rpc.yorkieServer.DetachDocument" ≠ some "project.HasAttachmentLimit()" := by
  decide

/-! ## (W-model) the order hypothesis is necessary: an inverted script deadlocks

Tree independent.  Three threads on one document `d` and one client `c`:
an SDK PushPull (doc(R) → pull → push), a detach that takes pull before doc(R), and a
compaction (doc(W)).  After the first two have taken their first lock and the
compaction has become a pending writer, nobody can move: the reader behind the
pending writer is exactly Go's writer preference. -/

def sdkPushPull : List (Op String) :=
  [.acq "DocKey" .R 0, .acq "DocPullKey" .W 0, .acq "DocPushKey" .W 0, .rel "DocPushKey" 0, .rel "DocPullKey" 0, .rel "DocKey" 0]
def invertedDetach : List (Op String) :=
  [.acq "DocPullKey" .W 1, .acq "DocKey" .R 1, .acq "DocPushKey" .W 1, .rel "DocPushKey" 1, .rel "DocKey" 1, .rel "DocPullKey" 1]
def compaction : List (Op String) := [.acq "DocKey" .W 2, .rel "DocKey" 2]

def deadlockState : State String :=
  [ { held := [("DocKey", .R)], rest := sdkPushPull.drop 1, pending := true },
    { held := [("DocPullKey", .W)], rest := invertedDetach.drop 1 },
    { held := [], rest := compaction, pending := true } ]

/-- a reachable state of the lock table in which all three threads are unfinished, none
    can move, and they wait for each other in a cycle
    (PushPull → detach [holds pull], detach → compaction [pending writer of doc],
    compaction → PushPull [holds doc(R)]) -/
theorem inverted_order_deadlocks :
    Reach (initState [sdkPushPull, invertedDetach, compaction]) deadlockState ∧
    allDone deadlockState = false ∧ succs deadlockState = [] ∧
    (match deadlockState with
     | [p, d, c] => waitsFor p d && waitsFor d c && waitsFor c p
     | _ => false) = true := by
  refine ⟨?_, by decide, by decide, by decide⟩
  -- schedule: PushPull takes doc(R); detach calls Lock(pull) and gets it; PushPull calls
  -- Lock(pull); compaction calls Lock(doc)
  exact execSchedule_reach _ _ _ [0, 1, 1, 0, 2] Reach.init (by decide)

/-- with the detach in the documented order the same three threads cannot get stuck
    (instance of the generic theorem, shown here by exhaustive search as a cross-check
    of `findStuck`) -/
example : findStuck 40 [initState [sdkPushPull,
    [.acq "DocKey" .R 1, .acq "DocPullKey" .W 1, .acq "DocPushKey" .W 1, .rel "DocPushKey" 1, .rel "DocPullKey" 1, .rel "DocKey" 1],
    compaction]] [] = none := by decide +kernel

end Yorkie.Props.C16
