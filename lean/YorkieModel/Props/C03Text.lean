/-
C03 (text part): garbage collection never breaks a later edit – for ONE `crdt.Text`.

Model: `Text.purge` / `Text.purgeAttrs` (Model/TextGc.lean, tied to `Document.GarbageCollect` by engine
`text` with arg `gc=1`: every purge of the real code is replayed, full structural dumps incl. `insPrev`
links and attribute tombstones are compared, and a GC-off twin world is compared after every step).

FULL STATEMENT (false on the pinned tree): "after any history with GC enabled and the min version
vector, no sync fails and replicas hold the same content as in the same history with GC disabled".
Counterexample `gc_reparent_witness` (a causally STABLE vector; reproduced on the Go code:
corpus/C03/text-gc-reparent.trace): purging a tombstone that stopped the skip scan of a later
insertion lets that insertion walk over a concurrent insertion that followed the tombstone.  Hence:

  (a) `purge_preserves_abs`, `purge_invisible`, `purge_keeps_invariant`, `purge_is_filter`: a purge
      with ANY vector erases only tombstone cells, changes no observation (`visible`, `Text.String()`,
      `Text.Marshal()`), keeps the GC invariant (in particular the relinked `insPrev` of every piece
      is the surviving predecessor piece of its insertion) and does not depend on the order in which
      the Go map is walked;
  (b) `anchors_survive`: a position whose left character survives resolves to the same piece on the
      purged list – whatever else of that insertion was purged, its head piece (offset 0) included;
      `anchors_kept_of_stable`: under causal stability an anchor character is never purged;
      `purge_safe_partial`: purge commutes with a later operation up to `abs`, under the decidable
      side condition `SafeSkip`;
  (c) `gc_equals_nogc_lockstep_partial`, `gc_no_call_fails_partial`: a replica that purges with
      arbitrary vectors at arbitrary moments between the operations of a stream (the lockstep shape:
      one replica + a stream of local/remote operations) stays the GC-off replica with tombstone
      cells erased, same `visible`, `Text.String()`, `Text.Marshal()`, no failing call – under the
      two per-operation conditions; `gc_replicas_converge_partial`: in the multi-client system of
      C01Text, GC replicas whose own streams are such joint runs print the same at quiescence;
      `attr_purge_invisible`: purging registered attribute tombstones changes no observation;
  (d) witnesses by kernel evaluation: the re-parenting divergence under a stable vector, and the three
      ways a TOO LARGE vector goes wrong (range error, id not found, SILENT wrong position when the
      piece that starts at the position lost its `insPrev`).
NOT covered (stated gaps): that the server's min vector makes every in-flight operation meet "anchors
kept" (protocol argument F.3, exercised by the engine's schedules: no failing sync in 12000 GC
histories) – the system-level theorem takes the per-replica joint runs as hypotheses; (b) is stated
with the erased set of the PRE-state (`keepOf vv t`), the identity `purge vv (exec o t)` up to `abs`
needs in addition that the vector does not cover the operation's own ticket; the commutation of
attribute-tombstone purging with later `Style` operations (LWW against a purged tombstone) is tied by
the engine only.
-/
import YorkieModel.Lemmas.TextGcNice
import YorkieModel.Props.C01Text
namespace Yorkie.Props.C03Text
open Yorkie Yorkie.Text Yorkie.TextConv Yorkie.Convergence

/-! ### (a) what a purge does -/

/-- a purge is "drop the covered tombstones", up to insertion links – no walk order is mentioned -/
theorem purge_is_filter {s : TextSt} (inv : GcInv s) (vv : VV) :
    (purge vv s).map core = (List.filter (fun n => !purgeable vv n) s).map core :=
  purge_core inv.wf.nodup vv

/-- the abstraction after a purge is the abstraction with the cells of the covered tombstones erased,
    and every erased cell was a tombstone -/
theorem purge_preserves_abs {s : TextSt} (inv : GcInv s) (vv : VV) :
    abs (purge vv s) = fkeep (keepOf vv s) (abs s) ∧
      ∀ c ∈ abs s, keepOf vv s c.id = false → c.removed = true :=
  ⟨purge_abs_keep inv.wf vv, (erasure_keepOf inv.wf vv).dead⟩

/-- no observation changes -/
theorem purge_invisible {s : TextSt} (inv : GcInv s) (vv : VV) (tc : Ticket) :
    visible (purge vv s) = visible s ∧ Text.toString tc (purge vv s) = Text.toString tc s ∧
      marshal tc (purge vv s) = marshal tc s :=
  have h := purge_marshal_toString inv.wf.nodup inv.headLive vv tc
  ⟨purge_visible inv.wf.nodup vv, h.2, h.1⟩

/-- the invariant of block lists under GC is kept by every purge … -/
theorem purge_keeps_invariant {s : TextSt} (inv : GcInv s) (vv : VV) : GcInv (purge vv s) :=
  gcInv_purge inv vv

/-- … and by every successful operation (so it holds on every replica, purged or not) -/
theorem ops_keep_invariant {s s' : TextSt} (inv : GcInv s) {o : TOp} (hfresh : Fresh s o.ts)
    (hfix : ∀ content attrs, o.body = .edit content attrs → Fixed content) (h : exec o s = .ok s') :
    GcInv s' :=
  gcInv_exec inv hfresh hfix h

/-! ### (b) a purge and a later operation -/

/-- **which anchors survive**: on any list satisfying the GC invariant, a position `(createdAt, abs)`
    whose left character lies in a surviving piece `n` resolves to `n` -/
theorem anchors_survive {s : TextSt} (inv : GcInv s) {n : TNode} (hn : n ∈ s) {q : Id} (h1 : n.id.1 = q.1)
    (h2 : n.id.2 < q.2) (h3 : q.2 ≤ n.id.2 + n.len) : findFloorPreferLeft s q = some n :=
  floor_node_g inv.wf hn h1 h2 h3

/-- under causal stability no anchor character is purged (an operation has not seen the deletion of
    the characters it was positioned on) -/
theorem anchors_kept_of_stable {vv : VV} {t : TextSt} {o : TOp}
    (hstable : ∀ n ∈ t, purgeable vv n = true → ∀ r, n.removedAt = some r → sees o.vv r = true)
    (hlive : ∀ i, anchorOf o.fr = some i ∨ anchorOf o.to = some i →
      ∀ n ∈ t, i ∈ cids (absNode n) → ∀ r, n.removedAt = some r → sees o.vv r = false) :
    ∀ i, anchorOf o.fr = some i ∨ anchorOf o.to = some i → keepOf vv t i = true :=
  TextConv.anchors_kept_of_stable hstable hlive

/-- **purge commutes with a later operation** (up to `abs`): the operation is enabled on `t`, its
    anchors survive, the skip scan is safe ⇒ it succeeds on `purge vv t` too, and the result is the
    GC-off result with the same cells erased.

    WHICH STATES VIOLATE `SafeSkip` (it is decidable: `safeSkip`).  Read the cells after the `from`
    anchor of an inserting operation `o`: first the cells newer than `o.ts` (the scan walks over them
    in both worlds); `SafeSkip` fails iff the first cell that is NOT newer belongs to a purged tombstone
    `T`, and the first surviving cell after the purged run that starts there is NEWER than `o.ts`.
    Reachable exactly like this: a deletion `r` of `T` is seen by `o`'s author before `o` is created;
    another client inserts `Y` next to/behind `T` without having seen `r` and without `o` seeing `Y`
    (`Y.ts > o.ts`, concurrent with `o`); a replica applies `r` and `Y`, every client reports `r`
    (the min vector covers it – causally stable), the replica purges `T`, and only then `o` arrives
    (`gc_reparent_witness`; on the Go code corpus/C03/text-gc-reparent.trace).  `safe_skip_is_necessary`:
    on every other state the insertion commutes, on these it does not – the condition cannot be
    weakened at the level of `abs`.  `reparent_fix_sufficient`: a purge rule that excludes them. -/
theorem purge_safe_partial {vv : VV} {t : TextSt} (inv : GcInv t) {d : TState} (hd : abs t = d.cells)
    {o : TOp} (hp : Pre d o)
    (hanch : ∀ i, anchorOf o.fr = some i ∨ anchorOf o.to = some i → keepOf vv t i = true)
    (hsafe : o.aop.X = [] ∨ SafeSkip o.ts (keepOf vv t) (dropAfterO (anchorOf o.fr) (cids (abs t)))) :
    ∃ t' g', exec o t = .ok t' ∧ exec o (purge vv t) = .ok g' ∧ GcInv t' ∧ GcInv g' ∧
      abs g' = fkeep (keepOf vv t) (abs t') ∧ visible g' = visible t' := by
  have ginv := gcInv_purge inv vv
  obtain ⟨t', g', h1, h2, _, _, a1, a2, er⟩ :=
    op_safe inv.wf ginv.wf hd (purge_abs_keep inv.wf vv) (erasure_keepOf inv.wf vv) hp hanch hsafe
  have hfix := hp.2.2.2.2.2.2.2.2.2.2.2.1
  have hfresh := (pre_facts inv.wf hd hp).2.2.1
  have hdg : abs (purge vv t) = (gcState d (keepOf vv t)).cells := by
    rw [purge_abs_keep inv.wf, hd]; rfl
  have hfreshg := (pre_facts ginv.wf hdg (pre_gcState hp hanch)).2.2.1
  refine ⟨t', g', h1, h2, gcInv_exec inv hfresh hfix h1, gcInv_exec ginv hfreshg hfix h2, a2, ?_⟩
  rw [visible_eq_liveUnits, visible_eq_liveUnits, a2, liveUnits_fkeep er.dead]

/-- the same in the form "purge and operation commute": `exec o (purge vv t)` and `purge vv (exec o t)`
    have the same abstraction – when moreover the vector does not cover the operation's own ticket and
    the operation has seen every deletion the purge removes (causal stability) -/
theorem purge_exec_comm_partial {vv : VV} {t : TextSt} (inv : GcInv t) {d : TState} (hd : abs t = d.cells)
    {o : TOp} (hp : Pre d o)
    (hanch : ∀ i, anchorOf o.fr = some i ∨ anchorOf o.to = some i → keepOf vv t i = true)
    (hsafe : o.aop.X = [] ∨ SafeSkip o.ts (keepOf vv t) (dropAfterO (anchorOf o.fr) (cids (abs t))))
    (hnot : vv.equalToOrAfter o.ts = false)
    (hstable : ∀ n ∈ t, purgeable vv n = true → ∀ r, n.removedAt = some r → knownB o.vv r = true) :
    ∃ t' g', exec o t = .ok t' ∧ exec o (purge vv t) = .ok g' ∧ abs g' = abs (purge vv t') :=
  purge_exec_comm inv hd hp hanch hsafe hnot hstable

/-- `SafeSkip` cannot be weakened: if inserting non-empty, kept, fresh cells with the skip rule commutes
    with the erasure, the scan was safe -/
theorem safe_skip_is_necessary {ts : Ticket} {keep : Id → Bool} {X : Cells} (hX : X ≠ [])
    (hkeep : ∀ x ∈ X, keep x.id = true) {r : Cells} (hdis : ∀ x ∈ X, ∀ c ∈ r, x.id ≠ c.id)
    (h : insSkip ts X (fkeep keep r) = fkeep keep (insSkip ts X r)) : SafeSkip ts keep (cids r) :=
  safeSkip_of_insSkip_fkeep hX hkeep hdis h

/-- FIX CANDIDATE, the sufficient condition: purge a tombstone only when the vector also covers the
    CREATION of the first survivor to its right (`hright`).  A later-arriving operation has seen
    everything the vector covers, so nothing covered is newer than its ticket (`hold`); then the scan
    is safe after every anchor.  (Go: a 12-line `CanPurge` in RGATreeSplit consulted by
    `Root.GarbageCollect`; on a scratch copy 0 divergences in 48000 GC histories, 11 before.) -/
theorem reparent_fix_sufficient {vv : VV} {ts : Ticket} {keep : Id → Bool} {L : List Id}
    (hold : ∀ t : Ticket, vv.equalToOrAfter t = true → t.after ts = false)
    (hright : ∀ A e B, L = A ++ e :: B → keep e = false →
      ∀ K i B', B = K ++ i :: B' → (∀ k ∈ K, keep k = false) → keep i = true → vv.equalToOrAfter i.1 = true)
    (a : Option Id) : SafeSkip ts keep (dropAfterO a L) :=
  safeSkip_of_covered_right hold hright a

/-! ### (c) lockstep lift -/

/-- GC-on = GC-off for one replica and a stream of operations with purges (any vectors) in between:
    the GC replica is the GC-off replica with tombstone cells erased and prints exactly the same -/
theorem gc_equals_nogc_lockstep_partial {d : TState} {t g : TextSt} {keep : Id → Bool}
    (h : Lock d t g keep) (tc : Ticket) :
    abs g = fkeep keep (abs t) ∧ (∀ c ∈ abs t, keep c.id = false → c.removed = true) ∧
      visible g = visible t ∧ Text.toString tc g = Text.toString tc t ∧ marshal tc g = marshal tc t :=
  have h1 := gc_lockstep h
  have h2 := lock_observations h tc
  ⟨h1.1, h1.2.1, h1.2.2, h2.2.1, h2.2.2⟩

/-- system level (the clients and the server log of C01Text): two quiescent clients whose GC replicas
    `g₁ g₂` are joint runs over their own abstract replicas print the same – GC-off replicas converge
    (C01Text) and every GC replica prints what its GC-off replica prints -/
theorem gc_replicas_converge_partial {s : Sys TState TOp} (hr : textSem.Reachable s) (c₁ c₂ : Nat)
    (hp₁ : (s.clients c₁).pending = []) (hc₁ : (s.clients c₁).cp = s.log.length)
    (hp₂ : (s.clients c₂).pending = []) (hc₂ : (s.clients c₂).cp = s.log.length)
    {t₁ g₁ t₂ g₂ : TextSt} {k₁ k₂ : Id → Bool}
    (L₁ : Lock (s.clients c₁).st t₁ g₁ k₁) (L₂ : Lock (s.clients c₂).st t₂ g₂ k₂) (tc : Ticket) :
    visible g₁ = visible g₂ ∧ Text.toString tc g₁ = Text.toString tc g₂ ∧ marshal tc g₁ = marshal tc g₂ := by
  obtain ⟨i1, _, a1, _, _⟩ := lock_inv L₁
  obtain ⟨i2, _, a2, _, _⟩ := lock_inv L₂
  have e : abs t₁ = abs t₂ := by
    rw [a1, a2, C01Text.text_converge_quiescent hr c₁ c₂ hp₁ hc₁ hp₂ hc₂]
  obtain ⟨o1, o2, o3⟩ := lock_observations L₁ tc
  obtain ⟨p1, p2, p3⟩ := lock_observations L₂ tc
  refine ⟨?_, ?_, ?_⟩
  · rw [o1, p1, visible_eq_liveUnits, visible_eq_liveUnits, e]
  · rw [o2, p2, toString_eq i1.wf, toString_eq i2.wf, e]
  · rw [o3, p3]
    exact marshal_eq_of_abs i1.wf i2.wf (lock_attrs L₁).1 (lock_attrs L₂).1 e tc

/-- purging registered attribute tombstones (`Text.purgeAttrs`) changes no observation -/
theorem attr_purge_invisible {vv : VV} {reg : AttrReg} {s : TextSt} (hr : RegRemoved reg s) (tc : Ticket) :
    visible (purgeAttrs vv reg s).1 = visible s ∧ marshal tc (purgeAttrs vv reg s).1 = marshal tc s ∧
      Text.toString tc (purgeAttrs vv reg s).1 = Text.toString tc s :=
  purgeAttrs_invisible hr tc

/-- … and no call fails on either replica -/
theorem gc_no_call_fails_partial {d : TState} {t g : TextSt} {keep : Id → Bool} (h : Lock d t g keep)
    {o : TOp} (hp : Pre d o)
    (hanch : ∀ i, anchorOf o.fr = some i ∨ anchorOf o.to = some i → keep i = true)
    (hsafe : o.aop.X = [] ∨ SafeSkip o.ts keep (dropAfterO (anchorOf o.fr) (cids (abs t)))) :
    ∃ t' g', exec o t = .ok t' ∧ exec o g = .ok g' ∧ Lock (tapply d o) t' g' keep :=
  gc_lockstep_progress h hp hanch hsafe

/-! ### (d) witnesses (kernel evaluation on the block model) -/

namespace W
def t0 : Ticket := ⟨1, 0, 1⟩
def pH : Pos := ⟨headId, 0⟩
def P (k : Nat) : Pos := ⟨(t0, 0), k⟩
def chain (ops : List (TextSt → Except Err TextSt)) : Except Err TextSt :=
  ops.foldl (fun a f => a.bind f) (.ok Text.init)
def vis (r : Except Err TextSt) : Option (List Nat) := r.toOption.map visible
def failed (r : Except Err TextSt) : Option Err := match r with | .ok _ => none | .error e => some e
def gc (vv : VV) : TextSt → Except Err TextSt := fun s => .ok (purge vv s)

/-! re-parenting: "ck" by actor 1; actor 1 deletes k (ticket 2:0:1); actor 2, not having seen that, types
    Y after k (5:0:2); everybody applies the deletion: the vector [(1,2),(2,5)] is causally stable;
    actor 1 (has seen the deletion, not Y) types N after c at 3:0:1 -/
def insCK := edit pH pH [99, 107] [] t0 (some [(1, 1)])
def delK := edit (P 1) (P 2) [] [] ⟨2, 0, 1⟩ (some [(1, 2)])
def insY := edit (P 2) (P 2) [89] [] ⟨5, 0, 2⟩ (some [(1, 1), (2, 5)])
def insN := edit (P 1) (P 1) [78] [] ⟨3, 0, 1⟩ (some [(1, 3)])
def stable : VV := [(1, 2), (2, 5)]

/-! a too-large vector: "ab"/"abc"/"a" by actor 1, deletions by actor 2, a pending insertion by actor 1
    that has not seen them, positioned after the last deleted character -/
def insAB := edit pH pH [97, 98] [] t0 (some [(1, 1)])
def delB := edit (P 1) (P 2) [] [] ⟨2, 0, 2⟩ (some [(1, 1), (2, 2)])
def insAfter2 := edit (P 2) (P 2) [88] [] ⟨2, 0, 1⟩ (some [(1, 2)])
def insABC := edit pH pH [97, 98, 99] [] t0 (some [(1, 1)])
def delA := edit pH (P 1) [] [] ⟨3, 0, 2⟩ (some [(1, 1), (2, 3)])
def insA := edit pH pH [97] [] t0 (some [(1, 1)])
def delOnlyA := edit pH (P 1) [] [] ⟨2, 0, 2⟩ (some [(1, 1), (2, 2)])
def insAfter1 := edit (P 1) (P 1) [88] [] ⟨2, 0, 1⟩ (some [(1, 2)])
end W

open W in
/-- **the full statement is false**: with a causally stable vector (the pending operation has seen the
    deletion, every replica has applied it) the purged replica shows "cYN", the unpurged one "cNY" -/
theorem gc_reparent_witness :
    vis (chain [insCK, delK, insY, insN]) = some [99, 78, 89] ∧
    vis (chain [insCK, delK, insY, gc stable, insN]) = some [99, 89, 78] ∧
    -- the side condition of `purge_safe_partial` is what fails:
    (chain [insCK, delK, insY]).toOption.map (fun t =>
      safeSkip ⟨3, 0, 1⟩ (keepOf stable t) (dropAfterO (some (t0, 0)) (cids (abs t)))) = some false := by
  decide

open W in
/-- a too-large vector, 1: the anchor character is purged, the position is out of range of what is
    left of the insertion: the operation FAILS (`offset should be less than or equal to length`) -/
theorem gc_vector_too_large_range_witness :
    vis (chain [insAB, delB, insAfter2]) = some [97, 88] ∧
    failed (chain [insAB, delB, gc [(1, 1), (2, 2)], insAfter2]) = some .offsetRange := by
  decide

open W in
/-- a too-large vector, 2: every piece of the insertion is purged: the id is not found -/
theorem gc_vector_too_large_notfound_witness :
    failed (chain [insA, delOnlyA, gc [(1, 1), (2, 2)], insAfter1]) = some .notFound := by
  decide

open W in
/-- a too-large vector, 3: the pieces left of the position are purged, the piece that starts at the
    position has lost its `insPrev`: `findFloorNodePreferToLeft` returns that piece and the insertion
    SILENTLY lands after it ("cX") instead of before it ("Xc") -/
theorem gc_vector_too_large_silent_witness :
    vis (chain [insABC, delB, delA, insAfter2]) = some [88, 99] ∧
    vis (chain [insABC, delB, delA, gc [(1, 1), (2, 3)], insAfter2]) = some [99, 88] := by
  decide

/-! ### non-vacuity

The run of C01Text: actor 1 types "ab" (`o0`), deletes it (`oa`); a purge with `[(1,2)]` (covers the
deletion) removes the whole node; then actor 1 types "Z" at the start (`oc`). -/

open Yorkie.Props.C01Text

def tsc : Ticket := ⟨3, 0, 1⟩
/-- actor 1, having seen everything, types "Z" at the start -/
def oc : TOp := { fr := pHead, to := pHead, body := .edit [90] [], ts := tsc, vv := [(1, 3)], seq := 2, deps := [] }

def d2 : TState := tapply d1 oa
def t1 : TextSt := okOr (exec o0 Text.init)
def t2 : TextSt := okOr (exec oa t1)
def gvv : VV := [(1, 2)]

theorem exec_t1 : exec o0 Text.init = .ok t1 := ok_of_isOk (by decide)
theorem exec_t2 : exec oa t1 = .ok t2 := ok_of_isOk (by decide)

theorem inv_t1 : GcInv t1 :=
  gcInv_exec gcInv_init (by unfold Fresh; decide)
    (by intro c a h; simp only [o0] at h; injection h with h1 _; subst h1; unfold Fixed; decide) exec_t1

theorem inv_t2 : GcInv t2 :=
  gcInv_exec inv_t1 (by unfold Fresh; decide)
    (by intro c a h; simp only [oa] at h; injection h with h1 _; subst h1; unfold Fixed; decide) exec_t2

theorem abs_t2 : abs t2 = d2.cells := by
  obtain ⟨s1, h1, w1, a1⟩ := exec_refines_g gcInv_init.wf abs_init pre_o0
  rw [exec_t1] at h1; injection h1 with h1; subst h1
  obtain ⟨s2, h2, _, a2⟩ := exec_refines_g w1 a1 pre_oa
  rw [exec_t2] at h2; injection h2 with h2; subst h2
  exact a2

theorem static_oc : KB oc ∧ Static oc := by
  have key : ∀ t : Ticket, sees oc.vv t = true → t.actor ≠ oc.ts.actor → t.lamport ≤ 0 := by
    intro t hs hne
    rcases sees_cases hs with h | ⟨l, h1, _⟩ | ⟨_, h⟩
    · cases h
    · simp only [oc, VV.get?, tsc] at h1 hne
      split at h1
      · rename_i e; exact absurd e.symm hne
      · cases h1
    · exact h
  refine ⟨?_, by decide, ?_, ?_, ?_, ?_⟩
  · intro t hpos hs hne; have := key t hs hne; omega
  · intro t hs hne
    have := key t hs hne
    cases h : t.after oc.ts
    · rfl
    · rw [Ticket.after_iff] at h; simp only [oc, tsc] at h; omega
  · intro j hj; simp [oc, pHead, anchorOf, headId] at hj
  · intro c a h; simp only [oc] at h; injection h with h1 _; subst h1; unfold Fixed; decide
  · intro a k h; simp only [oc] at h; cases h

theorem d2_applied (u : Ticket) : d2.applied u = true ↔ u = tsa ∨ u = ts0 := by
  simp only [d2, d1, tapply, TState.init, o0, oa, Bool.or_false, Bool.or_eq_true]
  exact ⟨fun h => h.elim (fun a => Or.inl (of_decide_eq_true a)) (fun a => Or.inr (of_decide_eq_true a)),
    fun h => h.elim (fun a => Or.inl (decide_eq_true a)) (fun a => Or.inr (decide_eq_true a))⟩

theorem pre_oc : Pre d2 oc := by
  refine ⟨inv_tapply inv_d1, Or.inl ⟨rfl, rfl⟩, Or.inl ⟨rfl, rfl⟩, by decide, by decide, ?_, ?_,
    static_oc.1, static_oc.2⟩
  · intro u hu; cases hu
  · intro u hu _
    rcases (d2_applied u).1 hu with rfl | rfl <;> decide

/-- NON-VACUITY of (a): the purge really removes the node, observations unchanged -/
example :
    GcInv t2 ∧ (purge gvv t2).length = 1 ∧ t2.length = 2 ∧ visible (purge gvv t2) = visible t2 ∧
    abs (purge gvv t2) = fkeep (keepOf gvv t2) (abs t2) ∧ cids (abs t2) = [(ts0, 0), (ts0, 1)] ∧
    cids (abs (purge gvv t2)) = [] :=
  ⟨inv_t2, by decide, by decide, (purge_invisible inv_t2 gvv default).1,
    (purge_preserves_abs inv_t2 gvv).1, by decide, by decide⟩

/-- NON-VACUITY of (b): `oc` is enabled after the deletion, its anchors (the head) survive, the skip
    scan is safe (the erased cells are followed by nothing); the theorem gives success on the purged
    list and the same live content "Z" -/
example :
    ∃ t' g', exec oc t2 = .ok t' ∧ exec oc (purge gvv t2) = .ok g' ∧ GcInv g' ∧
      abs g' = fkeep (keepOf gvv t2) (abs t') ∧ visible g' = visible t' := by
  obtain ⟨t', g', h1, h2, _, h4, h5, h6⟩ := purge_safe_partial (vv := gvv) inv_t2 abs_t2 pre_oc
    (by intro i hi; simp [oc, pHead, anchorOf, headId] at hi)
    (Or.inr (by decide))
  exact ⟨t', g', h1, h2, h4, h5, h6⟩

/-- NON-VACUITY of `purge_exec_comm_partial`: additionally the vector does not cover `oc`'s ticket and
    `oc` has seen the purged deletion -/
example : ∃ t' g', exec oc t2 = .ok t' ∧ exec oc (purge gvv t2) = .ok g' ∧ abs g' = abs (purge gvv t') :=
  purge_exec_comm_partial (vv := gvv) inv_t2 abs_t2 pre_oc
    (by intro i hi; simp [oc, pHead, anchorOf, headId] at hi) (Or.inr (by decide)) (by decide)
    (by decide)

/-- NON-VACUITY of `reparent_fix_sufficient`: on `t2` with the vector `[(1,2)]` nothing survives to the
    right of the purged cells, and nothing the vector covers is newer than `oc` -/
example : SafeSkip tsc (keepOf gvv t2) (dropAfterO none (cids (abs t2))) := by
  apply reparent_fix_sufficient (vv := gvv)
  · intro t ht
    have hc : t.actor = 1 ∧ t.lamport ≤ 2 := by
      unfold VV.equalToOrAfter at ht
      by_cases e : (1 : Actor) = t.actor
      · simp only [gvv, VV.get?, e, if_true, decide_eq_true_eq] at ht
        exact ⟨e.symm, by omega⟩
      · simp [gvv, VV.get?, e] at ht
    cases h : t.after tsc
    · rfl
    · rw [Ticket.after_iff] at h; simp only [tsc] at h; omega
  · intro A e B hL hk K i B' hB hK hi
    exfalso
    have hmem : i ∈ cids (abs t2) := by rw [hL, hB]; simp
    have : ∀ j ∈ cids (abs t2), keepOf gvv t2 j = false := by decide
    rw [this i hmem] at hi; cases hi

/-- NON-VACUITY of (c): a joint run with a purge in the middle that removes a node -/
example : ∃ t g keep, Lock (tapply d2 oc) t g keep ∧ visible g = visible t ∧ keep (ts0, 0) = false := by
  have l0 := Lock.init
  have l1 : Lock d1 t1 t1 (fun _ => true) :=
    Lock.op o0 t1 t1 l0 pre_o0 (by intro i hi; simp [o0, pHead, anchorOf, headId] at hi)
      (Or.inr (by decide)) exec_t1 exec_t1
  have l2 : Lock d2 t2 t2 (fun _ => true) :=
    Lock.op oa t2 t2 l1 pre_oa (by intro i _; rfl) (Or.inl rfl) exec_t2 exec_t2
  have l3 := Lock.gc gvv l2
  obtain ⟨t', g', _, _, l4⟩ := gc_no_call_fails_partial l3 pre_oc
    (by intro i hi; simp [oc, pHead, anchorOf, headId] at hi) (Or.inr (by decide))
  exact ⟨t', g', _, l4, (gc_equals_nogc_lockstep_partial l4 default).2.2.1, by decide⟩

/-- NON-VACUITY of `anchors_kept_of_stable`'s conclusion failing without stability: the concurrent
    insertion `ob` of C01Text (positioned on "a", has not seen the deletion) loses its anchor when the
    vector `[(1,2)]` is used before it arrives – the situation the min vector excludes -/
example : keepOf gvv t2 (ts0, 0) = false ∧ anchorOf ob.fr = some (ts0, 0) ∧ sees ob.vv tsa = false := by
  decide

open W in
/-- NON-VACUITY of `anchors_survive` in the case the task asks about: "abc", "a" deleted and its piece –
    the HEAD piece `(t0,0)` of the insertion – purged (vector `[(1,1),(2,3)]` covers only that
    deletion's ticket 3:0:2 … and 2:0:2 of "b", both purged); the position after "c" `(t0,0)+3` still
    resolves, to the surviving piece `(t0,2)`, and so does an insertion there -/
example :
    (chain [insABC, delB, delA, gc [(1, 1), (2, 3)]]).toOption.map (fun s =>
      (s.map (·.id.2), (findFloorPreferLeft s (t0, 3)).map (·.id))) = some ([0, 2], some (t0, 2)) ∧
    vis (chain [insABC, delB, delA, gc [(1, 1), (2, 3)],
      edit (P 3) (P 3) [88] [] ⟨4, 0, 1⟩ (some [(1, 4), (2, 3)])]) = some [99, 88] := by
  decide

/-! the two clients of the C01Text run `s9` (client 1 applied delete, then insert; client 2 insert, then
    delete), each with a purge (vector `[(1,2)]`, covering the deletion) at the end -/

def u1 : TextSt := okOr (exec ob t2)                  -- client 1: o0, oa, ob
def v2 : TextSt := okOr (exec ob t1)                  -- client 2: o0, ob
def u2 : TextSt := okOr (exec oa v2)                  --           … oa

theorem exec_u1 : exec ob t2 = .ok u1 := ok_of_isOk (by decide)
theorem exec_v2 : exec ob t1 = .ok v2 := ok_of_isOk (by decide)
theorem exec_u2 : exec oa v2 = .ok u2 := ok_of_isOk (by decide)

theorem lock_t1 : Lock d1 t1 t1 (fun _ => true) :=
  Lock.op o0 t1 t1 Lock.init pre_o0 (by intro i hi; simp [o0, pHead, anchorOf, headId] at hi)
    (Or.inr (by decide)) exec_t1 exec_t1

theorem lock_client1 : Lock (s9.clients 1).st u1 (purge gvv u1) (fun i => true && keepOf gvv u1 i) := by
  have l2 : Lock d2 t2 t2 (fun _ => true) :=
    Lock.op oa t2 t2 lock_t1 pre_oa (by intro i _; rfl) (Or.inl rfl) exec_t2 exec_t2
  have l3 : Lock (tapply d2 ob) u1 u1 (fun _ => true) :=
    Lock.op ob u1 u1 l2 (pre_stable pre_oa pre_ob indep_ab) (by intro i _; rfl) (Or.inr (by decide))
      exec_u1 exec_u1
  have e : (s9.clients 1).st = tapply d2 ob := rfl
  rw [e]
  exact Lock.gc gvv l3

theorem lock_client2 : Lock (s9.clients 2).st u2 (purge gvv u2) (fun i => true && keepOf gvv u2 i) := by
  have l2 : Lock (tapply d1 ob) v2 v2 (fun _ => true) :=
    Lock.op ob v2 v2 lock_t1 pre_ob (by intro i _; rfl) (Or.inr (by decide)) exec_v2 exec_v2
  have l3 : Lock (tapply (tapply d1 ob) oa) u2 u2 (fun _ => true) :=
    Lock.op oa u2 u2 l2 (pre_stable pre_ob pre_oa (Sem.Indep_symm indep_ab)) (by intro i _; rfl)
      (Or.inl rfl) exec_u2 exec_u2
  have e : (s9.clients 2).st = tapply (tapply d1 ob) oa := rfl
  rw [e]
  exact Lock.gc gvv l3

/-- NON-VACUITY of the system-level theorem: both clients of `s9` purge the deleted "a","b" pieces
    (client 1 holds one tombstone node split by the later insert, client 2 two) and print the same -/
example :
    (purge gvv u1).length < u1.length ∧ (purge gvv u2).length < u2.length ∧
    visible (purge gvv u1) = [88] ∧
    (∀ tc, marshal tc (purge gvv u1) = marshal tc (purge gvv u2)) :=
  ⟨by decide, by decide, by decide, fun tc =>
    (gc_replicas_converge_partial s9_reachable 1 2 (by decide) (by decide) (by decide) (by decide)
      lock_client1 lock_client2 tc).2.2⟩

/-! attribute tombstones: "a" by actor 1, made bold, bold removed again (tombstone `b@3:0:1!`),
    registered the way `Style.Execute` registers it -/
namespace WA
open W
def styled : Except Err TextSt :=
  chain [insA, styleOp pH (P 1) [("b", "1")] [] ⟨2, 0, 1⟩ (some [(1, 2)]),
    styleOp pH (P 1) [] ["b"] ⟨3, 0, 1⟩ (some [(1, 3)])]
def sA : TextSt := okOr styled
def regA : AttrReg := [((⟨3, 0, 1⟩, "b"), (t0, 0))]
end WA

open WA in
/-- NON-VACUITY of `attr_purge_invisible`: the registered tombstone is really purged -/
example :
    RegRemoved regA sA ∧ sA.map (·.attrs.length) = [0, 1] ∧
    (purgeAttrs [(1, 3)] regA sA).1.map (·.attrs.length) = [0, 0] ∧
    (∀ tc, marshal tc (purgeAttrs [(1, 3)] regA sA).1 = marshal tc sA) :=
  have hr : RegRemoved regA sA := by unfold RegRemoved; decide
  ⟨hr, by decide, by decide, fun tc => (attr_purge_invisible hr tc).2.1⟩

end Yorkie.Props.C03Text
