/-
C12  Presence converges and obeys the document's presence setting.

Client side: presence changes are an instance of the generic convergence theorem
(`Lemmas/Convergence.lean`): a presence change of actor `x` "creates" the identity `(x, seq)` and
"references" `(x, seq-1)`, so two changes of one actor are never independent (they are applied in
the author's order everywhere), while changes of different actors touch different map entries and
commute. Hence every replica's presence map is the fold of the server log, and – per actor – the
last presence change of that actor among those applied (register semantics).
Server side: `stripPresenceChanges` leaves no presence and no empty change, and keeps order.
-/
import YorkieModel.Model.Presence
import YorkieModel.Lemmas.Convergence
namespace Yorkie.Props.C12
open Yorkie Yorkie.Presence Yorkie.Convergence

abbrev PId := Actor × Nat

def creates (op : POp) : List PId := [(op.actor, op.seq)]
def refs (op : POp) : List PId := if op.seq = 0 then [] else [(op.actor, op.seq - 1)]
def ids (m : PMap) (i : PId) : Prop := i.2 < m.seen i.1
/-- enabled: it is exactly the next presence change of its actor -/
def Pre (m : PMap) (op : POp) : Prop := op.seq = m.seen op.actor

def presSem : Sem PMap POp PId where
  apply := execute
  init := PMap.init
  author := fun op => op.actor
  creates := creates
  refs := refs
  ids := ids
  Pre := Pre

theorem pmap_ext {a b : PMap} (h1 : a.data = b.data) (h2 : a.seen = b.seen) : a = b := by
  cases a; cases b; simp_all

/-- independent presence changes belong to different actors -/
theorem indep_actor_ne {a b : POp} (hi : presSem.Indep a b) (ha : a.seq = b.seq ∨ a.seq + 1 = b.seq ∨ b.seq + 1 = a.seq) :
    a.actor ≠ b.actor := by
  intro h
  obtain ⟨h1, h2⟩ := hi
  have h1' := h1 (a.actor, a.seq) (by simp [presSem, creates])
  have h2' := h2 (b.actor, b.seq) (by simp [presSem, creates])
  simp only [presSem, creates, refs, List.mem_singleton] at h1' h2'
  rcases ha with ha | ha | ha
  · exact h1'.2 (by rw [h, ha])
  · apply h1'.1
    have : ¬ b.seq = 0 := by omega
    simp only [this, if_false, List.mem_singleton]
    rw [h]; congr 1; omega
  · apply h2'
    have : ¬ a.seq = 0 := by omega
    simp only [this, if_false, List.mem_singleton]
    rw [h]; congr 1; omega

theorem execute_comm {m : PMap} {a b : POp} (h : a.actor ≠ b.actor) :
    execute (execute m a) b = execute (execute m b) a := by
  apply pmap_ext
  · funext x
    simp only [execute]
    by_cases hb : x = b.actor <;> by_cases ha : x = a.actor <;> simp_all
  · funext x
    simp only [execute]
    by_cases hb : x = b.actor <;> by_cases ha : x = a.actor <;> simp_all

/-- the presence model satisfies every law the generic convergence theorem needs -/
theorem pres_laws : presSem.Laws where
  H0 := by intro i; simp [presSem, ids, PMap.init]
  H1 := by
    intro d a hp i
    simp only [presSem, ids, Pre, creates, execute, List.mem_singleton] at hp ⊢
    by_cases h : i.1 = a.actor
    · simp only [h, if_true]
      constructor
      · intro hlt
        by_cases hlt' : i.2 < d.seen a.actor
        · exact Or.inl hlt'
        · right; apply Prod.ext h; simp only []; omega
      · rintro (hlt | heq)
        · omega
        · rw [heq]; simp only []; omega
    · simp only [h, if_false]
      constructor
      · exact Or.inl
      · rintro (hlt | heq)
        · exact hlt
        · exact absurd (by rw [heq]) h
  H1r := by
    intro d a hp
    simp only [presSem, ids, Pre, creates, refs] at hp ⊢
    constructor
    · intro i hi
      split at hi
      · cases hi
      · simp only [List.mem_singleton] at hi; subst hi; simp only []; omega
    · intro i hi
      simp only [List.mem_singleton] at hi; subst hi; simp only []; omega
  H2 := by
    intro d a b ha hb hi
    simp only [presSem, Pre] at ha hb ⊢
    have hne : a.actor ≠ b.actor := by
      by_cases h : a.actor = b.actor
      · exfalso
        have : b.seq = a.seq + 1 := by rw [h] at ha; simp [execute, h] at hb; omega
        exact indep_actor_ne hi (Or.inr (Or.inl this.symm)) h
      · exact h
    refine ⟨?_, ?_, execute_comm hne⟩
    · simp only [execute] at hb; simpa [Ne.symm hne] using hb
    · simp only [execute]; simpa [hne] using ha
  H3 := by
    intro d a b ha hb hi
    simp only [presSem, Pre] at ha hb ⊢
    have hne : a.actor ≠ b.actor := fun h => indep_actor_ne hi (Or.inl (by rw [ha, hb, h])) h
    simp only [execute]; simpa [Ne.symm hne] using hb

/-- every replica's presence map is the fold of the log prefix it has seen plus its own pending
    presence changes; quiescent replicas hold the same map -/
theorem presence_converge {s : Sys PMap POp} (hr : presSem.Reachable s) (c₁ c₂ : Nat)
    (hp₁ : (s.clients c₁).pending = []) (hc₁ : (s.clients c₁).cp = s.log.length)
    (hp₂ : (s.clients c₂).pending = []) (hc₂ : (s.clients c₂).cp = s.log.length) :
    (s.clients c₁).st = (s.clients c₂).st :=
  Sem.converge_quiescent pres_laws hr c₁ c₂ hp₁ hc₁ hp₂ hc₂

/-- register semantics: after any sequence of presence changes, an actor's entry is what the last
    change of that actor among them says (put ⇒ its data, clear ⇒ absent), or absent if none -/
def lastOf (x : Actor) : List POp → Option PChange
  | [] => none
  | op :: r => match lastOf x r with
    | some c => some c
    | none => if op.actor = x then some op.change else none

def valueOf : Option PChange → Option PData
  | some (.put d) => some d
  | _ => none

theorem presence_register (ops : List POp) (x : Actor) :
    (ops.foldl execute PMap.init).data x = valueOf (lastOf x ops) := by
  suffices ∀ m : PMap, (ops.foldl execute m).data x =
      match lastOf x ops with
      | some c => valueOf (some c)
      | none => m.data x by
    have h := this PMap.init
    rw [h]; cases lastOf x ops <;> simp [PMap.init, valueOf]
  induction ops with
  | nil => intro m; simp [lastOf]
  | cons op r ih =>
    intro m
    simp only [List.foldl_cons, lastOf]
    rw [ih]
    cases hl : lastOf x r with
    | some c => simp
    | none =>
      simp only [execute]
      by_cases h : op.actor = x
      · simp only [h, if_true]; cases op.change <;> simp [valueOf]
      · have : ¬ x = op.actor := fun e => h e.symm
        simp [h, this]

/-- a detaching / deactivated participant sends `clear`: afterwards it is absent on every replica
    that applied it, until it puts again -/
theorem detach_clears (ops : List POp) (x : Actor) (n : Nat) :
    ((ops ++ [(⟨x, n, .clear⟩ : POp)]).foldl execute PMap.init).data x = none := by
  rw [presence_register]
  have : lastOf x (ops ++ [(⟨x, n, .clear⟩ : POp)]) = some .clear := by
    induction ops with
    | nil => simp [lastOf]
    | cons op r ih => simp [lastOf, ih]
  rw [this]; rfl

/-! ### server side: `stripPresenceChanges` -/

theorem strip_no_presence (cs : List ChangeShape) : ∀ c ∈ strip cs, c.hasPresence = false := by
  induction cs with
  | nil => simp [strip]
  | cons c r ih =>
    intro x hx
    simp only [strip] at hx
    split at hx
    · split at hx
      · exact ih x hx
      · rcases List.mem_cons.mp hx with rfl | hx
        · rfl
        · exact ih x hx
    · rename_i hnp
      rcases List.mem_cons.mp hx with rfl | hx
      · simpa using hnp
      · exact ih x hx

/-- no empty change is left: whatever survives and had presence also has operations -/
theorem strip_no_empty (cs : List ChangeShape) (h : ∀ c ∈ cs, c.hasOps = true ∨ c.hasPresence = true) :
    ∀ c ∈ strip cs, c.hasOps = true := by
  induction cs with
  | nil => simp [strip]
  | cons c r ih =>
    have hr : ∀ c ∈ r, c.hasOps = true ∨ c.hasPresence = true := fun x hx => h x (List.mem_cons_of_mem _ hx)
    have hc := h c (List.mem_cons_self ..)
    intro x hx
    simp only [strip] at hx
    split at hx
    · split at hx
      · exact ih hr x hx
      · rcases List.mem_cons.mp hx with rfl | hx
        · simp_all
        · exact ih hr x hx
    · rcases List.mem_cons.mp hx with rfl | hx
      · simp_all
      · exact ih hr x hx

/-- order and identity of the surviving changes are kept: the tags are the tags of exactly the
    changes that carry operations, in order -/
theorem strip_keeps_ops_in_order (cs : List ChangeShape) (h : ∀ c ∈ cs, c.hasOps = true ∨ c.hasPresence = true) :
    (strip cs).map (·.tag) = (cs.filter (·.hasOps)).map (·.tag) := by
  induction cs with
  | nil => simp [strip]
  | cons c r ih =>
    have hr : ∀ c ∈ r, c.hasOps = true ∨ c.hasPresence = true := fun x hx => h x (List.mem_cons_of_mem _ hx)
    have hc := h c (List.mem_cons_self ..)
    simp only [strip, List.filter_cons]
    by_cases hp : c.hasPresence = true <;> by_cases ho : c.hasOps = true <;> simp_all


/-! ### interleaving independence and batching (added) -/

theorem lastOf_eq_filter (x : Actor) (ops : List POp) :
    lastOf x ops = ((ops.filter (fun op => op.actor = x)).getLast?).map (·.change) := by
  induction ops with
  | nil => simp [lastOf]
  | cons op r ih =>
    simp only [lastOf, ih, List.filter_cons]
    by_cases h : op.actor = x
    · simp only [h, decide_true, if_true]
      cases hr : r.filter (fun op => decide (op.actor = x)) with
      | nil => simp
      | cons y ys =>
        have hne : (y :: ys).getLast? = some ((y :: ys).getLast (by simp)) := List.getLast?_eq_some_getLast _
        simp [hne]
    · simp only [h, decide_false, if_false, Bool.false_eq_true]
      cases ((r.filter (fun op => decide (op.actor = x))).getLast?) <;> simp

/-- any two delivery orders that keep each actor's own presence changes in that actor's order
    (which is all the protocol guarantees between different actors) give the same presence map:
    the map depends on the history only through its per-actor projections -/
theorem presence_interleaving_independent (ops₁ ops₂ : List POp)
    (h : ∀ x, ops₁.filter (fun op => op.actor = x) = ops₂.filter (fun op => op.actor = x)) :
    (ops₁.foldl execute PMap.init).data = (ops₂.foldl execute PMap.init).data := by
  funext x
  rw [presence_register, presence_register, lastOf_eq_filter, lastOf_eq_filter, h x]

/-- an actor that never appears in the applied history has no entry (no presence is invented) -/
theorem presence_absent_of_no_change (ops : List POp) (x : Actor) (h : ∀ op ∈ ops, op.actor ≠ x) :
    (ops.foldl execute PMap.init).data x = none := by
  rw [presence_register, lastOf_eq_filter]
  have : ops.filter (fun op => decide (op.actor = x)) = [] := by
    apply List.filter_eq_nil_iff.mpr
    intro op hop; simpa using h op hop
  rw [this]; rfl

/-- a `put` is visible with exactly its data on every replica that applied it last for that actor -/
theorem put_visible (ops : List POp) (x : Actor) (n : Nat) (d : PData) :
    ((ops ++ [(⟨x, n, .put d⟩ : POp)]).foldl execute PMap.init).data x = some d := by
  rw [List.foldl_append]; simp [execute]

/-- the `seen` ghost counts exactly the actor's changes applied: it is what `Pre` compares against -/
theorem seen_counts (ops : List POp) (x : Actor) :
    (ops.foldl execute PMap.init).seen x = (ops.filter (fun op => op.actor = x)).length := by
  suffices ∀ m : PMap, (ops.foldl execute m).seen x =
      m.seen x + (ops.filter (fun op => op.actor = x)).length by
    simpa [PMap.init] using this PMap.init
  induction ops with
  | nil => intro m; simp
  | cons op r ih =>
    intro m
    simp only [List.foldl_cons, ih, List.filter_cons, execute]
    by_cases h : op.actor = x
    · have hx : x = op.actor := h.symm
      simp only [hx, if_true, decide_true, List.length_cons]; omega
    · have hx : ¬ x = op.actor := fun e => h e.symm
      simp [h, hx]

/-- stripping is per change: stripping a concatenation of packs is the concatenation of the
    stripped packs, so how the pushes were batched into requests does not matter -/
theorem strip_append (a b : List ChangeShape) : strip (a ++ b) = strip a ++ strip b := by
  induction a with
  | nil => simp [strip]
  | cons c r ih =>
    simp only [List.cons_append, strip, ih]
    split
    · split <;> simp
    · simp

/-- stripping twice is stripping once (a retried, already stripped pack is left alone) -/
theorem strip_idempotent (cs : List ChangeShape) : strip (strip cs) = strip cs := by
  induction cs with
  | nil => simp [strip]
  | cons c r ih =>
    simp only [strip]
    split
    · split
      · exact ih
      · simp [strip, ih]
    · rename_i hnp
      simp only [strip, hnp, ih]; simp

/-- a change without presence passes through untouched, operations and tag included -/
theorem strip_keeps_plain (cs : List ChangeShape) (c : ChangeShape) (hc : c ∈ cs)
    (hp : c.hasPresence = false) : c ∈ strip cs := by
  induction cs with
  | nil => cases hc
  | cons d r ih =>
    simp only [strip]
    rcases List.mem_cons.mp hc with rfl | hr
    · simp [hp]
    · split
      · split
        · exact ih hr
        · exact List.mem_cons_of_mem _ (ih hr)
      · exact List.mem_cons_of_mem _ (ih hr)

theorem strip_length_le (cs : List ChangeShape) : (strip cs).length ≤ cs.length := by
  induction cs with
  | nil => simp [strip]
  | cons c r ih =>
    simp only [strip]
    split
    · split
      · simp only [List.length_cons]; omega
      · simp only [List.length_cons]; omega
    · simp only [List.length_cons]; omega

/-! non-vacuity -/
example : (([⟨7, 0, .put []⟩, ⟨9, 0, .clear⟩] : List POp).filter (fun op => op.actor = 7)) = (([⟨9, 0, .clear⟩, ⟨7, 0, .put []⟩] : List POp).filter (fun op => op.actor = 7)) := by decide
example : presSem.Pre PMap.init ⟨7, 0, .put [("k", "v")]⟩ := rfl
example : (([⟨7, 0, .put [("k", "v1")]⟩, ⟨9, 0, .put []⟩, ⟨7, 1, .put [("k", "v2")]⟩] : List POp).foldl execute PMap.init).data 7
    = some [("k", "v2")] := by decide
example : strip [⟨1, false, true⟩, ⟨2, true, true⟩, ⟨3, true, false⟩] = [⟨2, true, false⟩, ⟨3, true, false⟩] := by decide

end Yorkie.Props.C12
