/-
C12  Presence converges and obeys the document's presence setting.

Client side: presence changes are an instance of the generic convergence theorem
(`Lemmas/Convergence.lean`): a presence change of actor `x` "creates" the identity `(x, seq)` and
"references" `(x, seq-1)`, so two changes of one actor are never independent (they are applied in
the author's order everywhere), while changes of different actors touch different map entries and
commute. Hence every replica's presence map is the fold of the server log, and – per actor – the
last presence change of that actor among those applied (register semantics).
Server side: `stripPresenceChanges` leaves no presence and no empty change, and keeps order.
-/
import YorkieModel.Model.Presence
import YorkieModel.Lemmas.Convergence
namespace Yorkie.Props.C12
open Yorkie Yorkie.Presence Yorkie.Convergence

abbrev PId := Actor × Nat

def creates (op : POp) : List PId := [(op.actor, op.seq)]
def refs (op : POp) : List PId := if op.seq = 0 then [] else [(op.actor, op.seq - 1)]
def ids (m : PMap) (i : PId) : Prop := i.2 < m.seen i.1
/-- enabled: it is exactly the next presence change of its actor -/
def Pre (m : PMap) (op : POp) : Prop := op.seq = m.seen op.actor

def presSem : Sem PMap POp PId where
  apply := execute
  init := PMap.init
  author := fun op => op.actor
  creates := creates
  refs := refs
  ids := ids
  Pre := Pre

theorem pmap_ext {a b : PMap} (h1 : a.data = b.data) (h2 : a.seen = b.seen) : a = b := by
  cases a; cases b; simp_all

/-- independent presence changes belong to different actors -/
theorem indep_actor_ne {a b : POp} (hi : presSem.Indep a b) (ha : a.seq = b.seq ∨ a.seq + 1 = b.seq ∨ b.seq + 1 = a.seq) :
    a.actor ≠ b.actor := by
  intro h
  obtain ⟨h1, h2⟩ := hi
  have h1' := h1 (a.actor, a.seq) (by simp [presSem, creates])
  have h2' := h2 (b.actor, b.seq) (by simp [presSem, creates])
  simp only [presSem, creates, refs, List.mem_singleton] at h1' h2'
  rcases ha with ha | ha | ha
  · exact h1'.2 (by rw [h, ha])
  · apply h1'.1
    have : ¬ b.seq = 0 := by omega
    simp only [this, if_false, List.mem_singleton]
    rw [h]; congr 1; omega
  · apply h2'
    have : ¬ a.seq = 0 := by omega
    simp only [this, if_false, List.mem_singleton]
    rw [h]; congr 1; omega

theorem execute_comm {m : PMap} {a b : POp} (h : a.actor ≠ b.actor) :
    execute (execute m a) b = execute (execute m b) a := by
  apply pmap_ext
  · funext x
    simp only [execute]
    by_cases hb : x = b.actor <;> by_cases ha : x = a.actor <;> simp_all
  · funext x
    simp only [execute]
    by_cases hb : x = b.actor <;> by_cases ha : x = a.actor <;> simp_all

/-- the presence model satisfies every law the generic convergence theorem needs -/
theorem pres_laws : presSem.Laws where
  H0 := by intro i; simp [presSem, ids, PMap.init]
  H1 := by
    intro d a hp i
    simp only [presSem, ids, Pre, creates, execute, List.mem_singleton] at hp ⊢
    by_cases h : i.1 = a.actor
    · simp only [h, if_true]
      constructor
      · intro hlt
        by_cases hlt' : i.2 < d.seen a.actor
        · exact Or.inl hlt'
        · right; apply Prod.ext h; simp only []; omega
      · rintro (hlt | heq)
        · omega
        · rw [heq]; simp only []; omega
    · simp only [h, if_false]
      constructor
      · exact Or.inl
      · rintro (hlt | heq)
        · exact hlt
        · exact absurd (by rw [heq]) h
  H1r := by
    intro d a hp
    simp only [presSem, ids, Pre, creates, refs] at hp ⊢
    constructor
    · intro i hi
      split at hi
      · cases hi
      · simp only [List.mem_singleton] at hi; subst hi; simp only []; omega
    · intro i hi
      simp only [List.mem_singleton] at hi; subst hi; simp only []; omega
  H2 := by
    intro d a b ha hb hi
    simp only [presSem, Pre] at ha hb ⊢
    have hne : a.actor ≠ b.actor := by
      by_cases h : a.actor = b.actor
      · exfalso
        have : b.seq = a.seq + 1 := by rw [h] at ha; simp [execute, h] at hb; omega
        exact indep_actor_ne hi (Or.inr (Or.inl this.symm)) h
      · exact h
    refine ⟨?_, ?_, execute_comm hne⟩
    · simp only [execute] at hb; simpa [Ne.symm hne] using hb
    · simp only [execute]; simpa [hne] using ha
  H3 := by
    intro d a b ha hb hi
    simp only [presSem, Pre] at ha hb ⊢
    have hne : a.actor ≠ b.actor := fun h => indep_actor_ne hi (Or.inl (by rw [ha, hb, h])) h
    simp only [execute]; simpa [Ne.symm hne] using hb

/-- every replica's presence map is the fold of the log prefix it has seen plus its own pending
    presence changes; quiescent replicas hold the same map -/
theorem presence_converge {s : Sys PMap POp} (hr : presSem.Reachable s) (c₁ c₂ : Nat)
    (hp₁ : (s.clients c₁).pending = []) (hc₁ : (s.clients c₁).cp = s.log.length)
    (hp₂ : (s.clients c₂).pending = []) (hc₂ : (s.clients c₂).cp = s.log.length) :
    (s.clients c₁).st = (s.clients c₂).st :=
  Sem.converge_quiescent pres_laws hr c₁ c₂ hp₁ hc₁ hp₂ hc₂

/-- register semantics: after any sequence of presence changes, an actor's entry is what the last
    change of that actor among them says (put ⇒ its data, clear ⇒ absent), or absent if none -/
def lastOf (x : Actor) : List POp → Option PChange
  | [] => none
  | op :: r => match lastOf x r with
    | some c => some c
    | none => if op.actor = x then some op.change else none

def valueOf : Option PChange → Option PData
  | some (.put d) => some d
  | _ => none

theorem presence_register (ops : List POp) (x : Actor) :
    (ops.foldl execute PMap.init).data x = valueOf (lastOf x ops) := by
  suffices ∀ m : PMap, (ops.foldl execute m).data x =
      match lastOf x ops with
      | some c => valueOf (some c)
      | none => m.data x by
    have h := this PMap.init
    rw [h]; cases lastOf x ops <;> simp [PMap.init, valueOf]
  induction ops with
  | nil => intro m; simp [lastOf]
  | cons op r ih =>
    intro m
    simp only [List.foldl_cons, lastOf]
    rw [ih]
    cases hl : lastOf x r with
    | some c => simp
    | none =>
      simp only [execute]
      by_cases h : op.actor = x
      · simp only [h, if_true]; cases op.change <;> simp [valueOf]
      · have : ¬ x = op.actor := fun e => h e.symm
        simp [h, this]

/-- a detaching / deactivated participant sends `clear`: afterwards it is absent on every replica
    that applied it, until it puts again -/
theorem detach_clears (ops : List POp) (x : Actor) (n : Nat) :
    ((ops ++ [(⟨x, n, .clear⟩ : POp)]).foldl execute PMap.init).data x = none := by
  rw [presence_register]
  have : lastOf x (ops ++ [(⟨x, n, .clear⟩ : POp)]) = some .clear := by
    induction ops with
    | nil => simp [lastOf]
    | cons op r ih => simp [lastOf, ih]
  rw [this]; rfl

/-! ### server side: `stripPresenceChanges` -/

theorem strip_no_presence (cs : List ChangeShape) : ∀ c ∈ strip cs, c.hasPresence = false := by
  induction cs with
  | nil => simp [strip]
  | cons c r ih =>
    intro x hx
    simp only [strip] at hx
    split at hx
    · split at hx
      · exact ih x hx
      · rcases List.mem_cons.mp hx with rfl | hx
        · rfl
        · exact ih x hx
    · rename_i hnp
      rcases List.mem_cons.mp hx with rfl | hx
      · simpa using hnp
      · exact ih x hx

/-- no empty change is left: whatever survives and had presence also has operations -/
theorem strip_no_empty (cs : List ChangeShape) (h : ∀ c ∈ cs, c.hasOps = true ∨ c.hasPresence = true) :
    ∀ c ∈ strip cs, c.hasOps = true := by
  induction cs with
  | nil => simp [strip]
  | cons c r ih =>
    have hr : ∀ c ∈ r, c.hasOps = true ∨ c.hasPresence = true := fun x hx => h x (List.mem_cons_of_mem _ hx)
    have hc := h c (List.mem_cons_self ..)
    intro x hx
    simp only [strip] at hx
    split at hx
    · split at hx
      · exact ih hr x hx
      · rcases List.mem_cons.mp hx with rfl | hx
        · simp_all
        · exact ih hr x hx
    · rcases List.mem_cons.mp hx with rfl | hx
      · simp_all
      · exact ih hr x hx

/-- order and identity of the surviving changes are kept: the tags are the tags of exactly the
    changes that carry operations, in order -/
theorem strip_keeps_ops_in_order (cs : List ChangeShape) (h : ∀ c ∈ cs, c.hasOps = true ∨ c.hasPresence = true) :
    (strip cs).map (·.tag) = (cs.filter (·.hasOps)).map (·.tag) := by
  induction cs with
  | nil => simp [strip]
  | cons c r ih =>
    have hr : ∀ c ∈ r, c.hasOps = true ∨ c.hasPresence = true := fun x hx => h x (List.mem_cons_of_mem _ hx)
    have hc := h c (List.mem_cons_self ..)
    simp only [strip, List.filter_cons]
    by_cases hp : c.hasPresence = true <;> by_cases ho : c.hasOps = true <;> simp_all

/-! non-vacuity -/
example : presSem.Pre PMap.init ⟨7, 0, .put [("k", "v")]⟩ := rfl
example : (([⟨7, 0, .put [("k", "v1")]⟩, ⟨9, 0, .put []⟩, ⟨7, 1, .put [("k", "v2")]⟩] : List POp).foldl execute PMap.init).data 7
    = some [("k", "v2")] := by decide
example : strip [⟨1, false, true⟩, ⟨2, true, true⟩, ⟨3, true, false⟩] = [⟨2, true, false⟩, ⟨3, true, false⟩] := by decide

end Yorkie.Props.C12
