/-
C05  A retried or half-completed sync never applies an edit twice or loses it.

Model: Model/ServerFault.lean (`stepF k`: one request in which ONE storage call returns an error,
before or after it took effect; everything the handler held in memory is dropped, the store keeps
what earlier calls committed) on top of Model/Server.lean.  Helper lemmas: Lemmas/ServerFault.lean.

Quantifiers.  Every theorem holds in EVERY state `s` (reachable or not), for EVERY client, document
and pack (crafted ones included), push-only or not, with or without GC – "for every history" is
covered by "for every state".  `k` ranges over every fault point (`FaultAt` × before/after).  The
sync request is `PushPullChanges` (`Request.pushpull`), the only request the property text calls a
sync; what happens to the lifecycle requests is `lifecycle_retry_refused_witness`.

The full statement – "for EVERY fault point fault + retry = fault-free" (`retry_idempotent`) – is FALSE
on the pinned tree: inside the window `Fault.inWindow` the pushed changes are stored twice
(`window_duplicates`, `retry_duplicates_witness`; upstream-known, finding
F-C05-lost-checkpoint-window).  Proved: `retry_idempotent_partial` for every point outside the window.
A lost response needs no fault model: the store is that of the fault-free request and the client
resends (`response_loss_idempotent`); that the resent request then DELIVERS exactly the right changes
is C04's `delivery_exact`, whose schedules contain lost responses and resends.
-/
import YorkieModel.Lemmas.ServerFault
namespace Yorkie.Props.C05
open Yorkie Yorkie.Server

/-- THE WINDOW, exactly: `CreateChangeInfos` returned an error after it committed; or
`FindChangeInfosBetweenServerSeqs` / `UpdateMinVersionVector` failed (before or after their effect);
or `UpdateClientInfoAfterPushPull` failed before it took effect. -/
theorem window_exact (k : Fault) :
    k.inWindow = true ↔
      (k = ⟨.createChanges, true⟩ ∨ k.point = .pullFindChanges ∨ k.point = .updateMinVV ∨ k = ⟨.updateClientInfo, false⟩) := by
  obtain ⟨p, a⟩ := k
  cases p <;> cases a <;> simp [Fault.inWindow]

/-- A failed sync can be retried: in every state, for every sync request that would be accepted
without a fault, and for EVERY single fault – window included –, the identical request sent again
after the faulty attempt is accepted (no lifecycle error, no client-sequence error, no server-sequence
error). -/
theorem failed_request_retryable (s : Server) (c : ClientId) (d : DocId) (pack : Pack) (po nogc : Bool) (r : Resp)
    (h : (step s (.pushpull c d pack po nogc)).2 = .ok r) (k : Fault) :
    ∃ r', (step (stepF (some k) s (.pushpull c d pack po nogc)).1 (.pushpull c d pack po nogc)).2 = .ok r' := by
  simp only [step, stepF] at h ⊢
  generalize hres : pushpullReq s c d pack po nogc = res at h
  obtain ⟨s', out⟩ := res
  simp only [] at h; subst h
  rcases pushpullReqF_outcomes hres k with e | e | ⟨_, info, doc, p, v, f', hi, ha, hst, hd, hg, hpp, e⟩
  · rw [e, hres]; exact ⟨r, rfl⟩
  · rw [e]
    obtain ⟨r', h', _⟩ := pushpullReq_idempotent hres
    rw [h']; exact ⟨r', rfl⟩
  · rw [e]
    simp only []
    obtain ⟨doc0, p0, hd0, hg0, p2, s'', f'', d'', _, h2, _⟩ := pushPull_window_retry hpp (by simp) v
    simp only [mkFlight_doc] at hd0 h2
    rw [hd] at hd0; injection hd0 with hd0; subst hd0
    rw [hg] at hg0; injection hg0 with hg0; subst hg0
    have hev := pushpullReq_eval (s := s.setDoc d { pushedDoc doc (stripped (mkFlight c d info pack po .attached nogc doc.disablePresence)) p with vvRows := v })
      (c := c) (d := d) (info := info)
      (doc := { pushedDoc doc (stripped (mkFlight c d info pack po .attached nogc doc.disablePresence)) p with vvRows := v })
      (by simpa [Server.findClient, Server.setDoc] using hi) ha hst (setDoc_findDoc_self _ _ _) pack po nogc
    have h2' : pushPull (s.setDoc d { pushedDoc doc (stripped (mkFlight c d info pack po .attached nogc doc.disablePresence)) p with vvRows := v })
        (mkFlight c d info pack po .attached nogc
          ({ pushedDoc doc (stripped (mkFlight c d info pack po .attached nogc doc.disablePresence)) p with vvRows := v } : Doc).disablePresence) =
        (s'', .ok f'') := h2
    rw [hev, h2']
    exact ⟨f''.resp, rfl⟩

/-- PARTIAL (every fault point OUTSIDE the window; missing for the full `retry_idempotent`: the window,
see `window_duplicates`): for every sync request that would be accepted without a fault, the faulty
attempt followed by the identical retry leaves EXACTLY the store of the fault-free request – the same
log (so every (actor, clientSeq) it carried is stored exactly once, as in the fault-free run), the
same stored checkpoints, the same version-vector rows, the same everything – and the retry's answer
carries the same checkpoint as the fault-free answer. -/
theorem retry_idempotent_partial (s : Server) (c : ClientId) (d : DocId) (pack : Pack) (po nogc : Bool) (r : Resp)
    (h : (step s (.pushpull c d pack po nogc)).2 = .ok r) (k : Fault) (hk : k.inWindow = false) :
    (step (stepF (some k) s (.pushpull c d pack po nogc)).1 (.pushpull c d pack po nogc)).1 =
      (step s (.pushpull c d pack po nogc)).1 ∧
    ∃ r', (step (stepF (some k) s (.pushpull c d pack po nogc)).1 (.pushpull c d pack po nogc)).2 = .ok r' ∧ r'.cp = r.cp := by
  simp only [step, stepF] at h ⊢
  generalize hres : pushpullReq s c d pack po nogc = res at h ⊢
  obtain ⟨s', out⟩ := res
  simp only [] at h ⊢; subst h
  rcases pushpullReqF_outcomes hres k with e | e | ⟨hw, _⟩
  · rw [e, hres]; exact ⟨rfl, r, rfl, rfl⟩
  · rw [e]
    obtain ⟨r', h', hcp⟩ := pushpullReq_idempotent hres
    rw [h']; exact ⟨rfl, r', rfl, hcp⟩
  · rw [hk] at hw; simp at hw

/-- A lost response followed by the resend of the identical pack = the fault-free request: the store
after the second attempt is exactly the store after the first (nothing is stored twice, no
checkpoint moves, no version-vector row changes), and the second answer carries the same checkpoint,
so the client ends where it would have ended had the first answer arrived. -/
theorem response_loss_idempotent (s : Server) (c : ClientId) (d : DocId) (pack : Pack) (po nogc : Bool) (r : Resp)
    (h : (step s (.pushpull c d pack po nogc)).2 = .ok r) :
    (step (step s (.pushpull c d pack po nogc)).1 (.pushpull c d pack po nogc)).1 = (step s (.pushpull c d pack po nogc)).1 ∧
    ∃ r', (step (step s (.pushpull c d pack po nogc)).1 (.pushpull c d pack po nogc)).2 = .ok r' ∧ r'.cp = r.cp := by
  simp only [step] at h ⊢
  generalize hres : pushpullReq s c d pack po nogc = res at h ⊢
  obtain ⟨s', out⟩ := res
  simp only [] at h ⊢; subst h
  obtain ⟨r', h', hcp⟩ := pushpullReq_idempotent hres
  rw [h']; exact ⟨rfl, r', rfl, hcp⟩

/-- Inside the window, in general: for every sync request that would be accepted and every fault of
the window that fires (the answer is the injected error), the retry is accepted and the log is then
the original log, the rows of the pushed changes, AND THE SAME (actor, clientSeq) KEYS ONCE MORE under
new server sequences (`hrm`: unless – only under the repair switch `pushAfterRemoveDiscards` – the request
itself removed the document, in which case the retry's pushables are discarded).  So the edits are stored twice exactly when the request pushed something
(`p ≠ []`); a request of the window that pushed nothing is harmless. -/
theorem window_duplicates (s : Server) (c : ClientId) (d : DocId) (pack : Pack) (po nogc : Bool) (r : Resp)
    (h : (step s (.pushpull c d pack po nogc)).2 = .ok r) (k : Fault)
    (hrm : s.cfg.pushAfterRemoveDiscards = false ∨ pack.isRemoved = false)
    (hfired : (stepF (some k) s (.pushpull c d pack po nogc)).1 ≠ s ∧
              (stepF (some k) s (.pushpull c d pack po nogc)).1 ≠ (step s (.pushpull c d pack po nogc)).1) :
    k.inWindow = true ∧
    ∃ info doc p rows1 rows2 d'', s.findClient c = some info ∧ s.findDoc d = some doc ∧
      pushGuard s (stripped (mkFlight c d info pack po .attached nogc doc.disablePresence)) = .ok p ∧
      (step (stepF (some k) s (.pushpull c d pack po nogc)).1 (.pushpull c d pack po nogc)).1.findDoc d = some d'' ∧
      d''.log = doc.log ++ rows1 ++ rows2 ∧ rows1.length = p.length ∧
      rows1.map rowKey = p.map chgKey ∧ rows2.map rowKey = p.map chgKey := by
  simp only [step, stepF] at h hfired ⊢
  generalize hres : pushpullReq s c d pack po nogc = res at h hfired
  obtain ⟨s', out⟩ := res
  simp only [] at h hfired; subst h
  rcases pushpullReqF_outcomes hres k with e | e | ⟨hw, info, doc, p, v, f', hi, ha, hst, hd, hg, hpp, e⟩
  · exact absurd e hfired.1
  · exact absurd e hfired.2
  · refine ⟨hw, info, doc, p, ?_⟩
    rw [e]
    simp only []
    obtain ⟨doc0, p0, hd0, hg0, p2, s'', f'', d'', hp2, h2, hd'', rows1, rows2, hl, k1, k2, hlen⟩ := pushPull_window_retry hpp (by simp) v
    simp only [mkFlight_doc, mkFlight_pack] at hd0 h2 hd'' hp2
    rw [hd] at hd0; injection hd0 with hd0; subst hd0
    rw [hg] at hg0; injection hg0 with hg0; subst hg0
    have hp2' : p2 = p := by
      rcases hp2 with e | ⟨_, e2, e3⟩
      · exact e
      · rcases hrm with h1 | h1
        · rw [h1] at e2; simp at e2
        · rw [h1] at e3; simp at e3
    rw [hp2'] at k2
    have hev := pushpullReq_eval (s := s.setDoc d { pushedDoc doc (stripped (mkFlight c d info pack po .attached nogc doc.disablePresence)) p with vvRows := v })
      (c := c) (d := d) (info := info)
      (doc := { pushedDoc doc (stripped (mkFlight c d info pack po .attached nogc doc.disablePresence)) p with vvRows := v })
      (by simpa [Server.findClient, Server.setDoc] using hi) ha hst (setDoc_findDoc_self _ _ _) pack po nogc
    have h2' : pushPull (s.setDoc d { pushedDoc doc (stripped (mkFlight c d info pack po .attached nogc doc.disablePresence)) p with vvRows := v })
        (mkFlight c d info pack po .attached nogc
          ({ pushedDoc doc (stripped (mkFlight c d info pack po .attached nogc doc.disablePresence)) p with vvRows := v } : Doc).disablePresence) =
        (s'', .ok f'') := h2
    rw [hev, h2']
    exact ⟨rows1, rows2, d'', hi, hd, hg, hd'', hl, hlen, k1, k2⟩

/-- The window on a concrete history, by evaluation (corpus/C05/faults-lost-checkpoint-window.trace, the
scenario of the upstream test that is skipped): c0 and c1 attach; c0 syncs one edit (clientSeq 2);
`UpdateClientInfoAfterPushPull` fails BEFORE taking effect: the answer is an error, the edit is in
the log (serverSeq 3), c0's stored checkpoint is still (1,1).  c0 resends the identical pack: accepted,
and (c0, clientSeq 2) is stored AGAIN at serverSeq 4; c1's next sync receives the edit twice. -/
theorem retry_duplicates_witness :
    let ops (c cs : Nat) (lam : Int) (tag : Nat) : ChangeReq :=
      { clientSeq := cs, lamport := lam, vv := [(c, lam)], actor := c, hasOps := true, hasPresence := false, tag := tag }
    let pres (c cs tag : Nat) : ChangeReq :=
      { clientSeq := cs, lamport := 0, vv := [], actor := c, hasOps := false, hasPresence := true, tag := tag }
    let s := run (Server.init {}) [.activate, .activate,
      .attach 0 0 { cp := ⟨0, 0⟩, changes := [pres 0 1 1], vv := [] } false false,
      .attach 1 0 { cp := ⟨0, 0⟩, changes := [pres 1 1 2], vv := [] } false false]
    let req : Request := .pushpull 0 0 { cp := ⟨1, 1⟩, changes := [ops 0 2 1 3], vv := [(0, 1)] } false false
    let faulty := stepF (some ⟨.updateClientInfo, false⟩) s req
    let retry := step faulty.1 req
    let peer := step retry.1 (.pushpull 1 0 { cp := ⟨2, 1⟩, changes := [], vv := [] } false false)
    ((match faulty.2 with | .error e => some e | .ok _ => none) == some .internal &&
     (storedLog faulty.1 0).map rowKey == [(0, 1), (1, 1), (0, 2)] &&
     (entryOf faulty.1 0 0).map (fun e => (e.serverSeq, e.clientSeq)) == some (1, 1) &&
     (retry.2.toOption.map (fun x => (x.cp.serverSeq, x.cp.clientSeq))) == some (4, 2) &&
     (storedLog retry.1 0).map rowKey == [(0, 1), (1, 1), (0, 2), (0, 2)] &&
     (peer.2.toOption.map (fun x => x.changes.map (fun y => (y.actor, y.clientSeq, y.serverSeq)))) ==
        some [(0, 2, 3), (0, 2, 4)]) = true := by
  decide

/-- Lifecycle requests are not idempotent under a lost answer (not a sync, not claimed by
`failed_request_retryable`): a Detach whose last write committed before the error (the same store as a
lost response) is refused on retry with `documentNotAttached` – the detach HAS happened, its change
is stored exactly once, nothing is duplicated; likewise an Attach is refused with `clientNotFound`
(`TryAttaching` reports "already attached" that way). -/
theorem lifecycle_retry_refused_witness :
    let pres (c cs tag : Nat) : ChangeReq :=
      { clientSeq := cs, lamport := 0, vv := [], actor := c, hasOps := false, hasPresence := true, tag := tag }
    let s0 := run (Server.init {}) [.activate]
    let att : Request := .attach 0 0 { cp := ⟨0, 0⟩, changes := [pres 0 1 1], vv := [] } false false
    let a1 := stepF (some ⟨.updateClientInfo, true⟩) s0 att
    let a2 := step a1.1 att
    let det : Request := .detach 0 0 { cp := ⟨1, 1⟩, changes := [pres 0 2 2], vv := [] }
    let d1 := stepF (some ⟨.updateClientInfo, true⟩) a2.1 det
    let d2 := step d1.1 det
    ((match a1.2 with | .error e => some e | .ok _ => none) == some .internal &&
     (match a2.2 with | .error e => some e | .ok _ => none) == some .clientNotFound &&
     (storedLog a2.1 0).map rowKey == [(0, 1)] &&
     (match d1.2 with | .error e => some e | .ok _ => none) == some .internal &&
     (match d2.2 with | .error e => some e | .ok _ => none) == some .documentNotAttached &&
     (storedLog d2.1 0).map rowKey == [(0, 1), (0, 2)]) = true := by
  decide


/-! ### under repetition: any number of lost answers / resends (added) -/

/-- the client resends the identical request `n` times (each answer lost or not – the store does not
depend on whether the answer arrived) -/
def resend (req : Request) : Nat → Server → Server
  | 0, s => s
  | n + 1, s => resend req n (step s req).1

theorem resend_fixed (req : Request) (s : Server) (h : (step s req).1 = s) (n : Nat) : resend req n s = s := by
  induction n with
  | zero => rfl
  | succ n ih => simp only [resend, h, ih]

/-- ANY number of resends of an accepted sync (every answer but the last lost, say) leaves exactly the
store of the single fault-free request, and every one of those answers is an acceptance carrying the
checkpoint of the first: `response_loss_idempotent` holds under repetition, not just once. -/
theorem response_loss_idempotent_repeated (s : Server) (c : ClientId) (d : DocId) (pack : Pack) (po nogc : Bool) (r : Resp)
    (h : (step s (.pushpull c d pack po nogc)).2 = .ok r) (n : Nat) :
    resend (.pushpull c d pack po nogc) (n + 1) s = (step s (.pushpull c d pack po nogc)).1 ∧
    ∃ r', (step (resend (.pushpull c d pack po nogc) n s) (.pushpull c d pack po nogc)).2 = .ok r' ∧ r'.cp = r.cp := by
  obtain ⟨hfix, r', hr', hcp⟩ := response_loss_idempotent s c d pack po nogc r h
  refine ⟨?_, ?_⟩
  · simp only [resend]; exact resend_fixed _ _ hfix n
  · cases n with
    | zero => exact ⟨r, h, rfl⟩
    | succ m =>
      simp only [resend]
      rw [resend_fixed _ _ hfix m]
      exact ⟨r', hr', hcp⟩

/-- PARTIAL (outside the window, as `retry_idempotent_partial`): one fault followed by ANY positive number of
retries of the identical request gives exactly the store of the fault-free request. -/
theorem retry_idempotent_repeated_partial (s : Server) (c : ClientId) (d : DocId) (pack : Pack) (po nogc : Bool) (r : Resp)
    (h : (step s (.pushpull c d pack po nogc)).2 = .ok r) (k : Fault) (hk : k.inWindow = false) (n : Nat) :
    resend (.pushpull c d pack po nogc) (n + 1) (stepF (some k) s (.pushpull c d pack po nogc)).1 =
      (step s (.pushpull c d pack po nogc)).1 := by
  obtain ⟨hst, _⟩ := retry_idempotent_partial s c d pack po nogc r h k hk
  obtain ⟨hfix, _⟩ := response_loss_idempotent s c d pack po nogc r h
  simp only [resend]
  rw [hst]
  exact resend_fixed _ _ hfix n

/-- … and so do TWO faults in a row outside the window followed by a retry, provided the second faulty
attempt is itself made on a request the fault-free server would accept in the state the first fault
left (true whenever the first fault fired before anything committed, or after everything did). -/
theorem two_faults_then_retry_partial (s : Server) (c : ClientId) (d : DocId) (pack : Pack) (po nogc : Bool) (r₁ r₂ : Resp)
    (k₁ k₂ : Fault) (hk₂ : k₂.inWindow = false)
    (_h₁ : (step s (.pushpull c d pack po nogc)).2 = .ok r₁)
    (h₂ : (step (stepF (some k₁) s (.pushpull c d pack po nogc)).1 (.pushpull c d pack po nogc)).2 = .ok r₂) :
    (step (stepF (some k₂) (stepF (some k₁) s (.pushpull c d pack po nogc)).1 (.pushpull c d pack po nogc)).1
        (.pushpull c d pack po nogc)).1 =
      (step (stepF (some k₁) s (.pushpull c d pack po nogc)).1 (.pushpull c d pack po nogc)).1 :=
  (retry_idempotent_partial _ c d pack po nogc r₂ h₂ k₂ hk₂).1

/-! ### non-vacuity -/

/-- an accepted sync with pushables exists, every fault class is inhabited, and outside the window fault +
retry gives the fault-free log on it (here: `CreateChangeInfos` failing before it wrote) -/
example :
    let ops (c cs : Nat) (lam : Int) (tag : Nat) : ChangeReq :=
      { clientSeq := cs, lamport := lam, vv := [(c, lam)], actor := c, hasOps := true, hasPresence := false, tag := tag }
    let pres (c cs tag : Nat) : ChangeReq :=
      { clientSeq := cs, lamport := 0, vv := [], actor := c, hasOps := false, hasPresence := true, tag := tag }
    let s := run (Server.init {}) [.activate,
      .attach 0 0 { cp := ⟨0, 0⟩, changes := [pres 0 1 1], vv := [] } false false]
    let req : Request := .pushpull 0 0 { cp := ⟨1, 1⟩, changes := [ops 0 2 1 3], vv := [(0, 1)] } false false
    let k : Fault := ⟨.createChanges, false⟩
    ((step s req).2.toOption.isSome && !k.inWindow && k.beforeCommit &&
     (⟨.pullFindChanges, true⟩ : Fault).inWindow && (⟨.updateClientInfo, true⟩ : Fault).afterAll &&
     (storedLog (step (stepF (some k) s req).1 req).1 0).map rowKey == (storedLog (step s req).1 0).map rowKey &&
     (storedLog (step s req).1 0).map rowKey == [(0, 1), (0, 2)]) = true := by
  decide

end Yorkie.Props.C05
