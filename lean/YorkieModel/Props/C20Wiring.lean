/-
C20  Server-side caches are transparent – the wiring part.

An expiring cache is transparent only up to its time-to-live: an answer may be as old as
the TTL configured FOR THAT CACHE and no older ("once the configured TTL of an entry is
over, the answer comes from the source again").  Which configuration value becomes the
TTL (and the size) of which cache is decided in three places that no behavioural model
sees: `backend.New` fills `cache.Options` from the server configuration,
`Config.Parse…TTL` turn the configured strings into durations, and `cache.New` hands the
options to the constructors of pkg/cache.  Pairing a cache with ANOTHER cache's TTL
compiles, passes every test that uses the default configuration, and silently changes the
staleness bound of that cache to a value the operator configured for something else.

The facts are regenerated from the Go source on every run (`Generated/CacheWiring.lean`,
factgen/cachewiring.go); the expectations are written here by hand.  All theorems are by
evaluation over the generated table.
-/
import YorkieModel.Generated.CacheWiring
namespace Yorkie.Props.C20Wiring
open Yorkie.Generated.CacheWiring

/-- size argument of a constructor call (first argument of both constructors) -/
def cacheSize (c : Cache) : String := c.args.headD "?"

/-- TTL argument: second argument of `NewLRUWithExpires(size, ttl, name)`; `NewLRU(size, name)`
    has none -/
def cacheTtl (c : Cache) : Option String :=
  if c.ctor = "NewLRUWithExpires" then c.args[1]? else none

/-- The expectation table: Manager field ↦ (constructor, size option, TTL option).
      * `AuthWebhook` – answers of the project's auth webhook; may be served for
        `AuthWebhookCacheTTL` (default 10 s) without asking the webhook again.
      * `Snapshot` – rebuilt documents per (project, document); never stale by construction
        (C20 `rebuild_cached_eq_cold`), so it has a size but no TTL.
      * `SessionCount` – per-channel session counts served by the admin API instead of a
        cluster RPC; may be served for `ChannelSessionCountCacheTTL` (default 30 s). -/
def expected : List (String × String × String × Option String) :=
  [("AuthWebhook", "NewLRUWithExpires", "opts.AuthWebhookCacheSize", some "opts.AuthWebhookCacheTTL"),
   ("Snapshot", "NewLRU", "opts.SnapshotCacheSize", none),
   ("SessionCount", "NewLRUWithExpires", "opts.ChannelSessionCountCacheSize", some "opts.ChannelSessionCountCacheTTL")]

/-- **Each cache is built from its OWN options.**  Every cache the Manager constructs is in the
    expectation table with exactly the expected constructor, size option and TTL option; every
    expected cache is constructed exactly once; every field of `Manager` is one of them (a cache
    added to the Manager without an entry here is reported); and the extractor understood every
    constructor call of the file. -/
theorem each_cache_built_from_its_own_options :
    (∀ c ∈ caches, expected.lookup c.field = some (c.ctor, cacheSize c, cacheTtl c)) ∧
    (∀ e ∈ expected, (caches.filter (fun c => c.field == e.1)).length = 1) ∧
    (∀ f ∈ managerFields, (expected.lookup f).isSome = true) ∧
    unrecognised = [] := by
  decide

/-- **No option is used twice, and none is left unused**: the size and TTL arguments of all
    constructor calls are pairwise different and together are exactly `opts.<field>` for the
    fields of `cache.Options` (whatever the expectation table says: two caches can never share a
    TTL or a size option, and no configured value is silently ignored). -/
theorem options_used_exactly_once :
    (caches.map cacheSize ++ caches.filterMap cacheTtl).Nodup ∧
    (∀ a ∈ caches.map cacheSize ++ caches.filterMap cacheTtl, a ∈ optionFields.map ("opts." ++ ·)) ∧
    (∀ o ∈ optionFields, "opts." ++ o ∈ caches.map cacheSize ++ caches.filterMap cacheTtl) := by
  decide

/-- **The options are filled from the configuration values of the same name** (`backend.New`):
    a size option `X` from `conf.X`, a TTL option `X` from `conf.ParseX()`, every option field is
    filled exactly once; and each `Config.ParseX` parses the configuration field `X`
    (so `--auth-webhook-cache-ttl` cannot end up as the session-count TTL one hop earlier). -/
theorem options_filled_from_same_named_config :
    optionsFill.map (·.1) = optionFields ∧
    (∀ e ∈ optionsFill, e.2 = "conf." ++ e.1 ∨ e.2 = "conf.Parse" ++ e.1 ++ "()") ∧
    (∀ e ∈ optionsFill, e.2 = "conf.Parse" ++ e.1 ++ "()" → durationParsers.lookup ("Parse" ++ e.1) = some e.1) ∧
    (∀ p ∈ durationParsers, p.1 = "Parse" ++ p.2) := by
  decide

/-! non-vacuity: three caches, two of them with a TTL, and the check tells the two TTLs apart -/
example : caches.length = 3 ∧ (caches.filterMap cacheTtl).length = 2 ∧
    expected.lookup "SessionCount" ≠
      some ("NewLRUWithExpires", "opts.ChannelSessionCountCacheSize", some "opts.AuthWebhookCacheTTL") := by
  decide

end Yorkie.Props.C20Wiring
