/-
C04  Per-document change log is gap-free, totally ordered, and delivered exactly once
     (sequential schedules; the concurrent interleavings are a later layer on the same phases).

Model: Model/Server.lean (`step`, `run`).  Helper lemmas: Lemmas/Server*.lean.

Quantifiers.  `log_gapfree` holds for EVERY request list – crafted packs, forged actors, unknown
clients, requests in any lifecycle state.  The delivery clauses (`delivery_exact`, `cp_monotone`,
`no_echo`) are about well-behaved clients and hold for every schedule accepted by `wbRun`:
every request satisfies the decidable discipline `wbReq` (checkpoint = last received response
checkpoint of this attachment, own unacknowledged changes numbered consecutively, attach from a
fresh Document, detach/remove only of a held document), responses may be lost (`lost = true`:
the client keeps its old state and resends), and no response is a snapshot (the snapshot branch
of `preparePack` is not covered by this model).  They are stated for documents with presence
enabled: on a presenceless document the pull path rewrites rows (strip), which is C12's subject.
-/
import YorkieModel.Lemmas.ServerSeq
namespace Yorkie.Props.C04
open Yorkie Yorkie.Server

/-- Clause 1 (every schedule, every client behaviour): the stored log of every document is exactly
`serverSeq = 1..N`, in order, and the document's head is `N`. -/
theorem log_gapfree (cfg : Config) (reqs : List Request) (d : DocId) (doc : Doc)
    (h : (run (Server.init cfg) reqs).docs.get? d = some doc) :
    doc.log.map (·.serverSeq) = (List.range' 1 doc.log.length).map Int.ofNat ∧
    doc.serverSeq = doc.log.length := by
  have ext := run_docsExt (Server.init cfg) (WF_init cfg) reqs
  have hg : GapFree doc := gapFree_after ext (fun _ _ h => by simp [Server.init] at h) d doc h
  exact ⟨seqFrom_map 0 doc.log (by simpa using hg.1), hg.2⟩

/-- …and the log is append-only: a later state only extends it (no row is ever rewritten,
reordered or dropped by a request). -/
theorem log_append_only (s : Server) (hw : WF s) (reqs : List Request) (d : DocId) (doc : Doc)
    (h : s.docs.get? d = some doc) :
    ∃ doc' rows, (run s reqs).docs.get? d = some doc' ∧ doc'.log = doc.log ++ rows := by
  obtain ⟨y, hy, e⟩ := (run_docsExt s hw reqs).old d doc h
  obtain ⟨rows, hl, _⟩ := e.rows
  exact ⟨y, rows, hy, hl⟩

/-! ### well-behaved schedules -/

/-- one step of a schedule: the request and whether its response is lost on the way back -/
abbrev Event := Request × Bool

def noSnapshot : Except ErrKind Resp → Bool
  | .ok r => !r.snapshot
  | .error _ => true

/-- run a schedule of well-behaved clients; `none` as soon as a request breaks the discipline or a
response is a snapshot (outside this model) -/
def wbRun : Server → Ghost → List Event → Option (Server × Ghost)
  | s, g, [] => some (s, g)
  | s, g, (req, lost) :: rest =>
    if wbReq s g req && noSnapshot (step s req).2 then
      wbRun (step s req).1 (ghostStep s g req (step s req).2 lost) rest
    else none

theorem wbRun_inv {s0 : Server} {g0 : Ghost} (h0 : DInv s0 g0) (evs : List Event) {s : Server} {g : Ghost}
    (h : wbRun s0 g0 evs = some (s, g)) : DInv s g := by
  induction evs generalizing s0 g0 with
  | nil => simp only [wbRun] at h; injection h with h; injection h with h1 h2; subst h1; subst h2; exact h0
  | cons ev rest ih =>
    obtain ⟨req, lost⟩ := ev
    simp only [wbRun] at h
    split at h
    · next hc =>
      simp only [Bool.and_eq_true] at hc
      refine ih (dinv_step h0 req lost hc.1 ?_) h
      intro r hr
      have := hc.2
      rw [hr] at this
      simpa [noSnapshot] using this
    · simp at h

/-- Clause 3 (exactly-once, in-order delivery): at every point of every well-behaved schedule, what
client `c` has applied to its replica of document `d`, restricted to the other actors, is exactly
the log prefix up to `c`'s checkpoint restricted to the other actors – nothing missing, nothing
twice, in log order; and the checkpoint is a position inside the log. -/
theorem delivery_exact (cfg : Config) (evs : List Event) (s : Server) (g : Ghost)
    (h : wbRun (Server.init cfg) Ghost.init evs = some (s, g))
    (c : ClientId) (d : DocId) (doc : Doc) (hd : s.docs.get? d = some doc) (hdp : doc.disablePresence = false) :
    (g c d).applied.filter (fun r => r.actor != c)
      = (doc.log.take (g c d).cp.serverSeq.toNat).filter (fun r => r.actor != c) ∧
    0 ≤ (g c d).cp.serverSeq ∧ (g c d).cp.serverSeq ≤ doc.log.length := by
  have inv := wbRun_inv (DInv.init cfg) evs h
  have v := inv.view c d doc hd hdp
  refine ⟨?_, v.nonneg, v.le⟩
  have := filter_ssLe_take 0 (g c d).cp.serverSeq doc.log (inv.gap d doc hd).1 v.nonneg
  rw [Int.sub_zero] at this
  rw [← this]
  exact v.exact

/-- Clause 4 (response checkpoints are monotone per attachment and never pass the head), stated for
one step taken from any state of a well-behaved schedule: a successful, non-snapshot response to a
PushPull / Detach / Remove of client `c` on document `d` carries a checkpoint that is ≥ the one the
client holds in both components, and its serverSeq is ≤ the length of the stored log. -/
theorem cp_monotone (s : Server) (g : Ghost) (inv : DInv s g) (req : Request) (hwb : wbReq s g req = true)
    (r : Resp) (hout : (step s req).2 = .ok r) (hsnap : r.snapshot = false)
    (c : ClientId) (d : DocId)
    (hreq : (∃ p po nogc, req = .pushpull c d p po nogc) ∨ (∃ p, req = .detach c d p) ∨ (∃ p, req = .remove c d p))
    (doc' : Doc) (hd' : (step s req).1.docs.get? d = some doc') (hdp : doc'.disablePresence = false) :
    (g c d).cp.serverSeq ≤ r.cp.serverSeq ∧ (g c d).cp.clientSeq ≤ r.cp.clientSeq ∧
    r.cp.serverSeq ≤ doc'.log.length := by
  have hns : ∀ r', (step s req).2 = .ok r' → r'.snapshot = false := by
    intro r' hr'; rw [hout] at hr'; injection hr' with hr'; rw [← hr']; exact hsnap
  have inv' := dinv_step inv req false hwb hns
  -- the ghost after the step holds `r.cp`
  have hg : (ghostStep s g req (step s req).2 false c d) = receive (g c d) r := by
    rcases hreq with ⟨p, po, nogc, rfl⟩ | ⟨p, rfl⟩ | ⟨p, rfl⟩ <;>
      simp [ghostStep, hout, Ghost.set]
  have v' := inv'.view c d doc' hd' hdp
  rw [hg] at v'
  refine ⟨?_, ?_, v'.le⟩
  all_goals
    have ext := step_docsExt s inv.wf req
    rcases hreq with ⟨p, po, nogc, rfl⟩ | ⟨p, rfl⟩ | ⟨p, rfl⟩
  -- serverSeq, three request kinds
  · simp only [step] at hout hd' ext
    generalize ha : pushpullReq s c d p po nogc = res at hout hd' ext
    obtain ⟨s', out⟩ := res
    simp only [] at hout hd' ext; subst hout
    simp only [wbReq, Bool.and_eq_true, beq_iff_eq] at hwb
    rcases pushpullReq_inv ha with ⟨_, e, he⟩ | ⟨info, doc, hi, _, hst, hd, hf⟩
    · simp at he
    · obtain ⟨f', hpp, hr⟩ := finish_ok hf
      have hdoc : doc.disablePresence = false := by
        obtain ⟨y, hy, e⟩ := ext.old d doc hd
        rw [hd'] at hy; injection hy with hy; subst hy; rw [← e.dp]; exact hdp
      obtain ⟨_, _, _, _, h1, _⟩ := view_after_pushPull (pushPull_ppok hpp) (v := g c d) (by simpa using hd)
        (inv.gap d doc hd) (by simpa using hdoc) hdoc (by simpa using hwb.1) (by simpa using numbered_own hwb.2)
        (by simpa using inv.view c d doc hd hdoc) (by rw [← hr]; exact hsnap)
      rw [hr]; exact h1
  · simp only [step] at hout hd' ext
    generalize ha : detach s c d p = res at hout hd' ext
    obtain ⟨s', out⟩ := res
    simp only [] at hout hd' ext; subst hout
    simp only [wbReq, Bool.and_eq_true, beq_iff_eq] at hwb
    rcases detach_inv ha with ⟨_, e, he⟩ | ⟨info, doc, hi, _, _, hd, hf⟩
    · simp at he
    · obtain ⟨f', hpp, hr⟩ := finish_ok hf
      have hdoc : doc.disablePresence = false := by
        obtain ⟨y, hy, e⟩ := ext.old d doc hd
        rw [hd'] at hy; injection hy with hy; subst hy; rw [← e.dp]; exact hdp
      obtain ⟨_, _, _, _, h1, _⟩ := view_after_pushPull (pushPull_ppok hpp) (v := g c d) (by simpa using hd)
        (inv.gap d doc hd) (by simpa using hdoc) hdoc
        (by simp only [mkFlight_pack]; rw [(detachMode_pack s c d p).1]; exact hwb.1.2)
        (by simp only [mkFlight_pack, mkFlight_client]; rw [(detachMode_pack s c d p).2]; exact numbered_own hwb.2)
        (by simpa using inv.view c d doc hd hdoc) (by rw [← hr]; exact hsnap)
      rw [hr]; exact h1
  · simp only [step] at hout hd' ext
    generalize ha : remove s c d p = res at hout hd' ext
    obtain ⟨s', out⟩ := res
    simp only [] at hout hd' ext; subst hout
    simp only [wbReq, Bool.and_eq_true, beq_iff_eq] at hwb
    rcases remove_inv ha with ⟨_, e, he⟩ | ⟨info, doc, hi, _, _, hd, hf⟩
    · simp at he
    · obtain ⟨f', hpp, hr⟩ := finish_ok hf
      have hdoc : doc.disablePresence = false := by
        obtain ⟨y, hy, e⟩ := ext.old d doc hd
        rw [hd'] at hy; injection hy with hy; subst hy; rw [← e.dp]; exact hdp
      obtain ⟨_, _, _, _, h1, _⟩ := view_after_pushPull (pushPull_ppok hpp) (v := g c d) (by simpa using hd)
        (inv.gap d doc hd) (by simpa using hdoc) hdoc (by simpa using hwb.1.2)
        (by simpa using numbered_own hwb.2)
        (by simpa using inv.view c d doc hd hdoc) (by rw [← hr]; exact hsnap)
      rw [hr]; exact h1
  -- clientSeq, three request kinds: response clientSeq ≥ stored clientSeq ≥ the client's
  · simp only [step] at hout hd' ext
    generalize ha : pushpullReq s c d p po nogc = res at hout hd' ext
    obtain ⟨s', out⟩ := res
    simp only [] at hout hd' ext; subst hout
    simp only [wbReq, Bool.and_eq_true, beq_iff_eq] at hwb
    rcases pushpullReq_inv ha with ⟨_, e, he⟩ | ⟨info, doc, hi, _, hst, hd, hf⟩
    · simp at he
    · obtain ⟨f', hpp, hr⟩ := finish_ok hf
      have hdoc : doc.disablePresence = false := by
        obtain ⟨y, hy, e⟩ := ext.old d doc hd
        rw [hd'] at hy; injection hy with hy; subst hy; rw [← e.dp]; exact hdp
      obtain ⟨_, _, _, _, _, h2⟩ := view_after_pushPull (pushPull_ppok hpp) (v := g c d) (by simpa using hd)
        (inv.gap d doc hd) (by simpa using hdoc) hdoc (by simpa using hwb.1) (by simpa using numbered_own hwb.2)
        (by simpa using inv.view c d doc hd hdoc) (by rw [← hr]; exact hsnap)
      obtain ⟨cd0, hcd0, hs0⟩ := statusOf_some hst
      have hack := inv.ack c d cd0 (by rw [entryOf_findClient hi]; exact hcd0) (by rw [hs0]; rfl)
      simp only [mkFlight_info, mkFlight_doc, Client.checkpoint, hcd0] at h2
      rw [hr]; omega
  · simp only [step] at hout hd' ext
    generalize ha : detach s c d p = res at hout hd' ext
    obtain ⟨s', out⟩ := res
    simp only [] at hout hd' ext; subst hout
    simp only [wbReq, Bool.and_eq_true, beq_iff_eq] at hwb
    rcases detach_inv ha with ⟨_, e, he⟩ | ⟨info, doc, hi, _, _, hd, hf⟩
    · simp at he
    · obtain ⟨f', hpp, hr⟩ := finish_ok hf
      have hdoc : doc.disablePresence = false := by
        obtain ⟨y, hy, e⟩ := ext.old d doc hd
        rw [hd'] at hy; injection hy with hy; subst hy; rw [← e.dp]; exact hdp
      obtain ⟨_, _, _, _, _, h2⟩ := view_after_pushPull (pushPull_ppok hpp) (v := g c d) (by simpa using hd)
        (inv.gap d doc hd) (by simpa using hdoc) hdoc
        (by simp only [mkFlight_pack]; rw [(detachMode_pack s c d p).1]; exact hwb.1.2)
        (by simp only [mkFlight_pack, mkFlight_client]; rw [(detachMode_pack s c d p).2]; exact numbered_own hwb.2)
        (by simpa using inv.view c d doc hd hdoc) (by rw [← hr]; exact hsnap)
      have hh := hwb.1.1
      simp only [holds] at hh
      cases hent : entryOf s c d with
      | none => rw [hent] at hh; simp at hh
      | some cd0 =>
        rw [hent] at hh
        have hack := inv.ack c d cd0 hent hh
        rw [entryOf_findClient hi] at hent
        simp only [mkFlight_info, mkFlight_doc, Client.checkpoint, hent] at h2
        rw [hr]; omega
  · simp only [step] at hout hd' ext
    generalize ha : remove s c d p = res at hout hd' ext
    obtain ⟨s', out⟩ := res
    simp only [] at hout hd' ext; subst hout
    simp only [wbReq, Bool.and_eq_true, beq_iff_eq] at hwb
    rcases remove_inv ha with ⟨_, e, he⟩ | ⟨info, doc, hi, _, _, hd, hf⟩
    · simp at he
    · obtain ⟨f', hpp, hr⟩ := finish_ok hf
      have hdoc : doc.disablePresence = false := by
        obtain ⟨y, hy, e⟩ := ext.old d doc hd
        rw [hd'] at hy; injection hy with hy; subst hy; rw [← e.dp]; exact hdp
      obtain ⟨_, _, _, _, _, h2⟩ := view_after_pushPull (pushPull_ppok hpp) (v := g c d) (by simpa using hd)
        (inv.gap d doc hd) (by simpa using hdoc) hdoc (by simpa using hwb.1.2)
        (by simpa using numbered_own hwb.2)
        (by simpa using inv.view c d doc hd hdoc) (by rw [← hr]; exact hsnap)
      have hh := hwb.1.1
      simp only [holds] at hh
      cases hent : entryOf s c d with
      | none => rw [hent] at hh; simp at hh
      | some cd0 =>
        rw [hent] at hh
        have hack := inv.ack c d cd0 hent hh
        rw [entryOf_findClient hi] at hent
        simp only [mkFlight_info, mkFlight_doc, Client.checkpoint, hent] at h2
        rw [hr]; omega


/-! ### no echo -/

theorem wbRun_ginv {s0 : Server} {g0 : Ghost} (h0 : DInv s0 g0) (hg0 : GInv s0) (evs : List Event)
    {s : Server} {g : Ghost} (h : wbRun s0 g0 evs = some (s, g)) : GInv s := by
  induction evs generalizing s0 g0 with
  | nil => simp only [wbRun] at h; injection h with h; injection h with h1 h2; subst h1; exact hg0
  | cons ev rest ih =>
    obtain ⟨req, lost⟩ := ev
    simp only [wbRun] at h
    split at h
    · next hc =>
      simp only [Bool.and_eq_true] at hc
      have hns : ∀ r, (step s0 req).2 = .ok r → r.snapshot = false := by
        intro r hr
        have := hc.2
        rw [hr] at this
        simpa [noSnapshot] using this
      exact ih (dinv_step h0 req lost hc.1 hns)
        (ginv_step s0 h0.wf hg0 req (wbReq_honest hc.1).1 (wbReq_honest hc.1).2) h
    · simp at h

/-- Clause 3b (never an echo of its own change): from any state of a well-behaved schedule, every
row in a successful response whose actor is the requester itself was written by an EARLIER
attachment generation of that client (a client that re-attached with a new Document is sent its
old changes – by design, it needs them); no change written by the attachment that makes the
request is ever returned to it.  (`e'` is the client's stored entry after the request; `Row.gen`,
`ClientDoc.gen` are ghost fields of the model.)
What the code does NOT guarantee for a re-attached client – and this theorem therefore does not
say – is that it receives ALL its old-generation changes: the own-change filter compares only
(actor, clientSeq), so old rows with clientSeq ≤ the new attachment's acknowledged clientSeq are
dropped (`reattach_drops_old_own_witness`). -/
theorem no_echo (cfg : Config) (evs : List Event) (s : Server) (g : Ghost)
    (h : wbRun (Server.init cfg) Ghost.init evs = some (s, g))
    (req : Request) (hwb : wbReq s g req = true) (r : Resp) (hout : (step s req).2 = .ok r)
    (c : ClientId) (d : DocId)
    (hreq : (∃ p po nogc, req = .pushpull c d p po nogc) ∨ (∃ p, req = .detach c d p) ∨ (∃ p, req = .remove c d p) ∨
            (∃ key p dp nogc, req = .attach c key p dp nogc ∧ d = (findOrCreateDoc s key dp).2))
    (hdp : ∀ doc', (step s req).1.findDoc d = some doc' → doc'.disablePresence = false) :
    ∃ e', entryOf (step s req).1 c d = some e' ∧ ∀ row ∈ r.changes, row.actor = c → row.gen < e'.gen := by
  have inv := wbRun_inv (DInv.init cfg) evs h
  have hG := wbRun_ginv (DInv.init cfg) (GInv.init cfg) evs h
  have ext := step_docsExt s inv.wf req
  have dpOf : ∀ doc, s.findDoc d = some doc → doc.disablePresence = false := by
    intro doc hd
    obtain ⟨y, hy, e⟩ := ext.old d doc hd
    rw [← e.dp]; exact hdp y hy
  rcases hreq with ⟨p, po, nogc, rfl⟩ | ⟨p, rfl⟩ | ⟨p, rfl⟩ | ⟨key, p, dp, nogc, rfl, rfl⟩
  · simp only [step] at hout hdp ⊢
    generalize ha : pushpullReq s c d p po nogc = res at hout hdp
    obtain ⟨s', out⟩ := res
    simp only [] at hout hdp ⊢; subst hout
    rcases pushpullReq_inv ha with ⟨_, e, he⟩ | ⟨info, doc, hi, _, hst, hd, hf⟩
    · simp at he
    · obtain ⟨cd, hcd, hs⟩ := statusOf_some hst
      exact no_echo_flight hG hi hd (dpOf doc hd) ⟨cd, hcd, by simp [isOpenSt, hs]⟩ hf
  · simp only [step] at hout hdp ⊢
    generalize ha : detach s c d p = res at hout hdp
    obtain ⟨s', out⟩ := res
    simp only [] at hout hdp ⊢; subst hout
    simp only [wbReq, Bool.and_eq_true] at hwb
    rcases detach_inv ha with ⟨_, e, he⟩ | ⟨info, doc, hi, _, _, hd, hf⟩
    · simp at he
    · have hh := hwb.1.1
      simp only [holds, entryOf_findClient hi] at hh
      cases hcd : info.docs.get? d with
      | none => rw [hcd] at hh; simp at hh
      | some cd => rw [hcd] at hh; exact no_echo_flight hG hi hd (dpOf doc hd) ⟨cd, hcd, hh⟩ hf
  · simp only [step] at hout hdp ⊢
    generalize ha : remove s c d p = res at hout hdp
    obtain ⟨s', out⟩ := res
    simp only [] at hout hdp ⊢; subst hout
    simp only [wbReq, Bool.and_eq_true] at hwb
    rcases remove_inv ha with ⟨_, e, he⟩ | ⟨info, doc, hi, _, _, hd, hf⟩
    · simp at he
    · have hh := hwb.1.1
      simp only [holds, entryOf_findClient hi] at hh
      cases hcd : info.docs.get? d with
      | none => rw [hcd] at hh; simp at hh
      | some cd => rw [hcd] at hh; exact no_echo_flight hG hi hd (dpOf doc hd) ⟨cd, hcd, hh⟩ hf
  · simp only [step] at hout hdp ⊢
    generalize ha : attach s c key p dp nogc = res at hout hdp
    obtain ⟨s', out⟩ := res
    simp only [] at hout hdp ⊢; subst hout
    exact no_echo_attach inv.wf hG ha hdp

/-- what the own-change filter does to a re-attaching client (same actor, new Document): its old
change with clientSeq 1 is dropped because the new attachment has already acknowledged a
clientSeq 1 of its own; the old change with clientSeq 2 is delivered
(corpus/C04/proto-reattach-own-filter.trace). -/
theorem reattach_drops_old_own_witness :
    let pres (c cs tag : Nat) : ChangeReq :=
      { clientSeq := cs, lamport := 0, vv := [], actor := c, hasOps := false, hasPresence := true, tag := tag }
    let ops (c cs : Nat) (lam : Int) (tag : Nat) : ChangeReq :=
      { clientSeq := cs, lamport := lam, vv := [(c, lam)], actor := c, hasOps := true, hasPresence := false, tag := tag }
    let s := run (Server.init {}) [.activate,
      .attach 0 0 { cp := ⟨0, 0⟩, changes := [ops 0 1 1 11], vv := [(0, 1)] } false false,
      .pushpull 0 0 { cp := ⟨1, 1⟩, changes := [ops 0 2 2 12], vv := [(0, 2)] } false false,
      .detach 0 0 { cp := ⟨2, 2⟩, changes := [], vv := [(0, 2)] }]
    ((step s (.attach 0 0 { cp := ⟨0, 0⟩, changes := [pres 0 1 13], vv := [] } false false)).2.toOption.map
      (fun r => r.changes.map (·.tag))) = some [12] := by
  decide

/-- non-vacuity of the discipline: a schedule with two clients, a lost response and its resend,
a detach, a re-attach with a new Document and a deactivation is accepted by `wbRun` -/
example :
    let pres (c cs tag : Nat) : ChangeReq :=
      { clientSeq := cs, lamport := 0, vv := [], actor := c, hasOps := false, hasPresence := true, tag := tag }
    let ops (c cs : Nat) (lam : Int) (tag : Nat) : ChangeReq :=
      { clientSeq := cs, lamport := lam, vv := [(c, lam)], actor := c, hasOps := true, hasPresence := false, tag := tag }
    let sched : List Event := [
      (.activate, false), (.activate, false),
      (.attach 0 7 { cp := ⟨0, 0⟩, changes := [pres 0 1 1], vv := [] } false false, false),
      (.attach 1 7 { cp := ⟨0, 0⟩, changes := [pres 1 1 2], vv := [] } false false, false),
      (.pushpull 0 0 { cp := ⟨1, 1⟩, changes := [ops 0 2 1 3], vv := [(0, 1)] } false false, true),
      (.pushpull 0 0 { cp := ⟨1, 1⟩, changes := [ops 0 2 1 3, ops 0 3 2 4], vv := [(0, 2)] } false false, false),
      (.pushpull 1 0 { cp := ⟨2, 1⟩, changes := [], vv := [(1, 0)] } false false, false),
      (.detach 0 0 { cp := ⟨4, 3⟩, changes := [pres 0 4 5], vv := [(0, 2)] }, false),
      (.attach 0 7 { cp := ⟨0, 0⟩, changes := [pres 0 1 6], vv := [] } false false, false),
      (.deactivate 1 [], false)]
    ((wbRun (Server.init {}) Ghost.init sched).map (fun p => ((p.2 1 0).cp, (p.2 1 0).applied.map (·.tag),
        p.1.docs.map (fun d => d.2.log.map (·.tag))))) = some (⟨4, 1⟩, [1, 3, 4], [[1, 2, 3, 4, 5, 6, 0]]) := by
  decide


/-! ### per actor: client sequences in order -/

theorem wbRun_sinv {s0 : Server} {g0 : Ghost} (h0 : DInv s0 g0) (hg0 : GInv s0) (hs0 : SInv s0) (evs : List Event)
    {s : Server} {g : Ghost} (h : wbRun s0 g0 evs = some (s, g)) : SInv s := by
  induction evs generalizing s0 g0 with
  | nil => simp only [wbRun] at h; injection h with h; injection h with h1 h2; subst h1; exact hs0
  | cons ev rest ih =>
    obtain ⟨req, lost⟩ := ev
    simp only [wbRun] at h
    split at h
    · next hc =>
      simp only [Bool.and_eq_true] at hc
      have hns : ∀ r, (step s0 req).2 = .ok r → r.snapshot = false := by
        intro r hr
        have := hc.2
        rw [hr] at this
        simpa [noSnapshot] using this
      exact ih (dinv_step h0 req lost hc.1 hns)
        (ginv_step s0 h0.wf hg0 req (wbReq_honest hc.1).1 (wbReq_honest hc.1).2)
        (gs_step s0 h0.wf hg0 hs0 req (wbReq_honest hc.1).1 (wbReq_closerHolds hc.1)) h
    · simp at h

/-- Clause 2 (each client's changes appear exactly once and in the order the client made them): at
every point of every well-behaved schedule, in every document with presence enabled, the rows of
one actor written by one attachment generation carry the client sequences 1, 2, …, k in log order
(hence in increasing serverSeq, by `log_gapfree`) – no gap, no duplicate, no reordering; and for an
attachment that is open, `k` is exactly the client sequence the server has stored for it.
"Per attachment generation": a client that re-attaches with a new Document restarts at 1 by
design (`TryAttaching` resets the stored checkpoint); the model records the generation in the ghost
field `Row.gen`.
Not covered, and why: presenceless documents (`stripPresenceChanges` drops presence-only changes
after the continuity check, so stored client sequences have gaps there – strictly increasing only);
ill-behaved clients (forged actors; the C11 detached push restarts a closed generation at 1). -/
theorem per_actor_clientSeq_ordered (cfg : Config) (evs : List Event) (s : Server) (g : Ghost)
    (h : wbRun (Server.init cfg) Ghost.init evs = some (s, g))
    (c : ClientId) (d : DocId) (doc : Doc) (hd : s.findDoc d = some doc) (hdp : doc.disablePresence = false) :
    (∀ gen, ∃ k, (doc.log.filter (fun r => r.actor == c && r.gen == gen)).map (·.clientSeq) = List.range' 1 k) ∧
    (∀ cd, entryOf s c d = some cd → (cd.status = .attached ∨ cd.status = .attaching) →
      (doc.log.filter (fun r => r.actor == c && r.gen == cd.gen)).map (·.clientSeq) = List.range' 1 cd.clientSeq) := by
  have inv := wbRun_inv (DInv.init cfg) evs h
  have hG := wbRun_ginv (DInv.init cfg) (GInv.init cfg) evs h
  have hS := wbRun_sinv (DInv.init cfg) (GInv.init cfg) (SInv.init cfg) evs h
  have hdpOf : dpOf s d = false := by simp [dpOf, hd, hdp]
  have hlog : storedLog s d = doc.log := storedLog_findDoc hd
  constructor
  · intro gen
    obtain ⟨k, hk⟩ := hS.runs c d gen hdpOf
    refine ⟨k, ?_⟩
    simp only [csOf, ownRows, hlog] at hk
    exact hk
  · intro cd hcd hst
    have := hS.cur c d cd hdpOf hcd (by rcases hst with h | h <;> simp [isOpenSt, h])
    simp only [csOf, ownRows, hlog] at this
    exact this


/-! ### the client's checkpoint (`Checkpoint.Forward`, applied to every response pack) is a join (added)

The client folds `Forward` over the checkpoints of the responses it receives.  Whatever the order in which
responses arrive, and however often one is delivered, the client's checkpoint is the componentwise maximum:
it never moves backwards and never exceeds what the server answered.  (Tie: engine `time`, `CP forward` lines.) -/

theorem forward_eq_max (c o : Checkpoint) :
    c.forward o = ⟨max c.serverSeq o.serverSeq, max c.clientSeq o.clientSeq⟩ := by
  unfold Checkpoint.forward
  split
  · rename_i h; subst h; simp
  · rfl

theorem forward_idem (c : Checkpoint) : c.forward c = c := by simp [Checkpoint.forward]

theorem forward_comm (c o : Checkpoint) : c.forward o = o.forward c := by
  rw [forward_eq_max, forward_eq_max, Int.max_comm, Nat.max_comm]

theorem forward_assoc (a b c : Checkpoint) : (a.forward b).forward c = a.forward (b.forward c) := by
  simp only [forward_eq_max, Int.max_assoc, Nat.max_assoc]

/-- never backwards, in either component, whatever the response says -/
theorem forward_monotone (c o : Checkpoint) :
    c.serverSeq ≤ (c.forward o).serverSeq ∧ c.clientSeq ≤ (c.forward o).clientSeq ∧
    o.serverSeq ≤ (c.forward o).serverSeq ∧ o.clientSeq ≤ (c.forward o).clientSeq := by
  rw [forward_eq_max]
  exact ⟨Int.le_max_left _ _, Nat.le_max_left _ _, Int.le_max_right _ _, Nat.le_max_right _ _⟩

/-- a duplicated response changes nothing -/
theorem forward_absorb (c o : Checkpoint) : (c.forward o).forward o = c.forward o := by
  rw [forward_assoc, forward_idem]

/-- the client's checkpoint after any sequence of responses never exceeds a bound that every response (and the
    starting checkpoint) respects: with `bound` = the log head, "never ahead of the server" -/
theorem forward_fold_bounded (rs : List Checkpoint) (c : Checkpoint) (hs : Int) (hc : Nat)
    (h0 : c.serverSeq ≤ hs ∧ c.clientSeq ≤ hc) (h : ∀ r ∈ rs, r.serverSeq ≤ hs ∧ r.clientSeq ≤ hc) :
    (rs.foldl Checkpoint.forward c).serverSeq ≤ hs ∧ (rs.foldl Checkpoint.forward c).clientSeq ≤ hc := by
  induction rs generalizing c with
  | nil => exact h0
  | cons r rest ih =>
    simp only [List.foldl_cons]
    apply ih
    · rw [forward_eq_max]
      have hr := h r (List.mem_cons_self ..)
      exact ⟨Int.max_le.mpr ⟨h0.1, hr.1⟩, Nat.max_le.mpr ⟨h0.2, hr.2⟩⟩
    · intro x hx; exact h x (List.mem_cons_of_mem _ hx)

/-- … and never falls below where it started or below any response it has folded in -/
theorem forward_fold_ge (rs : List Checkpoint) (c : Checkpoint) :
    (c.serverSeq ≤ (rs.foldl Checkpoint.forward c).serverSeq ∧ c.clientSeq ≤ (rs.foldl Checkpoint.forward c).clientSeq) ∧
    ∀ r ∈ rs, r.serverSeq ≤ (rs.foldl Checkpoint.forward c).serverSeq ∧ r.clientSeq ≤ (rs.foldl Checkpoint.forward c).clientSeq := by
  induction rs generalizing c with
  | nil => exact ⟨⟨Int.le_refl _, Nat.le_refl _⟩, by simp⟩
  | cons r rest ih =>
    simp only [List.foldl_cons]
    obtain ⟨⟨h1, h2⟩, h3⟩ := ih (c.forward r)
    obtain ⟨m1, m2, m3, m4⟩ := forward_monotone c r
    refine ⟨⟨Int.le_trans m1 h1, Nat.le_trans m2 h2⟩, ?_⟩
    intro x hx
    rcases List.mem_cons.mp hx with rfl | hx
    · exact ⟨Int.le_trans m3 h1, Nat.le_trans m4 h2⟩
    · exact h3 x hx

/-- responses delivered in ANY order (a permutation: late, overtaken answers) give the same client checkpoint -/
theorem forward_fold_perm {rs₁ rs₂ : List Checkpoint} (hp : rs₁.Perm rs₂) (c : Checkpoint) :
    rs₁.foldl Checkpoint.forward c = rs₂.foldl Checkpoint.forward c := by
  induction hp generalizing c with
  | nil => rfl
  | cons x _ ih => simp only [List.foldl_cons]; exact ih _
  | swap x y l =>
    simp only [List.foldl_cons]
    rw [forward_assoc, forward_comm y x, ← forward_assoc]
  | trans _ _ ih₁ ih₂ => rw [ih₁, ih₂]

/-- `SyncClientSeq` (server side, after a push): the acknowledged client sequence is the maximum of the stored one
    and the pushed one – it never moves backwards, whatever sequence number a (crafted or resent) pack carries -/
theorem syncClientSeq_eq_max (c : Checkpoint) (cs : Nat) :
    c.syncClientSeq cs = ⟨c.serverSeq, max c.clientSeq cs⟩ := by
  unfold Checkpoint.syncClientSeq
  split
  · rename_i h; rw [Nat.max_eq_right (Nat.le_of_lt h)]
  · rename_i h; rw [Nat.max_eq_left (by omega)]

theorem syncClientSeq_monotone (c : Checkpoint) (cs : Nat) :
    c.clientSeq ≤ (c.syncClientSeq cs).clientSeq ∧ cs ≤ (c.syncClientSeq cs).clientSeq ∧
    (c.syncClientSeq cs).serverSeq = c.serverSeq := by
  rw [syncClientSeq_eq_max]; exact ⟨Nat.le_max_left _ _, Nat.le_max_right _ _, rfl⟩

/-- a resent pack (same sequence number again) leaves the acknowledged checkpoint alone -/
theorem syncClientSeq_idem (c : Checkpoint) (cs : Nat) : (c.syncClientSeq cs).syncClientSeq cs = c.syncClientSeq cs := by
  simp only [syncClientSeq_eq_max, Nat.max_assoc, Nat.max_self]

/-- `NextServerSeq` replaces the server sequence and never touches the client sequence -/
theorem nextServerSeq_spec (c : Checkpoint) (s : Int) :
    (c.nextServerSeq s).serverSeq = s ∧ (c.nextServerSeq s).clientSeq = c.clientSeq := by
  unfold Checkpoint.nextServerSeq
  split
  · rename_i h; exact ⟨h, rfl⟩
  · exact ⟨rfl, rfl⟩

example : (Checkpoint.mk 3 7).forward ⟨5, 2⟩ = ⟨5, 7⟩ := by decide
example : [Checkpoint.mk 5 2, ⟨4, 9⟩, ⟨5, 2⟩].foldl Checkpoint.forward ⟨3, 7⟩ = ⟨5, 9⟩ := by decide

end Yorkie.Props.C04
