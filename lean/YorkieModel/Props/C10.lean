/-
C10  Compaction keeps content and stale clients are refused, not merged.

Model: Model/ServerCompact.lean (`compactDoc` = packs.Compact + DB.CompactChangeInfos +
purgeDocumentInternals, under the exclusive document lock) on top of Model/Server.lean (every
epoch comparison of pushpull.go).  Helper lemmas: Lemmas/ServerCompact.lean,
Lemmas/ServerCompactDelivery.lean.

Quantifiers.  Every theorem about one compaction or one request holds in EVERY state `s` (not only
reachable ones) and for EVERY pack (crafted checkpoints, forged actors, gaps).  Theorems about
histories quantify over every list of requests and compactions (`Ev`, unbounded).  Content is
opaque (`ContentSem`): `compact_content_guarded` says what the rebuild-compare guard gives for every
content semantics; that the guard's comparison is meaningful for real documents is the `compact`
engine's cdoc oracle (real clients, real documents).

Switch `Server.stalePushOnlyRefused` (Model/Server.lean).  Before `fix-c10-stale-pushonly-epoch.patch`
"a stale PushPull is answered ErrEpochMismatch" was FALSE for PUSH-ONLY syncs – `preparePack` returned
before its epoch comparison (`stale_pushonly_witness`, finding F-C10-stale-pushonly-not-refused, now
fixed).  With the repair the full statement holds (`stale_push_refused`, `stale_pushonly_fixed_witness`);
`stale_push_refused_partial` is the part that holds for both values of the switch.  The no-row half
(`stale_push_no_rows`) holds for push-only syncs under both values too.
-/
import YorkieModel.Lemmas.ServerSeqC
namespace Yorkie.Props.C10
open Yorkie Yorkie.Server

variable {α : Type}

/-! ## the guard -/

/-- Compaction is refused with `ErrDocumentAttached` exactly when the document exists, some client
row holds it `attached` or `attaching`, and `force` is off. -/
theorem compact_guard (sem : ContentSem α) (force : Bool) (s : Server) (d : DocId) :
    (compactDoc sem force s d).2 = .error .documentAttached ↔
      (s.findDoc d).isSome = true ∧ force = false ∧ isDocHeld s d = true :=
  compactDoc_attached_iff sem force s d

/-- A compaction that fails – refused, content mismatch after rebuild, unknown document – changes
nothing at all (`CompactChangeInfos` is one transaction and is only reached after every check). -/
theorem compact_failure_no_effect (sem : ContentSem α) (force : Bool) (s : Server) (d : DocId) (e : CompactErr)
    (h : (compactDoc sem force s d).2 = .error e) : (compactDoc sem force s d).1 = s :=
  compactDoc_error h

/-- What a successful compaction writes: the log becomes the (at most one) change rebuilt from the
old log's content, numbered `serverSeq = 1`, the head is its length, every version-vector row of the
old generation is gone, key / removed flag / presence option are kept; no client row and no other
document is touched. -/
theorem compact_effect (sem : ContentSem α) (force : Bool) (s : Server) (d : DocId)
    (h : (compactDoc sem force s d).2 = .ok ()) :
    ∃ doc doc', s.findDoc d = some doc ∧ (compactDoc sem force s d).1.findDoc d = some doc' ∧
      doc'.log = compactRows (sem.rebuild (sem.fold doc.log)) ∧ doc'.log.length ≤ 1 ∧
      doc'.serverSeq = doc'.log.length ∧ (∀ r ∈ doc'.log, r.serverSeq = 1) ∧
      doc'.vvRows = [] ∧ doc'.epoch = doc.epoch + 1 ∧
      doc'.key = doc.key ∧ doc'.removed = doc.removed ∧ doc'.disablePresence = doc.disablePresence ∧
      (compactDoc sem force s d).1.clients = s.clients ∧
      (∀ d', d' ≠ d → (compactDoc sem force s d).1.findDoc d' = s.findDoc d') := by
  obtain ⟨doc, h1, _, _, h4, he⟩ := compactDoc_ok h
  refine ⟨doc, compactedDoc doc (compactRows (sem.rebuild (sem.fold doc.log))), h1,
    by rw [he]; exact setDoc_findDoc_self _ _ _, rfl, ?_, rfl, ?_, rfl, rfl, rfl, rfl, rfl,
    compactDoc_clients sem force s d, ?_⟩
  · simp only [compactedDoc, compactRows_length]; exact h4
  · intro r hr
    simp only [compactedDoc, compactRows, List.mem_map] at hr
    obtain ⟨x, hx, rfl⟩ := hr
    simp only [mkRow]
    have : (sem.rebuild (sem.fold doc.log)).length = 1 := by
      cases hl : sem.rebuild (sem.fold doc.log) with
      | nil => rw [hl] at hx; simp at hx
      | cons a r => rw [hl] at h4; simp at h4; simp [h4]
    rw [this]; rfl
  · intro d' hne; exact compactDoc_other sem force s (Ne.symm hne)

/-! ## epochs -/

/-- (1) a successful compaction raises the document's epoch by exactly one -/
theorem epoch_strict (sem : ContentSem α) (force : Bool) (s : Server) (d : DocId)
    (h : (compactDoc sem force s d).2 = .ok ()) :
    epochOr0 (compactDoc sem force s d).1 d = epochOr0 s d + 1 := by
  have hok : compactOk sem s d force = true := by simp [compactOk, h]
  rw [compactDoc_epoch]; simp [hok]

/-- (2) nothing else changes an epoch: no request of any kind with any pack (a document created by
the request starts at epoch 0), no failed compaction, no compaction of another document -/
theorem epoch_only_by_compaction (sem : ContentSem α) (s : Server) (hw : WF s) (d : DocId) :
    (∀ req, epochOr0 (step s req).1 d = epochOr0 s d) ∧
    (∀ d' force, (d' ≠ d ∨ compactOk sem s d' force = false) → epochOr0 (compactDoc sem force s d').1 d = epochOr0 s d) := by
  refine ⟨fun req => step_epoch s hw req d, ?_⟩
  intro d' force h
  rw [compactDoc_epoch]
  rcases h with h | h
  · simp [h]
  · simp [h]

/-- (3) over every history of requests and compactions: the epoch of a document is its initial epoch
plus the number of successful compactions of that document – in particular it never decreases. -/
theorem epoch_counts_compactions (sem : ContentSem α) (s : Server) (hw : WF s) (evs : List Ev) (d : DocId) :
    epochOr0 (runEv sem s evs) d = epochOr0 s d + compactions sem d s evs ∧
    epochOr0 s d ≤ epochOr0 (runEv sem s evs) d := by
  have := runEv_epoch sem s hw evs d
  exact ⟨this, by omega⟩

/-! ## stale clients -/

/-- A sync from a client whose stored epoch differs from the document's – EVERY pack (unsent edits,
crafted checkpoint, removed flag), push-only or not, every option: whatever the answer, the
document's log, head and epoch are exactly what they were and no other document changes. -/
theorem stale_push_no_rows (s : Server) (c : ClientId) (d : DocId) (pack : Pack) (po nogc : Bool)
    (info : Client) (doc : Doc) (hc : s.findClient c = some info) (hd : s.findDoc d = some doc)
    (he : epochDiffers info d doc.epoch = true) :
    (∃ doc', (step s (.pushpull c d pack po nogc)).1.findDoc d = some doc' ∧ doc'.log = doc.log ∧
      doc'.serverSeq = doc.serverSeq ∧ doc'.epoch = doc.epoch) ∧
    (∀ d', d' ≠ d → (step s (.pushpull c d pack po nogc)).1.findDoc d' = s.findDoc d') := by
  simp only [step]
  generalize ha : pushpullReq s c d pack po nogc = res
  obtain ⟨s', out⟩ := res
  rcases pushpullReq_inv ha with ⟨e1, _⟩ | ⟨info', doc0, hi, _, _, hd0, hf⟩
  · subst e1; exact ⟨⟨doc, hd, rfl, rfl, rfl⟩, fun _ _ => rfl⟩
  · rw [hc] at hi; injection hi with hi; subst hi
    rw [hd] at hd0; injection hd0 with hd0; subst hd0
    obtain ⟨x, hx⟩ := finish_inv hf
    obtain ⟨⟨doc', h1, h2, h3, h4, _⟩, h5⟩ := pushPull_stale_docs hx (loaded := info) (by simpa using hc)
      (by simpa using hd) (by simpa using he)
    exact ⟨⟨doc', by simpa using h1, h2, h3, h4⟩, fun d' hne => by simpa using h5 d' (by simpa using hne)⟩

/-- core of the two statements below: the sync is not push-only, or the epoch comparison precedes the
push-only return (`cfg.stalePushOnlyRefused`) -/
theorem stale_push_refused_core (s : Server) (c : ClientId) (d : DocId) (pack : Pack) (po nogc : Bool)
    (hsw : s.cfg.stalePushOnlyRefused = true ∨ po = false)
    (info : Client) (doc : Doc) (hc : s.findClient c = some info) (ha : info.activated = true)
    (hst : info.statusOf d = some .attached) (hd : s.findDoc d = some doc)
    (he : epochDiffers info d doc.epoch = true) :
    ((step s (.pushpull c d pack po nogc)).2 = .error .epochMismatch ∨
     (step s (.pushpull c d pack po nogc)).2 = .error .invalidClientSeq) ∧
    (step s (.pushpull c d pack po nogc)).1.clients = s.clients ∧
    (∃ doc', (step s (.pushpull c d pack po nogc)).1.findDoc d = some doc' ∧ doc'.vvRows = doc.vvRows ∧
      doc'.log = doc.log ∧ (pack.isRemoved = false → doc'.removed = doc.removed)) := by
  have hev : pushpullReq s c d pack po nogc =
      finish (pushPull s (mkFlight c d info pack po .attached nogc doc.disablePresence)) := by
    unfold pushpullReq
    simp [Server.findActiveClient, hc, ha, Client.ensureAttached, hst, hd]
  simp only [step]
  rw [hev]
  rcases pushPull_stale_refused (f := mkFlight c d info pack po .attached nogc doc.disablePresence)
    (by simpa using hd) (by simpa using he) (by rcases hsw with h | h <;> simp [h]) (by simp) with h | h
  · rw [h]
    exact ⟨Or.inr rfl, rfl, doc, hd, rfl, rfl, fun _ => rfl⟩
  · rw [h]
    refine ⟨Or.inl rfl, rfl, pushedDoc doc (stripped (mkFlight c d info pack po .attached nogc doc.disablePresence)) [],
      setDoc_findDoc_self _ _ _, by simp, by simp, ?_⟩
    intro hr; simp [hr]

/-- FULL statement – true of the model WITH the repair (`cfg.stalePushOnlyRefused = true`, i.e. after
`fix-c10-stale-pushonly-epoch.patch`: the epoch comparison of `preparePack` precedes the push-only
return), in every state, for EVERY sync of a client whose stored epoch differs from the document's –
push-only or not, every pack, every option: the stale client is told to re-attach – the answer is
`ErrEpochMismatch` (or, for a pack with a gap in its client sequences, `ErrInvalidClientSeq`); nothing
is persisted for the client (no checkpoint, no status, no version-vector row), and the only thing
`CreateChangeInfos` – called with an EMPTY list – can have written is the removed flag of a pack that
carries it.  Before the repair this was FALSE for push-only syncs: `stale_pushonly_witness`. -/
theorem stale_push_refused (s : Server) (hsw : s.cfg.stalePushOnlyRefused = true)
    (c : ClientId) (d : DocId) (pack : Pack) (po nogc : Bool)
    (info : Client) (doc : Doc) (hc : s.findClient c = some info) (ha : info.activated = true)
    (hst : info.statusOf d = some .attached) (hd : s.findDoc d = some doc)
    (he : epochDiffers info d doc.epoch = true) :
    ((step s (.pushpull c d pack po nogc)).2 = .error .epochMismatch ∨
     (step s (.pushpull c d pack po nogc)).2 = .error .invalidClientSeq) ∧
    (step s (.pushpull c d pack po nogc)).1.clients = s.clients ∧
    (∃ doc', (step s (.pushpull c d pack po nogc)).1.findDoc d = some doc' ∧ doc'.vvRows = doc.vvRows ∧
      doc'.log = doc.log ∧ (pack.isRemoved = false → doc'.removed = doc.removed)) :=
  stale_push_refused_core s c d pack po nogc (Or.inl hsw) info doc hc ha hst hd he

/-- PARTIAL (any value of the switch, so also the tree before the repair): the same conclusion for
every sync that is not push-only.  Missing for the full statement before the repair: exactly the
push-only syncs (`stale_pushonly_witness`). -/
theorem stale_push_refused_partial (s : Server) (c : ClientId) (d : DocId) (pack : Pack) (nogc : Bool)
    (info : Client) (doc : Doc) (hc : s.findClient c = some info) (ha : info.activated = true)
    (hst : info.statusOf d = some .attached) (hd : s.findDoc d = some doc)
    (he : epochDiffers info d doc.epoch = true) :
    ((step s (.pushpull c d pack false nogc)).2 = .error .epochMismatch ∨
     (step s (.pushpull c d pack false nogc)).2 = .error .invalidClientSeq) ∧
    (step s (.pushpull c d pack false nogc)).1.clients = s.clients ∧
    (∃ doc', (step s (.pushpull c d pack false nogc)).1.findDoc d = some doc' ∧ doc'.vvRows = doc.vvRows ∧
      doc'.log = doc.log ∧ (pack.isRemoved = false → doc'.removed = doc.removed)) :=
  stale_push_refused_core s c d pack false nogc (Or.inr rfl) info doc hc ha hst hd he

/-- the configuration before the repair (`V0`) and with it -/
def beforeRepair : Config := { stalePushOnlyRefused := false }
def withRepair : Config := { stalePushOnlyRefused := true }

/-- BEFORE the repair (switch off), by evaluation (corpus/C10/compact-stale-pushonly.trace): after a
forced compaction the holder syncs push-only with one unsent edit.  The answer is ok – not
`ErrEpochMismatch` –, with checkpoint (2,2): its change (clientSeq 3) is neither stored nor
acknowledged; the log still holds only the compacted change; and the client's old-generation version
vector has been written into the NEW generation's version-vector rows. -/
theorem stale_pushonly_witness :
    let ops (c cs : Nat) (lam : Int) (tag : Nat) : ChangeReq :=
      { clientSeq := cs, lamport := lam, vv := [(c, lam)], actor := c, hasOps := true, hasPresence := false, tag := tag }
    let pres (c cs tag : Nat) : ChangeReq :=
      { clientSeq := cs, lamport := 0, vv := [], actor := c, hasOps := false, hasPresence := true, tag := tag }
    let s := runEv tagSem (Server.init beforeRepair) [.req .activate,
      .req (.attach 0 0 { cp := ⟨0, 0⟩, changes := [pres 0 1 1, ops 0 2 1 2], vv := [(0, 1)] } false false),
      .compact 0 true]
    let r := step s (.pushpull 0 0 { cp := ⟨2, 2⟩, changes := [ops 0 3 2 3], vv := [(0, 2)] } true false)
    ((r.2.toOption.map (fun x => (x.cp.serverSeq, x.cp.clientSeq, x.changes.length))),
     r.1.docs.map (fun p => p.2.epoch), r.1.docs.map (fun p => p.2.log.map (fun x => x.actor)),
     r.1.docs.map (fun p => p.2.vvRows.map (fun x => x.1))) =
      (some (2, 2, 0), [1], [[initialActorNo]], [[0]]) := by
  decide

/-- WITH the repair (switch on), the same scenario: the push-only sync of the stale holder is refused
with `epochMismatch`, nothing is stored, no version-vector row appears in the new generation and the
client's stored checkpoint is untouched; the stale client can still detach (carrying the unsent edit,
which is not stored), and it can be deactivated: the cluster detach behind `DeactivateClient` is
push-only with status `detached` and passes through the detach/remove escape of `pullPack`. -/
theorem stale_pushonly_fixed_witness :
    let ops (c cs : Nat) (lam : Int) (tag : Nat) : ChangeReq :=
      { clientSeq := cs, lamport := lam, vv := [(c, lam)], actor := c, hasOps := true, hasPresence := false, tag := tag }
    let pres (c cs tag : Nat) : ChangeReq :=
      { clientSeq := cs, lamport := 0, vv := [], actor := c, hasOps := false, hasPresence := true, tag := tag }
    let s := runEv tagSem (Server.init withRepair) [.req .activate,
      .req (.attach 0 0 { cp := ⟨0, 0⟩, changes := [pres 0 1 1, ops 0 2 1 2], vv := [(0, 1)] } false false),
      .compact 0 true]
    let r := step s (.pushpull 0 0 { cp := ⟨2, 2⟩, changes := [ops 0 3 2 3], vv := [(0, 2)] } true false)
    let det := step r.1 (.detach 0 0 { cp := ⟨2, 2⟩, changes := [ops 0 3 2 3, pres 0 4 4], vv := [(0, 2)] })
    ((match r.2 with | .error e => some e | .ok _ => none) == some .epochMismatch &&
     r.1.docs.map (fun p => p.2.epoch) == [1] && r.1.docs.map (fun p => p.2.log.map (fun x => x.actor)) == [[initialActorNo]] &&
     r.1.docs.map (fun p => p.2.vvRows.length) == [0] &&
     (entryOf r.1 0 0).map (fun e => (e.serverSeq, e.clientSeq)) == some (2, 2) &&
     det.2.toOption.isSome && (entryOf det.1 0 0).map (fun e => e.status) == some .detached &&
     det.1.docs.map (fun p => p.2.log.length) == [1] &&
     (step r.1 (.deactivate 0 [])).2.toOption.isSome &&
     (entryOf (step r.1 (.deactivate 0 [])).1 0 0).map (fun e => e.status) == some .detached &&
     (step r.1 (.deactivate 0 [])).1.docs.map (fun p => p.2.log.length) == [1]) = true := by
  decide

/-- A Detach or Remove from a stale holder – the only thing such a client can still do – with
any pack whose client sequences are continuous (unsent edits included): it SUCCEEDS, returns no
change, writes no row (log, head and epoch unchanged), erases the client's version-vector row and
closes the stored attachment (status detached / removed, checkpoint cleared). -/
theorem stale_detach_ok (s : Server) (c : ClientId) (d : DocId) (pack : Pack) (info : Client) (doc : Doc)
    (cd : ClientDoc) (hc : s.findClient c = some info) (ha : info.activated = true)
    (hcd : info.docs.get? d = some cd) (ho : cd.status = .attached ∨ cd.status = .attaching)
    (hd : s.findDoc d = some doc) (he : cd.epoch ≠ doc.epoch)
    (hcont : seqsContinuous cd.clientSeq (cd.clientSeq + 1) pack.changes = true)
    (req : Request) (hreq : req = .detach c d pack ∨ req = .remove c d pack) :
    ∃ resp doc' cd', (step s req).2 = .ok resp ∧ resp.changes = [] ∧ resp.cp = ⟨pack.cp.serverSeq, cd.clientSeq⟩ ∧
      (step s req).1.findDoc d = some doc' ∧ doc'.log = doc.log ∧ doc'.serverSeq = doc.serverSeq ∧
      doc'.epoch = doc.epoch ∧ doc'.vvRows = doc.vvRows.erase c ∧
      entryOf (step s req).1 c d = some cd' ∧ (cd'.status = .detached ∨ cd'.status = .removed) ∧
      cd'.serverSeq = 0 ∧ cd'.clientSeq = 0 := by
  have hed : epochDiffers info d doc.epoch = true := by simp [epochDiffers, hcd, he]
  have hguard : detachGuard s info d = .ok () := by
    unfold detachGuard
    split
    · unfold Client.ensureAttachedOrAttaching
      rcases ho with h | h <;> simp [ha, Client.statusOf, hcd, h]
    · rfl
  have hcp : info.checkpoint d = ⟨cd.serverSeq, cd.clientSeq⟩ := by simp [Client.checkpoint, hcd]
  rcases hreq with rfl | rfl
  · have hev : detach s c d pack = finish (pushPull s (mkFlight c d info (detachMode s c d pack).1 false
        (detachMode s c d pack).2 false doc.disablePresence)) := by
      unfold detach
      simp [Server.findActiveClient, hc, ha, hguard, hd]
    obtain ⟨s', f', hpp, h1, h2, h3, _, h5, _⟩ := pushPull_stale_close
      (f := mkFlight c d info (detachMode s c d pack).1 false (detachMode s c d pack).2 false doc.disablePresence)
      (loaded := info) (cd0 := cd) (by simpa using hd) (by simpa using hed)
      (by simpa [hcp, (detachMode_pack s c d pack).2] using hcont)
      (by simpa using detachMode_status s c d pack) (by simp) (by simp) (by simpa using ha) (by simpa using hcd) ho
      (by simpa using hc)
    simp only [step]; rw [hev, hpp]
    simp only [finish, mkFlight_doc, mkFlight_client, mkFlight_pack, mkFlight_info, mkFlight_status] at h2 h3 h5 ⊢
    refine ⟨_, _, _, rfl, h1, by rw [h2, hcp, (detachMode_pack s c d pack).1], h3, by simp, by simp, by simp, by simp,
      h5, ?_, rfl, rfl⟩
    rcases detachMode_status s c d pack with h | h <;> simp [h, closedStatus]
  · have hev : remove s c d pack = finish (pushPull s (mkFlight c d info pack false .removed false doc.disablePresence)) := by
      unfold remove
      simp [Server.findActiveClient, hc, ha, hguard, hd]
    obtain ⟨s', f', hpp, h1, h2, h3, _, h5, _⟩ := pushPull_stale_close
      (f := mkFlight c d info pack false .removed false doc.disablePresence)
      (loaded := info) (cd0 := cd) (by simpa using hd) (by simpa using hed)
      (by simpa [hcp] using hcont)
      (by simp) (by simp) (by simp) (by simpa using ha) (by simpa using hcd) ho
      (by simpa using hc)
    simp only [step]; rw [hev, hpp]
    simp only [finish, mkFlight_doc, mkFlight_client, mkFlight_pack, mkFlight_info, mkFlight_status] at h2 h3 h5 ⊢
    exact ⟨_, _, _, rfl, h1, by rw [h2, hcp], h3, by simp, by simp, by simp, by simp, h5, by simp [closedStatus], rfl, rfl⟩

/-! ## fresh attach -/

/-- An attach from a fresh `Document` (checkpoint (0,0), own changes) that succeeds without a
snapshot, in any state with gap-free logs (every reachable one, `log_gapfree`), on a document with
presence enabled: the response carries – restricted to the other actors – EVERY row of the stored
log as it is after the request, in order; its checkpoint is the head; the client's stored entry is
`attached` with the document's current epoch (it belongs to the current generation). -/
theorem fresh_attach_answered_from_current_generation (s : Server) (hw : WF s)
    (hgap : ∀ d doc, s.docs.get? d = some doc → GapFree doc)
    (c : ClientId) (key : Nat) (pack : Pack) (dp nogc : Bool) (resp : Resp)
    (h : (step s (.attach c key pack dp nogc)) = ((step s (.attach c key pack dp nogc)).1, .ok resp))
    (hcp : pack.cp = Checkpoint.initial) (hown : ∀ x ∈ pack.changes, x.actor = c) (hsn : resp.snapshot = false) :
    ∃ d doc' cd, resp.doc = some d ∧ (step s (.attach c key pack dp nogc)).1.findDoc d = some doc' ∧
      (doc'.disablePresence = false →
        resp.changes.filter (fun r => r.actor != c) = doc'.log.filter (fun r => r.actor != c) ∧
        resp.cp.serverSeq = doc'.log.length) ∧
      entryOf (step s (.attach c key pack dp nogc)).1 c d = some cd ∧ cd.status = .attached ∧ cd.epoch = doc'.epoch := by
  simp only [step] at h ⊢
  obtain ⟨doc', h1, h2, h3, ⟨cd, h4, h5, h6⟩, _⟩ := attach_fresh_delivery hw hgap h hcp hown hsn
  exact ⟨_, doc', cd, h2, h1, h3, h4, h5, h6⟩

/-- … hence right after a compaction: the fresh attacher receives exactly the compacted change (every
row of the new generation's log – the compacted change is authored by the initial actor, which is
no client), then its own pushed changes follow in the log. -/
theorem fresh_attach_gets_compacted (sem : ContentSem α) (force : Bool) (s : Server) (hw : WF s)
    (hgap : ∀ d doc, s.docs.get? d = some doc → GapFree doc) (d : DocId) (doc0 : Doc)
    (hd0 : s.findDoc d = some doc0) (hdp : doc0.disablePresence = false)
    (hok : (compactDoc sem force s d).2 = .ok ())
    (hactor : ∀ x ∈ sem.rebuild (sem.fold doc0.log), x.actor = initialActorNo)
    (c : ClientId) (hcne : c ≠ initialActorNo) (pack : Pack) (nogc : Bool) (resp : Resp)
    (h : step (compactDoc sem force s d).1 (.attach c doc0.key pack false nogc) =
      ((step (compactDoc sem force s d).1 (.attach c doc0.key pack false nogc)).1, .ok resp))
    (hdoc : resp.doc = some d)
    (hcp : pack.cp = Checkpoint.initial) (hown : ∀ x ∈ pack.changes, x.actor = c) (hsn : resp.snapshot = false) :
    resp.changes.filter (fun r => r.actor != c) = compactRows (sem.rebuild (sem.fold doc0.log)) ∧
    ∃ doc', (step (compactDoc sem force s d).1 (.attach c doc0.key pack false nogc)).1.findDoc d = some doc' ∧
      resp.cp.serverSeq = doc'.log.length ∧
      ∃ own, doc'.log = compactRows (sem.rebuild (sem.fold doc0.log)) ++ own ∧ ∀ r ∈ own, r.actor = c := by
  obtain ⟨doc1, h1, _, _, h4, he⟩ := compactDoc_ok hok
  rw [hd0] at h1; injection h1 with h1; subst h1
  have hw1 : WF (compactDoc sem force s d).1 := compactDoc_wf sem force d hw
  have hgap1 := stepEv_gapFree sem hw hgap (.compact d force)
  simp only [stepEv] at hgap1
  simp only [step] at h ⊢
  obtain ⟨doc', e2, e1, e3, _, e6⟩ := attach_fresh_delivery hw1 hgap1 h hcp hown hsn
  rw [hdoc] at e1; injection e1 with e1
  rw [← e1] at e2 e6
  have hdc : (compactDoc sem force s d).1.findDoc d = some (compactedDoc doc0 (compactRows (sem.rebuild (sem.fold doc0.log)))) := by
    rw [he]; exact setDoc_findDoc_self _ _ _
  obtain ⟨own, hl, hownRows⟩ := e6 _ hdc
  have hdp' : doc'.disablePresence = false := by
    have ext := attach_docsExt (compactDoc sem force s d).1 hw1 c doc0.key pack false nogc
    obtain ⟨y, hy, e⟩ := ext.old d _ hdc
    simp only [Server.findDoc] at e2
    rw [e2] at hy; injection hy with hy; subst hy
    rw [e.dp]; exact hdp
  obtain ⟨e4, e5⟩ := e3 hdp'
  have hcompA : ∀ r ∈ compactRows (sem.rebuild (sem.fold doc0.log)), r.actor = initialActorNo := by
    intro r hr
    simp only [compactRows, List.mem_map] at hr
    obtain ⟨x, hx, rfl⟩ := hr
    simpa [mkRow] using hactor x hx
  refine ⟨?_, doc', e2, e5, own, by simpa [compactedDoc] using hl, hownRows⟩
  have e4' : resp.changes.filter (fun r => r.actor != c) = doc'.log.filter (fun r => r.actor != c) := e4
  rw [e4', hl]
  simp only [compactedDoc, List.filter_append]
  have f1 : (compactRows (sem.rebuild (sem.fold doc0.log))).filter (fun r => r.actor != c) = compactRows (sem.rebuild (sem.fold doc0.log)) := by
    rw [List.filter_eq_self]; intro r hr; rw [hcompA r hr]; simpa using Ne.symm hcne
  have f2 : own.filter (fun r => r.actor != c) = [] := by
    rw [List.filter_eq_nil_iff]; intro r hr; simp [hownRows r hr]
  rw [f1, f2, List.append_nil]

/-! ## content -/

/-- The rebuild-compare step as a guard, for EVERY content semantics: (1) when the rebuilt content
differs from the content of the log, compaction fails and changes nothing; (2) when compaction
succeeds, the content of the new log equals (by the semantics' own comparison – `Marshal` strings in
the code) the content of the old log.  Together with `fresh_attach_gets_compacted` (a later attacher
receives exactly the new log): what later attachers receive has the content the document had. -/
theorem compact_content_guarded (sem : ContentSem α) (force : Bool) (s : Server) (d : DocId) :
    (∀ doc, s.findDoc d = some doc →
      sem.eq (sem.fold (compactRows (sem.rebuild (sem.fold doc.log)))) (sem.fold doc.log) = false →
      (compactDoc sem force s d).1 = s ∧ ∃ e, (compactDoc sem force s d).2 = .error e) ∧
    ((compactDoc sem force s d).2 = .ok () →
      ∃ doc doc', s.findDoc d = some doc ∧ (compactDoc sem force s d).1.findDoc d = some doc' ∧
        sem.eq (sem.fold doc'.log) (sem.fold doc.log) = true) := by
  constructor
  · intro doc hd hne
    rcases compactDoc_cases sem force s d with ⟨e, he⟩ | ⟨doc1, h1, _, h3, _, _⟩
    · rw [he]; exact ⟨rfl, e, rfl⟩
    · rw [hd] at h1; injection h1 with h1; subst h1
      rw [hne] at h3; simp at h3
  · intro hok
    obtain ⟨doc, h1, _, h3, _, he⟩ := compactDoc_ok hok
    exact ⟨doc, _, h1, by rw [he]; exact setDoc_findDoc_self _ _ _, h3⟩

/-! ## the log and the delivery invariant across compactions -/

/-- C04's clause 1 for histories that include compactions (every request list with every pack, every
compaction, forced or not, any content semantics): the stored log of every document is exactly
`serverSeq = 1..N`, in order, and the document's head is `N`. -/
theorem log_gapfree (sem : ContentSem α) (cfg : Config) (evs : List Ev) (d : DocId) (doc : Doc)
    (h : (runEv sem (Server.init cfg) evs).docs.get? d = some doc) :
    doc.log.map (·.serverSeq) = (List.range' 1 doc.log.length).map Int.ofNat ∧
    doc.serverSeq = doc.log.length := by
  have hg : GapFree doc := runEv_gapFree sem (WF_init cfg) (fun _ _ h => by simp [Server.init] at h) evs d doc h
  exact ⟨seqFrom_map 0 doc.log (by simpa using hg.1), hg.2⟩

/-- C04's clause 3 (exactly-once, in-order delivery) and the checkpoint bounds of clause 4 for schedules
that include compactions and requests of stale clients.  A schedule (`wbRunC`) interleaves
well-behaved requests of clients of the current generation (`wb`, responses may be lost),
compactions (normal or forced, at any point), and syncs / detaches / removes of clients that still
hold an older generation, with ANY pack (`stale`).  A successful compaction resets the client-side
views of that document (generation-aware: a client of the old generation has to re-attach, which
starts from a fresh `Document`).  At every point, for every client `c` and document `d` with presence
enabled: what `c` has applied in the CURRENT generation, restricted to the other actors, is exactly
the current log up to `c`'s checkpoint restricted to the other actors, and the checkpoint lies in the log. -/
theorem delivery_exact_across_compaction (sem : ContentSem α) (cfg : Config) (evs : List EvC) (s : Server) (g : Ghost)
    (h : wbRunC sem (Server.init cfg) Ghost.init evs = some (s, g))
    (c : ClientId) (d : DocId) (doc : Doc) (hd : s.docs.get? d = some doc) (hdp : doc.disablePresence = false) :
    (g c d).applied.filter (fun r => r.actor != c)
      = (doc.log.take (g c d).cp.serverSeq.toNat).filter (fun r => r.actor != c) ∧
    0 ≤ (g c d).cp.serverSeq ∧ (g c d).cp.serverSeq ≤ doc.log.length := by
  have inv := wbRunC_inv sem (DInv.init cfg) evs h
  have v := inv.view c d doc hd hdp
  refine ⟨?_, v.nonneg, v.le⟩
  have := filter_ssLe_take 0 (g c d).cp.serverSeq doc.log (inv.gap d doc hd).1 v.nonneg
  rw [Int.sub_zero] at this
  rw [← this]
  exact v.exact

/-- C04's clause 3b (never an echo of its own change) for schedules with compactions and stale
clients: from any state of such a schedule, every row in a successful response to a well-behaved
request whose actor is the requester itself was written by an EARLIER attachment generation of that
client.  Generation-aware restatement of the invariant behind it (`GInvC`): the compacted change is
authored by the initial actor (`SemInitialActor`, true of the code: `document.New` has
`InitialActorID`), which is no client – `hok`: no Attach is made under its number, `hcn`: the
requester is not it. -/
theorem no_echo_across_compaction (sem : ContentSem α) (hsem : SemInitialActor sem) (cfg : Config)
    (evs : List EvC) (hok : attachersOk evs) (s : Server) (g : Ghost)
    (h : wbRunC sem (Server.init cfg) Ghost.init evs = some (s, g))
    (req : Request) (hwb : wbReq s g req = true) (r : Resp) (hout : (step s req).2 = .ok r)
    (c : ClientId) (d : DocId) (hcn : c ≠ initialActorNo)
    (hreq : (∃ p po nogc, req = .pushpull c d p po nogc) ∨ (∃ p, req = .detach c d p) ∨ (∃ p, req = .remove c d p) ∨
            (∃ key p dp nogc, req = .attach c key p dp nogc ∧ d = (findOrCreateDoc s key dp).2))
    (hdp : ∀ doc', (step s req).1.findDoc d = some doc' → doc'.disablePresence = false) :
    ∃ e', entryOf (step s req).1 c d = some e' ∧ ∀ row ∈ r.changes, row.actor = c → row.gen < e'.gen := by
  have inv := wbRunC_inv sem (DInv.init cfg) evs h
  have hG := wbRunC_ginvC sem hsem (DInv.init cfg) (GInvC.init cfg) evs hok h
  exact no_echo_stateC inv.wf hG req hwb r hout c d hcn hreq hdp

/-- C04's clause 2 (each client's changes appear once and in the order the client made them) for
schedules with compactions and stale clients, in the form that survives a compaction: at every point,
in every document with presence enabled, the rows of one client written by one attachment generation
carry CONSECUTIVE client sequences in log order – no gap, no duplicate, no reordering –, and for an
open attachment they are the LAST ones up to the client sequence the server has stored for it.
(A compaction folds the earlier rows into the compacted change, so "starting at 1" is a statement about
the log between two compactions – C04's `per_actor_clientSeq_ordered`; a client of the old generation
keeps its stored client sequence and never adds a row again, `stale_push_no_rows`.) -/
theorem per_actor_clientSeq_consecutive_across_compaction (sem : ContentSem α) (hsem : SemInitialActor sem)
    (cfg : Config) (evs : List EvC) (hok : attachersOk evs) (s : Server) (g : Ghost)
    (h : wbRunC sem (Server.init cfg) Ghost.init evs = some (s, g))
    (c : ClientId) (hcn : c ≠ initialActorNo) (d : DocId) (doc : Doc) (hd : s.findDoc d = some doc)
    (hdp : doc.disablePresence = false) :
    (∀ gen, ∃ a k, (doc.log.filter (fun r => r.actor == c && r.gen == gen)).map (·.clientSeq) = List.range' a k) ∧
    (∀ cd, entryOf s c d = some cd → (cd.status = .attached ∨ cd.status = .attaching) →
      ∃ k, k ≤ cd.clientSeq ∧
        (doc.log.filter (fun r => r.actor == c && r.gen == cd.gen)).map (·.clientSeq) =
          List.range' (cd.clientSeq + 1 - k) k) := by
  have inv := wbRunC_inv sem (DInv.init cfg) evs h
  have hG := wbRunC_ginvC sem hsem (DInv.init cfg) (GInvC.init cfg) evs hok h
  have hS := wbRunC_sinvC sem hsem (DInv.init cfg) (GInvC.init cfg) (SInvC.init cfg) evs hok h
  have hdpOf : dpOf s d = false := by simp [dpOf, hd, hdp]
  have hlog : storedLog s d = doc.log := storedLog_findDoc hd
  constructor
  · intro gen
    obtain ⟨a, k, hk⟩ := hS.runs c d gen hcn hdpOf
    refine ⟨a, k, ?_⟩
    simp only [csOf, ownRows, hlog] at hk
    exact hk
  · intro cd hcd hst
    obtain ⟨k, hk, hrows⟩ := hS.cur c d cd hcn hdpOf hcd (by rcases hst with h | h <;> simp [isOpenSt, h])
    refine ⟨k, hk, ?_⟩
    simp only [csOf, ownRows, hlog] at hrows
    exact hrows

/-! ## non-vacuity and the scenario of the property text -/

/-- the guard's three situations exist: held + normal ⇒ refused; held + forced ⇒ ok; nobody holds + normal ⇒ ok -/
example :
    let pres (c cs tag : Nat) : ChangeReq :=
      { clientSeq := cs, lamport := 0, vv := [], actor := c, hasOps := false, hasPresence := true, tag := tag }
    let s := run (Server.init {}) [.activate, .attach 0 0 { cp := ⟨0, 0⟩, changes := [pres 0 1 1], vv := [] } false false]
    let s2 := (step s (.detach 0 0 { cp := ⟨1, 1⟩, changes := [pres 0 2 2], vv := [] })).1
    (isDocHeld s 0, compactOk tagSem s 0 false, compactOk tagSem s 0 true, isDocHeld s2 0, compactOk tagSem s2 0 false) =
      (true, false, true, false, true) := by
  decide

/-- The scenario of the property text (corpus/C10/compact-lifecycle.trace): two clients edit, c0 detaches;
normal compaction refused, forced compaction ok (epoch 1, one change by the initial actor, no
version-vector row); the stale holder c1 syncs with an unsent edit: `epochMismatch`, log unchanged; its
detach (carrying the unsent edit) succeeds and stores nothing; a fresh client attaches and receives
exactly the compacted change; after its detach a normal compaction succeeds (epoch 2). -/
example :
    let ops (c cs : Nat) (lam : Int) (tag : Nat) : ChangeReq :=
      { clientSeq := cs, lamport := lam, vv := [(c, lam)], actor := c, hasOps := true, hasPresence := false, tag := tag }
    let pres (c cs tag : Nat) : ChangeReq :=
      { clientSeq := cs, lamport := 0, vv := [], actor := c, hasOps := false, hasPresence := true, tag := tag }
    let s0 := run (Server.init {}) [.activate, .activate,
      .attach 0 0 { cp := ⟨0, 0⟩, changes := [pres 0 1 1, ops 0 2 1 2], vv := [(0, 1)] } false false,
      .attach 1 0 { cp := ⟨0, 0⟩, changes := [pres 1 1 3], vv := [] } false false,
      .pushpull 1 0 { cp := ⟨3, 1⟩, changes := [ops 1 2 2 4], vv := [(0, 1), (1, 2)] } false false,
      .detach 0 0 { cp := ⟨2, 2⟩, changes := [pres 0 3 5], vv := [(0, 1)] }]
    let refused := compactOk tagSem s0 0 false
    let s1 := (compactDoc tagSem true s0 0).1
    let stale := step s1 (.pushpull 1 0 { cp := ⟨4, 2⟩, changes := [ops 1 3 3 6], vv := [(0, 1), (1, 3)] } false false)
    let det := step stale.1 (.detach 1 0 { cp := ⟨4, 2⟩, changes := [ops 1 3 3 6, pres 1 4 7], vv := [(0, 1), (1, 3)] })
    let s2 := (step det.1 .activate).1
    let fresh := step s2 (.attach 2 0 { cp := ⟨0, 0⟩, changes := [pres 2 1 8], vv := [] } false false)
    let s3 := (step fresh.1 (.detach 2 0 { cp := ⟨2, 1⟩, changes := [pres 2 2 9], vv := [] })).1
    let s4 := (compactDoc tagSem false s3 0).1
    (refused == false && epochOr0 s1 0 == 1 && (storedLog s1 0).map (fun r => (r.actor, r.serverSeq)) == [(initialActorNo, 1)] &&
     (match stale.2 with | .error e => some e | .ok _ => none) == some .epochMismatch && (storedLog stale.1 0).length == 1 &&
     (det.2.toOption.map (fun r => r.changes.length)) == some 0 && (storedLog det.1 0).length == 1 &&
     (fresh.2.toOption.map (fun r => r.changes.map (fun x => x.actor))) == some [initialActorNo] &&
     epochOr0 s4 0 == 2 && (storedLog s4 0).length == 1) = true := by
  decide

/-- a schedule with a forced compaction in the middle, a stale sync and a stale detach of the old
holder, and well-behaved clients before and after is accepted by `wbRunC` -/
example :
    let ops (c cs : Nat) (lam : Int) (tag : Nat) : ChangeReq :=
      { clientSeq := cs, lamport := lam, vv := [(c, lam)], actor := c, hasOps := true, hasPresence := false, tag := tag }
    let pres (c cs tag : Nat) : ChangeReq :=
      { clientSeq := cs, lamport := 0, vv := [], actor := c, hasOps := false, hasPresence := true, tag := tag }
    let sched : List EvC := [
      .wb .activate false, .wb .activate false,
      .wb (.attach 0 7 { cp := ⟨0, 0⟩, changes := [pres 0 1 1, ops 0 2 1 2], vv := [(0, 1)] } false false) false,
      .compact 0 false, .compact 0 true,
      .stale (.pushpull 0 0 { cp := ⟨2, 2⟩, changes := [ops 0 3 2 3], vv := [(0, 2)] } false false),
      .wb (.attach 1 7 { cp := ⟨0, 0⟩, changes := [pres 1 1 4], vv := [] } false false) false,
      .stale (.detach 0 0 { cp := ⟨2, 2⟩, changes := [ops 0 3 2 3, pres 0 4 5], vv := [(0, 2)] }),
      .wb (.pushpull 1 0 { cp := ⟨2, 1⟩, changes := [ops 1 2 2 6], vv := [(1, 2)] } false false) false]
    ((wbRunC tagSem (Server.init {}) Ghost.init sched).map (fun p => ((p.2 1 0).cp.serverSeq, (p.2 1 0).applied.map (·.actor),
        (storedLog p.1 0).map (·.actor), epochOr0 p.1 0))) = some (3, [initialActorNo], [initialActorNo, 1, 1], 1) := by
  decide

/-- the side conditions of the two theorems above are met by the driver's content semantics and by the
schedule of the example above (its attaches are made by clients 0 and 1) -/
example : SemInitialActor tagSem ∧
    attachersOk [.wb (.attach 0 7 { cp := ⟨0, 0⟩, changes := [], vv := [] } false false) false, .compact 0 true,
      .wb (.attach 1 7 { cp := ⟨0, 0⟩, changes := [], vv := [] } false false) false] :=
  ⟨tagSem_initialActor, by simp [attachersOk, attacherOk, initialActorNo]⟩

end Yorkie.Props.C10
