/-
C14 (text part): undo / redo of Text edits on a client that receives no remote change.

Model: Model/TextUndo.lean (reverse operations exactly as `Edit.toReverseOperation` /
`Style.toReverseOperation` build them, identity-preserving restore / retombstone on the block list,
the history machine of `document.go`), on top of the block model Model/Text.lean; tie: engine
`textundo` (harness/eng_textundo.go ↔ Driver/TextUndoEngine.lean), in which the model gets the json
calls only and builds, stacks and executes the reverse operations itself.

The full statement one would like,
    visible (undo (do s)) = visible s                                                        (★)
is FALSE of the Go code: an edit whose index cuts a surrogate pair makes `TextValue.Split` turn both
halves into U+FFFD (C07, `text_edit_spec_witness`), and undo revives the damaged halves
(`text_undo_do_witness`, replayed on the Go code by corpus/C14/textundo-surrogate-cut.trace, listed
finding F-C14-text-undo-surrogate-cut). What holds for EVERY input:
  * depth 1: after edit-then-undo the visible string is the old one with the three pieces around the
    two cut points passed through that round trip (`text_undo_do`), hence (★) whenever neither index
    cuts a pair (`text_undo_do_partial`, decidable side condition `Aligned`); redo after that shows
    EXACTLY what the edit showed (`text_redo_undo_do`, no side condition);
  * depth k: in every reachable state of the history machine (any program of effective edits and
    styles, any undo/redo sequence, stacks bounded by the generated `maxUndoRedoStackDepth`), running
    the top entry of either stack shows the content recorded for it up to that degradation
    (`Degr`: `text_undo_shows_record`, `text_redo_shows_record`), i.e. exactly the recorded content
    once both are normalised with `fixUnit` (`text_undo_record_norm` - the normalisation the Go
    oracle applies for KNOWN[c14-text-undo-surrogate-cut]), and EXACTLY when the record holds no
    surrogate (`text_undo_record_partial`); witness `text_undo_record_witness`;
  * identity preservation: undo / redo of content edits changes no node id, content, attribute or
    insPrev link (`text_undo_identity`) - the reason stacked reverses stay valid at any depth;
  * totality: in every history of effective edits and styles `Undo()`/`Redo()` never fail
    (`text_undo_never_fails`; edit-only: `text_undo_edits_total`); a stacked Style reverse never
    fails, keeps the block list well-formed, does not touch the content beyond degradation and
    leaves a reverse with the same positions (`text_undo_total`).
-/
import YorkieModel.Lemmas.TextUndoMachine
import YorkieModel.Lemmas.TextUndoTotal
import YorkieModel.Lemmas.TextUndoStyleTotal
import YorkieModel.Lemmas.TextUndoDo
namespace Yorkie.Props.C14Text
open Yorkie Yorkie.Text Yorkie.TextUndo

/-! ### depth k: the stack invariant -/

/-- **`text_undo_stack_inv`**: every reachable state of the history machine (any program of
    effective edits and styles, any sequence of undo and redo steps) satisfies the stack invariant
    `GInv`: the block list is well-formed, every span held by a stacked reverse is TILED in the current
    block list (a union of whole blocks, whatever splits happened since), both stacks are chains of
    liveness functions starting at the current one whose selections show the recorded contents, and
    both stacks respect the depth limit. -/
theorem text_undo_stack_inv {g : GHist} (r : Reach g) : GInv g := reach_inv r

/-- the stacks and their records have the same depth, bounded by `maxUndoRedoStackDepth` -/
theorem text_undo_stack_depth {g : GHist} (r : Reach g) :
    g.urec.length = g.h.undo.length ∧ g.rrec.length = g.h.redo.length ∧
    g.h.undo.length ≤ Generated.Consts.maxUndoRedoStackDepth ∧
    g.h.redo.length ≤ Generated.Consts.maxUndoRedoStackDepth := by
  have inv := reach_inv r
  exact ⟨(chain_length inv.uchain).symm, (chain_length inv.rchain).symm, inv.ulen, inv.rlen⟩

/-- **undo shows the recorded content** (the visible content before the change the entry reverses),
    up to degradation of surrogate pairs cut in between; the state after the undo is reachable again,
    so this holds to any depth -/
theorem text_undo_shows_record {g : GHist} (r : Reach g)
    (hnf : ∀ e rest, g.h.undo = e :: rest → e.isEmpty = false → (revRun g.h e).failed = false)
    {x : List Nat} {xs : List (List Nat)} (hne : g.h.undo ≠ []) (hrec : g.urec = x :: xs) :
    Degr x (visible g.undo.h.st) ∧ Reach g.undo ∧ g.undo.urec = xs :=
  ⟨(ginv_undo (reach_inv r) hnf).2 x xs hne hrec, Reach.undo r hnf, by
    cases hu : g.h.undo with
    | nil => exact absurd hu hne
    | cons e rest => simp [GHist.undo, hu, hrec]⟩

/-- **redo shows the recorded content** (the visible content before the undo it reverses) -/
theorem text_redo_shows_record {g : GHist} (r : Reach g)
    (hnf : ∀ e rest, g.h.redo = e :: rest → e.isEmpty = false → (revRun g.h e).failed = false)
    {x : List Nat} {xs : List (List Nat)} (hne : g.h.redo ≠ []) (hrec : g.rrec = x :: xs) :
    Degr x (visible g.redo.h.st) ∧ Reach g.redo ∧ g.redo.rrec = xs :=
  ⟨(ginv_redo (reach_inv r) hnf).2 x xs hne hrec, Reach.redo r hnf, by
    cases hu : g.h.redo with
    | nil => exact absurd hu hne
    | cons e rest => simp [GHist.redo, hu, hrec]⟩

/-- the same with both sides normalised: every surrogate unit read as U+FFFD (what the Go oracle
    compares when a record was taken before a cut) -/
theorem text_undo_record_norm {g : GHist} (r : Reach g)
    (hnf : ∀ e rest, g.h.undo = e :: rest → e.isEmpty = false → (revRun g.h e).failed = false)
    {x : List Nat} {xs : List (List Nat)} (hne : g.h.undo ≠ []) (hrec : g.urec = x :: xs) :
    (visible g.undo.h.st).map fixUnit = x.map fixUnit :=
  degr_map_fixUnit (text_undo_shows_record r hnf hne hrec).1

/-- (★) at depth k, EXACTLY, when the recorded content holds no surrogate unit -/
theorem text_undo_record_partial {g : GHist} (r : Reach g)
    (hnf : ∀ e rest, g.h.undo = e :: rest → e.isEmpty = false → (revRun g.h e).failed = false)
    {x : List Nat} {xs : List (List Nat)} (hne : g.h.undo ≠ []) (hrec : g.urec = x :: xs)
    (hbmp : ∀ u ∈ x, isSurr u = false) : visible g.undo.h.st = x :=
  degr_eq_of_no_surr (text_undo_shows_record r hnf hne hrec).1 hbmp

theorem text_redo_record_partial {g : GHist} (r : Reach g)
    (hnf : ∀ e rest, g.h.redo = e :: rest → e.isEmpty = false → (revRun g.h e).failed = false)
    {x : List Nat} {xs : List (List Nat)} (hne : g.h.redo ≠ []) (hrec : g.rrec = x :: xs)
    (hbmp : ∀ u ∈ x, isSurr u = false) : visible g.redo.h.st = x :=
  degr_eq_of_no_surr (text_redo_shows_record r hnf hne hrec).1 hbmp

/-! ### totality -/

/-- **on edit-only histories `Undo()` and `Redo()` never fail**: every entry holds span reverses
    only, their spans are tiled, and restore / retombstone on tiled spans cannot fail -/
theorem text_undo_edits_total {g : GHist} (r : ReachE g) (isUndo : Bool) :
    ((undoRedo g.h isUndo).2).isFailed = false := by
  cases hf : ((undoRedo g.h isUndo).2).isFailed with
  | false => rfl
  | true =>
    obtain ⟨e, rest, hst, _, hfail⟩ := undoRedo_failed hf
    obtain ⟨rr, all⟩ := reachE_inv r
    have inv := reach_inv rr
    cases isUndo with
    | true =>
      simp only [if_true] at hst
      have := revRun_spans_ok inv (fun x hx => inv.uok e (by rw [hst]; exact List.mem_cons_self) x hx)
        (all.1 e (by rw [hst]; exact List.mem_cons_self))
      rw [this] at hfail; cases hfail
    | false =>
      simp only [Bool.false_eq_true, if_false] at hst
      have := revRun_spans_ok inv (fun x hx => inv.rok e (by rw [hst]; exact List.mem_cons_self) x hx)
        (all.2 e (by rw [hst]; exact List.mem_cons_self))
      rw [this] at hfail; cases hfail

/-- edit-only histories are reachable states (so everything above applies to them, with the
    no-failure side conditions discharged) -/
theorem text_undo_edits_reach {g : GHist} (r : ReachE g) : Reach g := (reachE_inv r).1

/-- **`text_undo_total`**: a stacked Style reverse (undo or redo of a Style) whose two positions
    are resolvable (`PosIn`: they were when the forward Style ran, and every later operation keeps
    them so: `text_undo_total_stable`) never fails on a well-formed block list under a local ticket;
    the result is well-formed, shows the same content up to degradation at the two cut points, the
    liveness of every character is untouched, and the reverse it leaves behind (if any) carries the
    same two positions, still resolvable: it can be redone, undone, … for ever. -/
theorem text_undo_total {s : TextSt} (wf : WF s) {fr to : Pos} (hfr : PosIn s fr) (hto : PosIn s to)
    {ts : Ticket} (hnew : ∀ n ∈ s, n.id.1.after ts = false) (attrs : List (String × String))
    (keys : List String) (vv : Option VV) :
    ∃ res, execRev (.style fr to attrs keys) ts vv s = .ok res ∧ WF res.st ∧
      Degr (visible s) (visible res.st) ∧ liveAt res.st = liveAt s ∧
      PosIn res.st fr ∧ PosIn res.st to ∧
      (res.rev = none ∨ ∃ a k, res.rev = some (.style fr to a k)) := by
  obtain ⟨res, hex, hst, wf', p1, p2, _, hrev⟩ := execStyle_ok wf hfr hto hnew attrs keys vv
  refine ⟨res, hex, wf', ?_, liveAt_styleOp wf hst, p1, p2, hrev⟩
  rw [visible_eq_projC wf, visible_eq_projC wf', liveAt_styleOp wf hst]
  exact degr_projC_styleOp wf _ hst

/-- **`Undo()` / `Redo()` never fail**, whatever the order, in any history of effective content
    edits and `Text.Style` calls at visible indices (`ReachT`: no side condition on undo / redo):
    span reverses cannot fail because their spans stay tiled, Style reverses cannot fail because
    their positions stay resolvable. Every such state is a reachable state of the invariant. -/
theorem text_undo_never_fails {g : GHist} (r : ReachT g) (isUndo : Bool) :
    ((undoRedo g.h isUndo).2).isFailed = false ∧ Reach g := ⟨reachT_total r isUndo, (reachT_inv r).1⟩

/-- resolvable positions stay resolvable under every operation of the model (edits, styles,
    identity-preserving reverses), and the positions the json layer computes are resolvable -/
theorem text_undo_total_stable {s : TextSt} (wf : WF s) {p : Pos} (hp : PosIn s p) :
    (∀ {fr to : Pos} {content : List Nat} {attrs : List (String × String)} {ts : Ticket} {vv : Option VV}
      {s' : TextSt}, edit fr to content attrs ts vv s = .ok s' → PosIn s' p) ∧
    (∀ {fr to : Pos} {attrs : List (String × String)} {keys : List String} {ts : Ticket} {vv : Option VV}
      {s' : TextSt}, styleOp fr to attrs keys ts vv s = .ok s' → PosIn s' p) ∧
    (∀ {g : TNode → TNode}, Text.KeepsShape g → PosIn (s.map g) p) :=
  ⟨fun h => posIn_edit wf h hp, fun h => posIn_styleOp wf h hp, fun hg => posIn_map_keeps hg hp⟩

theorem text_undo_total_index {s : TextSt} (wf : WF s) {i : Nat} {p : Pos}
    (h : posOfIndex s i = some p) : PosIn s p := posIn_of_posOfIndex wf h

/-! ### identity preservation -/

/-- **`text_undo_identity`**: executing a stacked span reverse (undo of an insert / delete /
    replace, or its redo) whose spans are tiled - which `text_undo_stack_inv` guarantees for every
    stacked entry - is a map over the block list that only flips `removedAt`: the SAME node ids in
    the same order, the same contents, attributes and insPrev links. So every position and every
    span held by any other stacked reverse means after it what it meant before. -/
theorem text_undo_identity {lam : Int} {actor : Actor} {s : TextSt} (wf : WF s) {fr : Pos}
    {R K : List Span} {m : RMode} (hx : RevOK lam actor 0 s (.spans fr R m K)) (i : Nat) :
    ∃ res, execRev (.spans fr R m K) ⟨lam + 1, i, actor⟩ (some [(actor, lam + 1)]) s = .ok res ∧
      res.st.map (·.id) = s.map (·.id) ∧ res.st.map (·.units) = s.map (·.units) ∧
      res.st.map (·.attrs) = s.map (·.attrs) ∧ res.st.map (·.insPrev) = s.map (·.insPrev) ∧
      (∀ sp, Tiled s sp → Tiled res.st sp) ∧ res.rev = some (.spans fr R m.flip K) := by
  obtain ⟨res, g, hex, hst, hg, hrev, _⟩ := rev_spans_ok wf hx i
  have tR : ∀ sp ∈ R, Tiled s sp := fun sp h => (hx sp (List.mem_append_left _ h)).1
  have tK : ∀ sp ∈ K, Tiled s sp := fun sp h => (hx sp (List.mem_append_right _ h)).1
  have vR : validSpans (some [(actor, lam + 1)]) R = true :=
    validSpans_single (fun sp h => ⟨(hx sp (List.mem_append_left _ h)).2.1,
      (hx sp (List.mem_append_left _ h)).2.2.next⟩)
  have vK : validSpans (some [(actor, lam + 1)]) K = true :=
    validSpans_single (fun sp h => ⟨(hx sp (List.mem_append_right _ h)).2.1,
      (hx sp (List.mem_append_right _ h)).2.2.next⟩)
  obtain ⟨res', f, hex', hst', hf⟩ :=
    execSpans_only_removed (fr := fr) (m := m) (ts := ⟨lam + 1, i, actor⟩) wf tR tK ⟨vR, vK⟩
  have e : res' = res := by
    simp only [execRev] at hex; rw [hex'] at hex; injection hex
  subst e
  refine ⟨res', hex, ?_, ?_, ?_, ?_, fun sp t => by rw [hst]; exact tiled_map_keepsShape hg t, hrev⟩ <;>
    rw [hst', List.map_map] <;> apply List.map_congr_left <;> intro n _
  · exact (hf n).1
  · exact (hf n).2.1
  · exact (hf n).2.2.1
  · exact (hf n).2.2.2

/-- on tiled spans `restore` is a plain map: no split, no gap, no new node (and so is `retombstone`) -/
theorem text_restore_is_flip {s : TextSt} (wf : WF s) {sps : List Span} (t : ∀ sp ∈ sps, Tiled s sp)
    (ts : Ticket) (ch : Bool) :
    (∃ ch', restoreAll sps s ch = .ok (s.map (reviveAll sps), ch')) ∧
    (∃ ch', retombAll ts sps s ch = .ok (s.map (killAll ts sps), ch')) :=
  ⟨restoreAll_tiled wf t ch, retombAll_tiled wf ts t ch⟩

/-- the spans an edit records are tiled in the state it leaves, and stay tiled under every later
    edit with another ticket and every later style operation -/
theorem text_spans_stay_tiled {s s' : TextSt} (wf : WF s) {fr to : Pos} {content : List Nat}
    {attrs : List (String × String)} {ts : Ticket} {vv : Option VV} (hfresh : Fresh s ts)
    (hc : Fixed content) (h : edit fr to content attrs ts vv s = .ok s') :
    (∀ sp ∈ removedSpans fr to ts vv s, Tiled s' sp) ∧
    (content ≠ [] → Tiled s' { ca := ts, start := 0, stop := content.length, content := content }) ∧
    (∀ sp, ts ≠ sp.ca → Tiled s sp → Tiled s' sp) :=
  ⟨tiled_removedSpans wf hfresh hc h, fun hne => tiled_inserted wf hfresh hne h,
    fun _ hts t => tiled_edit wf hts h t⟩

/-! ### depth 1 at full strength -/

/-- **`text_undo_do`**: in any state satisfying the stack invariant (e.g. any reachable one), one
    effective `Edit(from, to, content)` followed by `Undo()` shows the old content, its three pieces
    around the two cut points having passed through a Go string. -/
theorem text_undo_do {g : GHist} (inv : GInv g) {fr to : Nat} (hft : fr ≤ to)
    (hto : to ≤ (visible g.h.st).length) {pf pt : Pos} (hpf : posOfIndex g.h.st fr = some pf)
    (hpt : posOfIndex g.h.st to = some pt) {content : List Nat} {attrs : List (String × String)}
    (hc : Fixed content) (hok : (fwdRun g.h [.edit pf pt content attrs]).failed = false)
    (heff : ∀ y ∈ (fwdRun g.h [.edit pf pt content attrs]).revs, y.isNoop = false) :
    visible (g.change [.edit pf pt content attrs]).undo.h.st =
      sanitize ((visible g.h.st).take fr) ++ sanitize (((visible g.h.st).take to).drop fr) ++
        sanitize ((visible g.h.st).drop to) :=
  (depth1_machine inv hft hto hpf hpt hc hok heff).1

/-- (★) itself, when neither index cuts a surrogate pair (always for BMP-only text) -/
theorem text_undo_do_partial {g : GHist} (inv : GInv g) {fr to : Nat} (hft : fr ≤ to)
    (hto : to ≤ (visible g.h.st).length) {pf pt : Pos} (hpf : posOfIndex g.h.st fr = some pf)
    (hpt : posOfIndex g.h.st to = some pt) {content : List Nat} {attrs : List (String × String)}
    (hc : Fixed content) (hok : (fwdRun g.h [.edit pf pt content attrs]).failed = false)
    (heff : ∀ y ∈ (fwdRun g.h [.edit pf pt content attrs]).revs, y.isNoop = false)
    (afr : Aligned (visible g.h.st) fr) (ato : Aligned (visible g.h.st) to) :
    visible (g.change [.edit pf pt content attrs]).undo.h.st = visible g.h.st := by
  rw [text_undo_do inv hft hto hpf hpt hc hok heff, aligned_pieces hft afr ato]

/-- **`text_redo_undo_do`**: redo after that shows EXACTLY what the edit showed (no side
    condition: undo and redo do not split anything) -/
theorem text_redo_undo_do {g : GHist} (inv : GInv g) {fr to : Nat} (hft : fr ≤ to)
    (hto : to ≤ (visible g.h.st).length) {pf pt : Pos} (hpf : posOfIndex g.h.st fr = some pf)
    (hpt : posOfIndex g.h.st to = some pt) {content : List Nat} {attrs : List (String × String)}
    (hc : Fixed content) (hok : (fwdRun g.h [.edit pf pt content attrs]).failed = false)
    (heff : ∀ y ∈ (fwdRun g.h [.edit pf pt content attrs]).revs, y.isNoop = false) :
    visible (g.change [.edit pf pt content attrs]).undo.redo.h.st =
      visible (g.change [.edit pf pt content attrs]).h.st :=
  (depth1_machine inv hft hto hpf hpt hc hok heff).2.2

/-- undo of that edit changes no node id -/
theorem text_undo_do_ids {g : GHist} (inv : GInv g) {fr to : Nat} (hft : fr ≤ to)
    (hto : to ≤ (visible g.h.st).length) {pf pt : Pos} (hpf : posOfIndex g.h.st fr = some pf)
    (hpt : posOfIndex g.h.st to = some pt) {content : List Nat} {attrs : List (String × String)}
    (hc : Fixed content) (hok : (fwdRun g.h [.edit pf pt content attrs]).failed = false)
    (heff : ∀ y ∈ (fwdRun g.h [.edit pf pt content attrs]).revs, y.isNoop = false) :
    (g.change [.edit pf pt content attrs]).undo.h.st.map (·.id) =
      (g.change [.edit pf pt content attrs]).h.st.map (·.id) :=
  (depth1_machine inv hft hto hpf hpt hc hok heff).2.1

/-- the forward edit of the machine at visible indices never fails (so `hok` above always holds),
    and an edit that inserts something always leaves a span reverse (so `heff` holds for every
    insert and replace; for a pure delete it says that something was deleted) -/
theorem text_do_ok {g : GHist} (inv : GInv g) {fr to : Nat} (hft : fr ≤ to)
    (hto : to ≤ (visible g.h.st).length) {pf pt : Pos} (hpf : posOfIndex g.h.st fr = some pf)
    (hpt : posOfIndex g.h.st to = some pt) (content : List Nat) (attrs : List (String × String)) :
    (fwdRun g.h [.edit pf pt content attrs]).failed = false ∧
    (content ≠ [] → ∀ y ∈ (fwdRun g.h [.edit pf pt content attrs]).revs, y.isNoop = false) :=
  fwdRun_edit_ok inv hft hto hpf hpt content attrs

/-- `text_undo_do` + `text_redo_undo_do` for every insert / replace (`content ≠ []`), with no
    hypothesis left about the run of the model: in any state satisfying the invariant, at any
    visible indices `fr ≤ to`, `Edit` then `Undo()` shows the three sanitised pieces of the old text
    (the old text itself when the cuts are aligned), and `Redo()` shows exactly what the edit showed -/
theorem text_undo_redo_insert {g : GHist} (inv : GInv g) {fr to : Nat} (hft : fr ≤ to)
    (hto : to ≤ (visible g.h.st).length) {pf pt : Pos} (hpf : posOfIndex g.h.st fr = some pf)
    (hpt : posOfIndex g.h.st to = some pt) {content : List Nat} {attrs : List (String × String)}
    (hc : Fixed content) (hne : content ≠ []) :
    visible (g.change [.edit pf pt content attrs]).undo.h.st =
      sanitize ((visible g.h.st).take fr) ++ sanitize (((visible g.h.st).take to).drop fr) ++
        sanitize ((visible g.h.st).drop to) ∧
    (Aligned (visible g.h.st) fr → Aligned (visible g.h.st) to →
      visible (g.change [.edit pf pt content attrs]).undo.h.st = visible g.h.st) ∧
    visible (g.change [.edit pf pt content attrs]).undo.redo.h.st =
      visible (g.change [.edit pf pt content attrs]).h.st := by
  obtain ⟨hok, heff⟩ := fwdRun_edit_ok inv hft hto hpf hpt content attrs
  exact ⟨text_undo_do inv hft hto hpf hpt hc hok (heff hne),
    fun a b => text_undo_do_partial inv hft hto hpf hpt hc hok (heff hne) a b,
    text_redo_undo_do inv hft hto hpf hpt hc hok (heff hne)⟩

/-! ### concrete states: non-vacuity and the negation witnesses -/

/-- "😀" -/
def smile : List Nat := [0xD83D, 0xDE00]

/-- a fresh document of actor 7 holding an empty text created by change 1 -/
def g0 : GHist := { h := { actor := 7, lamport := 1 } }

/-- `Edit(0,0,"😀")` -/
def opSmile : TOp := .edit ⟨headId, 0⟩ ⟨headId, 0⟩ smile []
def g1 : GHist := g0.change [opSmile]

/-- `Edit(1,1,"x")`: index 1 is inside the pair -/
def opCut : TOp := .edit ⟨(⟨2, 1, 7⟩, 0), 1⟩ ⟨(⟨2, 1, 7⟩, 0), 1⟩ [0x78] []
def g2 : GHist := g1.change [opCut]

/-- `Edit(2,2,"ab")` (at the end, no cut), then `Edit(0,2,"")` deleting the pair -/
def opAb : TOp := .edit ⟨(⟨2, 1, 7⟩, 0), 2⟩ ⟨(⟨2, 1, 7⟩, 0), 2⟩ [0x61, 0x62] []
def g2' : GHist := g1.change [opAb]
def opDel : TOp := .edit ⟨headId, 0⟩ ⟨(⟨2, 1, 7⟩, 0), 2⟩ [] []
def g3' : GHist := g2'.change [opDel]

theorem reach_g0 : Reach g0 := Reach.init 7 1 (by decide)
theorem reach_g1 : Reach g1 := Reach.change [opSmile] reach_g0 (opFixed_single (by decide)) (by decide) (by decide)
theorem reach_g2 : Reach g2 := Reach.change [opCut] reach_g1 (opFixed_single (by decide)) (by decide) (by decide)
theorem reach_g2b : Reach g2' := Reach.change [opAb] reach_g1 (opFixed_single (by decide)) (by decide) (by decide)
theorem reach_g3b : Reach g3' := Reach.change [opDel] reach_g2b (opFixed_single (by decide)) (by decide) (by decide)

/-- the hypotheses of `text_undo_do` / `text_undo_do_partial` hold in a non-trivial state: "😀ab",
    delete the pair (`Edit(0,2,"")`, aligned cuts), undo brings "😀ab" back, redo removes it again -/
example : GInv g2' ∧ posOfIndex g2'.h.st 0 = some ⟨headId, 0⟩ ∧
    posOfIndex g2'.h.st 2 = some ⟨(⟨2, 1, 7⟩, 0), 2⟩ ∧ (fwdRun g2'.h [opDel]).failed = false ∧
    (∀ y ∈ (fwdRun g2'.h [opDel]).revs, y.isNoop = false) ∧
    Aligned (visible g2'.h.st) 0 ∧ Aligned (visible g2'.h.st) 2 :=
  ⟨reach_inv reach_g2b, by rfl, by rfl, by decide, by decide, by decide, by decide⟩

example : visible g2'.h.st = [0xD83D, 0xDE00, 0x61, 0x62] ∧ visible g3'.h.st = [0x61, 0x62] ∧
    visible g3'.undo.h.st = [0xD83D, 0xDE00, 0x61, 0x62] ∧ visible g3'.undo.redo.h.st = [0x61, 0x62] ∧
    visible g3'.undo.undo.h.st = [0xD83D, 0xDE00] ∧ visible g3'.undo.undo.undo.h.st = [] := by decide

/-- depth 2 with records: the two records of `g3'` are the contents before each change, and running
    the entries shows them -/
example : g3'.urec = [[0xD83D, 0xDE00, 0x61, 0x62], [0xD83D, 0xDE00], []] ∧ g3'.h.undo.length = 3 := by decide

/-- the side conditions of the depth-k theorems are satisfiable: the top entry of `g3'` runs -/
example : ∀ e rest, g3'.h.undo = e :: rest → e.isEmpty = false → (revRun g3'.h e).failed = false := by
  intro e rest h _
  have : e = (g3'.h.undo.head?).getD [] := by rw [h]; rfl
  subst this; decide

/-- edit-only reachability is inhabited by the same states -/
example : ReachE g3' :=
  ReachE.change [opDel]
    (ReachE.change [opAb]
      (ReachE.change [opSmile] (ReachE.init 7 1 (by decide)) (editsOnly_single _ _ _ _)
        (opFixed_single (by decide)) (by decide) (by decide))
      (editsOnly_single _ _ _ _) (opFixed_single (by decide)) (by decide) (by decide))
    (editsOnly_single _ _ _ _) (opFixed_single (by decide)) (by decide) (by decide)

/-- `ReachT` is inhabited by a history with a Style and its undo: "😀ab", `Style(0,2,{b:1})`, `Undo()`,
    `Undo()` (the Style is undone by a Style reverse that removes the key, then the insert of "ab") -/
example : ReachT ((g2'.change [.style ⟨headId, 0⟩ ⟨(⟨2, 1, 7⟩, 0), 2⟩ [("b", "1")]]).undo.undo) :=
  ReachT.undo (ReachT.undo (ReachT.style (g := g2') (fr := 0) (to := 2) [("b", "1")]
    (ReachT.edit [opAb] (ReachT.edit [opSmile] (ReachT.init 7 1 (by decide)) (editsOnly_single _ _ _ _)
      (opFixed_single (by decide)) (by decide) (by decide))
      (editsOnly_single _ _ _ _) (opFixed_single (by decide)) (by decide) (by decide))
    (by rfl) (by rfl)))

example : (g2'.change [.style ⟨headId, 0⟩ ⟨(⟨2, 1, 7⟩, 0), 2⟩ [("b", "1")]]).h.undo.head? =
      some [.style ⟨headId, 0⟩ ⟨(⟨2, 1, 7⟩, 0), 2⟩ [] ["b"]] ∧
    visible (g2'.change [.style ⟨headId, 0⟩ ⟨(⟨2, 1, 7⟩, 0), 2⟩ [("b", "1")]]).undo.undo.h.st =
      [0xD83D, 0xDE00] := by decide

/-- **Negation witness for (★) at depth 1.** In the reachable state "😀" the edit `Edit(1,1,"x")`
    satisfies every hypothesis of `text_undo_do`, and after `Undo()` the visible string is "��", not
    "😀". (Go: corpus/C14/textundo-surrogate-cut.trace.) -/
theorem text_undo_do_witness :
    ∃ (g : GHist) (pf : Pos) (content : List Nat), Reach g ∧ 1 ≤ (visible g.h.st).length ∧
      posOfIndex g.h.st 1 = some pf ∧ Fixed content ∧
      (fwdRun g.h [.edit pf pf content []]).failed = false ∧
      (∀ y ∈ (fwdRun g.h [.edit pf pf content []]).revs, y.isNoop = false) ∧
      visible g.h.st = [0xD83D, 0xDE00] ∧
      visible (g.change [.edit pf pf content []]).undo.h.st = [0xFFFD, 0xFFFD] ∧
      visible (g.change [.edit pf pf content []]).undo.h.st ≠ visible g.h.st :=
  ⟨g1, ⟨(⟨2, 1, 7⟩, 0), 1⟩, [0x78], reach_g1, by decide, by rfl, by decide, by decide, by decide,
    by decide, by decide, by decide⟩

/-- **Negation witness at the level of the records**: `g2` is reachable, its top record is "😀", the
    entry runs, and `Undo()` shows "��": the no-surrogate condition of `text_undo_record_partial`
    cannot be dropped (while `Degr` and the normalised equality hold, as they must). -/
theorem text_undo_record_witness :
    Reach g2 ∧ g2.urec = [[0xD83D, 0xDE00], []] ∧
    (∀ e rest, g2.h.undo = e :: rest → e.isEmpty = false → (revRun g2.h e).failed = false) ∧
    visible g2.undo.h.st = [0xFFFD, 0xFFFD] ∧ visible g2.undo.h.st ≠ [0xD83D, 0xDE00] ∧
    Degr [0xD83D, 0xDE00] (visible g2.undo.h.st) := by
  refine ⟨reach_g2, by decide, ?_, by decide, by decide, by decide⟩
  intro e rest h _
  have : e = (g2.h.undo.head?).getD [] := by rw [h]; rfl
  subst this; decide

/-- `text_undo_total`: its hypotheses hold for the positions of a Style on "😀ab" … -/
example : WF g2'.h.st ∧ PosIn g2'.h.st ⟨headId, 0⟩ ∧ PosIn g2'.h.st ⟨(⟨2, 1, 7⟩, 0), 2⟩ ∧
    (∀ n ∈ g2'.h.st, n.id.1.after ⟨4, 1, 7⟩ = false) :=
  ⟨(reach_inv reach_g2b).wf, posIn_of_posOfIndex (reach_inv reach_g2b).wf (i := 0) (by rfl),
    posIn_of_posOfIndex (reach_inv reach_g2b).wf (i := 2) (by rfl), by decide⟩

/-- … and `text_undo_identity`: the top entry of `g3'` is a span reverse satisfying `RevOK` -/
example : ∀ e ∈ g3'.h.undo, ∀ y ∈ e, RevOK g3'.h.lamport g3'.h.actor 0 g3'.h.st y :=
  (reach_inv reach_g3b).uok

end Yorkie.Props.C14Text
