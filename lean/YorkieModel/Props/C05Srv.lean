/-
C05, snapshot answer to a retried pack  (model: Model/ServerSnap.lean on top of Model/Server.lean; tie: engine `srv`
with lost responses, corpus/C05/srv-retry-answered-with-snapshot.trace).

`Props/C05.lean` proves that a lost response followed by the resend leaves the STORE unchanged.  What the retrying
CLIENT receives is a second matter when the answer is a snapshot: `pullSnapshot` rebuilds the document at
`initialServerSeq` (every row stored before this request – including what the client's first, unanswered request
stored) and applies changes of the request pack on top.  With `hooks/fix-c05-snapshot-retry-applies-twice.patch`
(`snapshotAppliesOnlyPushed = true`) these are exactly the changes this request stores:

  * `snapshot_applies_what_push_stores` – for every flight, the list applied to the rebuilt document is `pushablesOf`,
    the list `pushPack` stores: each change of the pack is in the snapshot once – below `initialServerSeq` if an
    earlier request stored it, applied on top if this one does;
  * `identical_retry_applies_nothing` – a pack whose changes are all at or below the checkpoint adds nothing, and the
    vector of the snapshot response is the rebuilt document's own vector (no extra tick of its clock).

Before the patch the whole pack was applied (`appliedToSnapshot` = identity): the retried change was in the snapshot
twice; the `srv` engine shows it on the unpatched tree as a correspondence difference of the snapshot response vector
and as C05/C02/C01 oracle lines (counter bumped twice, snapshot-fed replica ≠ fold of the log).
-/
import YorkieModel.Model.ServerSnap
namespace Yorkie.Props.C05Srv
open Yorkie Yorkie.Server Yorkie.ServerSnap

theorem snapshot_applies_what_push_stores (f : Flight) :
    appliedToSnapshot (f.info.checkpoint f.doc).clientSeq f.pack.changes = pushablesOf f := by
  simp [appliedToSnapshot, snapshotAppliesOnlyPushed, pushablesOf]

theorem identical_retry_applies_nothing (cpSeq : Nat) (changes : List ChangeReq)
    (hall : ∀ x ∈ changes, x.clientSeq ≤ cpSeq) (doc : SDoc) (c : ClientId) :
    appliedToSnapshot cpSeq changes = [] ∧
    snapshotRespVV doc (appliedToSnapshot cpSeq changes) c false = doc.clock.vv := by
  have h : appliedToSnapshot cpSeq changes = [] := by
    simp only [appliedToSnapshot, snapshotAppliesOnlyPushed, if_true, List.filter_eq_nil_iff]
    intro x hx
    have := hall x hx
    simp only [isPushable, decide_eq_true_eq]; omega
  exact ⟨h, by simp [h, snapshotRespVV, applyIds]⟩

/-- non-vacuity: a retried pack with one stored (clientSeq 3 ≤ 3) and one new change (clientSeq 4) -/
example :
    (appliedToSnapshot 3
      [ { clientSeq := 3, lamport := 2, vv := [(7, 2)], actor := 7, hasOps := true, hasPresence := false, tag := 0 },
        { clientSeq := 4, lamport := 3, vv := [(7, 3)], actor := 7, hasOps := true, hasPresence := false, tag := 0 } ]).map
      (·.clientSeq) = [4] := by
  decide

end Yorkie.Props.C05Srv
