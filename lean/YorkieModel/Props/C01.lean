/-
C01  Replicas converge: same changes delivered ⇒ same document on every client.

Scope of the theorems in this file: the JSON-like document of Model/Crdt.lean – objects (any
nesting), arrays incl. move and set-by-index, counters – with garbage collection off, for ANY
number of clients, ANY program of local operations and ANY interleaving of edits, pushes and pulls
(`Convergence.Sem.Step`: `edit`, `push`, `pull` are separate steps, so offline stretches, push-only
syncs and in-flight edits between push and pull are all covered). Text and tree are not in this
model (see the `text` engine and MANIFEST `partial`).

The system model is Yorkie's delivery discipline: the server log is a total order; a client applies
its own operation immediately and every other client's operation in log order, never an echo.
-/
import YorkieModel.Lemmas.DocInstance
namespace Yorkie.Props.C01
open Yorkie Yorkie.Crdt Yorkie.Convergence

abbrev DocSys := Sys Doc Op

/-- two operations that are independent (neither references or re-creates what the other
    creates – which is what "concurrent" means under causal delivery with unique tickets) commute
    on every well-formed document on which they are enabled, and stay enabled -/
theorem concurrent_ops_commute {d : Doc} {a b : Op}
    (ha : Pre d a) (hb : Pre (apply d a) b) (hi : Indep a b) :
    Pre d b ∧ Pre (apply d b) a ∧ apply (apply d a) b = apply (apply d b) a :=
  swap_closed ha hb hi

/-- the model satisfies every law the generic convergence theorem needs -/
theorem doc_laws : docSem.Laws := docLaws

/-- every replica's document is the fold of the server log prefix it has pulled, its own
    operations already in the log beyond that point, and its unpushed operations -/
theorem replica_is_server_fold {s : DocSys} (hr : docSem.Reachable s) (c : Nat) :
    (s.clients c).st =
      (s.log.take (s.clients c).cp ++
        (s.log.drop (s.clients c).cp).filter (fun b => docSem.author b = c) ++
        (s.clients c).pending).foldl apply Doc.init :=
  Sem.replica_eq_fold docLaws hr c

/-- strong convergence: any two clients that have pushed everything and pulled up to the head
    hold the same document (as heaps, hence every observation of them agrees) -/
theorem converge_quiescent {s : DocSys} (hr : docSem.Reachable s) (c₁ c₂ : Nat)
    (hp₁ : (s.clients c₁).pending = []) (hc₁ : (s.clients c₁).cp = s.log.length)
    (hp₂ : (s.clients c₂).pending = []) (hc₂ : (s.clients c₂).cp = s.log.length) :
    (s.clients c₁).st = (s.clients c₂).st :=
  Sem.converge_quiescent docLaws hr c₁ c₂ hp₁ hc₁ hp₂ hc₂

/-- …in particular their `Marshal()` is byte-identical, and equal to the server's own rebuild -/
theorem marshal_converges {s : DocSys} (hr : docSem.Reachable s) (c₁ c₂ : Nat)
    (hp₁ : (s.clients c₁).pending = []) (hc₁ : (s.clients c₁).cp = s.log.length)
    (hp₂ : (s.clients c₂).pending = []) (hc₂ : (s.clients c₂).cp = s.log.length) (fuel : Nat) :
    marshal (s.clients c₁).st fuel rootId = marshal (s.clients c₂).st fuel rootId ∧
    marshal (s.clients c₁).st fuel rootId = marshal (s.log.foldl apply Doc.init) fuel rootId := by
  rw [converge_quiescent hr c₁ c₂ hp₁ hc₁ hp₂ hc₂, Sem.server_fold docLaws hr c₂ hp₂ hc₂]
  exact ⟨rfl, rfl⟩

/-- the order in which clients edited or synchronised does not matter: the common result is a
    function of the server log alone -/
theorem result_is_log_fold {s : DocSys} (hr : docSem.Reachable s) (c : Nat)
    (hp : (s.clients c).pending = []) (hc : (s.clients c).cp = s.log.length) :
    (s.clients c).st = s.log.foldl apply Doc.init :=
  Sem.server_fold docLaws hr c hp hc

/-- the server's own rebuild never hits a failing operation: every operation in the log is
    enabled (its executor call succeeds on a well-formed document) at its position -/
theorem server_rebuild_never_fails {s : DocSys} (hr : docSem.Reachable s) :
    docSem.Valid Doc.init s.log :=
  Sem.server_valid docLaws hr

/-- no synchronisation step fails: every operation a client pulls is enabled at the moment that
    client applies it (it applies the unseen operations of the other clients in log order on top of
    its current document) -/
theorem pulled_ops_never_fail {s : DocSys} (hr : docSem.Reachable s) (c : Nat) :
    docSem.Valid (s.clients c).st (docSem.news s c) :=
  Sem.pull_valid docLaws hr c

/-- an enabled operation is one whose `Operation.Execute` returns no error -/
theorem enabled_means_execute_ok {d : Doc} {a : Op} (h : Pre d a) : ∃ d', execute d a = .ok d' :=
  h.2.1

/-- well-formedness is an invariant of every replica -/
theorem wellformed_preserved {d : Doc} {a : Op} (h : Pre d a) : WF (apply d a) := wf_apply h

/-! Non-vacuity: `Pre` holds for a real operation on the initial document, and two concurrent
    array operations from different actors are independent. -/
example : Pre Doc.init (.set rootId "a" .newArr ⟨1, 0, 1⟩) := by
  refine ⟨WF_init, ⟨_, rfl⟩, ?_⟩
  intro i hi
  simp only [creates, List.mem_singleton] at hi
  subst hi
  exact ⟨by decide, H0 _⟩

example : Indep (.add ⟨1, 0, 1⟩ rootId (.prim "1") ⟨2, 0, 1⟩) (.add ⟨1, 0, 1⟩ rootId (.prim "2") ⟨2, 0, 2⟩) := by
  unfold Indep creates refs rawRefs
  decide

end Yorkie.Props.C01
