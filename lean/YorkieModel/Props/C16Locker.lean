/-
C16 (named-lock layer)  pkg/locker gives every name one lock, for as long as anybody uses it.

The deadlock-freedom theorems of Props/C16.lean treat a named lock as ONE RW mutex per key.
pkg/locker implements that with a map of reference-counted entries that are created on
demand and deleted when the last user leaves; the goroutines operate on the inner mutex
through a pointer, outside the map's own mutex.  "One mutex per key" is therefore a property of
the reference counting: an entry must never be deleted (and then re-created as a second,
independent mutex) while somebody still holds a pointer to it.

Model: Model/NamedLocker.lean – atomic steps = the package's own `Locker.mu` sections plus the
operations on the inner mutex; sessions (goroutines) interleave arbitrarily.  Theorems for ANY
number of sessions, any names, any interleaving (`Reach`), by induction over steps
(Lemmas/NamedLocker.lean `Inv`, `inv_step`):

  * `refs_eq_users`            waiters(entry) = number of sessions between "take reference" and
                               "drop reference" – exactly, since a failed TryLock gives its
                               reference back (`fix:` commit 114f7bfc; before it: `refs_eq_users_leaky`,
                               with one reference left behind per failed TryLock);
  * `map_empty_when_idle`      when no session is using the locker the map is empty: nothing is
                               left behind, whatever happened before (false before 114f7bfc:
                               `failed_trylock_leaves_entry_witness`);
  * `user_finds_its_entry`     whoever has taken a reference under a name still finds, under that
                               name, the very `lockCtr` it points to – an entry in use is never
                               deleted or replaced;
  * `unlock_never_fails`       `Unlock`/`RUnlock` of a holder never returns `ErrNoSuchLock`
                               (server/backend/sync turns that error into a panic) and never
                               unlocks somebody else's mutex;
  * `mutual_exclusion`         per NAME: at most one exclusive holder, and never an exclusive and
                               a shared holder together;
  * `trylock_ref_on_create_breaks_it`  the variant "TryLock takes its reference only when it
                               creates the entry" is refuted by a three-party schedule (holder
                               releases, a waiter is parked in Lock, a TryLock wins the hand-off
                               window): the waiter's Unlock returns `ErrNoSuchLock`, and with one
                               more Lock two sessions hold the same name exclusively.

Tie to the code: engine `locker` (harness/eng_locker.go, Driver/LockerEngine.lean) – scripted
episodes of 2–4 goroutines on 1–2 names against the real package, every call's outcome and the
content of the map (`waiters` per entry, by reflection) after every step predicted by this model;
plus a free-running stress share with the oracle "no ErrNoSuchLock for a holder, never two
holders, the map ends up as the model says".
-/
import YorkieModel.Lemmas.NamedLocker
import YorkieModel.Lemmas.NamedLockerDriver
namespace Yorkie.Props.C16Locker
open Yorkie.NamedLocker Yorkie.Driver

/-- **The invariant holds in every reachable state** of the code as it is, for every number `n`
    of sessions. -/
theorem locker_invariant (n : Nat) (s : State) (hr : Reach .current (State.init n) s) : Inv s :=
  inv_reach .current (by simp) n s hr

/-- **`waiters` counts the users.**  For every entry `k ↦ o` of the map, `waiters` is exactly the
    number of sessions that have taken a reference on `o` and not yet dropped it (a `TryLock` that
    failed has dropped it when the call returns). -/
theorem refs_eq_users (n : Nat) (s : State) (hr : Reach .current (State.init n) s) (k o : Nat)
    (hm : s.map k = some o) : (s.heap o).refs = users s o := by
  obtain ⟨hi, ht⟩ := tidy_reach n s hr
  have := hi.refs k o hm
  rw [(ht k o hm).1] at this
  simpa using this

/-- the same for the code before 114f7bfc: one reference stays behind for every `TryLock` that failed
    on the entry -/
theorem refs_eq_users_leaky (n : Nat) (s : State) (hr : Reach .leakyTry (State.init n) s) (k o : Nat)
    (hm : s.map k = some o) : (s.heap o).refs = users s o + (s.heap o).leaked :=
  (inv_reach .leakyTry (by simp) n s hr).refs k o hm

/-- **Nothing is left behind.**  In every reachable state in which no session is using the locker
    (all sessions idle: every `Lock`/`RLock` has been matched by its `Unlock`/`RUnlock`, every
    `TryLock` has returned) the map is empty – also after any number of failed `TryLock`s. -/
theorem map_empty_when_idle (n : Nat) (s : State) (hr : Reach .current (State.init n) s)
    (hid : ∀ p ∈ s.ss, p = Phase.idle) : ∀ k, s.map k = none := by
  intro k
  cases hm : s.map k with
  | none => rfl
  | some o =>
    have h1 := refs_eq_users n s hr k o hm
    have h2 := ((tidy_reach n s hr).2 k o hm).2
    have h3 := users_zero_of_all_idle s hid o
    omega

/-- **An entry in use is never deleted or replaced.**  A session that has taken a reference
    under the name `k` and got the `lockCtr` `o` – whether it is still waiting for the inner mutex
    or holds it – finds exactly `o` under `k` in the map. -/
theorem user_finds_its_entry (n : Nat) (s : State) (hr : Reach .current (State.init n) s)
    (i : Nat) (p : Phase) (k o : Nat) (hp : s.ss[i]? = some p) (hk : p.key = some k) (ho : p.obj = some o) :
    s.map k = some o :=
  (inv_reach .current (by simp) n s hr).live i p k o hp hk ho

/-- **An entry is deleted only at `waiters = 0`, i.e. when nobody uses it**: if a step removes
    the entry of `k`, no session of the new state has a reference on the `lockCtr` it pointed to. -/
theorem deleted_only_when_unused (n : Nat) (s s' : State) (hr : Reach .current (State.init n) s)
    (i : Nat) (a : Act) (r : Outcome) (hs : step .current s i a = some (s', r))
    (k o : Nat) (hm : s.map k = some o) (hd : s'.map k = none) :
    ∀ (j : Nat) (p : Phase), s'.ss[j]? = some p → p.obj ≠ some o := by
  intro j p hj hpo
  have hinv' := (inv_step .current (by simp) s s' i a r (inv_reach .current (by simp) n s hr) hs).1
  cases hk : p.key with
  | none => cases p <;> simp_all [Phase.key, Phase.obj]
  | some k' =>
    have hm' := hinv'.live j p k' o hj hk hpo
    -- `o` is still mapped in `s'` (under `k'`), so it was mapped in `s` under the same name
    have hb := (inv_reach .current (by simp) n s hr).bound k o hm
    have hk' : s.map k' = some o := step_map_old .current (by simp) s s' i a r hs k' o hm' hb
    have := (inv_reach .current (by simp) n s hr).inj k k' o hm hk'
    subst this
    simp [hd] at hm'

/-- **`Unlock` / `RUnlock` of a holder never fails**: it finds an entry (no `ErrNoSuchLock`) and
    that entry is the `lockCtr` the holder locked (it never unlocks a foreign mutex). -/
theorem unlock_never_fails (n : Nat) (s s' : State) (hr : Reach .current (State.init n) s)
    (i : Nat) (a : Act) (r : Outcome) (hs : step .current s i a = some (s', r)) :
    r ≠ .noSuchLock ∧ r ≠ .foreign :=
  (inv_step .current (by simp) s s' i a r (inv_reach .current (by simp) n s hr) hs).2

/-- **Mutual exclusion per name.**  Two sessions that hold the same name exclusively are the same
    session, and nobody holds a name shared while somebody holds it exclusively – whatever
    `lockCtr` objects they got. -/
theorem mutual_exclusion (n : Nat) (s : State) (hr : Reach .current (State.init n) s)
    (i j k o o' : Nat) (hi : s.ss[i]? = some (.holdW k o)) :
    (s.ss[j]? = some (.holdW k o') → i = j) ∧ s.ss[j]? ≠ some (.holdR k o') := by
  have h := inv_reach .current (by simp) n s hr
  have hm := h.live i _ k o hi rfl rfl
  have hwi := (h.writer k o i hm).mpr hi
  constructor
  · intro hj
    have hm' := h.live j _ k o' hj rfl rfl
    have : o' = o := by simpa [hm] using hm'.symm
    subst this
    have hwj := (h.writer k o' j hm).mpr hj
    simpa [hwi] using hwj
  · intro hj
    have hm' := h.live j _ k o' hj rfl rfl
    have : o' = o := by simpa [hm] using hm'.symm
    subst this
    have hrj := (h.readers k o' j hm).mpr hj
    have := h.excl k o' hm (by simp [hwi])
    simp [this] at hrj

/-! ## the variant "TryLock takes a reference only when it creates the entry" -/

/-- holder 0, waiter 1, try-locker 2 on the name 0: the holder releases while the waiter is
    parked in `Lock` (reference taken, inner mutex not yet owned); the try-locker finds the entry,
    takes NO reference, wins the free inner mutex; its `Unlock` drops the waiter's reference to 0
    and deletes the entry; the waiter then acquires the orphaned mutex -/
def handoffSchedule : List (Nat × Act) :=
  [(0, .startL 0), (0, .acquire), (1, .startL 0), (0, .unlock), (2, .startT 0), (2, .unlock), (1, .acquire)]

/-- **The variant breaks the invariant** (three-party schedule, evaluated):
    (a) the waiter holds the name but the map has no entry for it, and its `Unlock` returns
        `ErrNoSuchLock` (a panic in server/backend/sync);
    (b) if instead a third `Lock` of the same name comes first, it creates a second `lockCtr`
        and two sessions hold the name exclusively at the same time. -/
theorem trylock_ref_on_create_breaks_it :
    ((exec .tryRefOnCreate (State.init 3) handoffSchedule).map
        (fun r => (r.1.ss, r.1.map 0, r.2))
      = some ([.idle, .holdW 0 0, .idle], none,
              [.none, .acquired, .none, .released, .tryOk, .released, .acquired])) ∧
    ((exec .tryRefOnCreate (State.init 3) (handoffSchedule ++ [(1, .unlock)])).map (fun r => r.2.getLast?)
      = some (some .noSuchLock)) ∧
    ((exec .tryRefOnCreate (State.init 3)
        (handoffSchedule.dropLast ++ [(2, .startL 0), (2, .acquire), (1, .acquire)])).map (fun r => r.1.ss)
      = some [.idle, .holdW 0 0, .holdW 0 1]) := by
  decide +kernel

/-- the same parties under the code as it is (the try-locker takes its reference first, then
    tries): everybody's `Unlock` succeeds and the entry is deleted by the last one -/
example :
    (exec .current (State.init 3)
      [(0, .startL 0), (0, .acquire), (1, .startL 0), (0, .unlock), (2, .startT 0), (2, .try), (2, .unlock),
       (1, .acquire), (1, .unlock)]).map (fun r => (r.1.ss, r.1.map 0, r.2))
      = some ([.idle, .idle, .idle], none,
              [.none, .acquired, .none, .released, .none, .tryOk, .released, .acquired, .released]) := by
  decide +kernel

/-- **Before 114f7bfc `map_empty_when_idle` was false** (switch-off witness, evaluated): a FAILED
    `TryLock` left its reference behind – after holder and try-locker are both done the entry is
    still in the map with `waiters = 1` and no user, for the life of the process (names that are
    only ever try-locked, the snapshot and housekeeping keys, never lose their entry). -/
theorem failed_trylock_leaves_entry_witness :
    (exec .leakyTry (State.init 2) [(0, .startL 0), (0, .acquire), (1, .startT 0), (1, .try), (0, .unlock)]).map
        (fun r => (r.1.ss, r.1.map 0, (r.1.heap 0).refs, users r.1 0, r.2.getLast?))
      = some ([.idle, .idle], some 0, 1, 0, some .released) := by
  decide +kernel

/-- the same parties under the code as it is: the failed `TryLock` gives its reference back
    (`drop`) and the holder's `Unlock` deletes the entry; in the other order (the holder leaves
    first) the try-locker's `drop` deletes it -/
example :
    (exec .current (State.init 2)
        [(0, .startL 0), (0, .acquire), (1, .startT 0), (1, .try), (1, .drop), (0, .unlock)]).map
        (fun r => (r.1.ss, r.1.map 0, r.2)) =
      some ([.idle, .idle], none, [.none, .acquired, .none, .tryFailed, .none, .released]) ∧
    (exec .current (State.init 2)
        [(0, .startL 0), (0, .acquire), (1, .startT 0), (1, .try), (0, .unlock), (1, .drop)]).map
        (fun r => (r.1.ss, r.1.map 0, (r.1.heap 0).refs)) = some ([.idle, .idle], none, 0) := by
  decide +kernel

/-- the repaired TryLock is not the refuted variant: it TAKES its reference whether or not the entry
    exists (the waiter's entry survives the try-locker's Unlock in the hand-off window: see the
    `example` above) and only gives it back after a failure; and the model runs the tree's variant -/
theorem model_uses_current_behaviour : Variant.ofTree = .current := rfl

/-! ## the tie: what the driver engine executes -/

/-- **The scripted episodes are runs of the model.**  Whatever command line the driver engine
    executes, the model state after it is reachable from the model state before it by steps of
    `step Variant.ofTree` (a `NEW` line starts from `State.init`): the observations the harness
    compares with the real package are observations of runs the theorems above quantify over. -/
theorem driver_steps_are_model_runs (st : LockerEngine.St) (toks : List String) :
    Reach Variant.ofTree st.s (LockerEngine.step st toks).1.s ∨
    (LockerEngine.step st toks).1.s.ss = (State.init LockerEngine.maxSessions).ss ∧
      (LockerEngine.step st toks).1.s.next = 0 := by
  unfold LockerEngine.step
  split
  · exact .inr ⟨rfl, rfl⟩
  · simp only
    split
    · exact .inl .init
    · split
      · exact .inl .init
      · exact .inl (op_reach _ _ _ _)
  · exact .inl .init
  · exact .inl .init
  · exact .inl .init

/-! non-vacuity of the hypotheses: a reachable state with a parked waiter, a reader and a holder -/
example :
    let sched : List (Nat × Act) := [(0, .startL 0), (0, .acquire), (1, .startL 0), (2, .startR 1), (2, .acquire)]
    (exec .current (State.init 3) sched).map (fun r => r.1.ss) = some [.holdW 0 0, .wantW 0 0, .holdR 1 1] ∧
    ∀ r, exec .current (State.init 3) sched = some r → Reach .current (State.init 3) r.1 :=
  ⟨by decide +kernel, fun r h => exec_reach _ _ _ _ _ h⟩

end Yorkie.Props.C16Locker
