/-
C20 (and the rebuild half of C02), snapshot cache of `packs.BuildInternalDocForServerSeq`
(model: Model/ServerSnap.lean `buildDoc`; tie: engine `srv`, `BUILD` / `LOG cache=` lines).

`Props/C20.lean` proves `rebuild_cached_eq_cold` for an abstract document whose `apply` is a fold.  Here the same
function is followed on the bookkeeping the real cache adds – WHICH document the rebuild starts from and where it
ends – for every cache state, every snapshot table and every requested `serverSeq`:

  * `rebuild_reaches_seq`   – the result is at exactly the requested `serverSeq` whatever the cache holds (a cached
    document ahead of the request is not used: the rebuild reloads the closest stored snapshot at or below it);
  * `rebuild_is_cached`     – the result is what the cache holds afterwards, the snapshot table is untouched;
  * `rebuild_warm_idempotent` – asking again for the same `serverSeq` is a pure cache hit: nothing is applied, the
    same document (checkpoint and clock) comes back and stays cached.

The CONTENT of the result is the document model's business: engine `srv` compares `Marshal()` and the presence map
of every rebuild (cache purged / evicted / warm / ahead of the request) with the model's fold of the stored log and
checks that two results and the cache entry share no state.  That the result's CLOCK dominates its prefix for every
cache state is `C06Srv.snapshot_document_covers`.
-/
import YorkieModel.Lemmas.ServerSnap
namespace Yorkie.Props.C20Srv
open Yorkie Yorkie.Server Yorkie.ServerSnap

theorem rebuild_reaches_seq (sn : Snaps) (log : List Row) (seq : Int) (h : 0 ≤ seq) :
    (buildDoc sn log seq).2.serverSeq = seq := by
  simp only [buildDoc, applyRows]
  exact Int.max_eq_right (start_le sn seq h)

theorem rebuild_is_cached (sn : Snaps) (log : List Row) (seq : Int) :
    (buildDoc sn log seq).1.cache = some (buildDoc sn log seq).2 ∧ (buildDoc sn log seq).1.rows = sn.rows := by
  simp [buildDoc]

theorem rebuild_warm_idempotent (sn : Snaps) (log : List Row) (seq : Int) (h : 0 ≤ seq) :
    buildDoc (buildDoc sn log seq).1 log seq = ((buildDoc sn log seq).1, (buildDoc sn log seq).2) := by
  have hseq := rebuild_reaches_seq sn log seq h
  have hstart : buildStart (buildDoc sn log seq).1 seq = (buildDoc sn log seq).2 := by
    simp only [buildStart, (rebuild_is_cached sn log seq).1, hseq, Int.lt_irrefl, if_false]
  have hnone : ∀ lo, lo = seq + 1 → findBetween log lo seq = [] := by
    intro lo hlo
    unfold findBetween
    have : lo > seq := by omega
    simp [this]
  have happly : applyRows (buildDoc sn log seq).2 log seq = (buildDoc sn log seq).2 := by
    cases hd : (buildDoc sn log seq).2 with
    | mk ss cl =>
      simp only [hd] at hseq
      subst hseq
      simp [applyRows, hnone (ss + 1) rfl, applyIds]
  have : buildDoc (buildDoc sn log seq).1 log seq =
      ({ (buildDoc sn log seq).1 with cache := some (applyRows (buildStart (buildDoc sn log seq).1 seq) log seq) },
       applyRows (buildStart (buildDoc sn log seq).1 seq) log seq) := rfl
  rw [this, hstart, happly]
  have hc := (rebuild_is_cached sn log seq).1
  cases hb : (buildDoc sn log seq).1 with
  | mk rows cache => simp only [hb] at hc; simp [hc]

/-- non-vacuity: a cache that is AHEAD of the request (document at 3, request for 2, stored snapshot at 1) – the
rebuild ends at 2, and the warm repetition returns the same document -/
example :
    let log : List Row :=
      [ { serverSeq := 1, actor := 7, clientSeq := 1, lamport := 1, vv := [(7, 1)], hasOps := true, hasPresence := false, tag := 0 },
        { serverSeq := 2, actor := 7, clientSeq := 2, lamport := 2, vv := [(7, 2)], hasOps := true, hasPresence := false, tag := 0 },
        { serverSeq := 3, actor := 8, clientSeq := 1, lamport := 3, vv := [(7, 2), (8, 3)], hasOps := true, hasPresence := false, tag := 0 } ]
    let sn : Snaps := (buildDoc (storeSnapshot {} log 1 1 true) log 3).1
    (sn.cache.map (·.serverSeq)) = some 3 ∧ (buildDoc sn log 2).2.serverSeq = 2 ∧
      (buildDoc sn log 2).2.clock.vv = [(0, 4), (7, 2)] ∧ (buildDoc (buildDoc sn log 2).1 log 2).2.clock.vv = [(0, 4), (7, 2)] := by
  decide

end Yorkie.Props.C20Srv
