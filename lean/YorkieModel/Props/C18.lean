/-
C18  Any reachable document survives the YSON round trip used by compaction / revisions.

Full statements (FALSE of the pinned code – the model is faithful and reproduces the defects):

    ∀ v, v.wf → roundTrip v = .ok v                  -- Unmarshal (Marshal v) = v
    ∀ v, v.wf → rebuild v = .ok v                    -- FromCRDT (SetYSON v) = v

`roundTrip v = parse v.isObj (marshal v)` is the text-level `Unmarshal(v.Marshal())`
(quoteJSON, string-literal-aware pre-pass, encoding/json, parseObject …);
`rebuild` is json.SetYSON into `document.New` followed by yson.FromCRDT
(step 2 of packs.Compact, and revisions.Restore after `Unmarshal`).

What is proved here (all for values of unbounded size and depth, by structural induction)
* `yson_roundtrip_partial` – THE TEXT-LEVEL STATEMENT: for every well-formed root value
  satisfying the decidable `YsonSafe`, `roundTrip v = .ok v`.  It is assembled from
  - `yson_prepass_partial`: the pre-pass (string literals and keys copied verbatim, the
    regexp + ten ReplaceAll passes applied to the text between them – /repo 0cf3884e) turns
    `marshal v` into the JSON text `marshalP v`; no condition on string contents,
  - `yson_json_partial`: the JSON reader (encoding/json into `interface{}`: quoteJSON
    escapes, number literals, object canonicalisation) maps that text to the tree `toJ v`,
  - `yson_tree_roundtrip_partial`: the tree-level half of `Unmarshal` inverts `toJ`
    (wrapper recognition by the `type` member, integers via strconv.ParseInt, counters,
    dedup counters, base64, dates, text runs with attributes, trees with attributes).
* `rebuild_partial` – every well-formed `RebuildSafe` value survives SetYSON → FromCRDT.
* `unmarshal_never_panics` – no text at all makes the model of `Unmarshal` panic.
* one `…_witness` per remaining unsafe shape: the text-level round trip of a concrete value
  fails, by kernel evaluation of the model; one `…_v0_witness` per REPAIRED shape: the old
  code (Model/YsonV0.lean) failed on the value, the current code does not.
Nothing of the text layer is trusted: the trusted base is the model's correspondence with
the Go code (differential replay) and the items listed in props.d/C18.py.
-/
import YorkieModel.Lemmas.YsonRoundTrip
import YorkieModel.Lemmas.YsonNoPanic
import YorkieModel.Model.YsonV0
namespace Yorkie.Props.C18
open Yorkie.Yson

/-! ## round trip 1: Unmarshal ∘ Marshal -/

/-- tree level: the parser applied to the JSON tree of a safe value returns the value.
(`fromJRoot` is `Unmarshal`'s dispatch on the target kind.) -/
theorem yson_tree_roundtrip_partial (v : Yson) (hroot : v.isObj = true ∨ ∃ xs, v = .arr xs)
    (hw : v.wf = true) (hs : YsonSafe v = true) : fromJRoot v.isObj (toJ v) = .ok v := by
  rcases hroot with h | ⟨xs, rfl⟩
  · cases v <;> simp [Yson.isObj] at h
    rename_i kvs
    simp only [Yson.wf, Bool.and_eq_true] at hw
    simp only [YsonSafe, rootAtoms] at hs
    simp [fromJRoot, Yson.isObj, toJ, parseObject_toJKvs kvs hw.2 hs]
  · simp only [Yson.wf] at hw
    simp only [YsonSafe, rootAtoms, atoms] at hs
    simp [fromJRoot, Yson.isObj, toJ, parseArray_toJList xs hw hs]

/-- text level, part A: what the pre-pass (since /repo 0cf3884e) makes of the marshalled text.
`Atom.prepassOK` only asks that object keys and date payloads contain no quote and no
backslash: strings, text runs, attributes, tree node types and values are unrestricted. -/
theorem yson_prepass_partial (v : Yson) (hw : v.wf = true) (hs : (atoms v).all Atom.prepassOK = true) :
    preprocess (marshal v) = marshalP v :=
  (pp_marshal v hw hs).eq

/-- the pre-pass copies every string printed by quoteJSON verbatim – unconditionally -/
theorem yson_prepass_string (s rest : Str) : ppOut [] (quote s ++ rest) = quote s ++ ppOut [] rest :=
  Good.quote s rest

/-- text level, part B: what the JSON reader makes of that text (any amount of fuel above
the text length, any delimiter after the value) -/
theorem yson_json_partial (v : Yson) (hw : v.wf = true) (hs : (atoms v).all Atom.safe = true)
    (f : Nat) (rest : Str) (hr : NumStop rest) (hf : (marshalP v).length < f) :
    pValue f (marshalP v ++ rest) = some (toJ v, rest) :=
  pValue_marshalP v f rest hw hs hr hf

/-- text level, parts A + B for a root value -/
theorem yson_bridge_partial (v : Yson) (hroot : v.isObj = true ∨ ∃ xs, v = .arr xs)
    (hw : v.wf = true) (hs : YsonSafe v = true) : jsonParse (preprocess (marshal v)) = some (toJ v) :=
  bridge_root v hroot hw hs

/-- **Unmarshal (Marshal v) = v** for every safe well-formed root value, on the text-level
model of `Unmarshal` (pre-pass, encoding/json, parseObject/parseArray/…). -/
theorem yson_roundtrip_partial (v : Yson) (hroot : v.isObj = true ∨ ∃ xs, v = .arr xs)
    (hw : v.wf = true) (hs : YsonSafe v = true) : roundTrip v = .ok v := by
  simp only [roundTrip, parse, yson_bridge_partial v hroot hw hs]
  exact yson_tree_roundtrip_partial v hroot hw hs

/-- the tree-level statement for a value nested anywhere (member of an object, element of an array) -/
theorem yson_member_roundtrip_partial (v : Yson) (hw : v.wf = true)
    (hs : (atoms v).all Atom.safe = true) : parseMember (toJ v) = .ok v :=
  parseMember_toJ v hw hs

/-- since the UseNumber / checked-assertions fix `Unmarshal` (model) panics on NO text at all:
every outcome is a value or one of the fixed errors -/
theorem unmarshal_never_panics (wantObj : Bool) (text : Str) :
    ∀ g w, parse wantObj text ≠ .panic g w := by
  intro g w h
  have := parse_calm wantObj text
  rw [h] at this
  exact this

/-! ### non-vacuity: a nested value with every element kind satisfies the hypotheses -/

def sample : Yson :=
  .obj [
    (cp%"a", .arr [.null, .bool true, .int (-7), .long 9007199254740993, .long 9223372036854775807, .double (.fin cp%"1e+21"),
                   .str cp%"q\"uo\\te\n(é) Int(5) Text() BinData(", .bytes [1, 2, 255], .date cp%"2020-01-02T03:04:05.006+09:00"]),
    (cp%"c", .counter (.long (-(2 ^ 63)))),
    (cp%"d", .counter (.dedup 3 [0, 1, 2])),
    (cp%"e)", .counter (.dedup 0 [])),   -- `)` in a key, empty registers: fine since 0cf3884e
    (cp%"o", .obj [(cp%"Type", .str cp%"Counter"), (cp%"value", .obj [])]),
    (cp%"t", .text [⟨cp%"ab", [(cp%"b", cp%"1")]⟩, ⟨cp%"c", []⟩]),
    (cp%"tr", .tree (.mk cp%"doc" [] [] [.mk cp%"p" [] [(cp%"a", cp%"b")] [.mk cp%"text" cp%"hi" [] []]])),
    (cp%"type", .str cp%"Counter")   -- a root object may have a `type` member
  ]

example : sample.wf = true ∧ YsonSafe sample = true := by decide +kernel
/-- …and on it the complete text-level round trip succeeds (kernel evaluation) -/
example : (roundTrip sample).isOk sample = true := by decide +kernel

/-! ### negation witnesses (text level: `roundTrip v ≠ .ok v`), one per unsafe shape -/

/-! repaired by the UseNumber fix (numbers decoded as json.Number, strconv.ParseInt): the
statements below are about the OLD tree-level parser (`V0Float`, Model/YsonV0.lean: numbers
through float64, unchecked assertions) and keep the repaired defects on record; with the
current parser the same values round-trip (or give an error instead of a panic). -/

def wLong : Yson := .obj [(cp%"a", .long 9007199254740993)]
/-- OLD parser: `Long(9007199254740993)` came back as `…992`; now it survives -/
theorem long_precision_v0_witness : wLong.wf = true ∧ V0Float.roundTrip wLong ≠ .ok wLong
    ∧ (V0Float.roundTrip wLong).isOk (.obj [(cp%"a", .long 9007199254740992)]) = true
    ∧ roundTrip wLong = .ok wLong :=
  ⟨by decide, Res.ne_ok_of_isOk_false (by decide), by decide,
   yson_roundtrip_partial _ (Or.inl rfl) (by decide) (by decide)⟩

def wCounterLong : Yson := .obj [(cp%"a", .counter (.long 9223372036854775807))]
/-- OLD parser: inside `Counter(Long(…))` MaxInt64 came back as MinInt64 (amd64 conversion) -/
theorem counter_long_precision_v0_witness : wCounterLong.wf = true
    ∧ V0Float.roundTrip wCounterLong ≠ .ok wCounterLong
    ∧ (V0Float.roundTrip wCounterLong).isOk (.obj [(cp%"a", .counter (.long (-9223372036854775808)))]) = true
    ∧ roundTrip wCounterLong = .ok wCounterLong :=
  ⟨by decide, Res.ne_ok_of_isOk_false (by decide), by decide,
   yson_roundtrip_partial _ (Or.inl rfl) (by decide) (by decide)⟩

def wTypePanic : Yson := .obj [(cp%"o", .obj [(cp%"type", .str cp%"Int"), (cp%"value", .str cp%"x")])]
/-- OLD parser: `{"type":"Int","value":"x"}` made Unmarshal panic (unchecked type assertion);
now it is the error `parse int: invalid YSON` (the `type`-member ambiguity itself remains) -/
theorem type_member_panic_v0_witness : wTypePanic.wf = true
    ∧ (match V0Float.roundTrip wTypePanic with | .panic .string .float64 => true | _ => false) = true
    ∧ (match roundTrip wTypePanic with | .err .parseInt => true | _ => false) = true :=
  ⟨by decide, by decide, by decide⟩

def wType : Yson := .obj [(cp%"o", .obj [(cp%"type", .str cp%"Counter")])]
/-- (b) a nested user object `{"type":"Counter"}` is taken for a wrapper: Unmarshal fails -/
theorem type_member_witness : wType.wf = true ∧ roundTrip wType ≠ .ok wType :=
  ⟨by decide, Res.ne_ok_of_isOk_false (by decide)⟩

def wTypeSilent : Yson := .obj [(cp%"o", .obj [(cp%"type", .str cp%"BinData"), (cp%"value", .str cp%"AAAA")])]
/-- `{"type":"BinData","value":"AAAA"}` silently becomes the three zero bytes -/
theorem type_member_silent_witness : wTypeSilent.wf = true ∧ roundTrip wTypeSilent ≠ .ok wTypeSilent
    ∧ (roundTrip wTypeSilent).isOk (.obj [(cp%"o", .bytes [0, 0, 0])]) = true :=
  ⟨by decide, Res.ne_ok_of_isOk_false (by decide), by decide⟩

/-! repaired by /repo commit 0cf3884e: text inside string literals is no longer rewritten.
The two statements below are about the OLD pre-pass (`V0.preprocess`, Model/YsonV0.lean)
and keep the repaired defect on record; on the current pre-pass the same values round-trip. -/

def wParen : Yson := .obj [(cp%"a", .str cp%"x)")]
/-- OLD pre-pass: `)` inside a string literal silently became `}` -/
theorem prepass_v0_in_string_witness : wParen.wf = true ∧ V0.roundTrip wParen ≠ .ok wParen
    ∧ (V0.roundTrip wParen).isOk (.obj [(cp%"a", .str cp%"x}")]) = true :=
  ⟨by decide, Res.ne_ok_of_isOk_false (by decide), by decide⟩

def wWrapperText : Yson := .obj [(cp%"a", .text [⟨cp%"Int(5", []⟩])]
/-- OLD pre-pass: wrapper-opening text inside a string literal made the JSON invalid -/
theorem prepass_v0_wrapper_witness : wWrapperText.wf = true ∧ V0.roundTrip wWrapperText ≠ .ok wWrapperText :=
  ⟨by decide, Res.ne_ok_of_isOk_false (by decide)⟩

/-- …and now both survive -/
theorem prepass_in_string_fixed : roundTrip wParen = .ok wParen ∧ roundTrip wWrapperText = .ok wWrapperText :=
  ⟨yson_roundtrip_partial _ (Or.inl rfl) (by decide) (by decide),
   yson_roundtrip_partial _ (Or.inl rfl) (by decide) (by decide)⟩

/-! repaired by the JSON-string-literal fix (quoteJSON for every string and every key): the
statements below are about the OLD printer (`V0Quote`, Model/YsonV0.lean: strconv.Quote,
raw keys) and keep the repaired defects on record; with the current printer the same values
round-trip. -/

def wBell : Yson := .obj [(cp%"a", .str [7, 11, 1, 127, 0xE0001])]
/-- OLD printer: strconv.Quote wrote `\a \v \x01 \x7f \U000e0001`, which JSON does not know -/
theorem go_quote_v0_witness : wBell.wf = true ∧ V0Quote.roundTrip wBell ≠ .ok wBell
    ∧ roundTrip wBell = .ok wBell :=
  ⟨by decide +kernel, Res.ne_ok_of_isOk_false (by decide +kernel), yson_roundtrip_partial _ (Or.inl rfl) (by decide +kernel) (by decide +kernel)⟩

def wKey : Yson := .obj [(cp%"a\\nb", .null)]
/-- OLD printer: object keys were printed unescaped: the key `a\nb` (backslash, n) came back
as a, newline, b -/
theorem key_unescaped_v0_witness : wKey.wf = true ∧ V0Quote.roundTrip wKey ≠ .ok wKey
    ∧ (V0Quote.roundTrip wKey).isOk (.obj [(cp%"a\nb", .null)]) = true
    ∧ roundTrip wKey = .ok wKey :=
  ⟨by decide +kernel, Res.ne_ok_of_isOk_false (by decide +kernel), by decide +kernel,
   yson_roundtrip_partial _ (Or.inl rfl) (by decide +kernel) (by decide +kernel)⟩

def wKeyQuote : Yson := .obj [(cp%"a\"b", .int 1), (cp%"c\nd", .null)]
/-- OLD printer: a key with a double quote or a raw control character made the JSON invalid -/
theorem key_quote_v0_witness : wKeyQuote.wf = true ∧ V0Quote.roundTrip wKeyQuote ≠ .ok wKeyQuote
    ∧ roundTrip wKeyQuote = .ok wKeyQuote :=
  ⟨by decide +kernel, Res.ne_ok_of_isOk_false (by decide +kernel), yson_roundtrip_partial _ (Or.inl rfl) (by decide +kernel) (by decide +kernel)⟩

def wNaN : Yson := .obj [(cp%"a", .double .nan)]
theorem double_nonfinite_witness : wNaN.wf = true ∧ roundTrip wNaN ≠ .ok wNaN :=
  ⟨by decide, Res.ne_ok_of_isOk_false (by decide)⟩

def wDate : Yson := .obj [(cp%"a", .date cp%"10000-01-02T03:04:05Z")]
theorem date_range_witness : wDate.wf = true ∧ roundTrip wDate ≠ .ok wDate :=
  ⟨by decide, Res.ne_ok_of_isOk_false (by decide)⟩

def wDedup : Yson := .obj [(cp%"a", .counter (.dedup 0 []))]
/-- OLD pre-pass: a dedup counter without registers defeated the regexp (`[^"]+`); the new
head-only regexp handles it -/
theorem dedup_empty_v0_witness : wDedup.wf = true ∧ V0.roundTrip wDedup ≠ .ok wDedup
    ∧ roundTrip wDedup = .ok wDedup :=
  ⟨by decide, Res.ne_ok_of_isOk_false (by decide), yson_roundtrip_partial _ (Or.inl rfl) (by decide) (by decide)⟩

/-! ## round trip 2: FromCRDT ∘ SetYSON (packs.Compact's rebuild-and-compare) -/

theorem rebuild_partial (v : Yson) (hw : v.wf = true) (hs : RebuildSafe v = true) : rebuild v = .ok v :=
  rebuild_eq v hw ((rebuildSafe_iff v).mp hs)

/-- the shapes (a) and (b) do NOT affect compaction: Long values and `type` members
travel as Go values there, not as text -/
theorem long_and_type_member_rebuild_fine :
    rebuild wLong = .ok wLong ∧ rebuild wCounterLong = .ok wCounterLong ∧ rebuild wType = .ok wType
    ∧ rebuild wTypePanic = .ok wTypePanic ∧ rebuild wParen = .ok wParen :=
  ⟨rebuild_partial _ (by decide) (by decide), rebuild_partial _ (by decide) (by decide),
   rebuild_partial _ (by decide) (by decide), rebuild_partial _ (by decide) (by decide),
   rebuild_partial _ (by decide) (by decide)⟩

example : sample.wf = true ∧ RebuildSafe (.obj [(cp%"t", .text [⟨cp%"ab", [(cp%"b", cp%"1")]⟩]),
    (cp%"tr", .tree (.mk cp%"doc" [] [] [.mk cp%"p" [] [(cp%"a", cp%"b")] [.mk cp%"text" cp%"hi" [] []]]))]) = true := by
  decide +kernel

def wTextEmptyNode : Yson := .obj [(cp%"t", .text [⟨cp%"a", []⟩, ⟨[], []⟩])]
/-- an empty text run disappears (Edit(pos,pos,"") inserts nothing); not produced by FromCRDT of
documents the generators reach, but expressible in a YSON literal -/
theorem rebuild_text_empty_node_witness : wTextEmptyNode.wf = true ∧ rebuild wTextEmptyNode ≠ .ok wTextEmptyNode :=
  ⟨by decide, Res.ne_ok_of_isOk_false (by decide)⟩

def wTreeRootAttr : Yson := .obj [(cp%"t", .tree (.mk cp%"doc" [] [(cp%"a", cp%"b")] []))]
/-- buildRoot drops the root's attributes -/
theorem rebuild_tree_root_witness : wTreeRootAttr.wf = true ∧ rebuild wTreeRootAttr ≠ .ok wTreeRootAttr :=
  ⟨by decide, Res.ne_ok_of_isOk_false (by decide)⟩

def wTreeEmptyText : Yson := .obj [(cp%"t", .tree (.mk cp%"doc" [] [] [.mk cp%"text" [] [] []]))]
/-- an empty text node makes SetYSON panic -/
theorem rebuild_tree_empty_text_witness : wTreeEmptyText.wf = true
    ∧ (match rebuild wTreeEmptyText with | .setPanic _ => true | _ => false) = true := ⟨by decide, by decide⟩

end Yorkie.Props.C18
