/-
C09  Wire and storage encodings are lossless; hostile bytes cannot crash the server.

This file covers the byte-level codecs that are pure functions:
  (1) version-vector bytes   `VersionVector.Bytes` / `VersionVectorFromBytes`
  (2) primitive value bytes  `Primitive.Bytes` / `ValueFromBytes`
  (3) counter value bytes    `Counter.Bytes` / `CounterValueFromBytes` (+ `Increase` wrap-around)
  (4) snapshot storage frame `CompressSnapshot` / `DecompressSnapshot` over an abstract zstd pair
and, for each decoder, its exact accept set (which byte strings are rejected).

Struct-level protobuf codecs of documents/operations are *not* in this file (the CRDT document
model is a separate layer); they are exercised on the real code by the `pbfuzz` harness engine
(round trip oracle + no-panic stream), which has no Lean counterpart: "never a crash" is a
statement about the Go runtime.

FULL STATEMENT THAT IS FALSE OF THE CODE (kept, not weakened silently):

    theorem vvBytes_decode_canonical (s : Bytes) (v : VV) :
        VVBytes.decode s = some v → ∃ v', v'.Perm v ∧ VVBytes.encode v' = s

  ("whatever `VersionVectorFromBytes` accepts is an encoder output, in particular truncated
  input is rejected").  It fails: `bytes.Reader.Read` reports an error only at end of input, so a
  count or a value cut short by 1..7 bytes is zero-extended and accepted, a non-positive count
  is accepted as the empty vector, and trailing bytes are ignored.  `vvBytes_truncated_witness`
  proves the negation on concrete inputs; `vvBytes_roundtrip` is the part that holds, and
  `vvBytes_accept_iff` is the decoder's exact accept set.  The same shape for primitives:
  `primBytes_lenient_witness`.
-/
import YorkieModel.Lemmas.VVBytes
import YorkieModel.Lemmas.PrimBytes
import YorkieModel.Model.SnapshotHeader
namespace Yorkie.Props.C09
open Yorkie Yorkie.ByteCodec

/-! ## (1) version-vector bytes -/

/-- `readInt64 ∘ writeInt64 = id` on int64, with any continuation of the stream -/
theorem writeInt64_readInt64 (x : Int) (rest : Bytes) (h : InInt64 x) :
    readInt64 (writeInt64 x ++ rest) = some (x, rest) :=
  readInt64_writeInt64 x rest h

/-- the eight bytes are the big-endian two's complement digits (fixes the endianness) -/
theorem writeInt64_bigEndian (x : Int) (h0 : 0 ≤ x) (h : x < 256) :
    writeInt64 x = [0, 0, 0, 0, 0, 0, 0, UInt8.ofNat x.toNat] := by
  have e : toU64 x = x.toNat := toU64_of_nonneg x h0 (by omega)
  have hx : x.toNat < 256 := by omega
  simp only [writeInt64, e, natToBE]
  have d1 : x.toNat / 256 = 0 := by omega
  simp [d1, Nat.mod_eq_of_lt hx]

/-- Every vector the system can hold (distinct actors, 96-bit actor ids, int64 values), written
    in **any** enumeration order of the map, is read back exactly. -/
theorem vvBytes_roundtrip (v : VV) (hk : (v.map (·.1)).Nodup) (he : ∀ p ∈ v, VVBytes.EntryOk p)
    (hl : InInt64 (v.length : Int)) :
    VVBytes.decode (VVBytes.encode v) = some v := by
  unfold VVBytes.decode VVBytes.encode
  rw [readInt64_writeInt64 _ _ hl]
  simp only [Int.toNat_natCast]
  have := VVBytes.decodeLoop_encodeEntries v [] [] he
  rw [List.append_nil] at this
  rw [this, VVBytes.storeAll_nodup [] v hk (by simp [VV.keys])]
  rfl

/-- …and anything after the last entry is ignored (the decoder never looks at it). -/
theorem vvBytes_trailing_ignored (v : VV) (junk : Bytes) (hk : (v.map (·.1)).Nodup)
    (he : ∀ p ∈ v, VVBytes.EntryOk p) (hl : InInt64 (v.length : Int)) :
    VVBytes.decode (VVBytes.encode v ++ junk) = some v := by
  unfold VVBytes.decode VVBytes.encode
  rw [List.append_assoc, readInt64_writeInt64 _ _ hl]
  simp only [Int.toNat_natCast]
  rw [VVBytes.decodeLoop_encodeEntries v junk [] he, VVBytes.storeAll_nodup [] v hk (by simp [VV.keys])]
  rfl

/-- Order independence stated on lookups: two enumerations of the same map decode to vectors
    that answer every `Get` identically. -/
theorem vvBytes_roundtrip_anyOrder (v v' : VV) (hp : v'.Perm v) (hk : (v.map (·.1)).Nodup)
    (he : ∀ p ∈ v, VVBytes.EntryOk p) (hl : InInt64 (v.length : Int)) :
    ∃ w, VVBytes.decode (VVBytes.encode v') = some w ∧ ∀ a, w.get? a = v.get? a := by
  have hk' : (v'.map (·.1)).Nodup := (hp.map (·.1)).nodup_iff.mpr hk
  have he' : ∀ p ∈ v', VVBytes.EntryOk p := fun p h => he p (hp.mem_iff.mp h)
  have hl' : InInt64 (v'.length : Int) := by rw [hp.length_eq]; exact hl
  refine ⟨v', vvBytes_roundtrip v' hk' he' hl', fun a => ?_⟩
  exact VV.get?_perm hp hk' a

/-- The decoder's exact accept set: non-empty input, and either a non-positive count or at
    least 20 bytes per entry but the last, which needs 12 actor bytes and one value byte. -/
theorem vvBytes_accept_iff (s : Bytes) :
    (VVBytes.decode s).isSome =
      (!s.isEmpty &&
        VVBytes.loopAccepts (ofU64 (beToNat (padRight 8 (s.take 8)))).toNat (s.length - 8)) := by
  unfold VVBytes.decode readInt64
  cases s with
  | nil => simp [readPad]
  | cons a s =>
    simp only [readPad, List.isEmpty_cons, Bool.not_false, Bool.true_and]
    rw [VVBytes.decodeLoop_isSome]
    simp

/-- A declared count larger than the input can never be satisfied: rejected after at most
    `len/13 + 1` iterations in the code; in the model, rejected. (No loop/allocation by count.) -/
theorem vvBytes_huge_count_rejected (n : Nat) (s : Bytes) (acc : VV) (hn : s.length < n) :
    VVBytes.decodeLoop n s acc = none := by
  have h := VVBytes.decodeLoop_isSome n s acc
  have : VVBytes.loopAccepts n s.length = false := by
    unfold VVBytes.loopAccepts
    cases n with
    | zero => omega
    | succ m => simp; omega
  rw [this] at h
  cases hd : VVBytes.decodeLoop n s acc with
  | none => rfl
  | some _ => rw [hd] at h; simp at h

/-- Negation witness for the full statement in the header: a 1-byte input, a negative count
    with garbage behind it, and a vector whose last value lost its three low bytes are all
    **accepted**, the last one with a different value than was written. -/
theorem vvBytes_truncated_witness :
    VVBytes.decode [0] = some [] ∧ VVBytes.encode [] ≠ [0] ∧
    VVBytes.decode ([255, 255, 255, 255, 255, 255, 255, 255] ++ [7, 7, 7]) = some [] ∧
    (let s := VVBytes.encode [(1, 72623859790382856)]
     VVBytes.decode s = some [(1, 72623859790382856)] ∧
     VVBytes.decode (s.take 25) = some [(1, 72623859789987840)]) := by
  refine ⟨by decide, by decide, by decide, by decide, by decide⟩

/-! ## (2) primitive value bytes -/

/-- every primitive value, of every value type, survives `Bytes` → `ValueFromBytes` -/
theorem primBytes_roundtrip (p : PrimBytes.Prim) :
    PrimBytes.decode p.vtype (PrimBytes.encode p) = some p := by
  cases p with
  | null => rfl
  | boolean b => cases b <;> rfl
  | integer v =>
    have := PrimBytes.le32 v []
    simp only [List.append_nil] at this
    simp [PrimBytes.decode, PrimBytes.encode, PrimBytes.Prim.vtype, this]
  | long v =>
    have := PrimBytes.le64 v []
    simp only [List.append_nil] at this
    simp [PrimBytes.decode, PrimBytes.encode, PrimBytes.Prim.vtype, this]
  | double v =>
    have := PrimBytes.le64 v []
    simp only [List.append_nil] at this
    simp [PrimBytes.decode, PrimBytes.encode, PrimBytes.Prim.vtype, this]
  | string s => rfl
  | bytes b => rfl
  | date v =>
    have := PrimBytes.le64 v []
    simp only [List.append_nil] at this
    simp [PrimBytes.decode, PrimBytes.encode, PrimBytes.Prim.vtype, this]

/-- the accept set of `ValueFromBytes` is a pure length check -/
theorem primBytes_accept_iff (t : PrimBytes.VType) (s : Bytes) :
    (PrimBytes.decode t s).isSome = decide (PrimBytes.minLen t ≤ s.length) := by
  cases t <;> simp only [PrimBytes.decode, PrimBytes.minLen]
  · simp
  · cases s <;> simp
  · split <;> rename_i h <;> simp [Nat.not_le.mpr, Nat.not_lt.mp, h]
  · split <;> rename_i h <;> simp [Nat.not_le.mpr, Nat.not_lt.mp, h]
  · split <;> rename_i h <;> simp [Nat.not_le.mpr, Nat.not_lt.mp, h]
  · simp
  · simp
  · split <;> rename_i h <;> simp [Nat.not_le.mpr, Nat.not_lt.mp, h]

/-- fixed-width types ignore surplus bytes -/
theorem primBytes_surplus_ignored (p : PrimBytes.Prim) (junk : Bytes)
    (h : PrimBytes.VType.fixed p.vtype = true) :
    PrimBytes.decode p.vtype (PrimBytes.encode p ++ junk) = some p := by
  cases p with
  | null => rfl
  | boolean b => cases b <;> rfl
  | integer v => simp [PrimBytes.decode, PrimBytes.encode, PrimBytes.Prim.vtype, PrimBytes.le32']
  | long v => simp [PrimBytes.decode, PrimBytes.encode, PrimBytes.Prim.vtype, PrimBytes.le64']
  | double v => simp [PrimBytes.decode, PrimBytes.encode, PrimBytes.Prim.vtype, PrimBytes.le64']
  | string s => simp [PrimBytes.VType.fixed, PrimBytes.Prim.vtype] at h
  | bytes b => simp [PrimBytes.VType.fixed, PrimBytes.Prim.vtype] at h
  | date v => simp [PrimBytes.decode, PrimBytes.encode, PrimBytes.Prim.vtype, PrimBytes.le64']

/-- the decoder is not injective on its accept set: a Boolean payload `2` is read as false -/
theorem primBytes_lenient_witness :
    PrimBytes.decode .boolean [2] = some (.boolean false) ∧ PrimBytes.encode (.boolean false) ≠ [2] ∧
    PrimBytes.decode .null [9, 9] = some .null := by
  refine ⟨by decide, by decide, by decide⟩

/-- little endian (fixes the byte order of the fixed-width payloads) -/
theorem primBytes_littleEndian :
    PrimBytes.encode (.integer 1) = [1, 0, 0, 0] ∧
    PrimBytes.encode (.long 258) = [2, 1, 0, 0, 0, 0, 0, 0] := by
  refine ⟨by decide, by decide⟩

/-- `NewPrimitive(int)`: the chosen width holds the value -/
theorem ofGoInt_value (x : Int) (h : InInt64 x) :
    (∃ v, PrimBytes.ofGoInt x = .integer v ∧ v.toInt = x) ∨
    (∃ v, PrimBytes.ofGoInt x = .long v ∧ v.toInt = x) := by
  unfold PrimBytes.ofGoInt
  split
  · right
    refine ⟨_, rfl, ?_⟩
    rw [BitVec.toInt_ofInt]
    exact PrimBytes.bmod64 x h
  · left
    refine ⟨_, rfl, ?_⟩
    rw [BitVec.toInt_ofInt]
    apply PrimBytes.bmod32; omega

/-! ## (3) counter value bytes -/

theorem counterBytes_roundtrip (c : PrimBytes.Cnt) (h : c.ctype ≠ .integerDedupCnt) :
    PrimBytes.cntDecode c.ctype (PrimBytes.cntEncode c) = some c := by
  cases c with
  | int v =>
    have := PrimBytes.le32 v []
    simp only [List.append_nil] at this
    simp [PrimBytes.cntDecode, PrimBytes.cntEncode, PrimBytes.Cnt.ctype, this]
  | long v =>
    have := PrimBytes.le64 v []
    simp only [List.append_nil] at this
    simp [PrimBytes.cntDecode, PrimBytes.cntEncode, PrimBytes.Cnt.ctype, this]
  | dedup v => simp [PrimBytes.Cnt.ctype] at h

/-- a dedup counter's value bytes are length-checked and then discarded (value comes from the
    HLL registers, not modelled) -/
theorem counterBytes_dedup_payload_discarded (v : BitVec 32) :
    PrimBytes.cntDecode .integerDedupCnt (PrimBytes.cntEncode (.dedup v)) = some (.dedup 0) := by
  simp [PrimBytes.cntDecode, PrimBytes.cntEncode]

theorem counterBytes_accept_iff (t : PrimBytes.CType) (s : Bytes) :
    (PrimBytes.cntDecode t s).isSome = decide (PrimBytes.cntMinLen t ≤ s.length) := by
  cases t <;> simp only [PrimBytes.cntDecode, PrimBytes.cntMinLen] <;> split <;> rename_i h <;>
    simp [Nat.not_le.mpr, Nat.not_lt.mp, h]

/-- `Increase` wraps around exactly like two's complement addition of the operand cast to the
    counter's width -/
theorem counterIncrease_wraps (v x : BitVec 32) (w y : BitVec 64) :
    PrimBytes.increase (.int v) (.integer x) = some (.int (BitVec.ofInt 32 (v.toInt + x.toInt))) ∧
    PrimBytes.increase (.int v) (.long y) = some (.int (BitVec.ofInt 32 (v.toInt + y.toInt))) ∧
    PrimBytes.increase (.long w) (.integer x) = some (.long (BitVec.ofInt 64 (w.toInt + x.toInt))) ∧
    PrimBytes.increase (.long w) (.long y) = some (.long (BitVec.ofInt 64 (w.toInt + y.toInt))) := by
  simp only [PrimBytes.increase, BitVec.ofInt_add, BitVec.ofInt_toInt, PrimBytes.ofInt_toInt_setWidth,
    PrimBytes.ofInt_toInt_signExtend, and_self]

/-- whatever `Increase` produces (also after a wrap) is stored and read back unchanged -/
theorem counterIncrease_roundtrip (c c' : PrimBytes.Cnt) (d : PrimBytes.Prim)
    (h : PrimBytes.increase c d = some c') :
    PrimBytes.cntDecode c'.ctype (PrimBytes.cntEncode c') = some c' := by
  apply counterBytes_roundtrip
  cases c <;> cases d <;> simp [PrimBytes.increase] at h <;> subst h <;> simp [PrimBytes.Cnt.ctype]

/-- two increases commute, wrap-around included -/
theorem counterIncrease_comm (c : PrimBytes.Cnt) (d e : PrimBytes.Prim) :
    (PrimBytes.increase c d).bind (PrimBytes.increase · e) =
    (PrimBytes.increase c e).bind (PrimBytes.increase · d) := by
  cases c <;> cases d <;> cases e <;>
    simp only [PrimBytes.increase, Option.bind, Option.some.injEq, PrimBytes.Cnt.int.injEq,
      PrimBytes.Cnt.long.injEq] <;> ac_rfl

/-! ## (4) snapshot storage frame -/

open SnapshotHeader in
theorem snapshotHeader_roundtrip (z : Zstd) (hz : z.Sound) (d : Bytes) :
    unframe z (frame z d) = some d := by
  cases d with
  | nil => rfl
  | cons a r => simp [frame, unframe, hz (a :: r)]

open SnapshotHeader in
/-- the only inputs `DecompressSnapshot` rejects: header byte 0x01 followed by bytes the zstd
    decoder refuses -/
theorem snapshotHeader_reject_iff (z : Zstd) (s : Bytes) :
    unframe z s = none ↔ ∃ r, s = formatZstd :: r ∧ z.decompress r = none := by
  cases s with
  | nil => simp [unframe]
  | cons h r =>
    simp only [unframe]
    split
    · rename_i hh; subst hh; simp
    · rename_i hh; simp [hh]

open SnapshotHeader in
/-- every other first byte is passed through untouched as a legacy raw protobuf snapshot -/
theorem snapshotHeader_legacy_passthrough (z : Zstd) (s : Bytes) (h : classify s = .legacy) :
    unframe z s = some s := by
  cases s with
  | nil => simp [classify] at h
  | cons a r =>
    simp only [classify] at h
    simp only [unframe]
    split
    · rename_i hh; simp [hh] at h
    · rfl

open SnapshotHeader in
/-- what `CompressSnapshot` writes is never mistaken for a legacy snapshot -/
theorem snapshotHeader_frame_not_legacy (z : Zstd) (d : Bytes) : classify (frame z d) ≠ .legacy := by
  cases d <;> simp [frame, classify]

/-! ## Non-vacuity -/

/-- a three-actor vector with a 96-bit actor, a negative and the extreme values meets every
    hypothesis of the round-trip theorems, in two different orders -/
example :
    let v : VV := [(1, 5), (79228162514264337593543950335, 9223372036854775807), (256, -9223372036854775808)]
    (v.map (·.1)).Nodup ∧ (∀ p ∈ v, VVBytes.EntryOk p) ∧ InInt64 (v.length : Int) ∧
    v.reverse.Perm v ∧ (VVBytes.encode v).length = 68 := by
  refine ⟨by decide, by decide, by decide, List.reverse_perm _, by decide⟩

/-- the identity pair is a sound "zstd"; and an unsound one exists (the hypothesis is not void) -/
example : (SnapshotHeader.Zstd.mk id some).Sound := fun _ => rfl
example : ¬ (SnapshotHeader.Zstd.mk id (fun _ => none)).Sound := fun h => by
  have := h []; simp at this

example : PrimBytes.increase (.int 2147483647) (.integer 1) = some (.int (-2147483648)) := by decide

/-! ## (5) injectivity: no two values share an encoding (added; corollaries of the round trips) -/

/-- two int64 with the same eight bytes are equal -/
theorem writeInt64_injective (x y : Int) (hx : InInt64 x) (hy : InInt64 y) (h : writeInt64 x = writeInt64 y) :
    x = y := by
  have a := writeInt64_readInt64 x [] hx
  have b := writeInt64_readInt64 y [] hy
  rw [h, b] at a
  injection a with a; injection a with a; exact a.symm

/-- two storable version vectors with the same bytes are the same vector: the stored `versionvectors` rows and
    snapshot vectors identify their value -/
theorem vvBytes_injective (v w : VV) (hkv : (v.map (·.1)).Nodup) (hev : ∀ p ∈ v, VVBytes.EntryOk p)
    (hlv : InInt64 (v.length : Int)) (hkw : (w.map (·.1)).Nodup) (hew : ∀ p ∈ w, VVBytes.EntryOk p)
    (hlw : InInt64 (w.length : Int)) (h : VVBytes.encode v = VVBytes.encode w) : v = w := by
  have a := vvBytes_roundtrip v hkv hev hlv
  have b := vvBytes_roundtrip w hkw hew hlw
  rw [h, b] at a
  injection a with a; exact a.symm

/-- two primitives of the same value type with the same bytes are equal (the type tag travels beside the bytes
    in the protobuf message, so "same type" is what the decoder is given) -/
theorem primBytes_injective (p q : PrimBytes.Prim) (ht : p.vtype = q.vtype)
    (h : PrimBytes.encode p = PrimBytes.encode q) : p = q := by
  have a := primBytes_roundtrip p
  have b := primBytes_roundtrip q
  rw [h, ht, b] at a
  injection a with a; exact a.symm

open SnapshotHeader in
/-- two snapshots with the same stored frame are the same snapshot -/
theorem snapshotHeader_injective (z : Zstd) (hz : z.Sound) (d e : Bytes) (h : frame z d = frame z e) : d = e := by
  have a := snapshotHeader_roundtrip z hz d
  have b := snapshotHeader_roundtrip z hz e
  rw [h, b] at a
  injection a with a; exact a.symm


end Yorkie.Props.C09
