/-
C17 (glue)  The watch stream and the push pipeline make the right PubSub calls.

`Props/C17.lean` is about what the PubSub does with a subscription and an event.  This file is
about the two places *outside* `server/backend/pubsub` that the property also anchors:

  * `server/rpc/yorkie_server.go` – a unified Watch request is all-or-nothing and a stream that
    ends leaves nothing behind ("never … leak subscriptions");
  * `server/packs/pushpull.go` – every push that stores a change hands exactly one `DocChanged`
    of that document and actor to `PubSub.Publish` ("every later accepted change by another
    client leads to a change notification"); `Props.C17.notification_after_change` then takes
    it to every earlier subscription of another client (`State.receivers`).

(S) ties the two decision points to the Go source through the regenerated table
`Generated/Watch.lean`; (T) are the theorems for the glue as written (`Cfg.real`, any limit,
any request sequence); (W) are the witnesses that the two seeded variants break them.
-/
import YorkieModel.Lemmas.Watch
import YorkieModel.Generated.Watch
namespace Yorkie.Props.C17Watch
open Yorkie Yorkie.Watch

/-! ## (S) the source is the modelled configuration -/

/-- the configuration read off the source: `cleanup()` is called in every error branch of the
resource loop, and the publish block of `PushPull` is guarded by exactly the stored-changes test -/
def Cfg.ofSource (limit : Nat) : Cfg :=
  { limit := limit,
    cleanupOnError :=
      Generated.Watch.subscribeErrorBranches.all (fun b => b.before.contains "cleanup") &&
      Generated.Watch.cleanupCalls.contains "s.unwatchDoc",
    publishOnOpsOnly :=
      !(Generated.Watch.publishGuards == ["len(pushedChanges) > 0 || reqPack.IsRemoved"]) }

/-- **The publish block of `packs.PushPull` is entered exactly when changes were stored or the
document is removed**, it publishes one `DocChanged` event of the pushing client for the pushed
document, and `pushedChanges` is what `pushPack` stored. -/
theorem publish_condition_is_stored_or_removed :
    Generated.Watch.publishGuards = ["len(pushedChanges) > 0 || reqPack.IsRemoved"] ∧
    Generated.Watch.publishCalls = 1 ∧
    Generated.Watch.publishType = "events.DocChanged" ∧
    Generated.Watch.publishActor = "publisher" ∧
    Generated.Watch.publishKey = "docKey" ∧
    Generated.Watch.pushedChangesDef = "5:pushPack" := by
  decide

/-- **Every error branch of `subscribeResources` undoes what the request has subscribed**: both
resource kinds have exactly one error branch, each calls `cleanup()` before returning, `cleanup`
unwatches the document subscriptions and unsubscribes the channel ones; the `Watch` handler
defers the same for the established stream and cannot return between the subscription and that
`defer`; `watchDoc` is Subscribe + publish `DocWatched`, `unwatchDoc` is Unsubscribe + publish
`DocUnwatched`. -/
theorem subscribe_error_branches_clean_up :
    Generated.Watch.subscribeErrorBranches.map (fun b => (b.kind, b.callee, b.before)) =
      [("*api.ResourceDescriptor_Document", "s.subscribeDocument", ["cleanup"]),
       ("*api.ResourceDescriptor_Channel", "s.subscribeChannel", ["cleanup"])] ∧
    "s.unwatchDoc" ∈ Generated.Watch.cleanupCalls ∧
    "s.backend.PubSub.UnsubscribeChannel" ∈ Generated.Watch.cleanupCalls ∧
    "s.unwatchDoc" ∈ Generated.Watch.watchDeferCalls ∧
    Generated.Watch.watchReturnsBeforeDefer = 0 ∧
    Generated.Watch.watchDocCalls = ["Subscribe", "Publish"] ∧
    Generated.Watch.watchDocPublishes = ["events.DocWatched"] ∧
    Generated.Watch.unwatchDocCalls = ["Unsubscribe", "Publish"] ∧
    Generated.Watch.unwatchDocPublishes = ["events.DocUnwatched"] := by
  decide

theorem source_is_real (limit : Nat) : Cfg.ofSource limit = Cfg.real limit := by
  simp only [Cfg.ofSource, Cfg.real]
  congr 1

/-! ## (T) theorems for the glue as written -/

/-- **watch_open_all_or_nothing.**  If a Watch request does not establish its stream – one of
its documents cannot be subscribed (subscriber limit, unknown document), or the stream name is
not fresh – the subscription sets of *all* documents are exactly what they were before the
request, and so are the logs and the established streams. -/
theorem watch_open_all_or_nothing {limit : Nat} {s : State} (h : Reachable (Cfg.real limit) s)
    (st : Stream) (c : Client) (docs : List Doc)
    (hfail : st ∉ (step (Cfg.real limit) s (.watchOpen st c docs)).live) :
    (step (Cfg.real limit) s (.watchOpen st c docs)).subs = s.subs ∧
    (step (Cfg.real limit) s (.watchOpen st c docs)).heads = s.heads ∧
    (step (Cfg.real limit) s (.watchOpen st c docs)).live = s.live := by
  obtain ⟨h1, h2⟩ := reachable_inv h
  simp only [step] at hfail ⊢
  split
  · exact ⟨rfl, rfl, rfl⟩
  · rename_i hfresh
    rw [if_neg hfresh] at hfail
    have hnot : ∀ x, x ∈ s.subs → (x.stream != st) = true := by
      intro x hx
      have := h2 _ (h1 x hx)
      simp only [bne_iff_ne, ne_eq]
      intro he; exact hfresh (he ▸ this)
    have hfr := subscribeAll_frame (Cfg.real limit) c st docs { s with used := st :: s.used }
    split
    · rename_i s1 heq
      rw [heq] at hfail
      exact absurd List.mem_cons_self hfail
    · rename_i s1 e heq
      have hf := subscribeAll_fail limit c st docs { s with used := st :: s.used } e (by rw [heq])
      rw [heq] at hf hfr
      simp only at hf hfr
      exact ⟨by rw [hf]; exact List.filter_eq_self.mpr hnot, hfr.1, hfr.2.1⟩

/-- … and a request that does establish its stream has added exactly one subscription per
requested document, in order, to what was there. -/
theorem watch_open_success {limit : Nat} {s : State} (st : Stream) (c : Client) (docs : List Doc)
    (hfresh : st ∉ s.used)
    (hok : st ∈ (step (Cfg.real limit) s (.watchOpen st c docs)).live) (hnew : st ∉ s.live) :
    (step (Cfg.real limit) s (.watchOpen st c docs)).subs =
      s.subs ++ docs.map (fun d => { doc := d, client := c, stream := st }) := by
  simp only [step, if_neg hfresh] at hok ⊢
  have hfr := subscribeAll_frame (Cfg.real limit) c st docs { s with used := st :: s.used }
  split
  · rename_i s1 heq
    have := subscribeAll_ok (Cfg.real limit) c st docs { s with used := st :: s.used } (by rw [heq])
    rw [heq] at this
    exact this
  · rename_i s1 e heq
    rw [heq] at hok hfr
    simp only at hok hfr
    exact absurd (hfr.2.1 ▸ hok) hnew

/-- **subscription_belongs_to_live_stream / no_leak_after_close.**  Every subscription in the
PubSub belongs to an established stream; once every stream has ended nothing is left. -/
theorem subscription_belongs_to_live_stream {limit : Nat} {s : State}
    (h : Reachable (Cfg.real limit) s) (x : Sub) (hx : x ∈ s.subs) : x.stream ∈ s.live :=
  (reachable_inv h).1 x hx

theorem no_leak_after_close {limit : Nat} {s : State} (h : Reachable (Cfg.real limit) s)
    (hclosed : s.live = []) : s.subs = [] := by
  cases hs : s.subs with
  | nil => rfl
  | cons x xs =>
    have := (reachable_inv h).1 x (by simp [hs])
    simp [hclosed] at this

/-- closing a stream removes its subscriptions and only those -/
theorem watch_close_removes_own (cfg : Cfg) (s : State) (st : Stream) (hl : st ∈ s.live) :
    (step cfg s (.watchClose st)).subs = s.subs.filter (·.stream != st) := by
  simp [step, hl, unwatchAll]

/-- **accepted_push_is_published.**  A push that stores `n > 0` changes of client `c` in document
`d` advances the log head of `d` by `n` and hands exactly one event to `PubSub.Publish`:
`DocChanged(d, c)` – whatever the changes contain (operations, presence only, both). -/
theorem accepted_push_is_published (limit : Nat) (s : State) (d : Doc) (c : Client) (n ops : Nat)
    (removed : Bool) (hn : 0 < n) :
    (step (Cfg.real limit) s (.push d c n ops removed)).head d = s.head d + n ∧
    (step (Cfg.real limit) s (.push d c n ops removed)).published = s.published ++ [.changed d c] := by
  have hp : publishes (Cfg.real limit) n ops removed = true := by
    simp [publishes, Cfg.real, hn]
  simp only [step, hp, if_true]
  refine ⟨?_, rfl⟩
  show (s.setHead d (s.head d + n)).head d = _
  rw [head_setHead]; simp

/-- a removal is announced as well, even when the pack stores nothing -/
theorem removal_is_published (limit : Nat) (s : State) (d : Doc) (c : Client) (n ops : Nat) :
    (step (Cfg.real limit) s (.push d c n ops true)).published = s.published ++ [.changed d c] := by
  have hp : publishes (Cfg.real limit) n ops true = true := by simp [publishes, Cfg.real]
  simp only [step, hp, if_true]
  rfl

/-- **log_growth_is_published.**  The converse direction over *all* steps: whenever a step makes
the log of a document grow, that step hands exactly one event to `PubSub.Publish`, a `DocChanged`
of that document (so no accepted change is silent, whatever request stored it). -/
theorem log_growth_is_published (limit : Nat) (s : State) (l : Label) (d : Doc)
    (hgrow : s.head d < (step (Cfg.real limit) s l).head d) :
    ∃ c, (step (Cfg.real limit) s l).published = s.published ++ [.changed d c] := by
  cases l with
  | watchOpen st c docs =>
    exfalso
    simp only [step] at hgrow
    split at hgrow
    · exact Nat.lt_irrefl _ hgrow
    · have hfr := subscribeAll_frame (Cfg.real limit) c st docs { s with used := st :: s.used }
      split at hgrow
      all_goals (rename_i heq; rw [heq] at hfr; simp only [State.head] at hgrow hfr)
      all_goals (rw [hfr.1] at hgrow; exact Nat.lt_irrefl _ hgrow)
  | watchClose st =>
    exfalso
    simp only [step] at hgrow
    split at hgrow
    · simp only [State.head, unwatchAll] at hgrow; exact Nat.lt_irrefl _ hgrow
    · exact Nat.lt_irrefl _ hgrow
  | push d' c n ops removed =>
    have hd : d = d' ∧ 0 < n := by
      have hh : (step (Cfg.real limit) s (.push d' c n ops removed)).head d =
          (s.setHead d' (s.head d' + n)).head d := by
        simp only [step]; split <;> rfl
      rw [hh, head_setHead] at hgrow
      split at hgrow
      · rename_i h; subst h; exact ⟨rfl, by omega⟩
      · exact absurd hgrow (Nat.lt_irrefl _)
    obtain ⟨rfl, hn⟩ := hd
    exact ⟨c, (accepted_push_is_published limit s d c n ops removed hn).2⟩

/-- a push that stores nothing and removes nothing (a pure pull) publishes nothing -/
theorem pull_only_is_silent (limit : Nat) (s : State) (d : Doc) (c : Client) (ops : Nat) :
    (step (Cfg.real limit) s (.push d c 0 ops false)).published = s.published := by
  simp [step, publishes, Cfg.real, State.setHead]

/-- **The theorems speak about the source.**  For the configuration read off the Go source on
this run (`Cfg.ofSource`): nothing is left once every stream has ended, a request that does not
establish its stream leaves the subscription sets untouched, and every push that stores a change
publishes exactly one `DocChanged` of that document and client. -/
theorem source_glue_correct (limit : Nat) :
    (∀ s, Reachable (Cfg.ofSource limit) s → s.live = [] → s.subs = []) ∧
    (∀ s st c docs, Reachable (Cfg.ofSource limit) s →
      st ∉ (step (Cfg.ofSource limit) s (.watchOpen st c docs)).live →
      (step (Cfg.ofSource limit) s (.watchOpen st c docs)).subs = s.subs) ∧
    (∀ s d c n ops removed, 0 < n →
      (step (Cfg.ofSource limit) s (.push d c n ops removed)).published = s.published ++ [.changed d c]) := by
  rw [source_is_real]
  exact ⟨fun s h => no_leak_after_close h,
    fun s st c docs h hf => (watch_open_all_or_nothing h st c docs hf).1,
    fun s d c n ops removed hn => (accepted_push_is_published limit s d c n ops removed hn).2⟩

/-! ## (W) the seeded variants -/

/-- `cleanup()` removed from the document error branch: with a subscriber limit of 1, client 2
asks for documents 0 and 1 in one stream while client 1 watches document 1; the request fails
(`last = limit`, stream 1 not established) but its subscription of document 0 stays – it belongs
to no stream, is listed by `ClientIDs`, and makes client 2's own later request for document 0
fail on the limit. -/
theorem watch_open_leak_witness :
    let cfg : Cfg := { limit := 1, cleanupOnError := false }
    let s := run cfg [.push 0 9 1 1 false, .push 1 9 1 1 false,
                      .watchOpen 0 1 [1], .watchOpen 1 2 [0, 1]]
    s.last = some .limit ∧ 1 ∉ s.live ∧ s.clientIDs 0 = [2] ∧
    { doc := 0, client := 2, stream := 1 } ∈ s.subs ∧
    (step cfg s (.watchOpen 2 2 [0])).last = some .limit ∧
    -- the same requests on the glue as written leave nothing and the retry succeeds
    (let r := run (Cfg.real 1) [.push 0 9 1 1 false, .push 1 9 1 1 false,
                                .watchOpen 0 1 [1], .watchOpen 1 2 [0, 1]]
     r.last = some .limit ∧ r.clientIDs 0 = [] ∧ 2 ∈ (step (Cfg.real 1) r (.watchOpen 2 2 [0])).live) := by
  decide

/-- publish block entered on `reqPack.OperationsLen() > 0 || reqPack.IsRemoved`: a presence-only
change (one change, no operation) is stored – the log head advances – and nothing is published. -/
theorem presence_only_not_published_witness :
    let cfg : Cfg := { publishOnOpsOnly := true }
    let s := run cfg [.push 0 1 1 1 false, .watchOpen 0 2 [0]]
    let s' := step cfg s (.push 0 1 1 0 false)
    s'.head 0 = s.head 0 + 1 ∧ s'.published = s.published ∧ s.receivers 0 1 ≠ [] ∧
    -- the glue as written publishes it
    (step (Cfg.real 0) s (.push 0 1 1 0 false)).published = s.published ++ [.changed 0 1] := by
  decide

/-! ## non-vacuity -/

/-- a reachable state with two established multi-document streams, a failed request and a
closed stream; the hypotheses of the theorems above are met non-trivially -/
example :
    let s := run (Cfg.real 2) [.push 0 9 1 1 false, .push 1 9 1 0 false,
      .watchOpen 0 1 [0, 1], .watchOpen 1 2 [1, 0], .watchOpen 2 3 [0, 1], .watchOpen 3 3 [7],
      .push 0 1 2 0 false, .watchClose 0]
    s.live = [1] ∧ s.clientIDs 0 = [2] ∧ s.clientIDs 1 = [2] ∧ s.head 0 = 3 ∧
    s.last = some .notFound ∧
    s.published.filter (fun e => match e with | .changed .. => true | _ => false) =
      [.changed 0 9, .changed 1 9, .changed 0 1] := by
  decide

end Yorkie.Props.C17Watch
