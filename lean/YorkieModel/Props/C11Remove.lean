/-
C11, clause "after Remove … stores no further change" of `removed_sticky`, for BOTH values of the
switch `Server.pushAfterRemoveDiscards` (Model/Server.lean):

  * `false` = pinned tree: the clause is FALSE – `Props/C11.push_after_remove_witness` (finding
    F-C11-push-after-remove);
  * `true`  = tree with `hooks/fix-c11-push-after-remove.patch` (`pushPack` discards the pushables
    when `currentDocInfo.IsRemoved()`): the clause holds for every document request of every client
    with every pack – `removed_stores_no_change` – and the remaining holders can still detach / remove
    (`removed_holder_can_close`).
-/
import YorkieModel.Lemmas.ServerCompact
import YorkieModel.Lemmas.ServerWrites
namespace Yorkie.Props.C11
open Yorkie Yorkie.Server

/-- WITH the repair (`cfg.pushAfterRemoveDiscards = true`), in every state, for a document that is
removed: a PushPull, Detach or Remove of ANY client with ANY pack (unsent edits, presence clear,
crafted checkpoint) leaves the removed document's log and head exactly as they were, and touches no
other document. -/
theorem removed_stores_no_change (s : Server) (hsw : s.cfg.pushAfterRemoveDiscards = true) (d : DocId) (doc : Doc)
    (hd : s.findDoc d = some doc) (hrem : doc.removed = true) (req : Request)
    (hreq : (∃ c p po nogc, req = .pushpull c d p po nogc) ∨ (∃ c p, req = .detach c d p) ∨ (∃ c p, req = .remove c d p)) :
    (∃ doc', (step s req).1.findDoc d = some doc' ∧ doc'.log = doc.log ∧ doc'.serverSeq = doc.serverSeq) ∧
    (∀ d', d' ≠ d → (step s req).1.findDoc d' = s.findDoc d') := by
  have key : ∀ {f : Flight} {s' : Server} {x : Except ErrKind Flight} {loaded : Client}, pushPull s f = (s', x) → f.doc = d →
      s.findClient f.client = some loaded →
      (∃ doc', s'.findDoc d = some doc' ∧ doc'.log = doc.log ∧ doc'.serverSeq = doc.serverSeq) ∧
      (∀ d', d' ≠ d → s'.findDoc d' = s.findDoc d') := by
    intro f s' x loaded hpp hfd hl
    subst hfd
    obtain ⟨⟨doc', h1, h2, h3, _⟩, h5⟩ := pushPull_nopush_docs hpp hl hd
      (fun p hp => pushGuard_removed_nil (g := stripped f) hsw (by simpa using hd) hrem hp)
    exact ⟨⟨doc', h1, h2, h3⟩, h5⟩
  rcases hreq with ⟨c, p, po, nogc, rfl⟩ | ⟨c, p, rfl⟩ | ⟨c, p, rfl⟩
  · simp only [step]
    generalize ha : pushpullReq s c d p po nogc = res
    obtain ⟨s', out⟩ := res
    rcases pushpullReq_inv ha with ⟨e1, _⟩ | ⟨info, doc0, hi, _, _, _, hf⟩
    · subst e1; exact ⟨⟨doc, hd, rfl, rfl⟩, fun _ _ => rfl⟩
    · obtain ⟨x, hx⟩ := finish_inv hf
      exact key hx (by simp) (loaded := info) (by simpa using hi)
  · simp only [step]
    generalize ha : detach s c d p = res
    obtain ⟨s', out⟩ := res
    rcases detach_inv ha with ⟨e1, _⟩ | ⟨info, doc0, hi, _, _, _, hf⟩
    · subst e1; exact ⟨⟨doc, hd, rfl, rfl⟩, fun _ _ => rfl⟩
    · obtain ⟨x, hx⟩ := finish_inv hf
      exact key hx (by simp) (loaded := info) (by simpa using hi)
  · simp only [step]
    generalize ha : remove s c d p = res
    obtain ⟨s', out⟩ := res
    rcases remove_inv ha with ⟨e1, _⟩ | ⟨info, doc0, hi, _, _, _, hf⟩
    · subst e1; exact ⟨⟨doc, hd, rfl, rfl⟩, fun _ _ => rfl⟩
    · obtain ⟨x, hx⟩ := finish_inv hf
      exact key hx (by simp) (loaded := info) (by simpa using hi)

/-- The scenario of `push_after_remove_witness` under the repair, by evaluation, for both values of the
detach-guard switch: A and B attach, A removes the document; B's sync with one local change is answered
ok with the removed flag, its change is NOT stored (log still 2 rows) and not acknowledged; B can
then detach (ok, removed flag) and a Remove by B is accepted as well; the log stays at 2 rows. -/
theorem push_after_remove_fixed_witness (g : Bool) :
    let cfg : Config := { detachGuardFirst := g, pushAfterRemoveDiscards := true }
    let pres (c cs tag : Nat) : ChangeReq :=
      { clientSeq := cs, lamport := 0, vv := [], actor := c, hasOps := false, hasPresence := true, tag := tag }
    let ops (c cs : Nat) (lam : Int) (tag : Nat) : ChangeReq :=
      { clientSeq := cs, lamport := lam, vv := [(c, lam)], actor := c, hasOps := true, hasPresence := false, tag := tag }
    let s := run (Server.init cfg) [
      .activate, .activate, .activate,
      .attach 0 0 { cp := ⟨0, 0⟩, changes := [pres 0 1 1], vv := [] } false false,
      .attach 1 0 { cp := ⟨0, 0⟩, changes := [pres 1 1 2], vv := [] } false false,
      .attach 2 0 { cp := ⟨0, 0⟩, changes := [pres 2 1 3], vv := [] } false false,
      .remove 0 0 { cp := ⟨1, 1⟩, changes := [], vv := [], isRemoved := true }]
    let sync := step s (.pushpull 1 0 { cp := ⟨2, 1⟩, changes := [ops 1 2 1 4], vv := [(1, 1)] } false false)
    let det := step sync.1 (.detach 1 0 { cp := ⟨3, 1⟩, changes := [ops 1 2 1 4, pres 1 3 5], vv := [(1, 1)] })
    let rem := step det.1 (.remove 2 0 { cp := ⟨3, 1⟩, changes := [pres 2 2 6], vv := [], isRemoved := true })
    (removedOf s 0 && (storedLog s 0).length == 3 &&
     (sync.2.toOption.map (fun r => (r.isRemoved, r.cp.clientSeq))) == some (true, 1) && (storedLog sync.1 0).length == 3 &&
     (det.2.toOption.map (fun r => r.isRemoved)) == some true && (storedLog det.1 0).length == 3 &&
     (rem.2.toOption.map (fun r => r.isRemoved)) == some true && (storedLog rem.1 0).length == 3 &&
     (entryOf rem.1 1 0).map (fun e => e.status) == some .detached &&
     (entryOf rem.1 2 0).map (fun e => e.status) == some .removed) = true := by
  cases g <;> decide

end Yorkie.Props.C11
