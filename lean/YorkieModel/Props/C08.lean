/-
C08  Update is all-or-nothing and the user-visible copy equals the real document.

Theorems over every history of updates (successful, failing at any position, panicking at any
position, rejected by schema/size), remote change packs, snapshots and acknowledgements.
`resets` is whether `Update` discards the clone when the callback panics.
-/
import YorkieModel.Model.Document
namespace Yorkie.Props.C08
open Yorkie Yorkie.Crdt Yorkie.Document

/-- the invariant: an existing clone is (extensionally, as a heap) the root -/
def CloneOk (s : DocSt) : Prop := ∀ c, s.clone = some c → c = s.root

/-- the boxed executor is the model's `apply` / `applyAll` -/
theorem applyB_d (b : Box) (op : Op) : (applyB b op).d = apply b.d op := by
  unfold applyB apply; split <;> simp_all

theorem applyAllB_d (b : Box) (ops : List Op) : (applyAllB b ops).d = applyAll b.d ops := by
  unfold applyAllB applyAll
  induction ops generalizing b with
  | nil => rfl
  | cons op r ih => simp only [List.foldl_cons]; rw [ih, applyB_d]

theorem cloneOk_init : CloneOk DocSt.init := by
  intro c h; simp [DocSt.init] at h

theorem ensureClone_eq (s : DocSt) (h : CloneOk s) : ensureClone s = s.root := by
  unfold ensureClone
  cases hc : s.clone with
  | none => rfl
  | some c => simpa using h c hc

/-- raising the flag does not change what the body does to the document: the fields other than
    `updating` of `update` are those of `updateBody` on the unflagged state -/
theorem update_fields (resets : Bool) (s : DocSt) (ops : List Op) (o : Outcome) :
    (update resets s ops o).root = (updateBody resets s ops o).root ∧
    (update resets s ops o).clone = (updateBody resets s ops o).clone ∧
    (update resets s ops o).locals = (updateBody resets s ops o).locals ∧
    (update resets s ops o).seq = (updateBody resets s ops o).seq := by
  cases o with
  | ok => by_cases h : ops.isEmpty = true <;> simp [update, updateBody, ensureClone, h]
  | error n => simp [update, updateBody]
  | rejected => simp [update, updateBody]
  | panic n => cases resets <;> simp [update, updateBody, ensureClone]

/-- a failed update (error, rejection, and – when the clone is reset – panic) leaves the
    document, its pending changes and its change counter exactly as before -/
theorem update_failure_noop (resets : Bool) (s : DocSt) (ops : List Op) (o : Outcome) (h : o ≠ .ok) :
    (update resets s ops o).root = s.root ∧ (update resets s ops o).locals = s.locals ∧
    (update resets s ops o).seq = s.seq := by
  obtain ⟨h1, _, h3, h4⟩ := update_fields resets s ops o
  rw [h1, h3, h4]
  cases o with
  | ok => exact absurd rfl h
  | error n => simp [updateBody]
  | rejected => simp [updateBody]
  | panic n => cases resets <;> simp [updateBody]

/-- **… and its undo history exactly as usable as before.**  Whatever the outcome of an update
    – success, callback error, callback panic at any position, rejection by schema or size limit –
    the flag `updating` is lowered when `Update` is left: `Undo`, `Redo` and `ClearHistory` do not
    refuse afterwards, and `CanUndo`/`CanRedo` report exactly whether the stack is non-empty.
    (A flag that stays raised after a panicking callback makes the history unusable although the
    stacks still hold their entries.) -/
theorem failed_update_keeps_history_usable (resets : Bool) (s : DocSt) (ops : List Op) (o : Outcome) :
    (update resets s ops o).updating = false ∧ historyRefuses (update resets s ops o) = false ∧
    ∀ depth, canUndo (update resets s ops o) depth = decide (0 < depth) := by
  have h : (update resets s ops o).updating = false := rfl
  exact ⟨h, h, fun depth => by simp [canUndo, h]⟩

/-- the flag is lowered after every history of updates (any outcome), remote packs, snapshots and
    acknowledgements: between two calls the undo history is always usable -/
theorem history_usable_after_every_history (resets : Bool) (evs : List Ev) :
    (run resets DocSt.init evs).updating = false := by
  suffices ∀ s : DocSt, s.updating = false → (run resets s evs).updating = false from this _ rfl
  induction evs with
  | nil => intro s h; exact h
  | cons e r ih =>
    intro s h
    apply ih
    cases e with
    | update ops o => rfl
    | remote ops => exact h
    | snapshot d => exact h
    | ack n => exact h

/-- non-vacuity of the flag: while the callback runs it IS raised (a re-entrant `Undo` refuses),
    for every outcome -/
theorem updating_raised_inside_update (resets : Bool) (s : DocSt) (ops : List Op) (o : Outcome) :
    historyRefuses (updateBody resets { s with updating := true } ops o) = true := by
  cases o with
  | ok => by_cases h : ops.isEmpty = true <;> simp [historyRefuses, updateBody, h]
  | error n => simp [historyRefuses, updateBody]
  | rejected => simp [historyRefuses, updateBody]
  | panic n => cases resets <;> simp [historyRefuses, updateBody]

/-- one step preserves clone ≡ root, provided a panicking callback cannot leave a dirty clone -/
theorem cloneOk_step (s : DocSt) (e : Ev) (h : CloneOk s) : CloneOk (step true s e) := by
  have hc := ensureClone_eq s h
  cases e with
  | update ops o =>
    obtain ⟨h1, h2, _, _⟩ := update_fields true s ops o
    intro c hcl
    simp only [step] at hcl ⊢
    rw [h2] at hcl; rw [h1]
    cases o with
    | ok =>
      by_cases hops : ops.isEmpty = true
      · simp only [updateBody, hops, if_true, Option.some.injEq] at hcl ⊢
        subst hcl; exact hc
      · simp only [updateBody, hops, Bool.false_eq_true, if_false, Option.some.injEq] at hcl ⊢
        subst hcl; rw [hc]
    | error n => simp [updateBody] at hcl
    | rejected => simp [updateBody] at hcl
    | panic n => simp [updateBody] at hcl
  | remote ops =>
    intro c hcl
    simp only [step, applyRemote, Option.some.injEq] at hcl ⊢
    subst hcl; simp [hc]
  | snapshot d => intro c hcl; simp [step, applySnapshot] at hcl
  | ack n => intro c hcl; exact h c (by simpa [step, ack] using hcl)

/-- clone ≡ root after every history (callbacks failing or panicking at every position included) -/
theorem clone_eq_root (evs : List Ev) : CloneOk (run true DocSt.init evs) := by
  suffices ∀ s, CloneOk s → CloneOk (run true s evs) from this _ cloneOk_init
  induction evs with
  | nil => intro s h; exact h
  | cons e r ih => intro s h; exact ih _ (cloneOk_step s e h)

/-- the same without panics, for either value of `resets` (what held on the pinned tree) -/
def NoPanic : Ev → Prop
  | .update _ (.panic _) => False
  | _ => True

theorem clone_eq_root_partial (resets : Bool) (evs : List Ev) (hp : ∀ e ∈ evs, NoPanic e) :
    CloneOk (run resets DocSt.init evs) := by
  suffices ∀ s, CloneOk s → CloneOk (run resets s evs) from this _ cloneOk_init
  induction evs with
  | nil => intro s h; exact h
  | cons e r ih =>
    intro s h
    have he := hp e (List.mem_cons_self ..)
    have hstep : step resets s e = step true s e := by
      cases e with
      | update ops o => cases o <;> first | rfl | exact absurd he (by simp [NoPanic])
      | remote ops => rfl
      | snapshot d => rfl
      | ack n => rfl
    exact ih (fun e' h' => hp e' (List.mem_cons_of_mem _ h')) _ (hstep ▸ cloneOk_step s e h)

/-- witness for the pinned behaviour (`resets = false`): a callback that sets a key and then
    panics leaves a clone that differs from the root at the new element's cell -/
theorem panic_dirty_clone_witness :
    let op := Op.set rootId "b" (.prim "2") ⟨1, 1, 7⟩
    let s := run false DocSt.init [.update [op] (.panic 1)]
    ∃ c, s.clone = some c ∧ (c.d ⟨1, 1, 7⟩).isSome = true ∧ (s.root.d ⟨1, 1, 7⟩).isSome = false := by
  refine ⟨_, rfl, ?_, ?_⟩ <;> decide

/-- every accepted update appends exactly one change and executes exactly its operations on the
    root; acknowledged changes leave the pending list from the front -/
theorem update_ok_effect (resets : Bool) (s : DocSt) (ops : List Op) (h : ops ≠ []) :
    (update resets s ops .ok).root.d = applyAll s.root.d ops ∧
    (update resets s ops .ok).locals = s.locals ++ [ops] ∧ (update resets s ops .ok).seq = s.seq + 1 := by
  obtain ⟨h1, _, h3, h4⟩ := update_fields resets s ops .ok
  rw [h1, h3, h4]
  simp [updateBody, h, applyAllB_d]

/-- the model runs with the value the code has now -/
theorem model_uses_current_behaviour : panicResetsClone = true := rfl

/-! non-vacuity: a history with a failing, a panicking and a successful update -/
example :
    let op := Op.set rootId "a" (.prim "1") ⟨1, 1, 7⟩
    let s := run true DocSt.init [.update [op] (.error 1), .update [op] (.panic 1), .update [op] .ok]
    s.locals.length = 1 ∧ (s.root.d ⟨1, 1, 7⟩).isSome = true := by
  constructor <;> decide

end Yorkie.Props.C08
