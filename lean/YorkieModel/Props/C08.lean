/-
C08  Update is all-or-nothing and the user-visible copy equals the real document.

Theorems over every history of updates (successful, failing at any position, panicking at any
position, rejected by schema/size), remote change packs, snapshots and acknowledgements.
`resets` is whether `Update` discards the clone when the callback panics.
-/
import YorkieModel.Model.Document
namespace Yorkie.Props.C08
open Yorkie Yorkie.Crdt Yorkie.Document

/-- the invariant: an existing clone is (extensionally, as a heap) the root -/
def CloneOk (s : DocSt) : Prop := ∀ c, s.clone = some c → c = s.root

/-- the boxed executor is the model's `apply` / `applyAll` -/
theorem applyB_d (b : Box) (op : Op) : (applyB b op).d = apply b.d op := by
  unfold applyB apply; split <;> simp_all

theorem applyAllB_d (b : Box) (ops : List Op) : (applyAllB b ops).d = applyAll b.d ops := by
  unfold applyAllB applyAll
  induction ops generalizing b with
  | nil => rfl
  | cons op r ih => simp only [List.foldl_cons]; rw [ih, applyB_d]

theorem cloneOk_init : CloneOk DocSt.init := by
  intro c h; simp [DocSt.init] at h

theorem ensureClone_eq (s : DocSt) (h : CloneOk s) : ensureClone s = s.root := by
  unfold ensureClone
  cases hc : s.clone with
  | none => rfl
  | some c => simpa using h c hc

/-- a failed update (error, rejection, and – when the clone is reset – panic) leaves the
    document, its pending changes and its change counter exactly as before -/
theorem update_failure_noop (resets : Bool) (s : DocSt) (ops : List Op) (o : Outcome) (h : o ≠ .ok) :
    (update resets s ops o).root = s.root ∧ (update resets s ops o).locals = s.locals ∧
    (update resets s ops o).seq = s.seq := by
  cases o with
  | ok => exact absurd rfl h
  | error n => simp [update]
  | rejected => simp [update]
  | panic n => cases resets <;> simp [update]

/-- one step preserves clone ≡ root, provided a panicking callback cannot leave a dirty clone -/
theorem cloneOk_step (s : DocSt) (e : Ev) (h : CloneOk s) : CloneOk (step true s e) := by
  have hc := ensureClone_eq s h
  cases e with
  | update ops o =>
    cases o with
    | ok =>
      intro c hcl
      by_cases hops : ops.isEmpty = true
      · simp only [step, update, hops, if_true, Option.some.injEq] at hcl ⊢
        subst hcl; exact hc
      · simp only [step, update, hops, Bool.false_eq_true, if_false, Option.some.injEq] at hcl ⊢
        subst hcl; rw [hc]
    | error n => intro c hcl; simp [step, update] at hcl
    | rejected => intro c hcl; simp [step, update] at hcl
    | panic n => intro c hcl; simp [step, update] at hcl
  | remote ops =>
    intro c hcl
    simp only [step, applyRemote, Option.some.injEq] at hcl ⊢
    subst hcl; simp [hc]
  | snapshot d => intro c hcl; simp [step, applySnapshot] at hcl
  | ack n => intro c hcl; exact h c (by simpa [step, ack] using hcl)

/-- clone ≡ root after every history (callbacks failing or panicking at every position included) -/
theorem clone_eq_root (evs : List Ev) : CloneOk (run true DocSt.init evs) := by
  suffices ∀ s, CloneOk s → CloneOk (run true s evs) from this _ cloneOk_init
  induction evs with
  | nil => intro s h; exact h
  | cons e r ih => intro s h; exact ih _ (cloneOk_step s e h)

/-- the same without panics, for either value of `resets` (what held on the pinned tree) -/
def NoPanic : Ev → Prop
  | .update _ (.panic _) => False
  | _ => True

theorem clone_eq_root_partial (resets : Bool) (evs : List Ev) (hp : ∀ e ∈ evs, NoPanic e) :
    CloneOk (run resets DocSt.init evs) := by
  suffices ∀ s, CloneOk s → CloneOk (run resets s evs) from this _ cloneOk_init
  induction evs with
  | nil => intro s h; exact h
  | cons e r ih =>
    intro s h
    have he := hp e (List.mem_cons_self ..)
    have hstep : step resets s e = step true s e := by
      cases e with
      | update ops o => cases o <;> first | rfl | exact absurd he (by simp [NoPanic])
      | remote ops => rfl
      | snapshot d => rfl
      | ack n => rfl
    exact ih (fun e' h' => hp e' (List.mem_cons_of_mem _ h')) _ (hstep ▸ cloneOk_step s e h)

/-- witness for the pinned behaviour (`resets = false`): a callback that sets a key and then
    panics leaves a clone that differs from the root at the new element's cell -/
theorem panic_dirty_clone_witness :
    let op := Op.set rootId "b" (.prim "2") ⟨1, 1, 7⟩
    let s := run false DocSt.init [.update [op] (.panic 1)]
    ∃ c, s.clone = some c ∧ (c.d ⟨1, 1, 7⟩).isSome = true ∧ (s.root.d ⟨1, 1, 7⟩).isSome = false := by
  refine ⟨_, rfl, ?_, ?_⟩ <;> decide

/-- every accepted update appends exactly one change and executes exactly its operations on the
    root; acknowledged changes leave the pending list from the front -/
theorem update_ok_effect (resets : Bool) (s : DocSt) (ops : List Op) (h : ops ≠ []) :
    (update resets s ops .ok).root.d = applyAll s.root.d ops ∧
    (update resets s ops .ok).locals = s.locals ++ [ops] ∧ (update resets s ops .ok).seq = s.seq + 1 := by
  simp [update, h, applyAllB_d]

/-- the model runs with the value the code has now -/
theorem model_uses_current_behaviour : panicResetsClone = true := rfl

/-! non-vacuity: a history with a failing, a panicking and a successful update -/
example :
    let op := Op.set rootId "a" (.prim "1") ⟨1, 1, 7⟩
    let s := run true DocSt.init [.update [op] (.error 1), .update [op] (.panic 1), .update [op] .ok]
    s.locals.length = 1 ∧ (s.root.d ⟨1, 1, 7⟩).isSome = true := by
  constructor <;> decide

end Yorkie.Props.C08
