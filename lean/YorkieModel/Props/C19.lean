/-
C19 "Concurrent tree edits including merges, splits and styles converge pairwise".

The quantifier of the property is finite: the operation x range matrices of
test/complex/tree_concurrency_test.go (edit-edit 900, split-split 320, split-edit 144, style-style 144,
edit-style 84 = 1592 pairs), each pair extended with both sync orders and a third passive client
seeded by a snapshot. The table is `Yorkie.Tree.Matrix.matrix` (Model/TreeMatrixTable.lean, generated
from the harness' re-enumeration of the upstream test; the driver prints every row and check.py
compares it with the row the harness runs on the real code, so the table cannot drift).

`converges c` runs the scenario of the upstream `runTest` on the model (Model/TreeDoc.lean `runCase`):
d1 creates the tree, both sync, each makes its call on its clone (no version vector) and executes the
resulting operation on its root (with the change's vector), each receives the other's change on clone
and root; it holds when both roots render the same XML and on each side clone = root. Which client
syncs first afterwards does not change what the two editors execute (see `runCase`), so `converges`
covers both sync orders for d1 and d2. `convergesExt c` adds what does depend on the order: the
server's replay copy (OpSourceReplay) in both orders and a third client seeded by the snapshot codec
after the first / after the second sync (root = decoded tree, clone = its DeepCopy), each compared
with the editors, and clone = root on the third client.

The table statements are proved by kernel evaluation (`decide +kernel`) of `convergesExt` on the
executable model, chunk by chunk (Lemmas/TreeMatrixE*.lean, 25 rows each), and assembled by membership;
`matrix_converges` is a corollary.
-/
import YorkieModel.Lemmas.TreeMatrixAll
import YorkieModel.Lemmas.TreeReplay
import YorkieModel.Lemmas.TreeWFAll
import YorkieModel.Lemmas.TreeAttrs
import YorkieModel.Lemmas.TreeLens
namespace Yorkie.Props.C19
open Yorkie Yorkie.Tree Yorkie.Tree.Matrix

theorem mem_matrix {c : Case} (h : c ∈ matrix) : ∃ ch ∈ chunks, c ∈ ch := by
  unfold matrix at h
  exact List.mem_flatten.mp h

/-- the extension contains the basic statement -/
theorem convergesExt_converges (c : Case) (h : convergesExt c = true) : converges c = true := by
  unfold convergesExt at h
  unfold converges
  split at h
  · exact absurd h (by simp)
  · rename_i o ho
    simp only [xmlEq]
    simp only [Bool.and_eq_true, beq_iff_eq] at h ⊢
    obtain ⟨⟨⟨⟨h1, h2⟩, h3⟩, _⟩, _⟩ := h
    exact ⟨⟨h1.symm, h2⟩, by rw [h3, h1]⟩

/-- **C19, whole table, full statement.** For every one of the 1592 pairs: both editors render the same
    XML after synchronising and on each of them clone = root; the server's replay of the two changes in
    BOTH sync orders renders that XML; a third client seeded by a snapshot of the server copy taken after
    the first or after the second sync (then fed the remaining change) ends with that XML on its root
    and on its clone. -/
theorem matrix_converges_ext : ∀ c ∈ matrix, convergesExt c = true := by
  intro c hc
  obtain ⟨ch, hch, hcc⟩ := mem_matrix hc
  exact chunks_converge_ext ch hch c hcc

/-- **C19, the two editors** (corollary): every pair converges and clone = root on both editors, in
    either sync order. -/
theorem matrix_converges : ∀ c ∈ matrix, converges c = true :=
  fun c hc => convergesExt_converges c (matrix_converges_ext c hc)

/-- **Server replay = remote application** (all trees, all operations - not only the table): whenever a
    client applies a remote change successfully, the server's replay copy (`OpSourceReplay`, no reverse
    info) that starts from the same tree as the client's root ends with the same tree as that root.
    (`Tree.Edit` with `needsReverseInfo` only adds an index computation that may fail, never mutate.) -/
theorem replay_eq_remote (r d : Rep) (ch : Change) (h : r.applyRemote ch = .ok d) :
    replayO r.root (some ch) = .ok d.root := by
  unfold Rep.applyRemote at h
  split at h
  · cases h
  · split at h
    · cases h
    · rename_i clone' _ root' hroot
      cases h
      exact applyOp_rev_irrelevant _ _ _ _ hroot

/-- the table is the upstream matrix: 1592 rows, numbered consecutively, five families -/
theorem matrix_shape :
    matrix.length = 1592 ∧ matrix.map (·.idx) = List.range 1592 ∧
    famStart0 = 0 ∧ famStart1 = 900 ∧ famStart2 = 1220 ∧ famStart3 = 1364 ∧ famStart4 = 1508 ∧ size = 1592 := by
  decide +kernel

/-- row `i` of the table -/
def row (i : Nat) : Case := matrix.getD i ⟨0, [], .nop, .nop⟩

/-! ### non-vacuity: the pairs really interact -/

/-- row 308 (edit-edit, contain-text: insertTextFront vs delete) is a run in which both clients produce a
    change and the final XML differs from the initial one -/
example : (match runCase (row 308) with
    | .ok o => o.ch1.isSome && o.ch2.isSome && !(xmlEq o.d1.root o.wire)
    | .error _ => false) = true := by decide +kernel

/-! ### findings on the pinned tree, reproduced by the faithful model

None of the 1592 pairs diverges in XML. The defects below were found by the structural comparisons
of the same check (cached lengths) and by its random stream over the structure-preserving domain
(C01/C07, tree part); each has a corpus trace under corpus/C19 and an entry in known_findings.json. -/

/-- cached `VisibleLength` of the root (`Tree.Len()`) on both editors -/
def lensAgree (c : Case) : Bool :=
  match runCase c with
  | .error _ => false
  | .ok o => (o.d1.root.get o.d1.root.root).visLen == (o.d2.root.get o.d2.root.root).visLen

/-! `c19-stale-visible-length` (repaired: hooks/fix-c19-split-tombstoned-visible-length.patch, 7d079773; switch
    `fixSplitTombstonedLength` of Model/Tree.lean) -/

/-- the step of `SplitElement` that went wrong, on `<r><p>ab</p></r>` with the paragraph tombstoned: the split sibling (born
    tombstoned) is linked in after it and the length bookkeeping runs, with (`true`) or without (`false`) the repair;
    result: the root's cached VisibleLength (`Tree.Len()`) and the size of the visible XML `<r></r>` (= 0) -/
def splitTombstonedLen (fix : Bool) : Option (Int × Nat) :=
  let t0 := initialTree 1 [⟨0, [114], [], []⟩, ⟨1, [112], [], []⟩, ⟨2, textType, [97, 98], []⟩]
  match (t0.get t0.root).children with
  | [p] =>
    let t1 := t0.removeNode p ⟨5, 1, 2⟩
    let nd := t1.get p
    let (ta, s) := t1.alloc { mkNode ⟨⟨6, 1, 3⟩, 0⟩ nd.type [] nd.attrs with removedAt := nd.removedAt }
    match ta.insertAfterInternal t0.root s p with
    | .ok t2 =>
      let t3 := t2.addLensSplitW fix s
      some ((t3.get t3.root).visLen, t3.toXMLCodes.length - "<r></r>".length)
    | .error _ => none
  | _ => none

/-- before the repair: a remote split applied to a paragraph the replica had already tombstoned added the tombstoned
    sibling's two tags to the ancestors' VisibleLength: `Tree.Len()` = 2 for the empty `<r></r>` (on that replica only; the
    next index-based edit went astray, corpus/C19/tree-stale-visible-length.trace) -/
theorem stale_length_witness_off : splitTombstonedLen false = some (2, 0) := by decide +kernel

/-- repaired: the born-tombstoned sibling adds nothing to the visible length -/
theorem stale_length_step_fixed : splitTombstonedLen true = some (0, 0) := by decide +kernel

/-- the eight rows of the matrix (split-edit family: a split against a delete / replace of the split paragraph) on which
    `Tree.Len()` used to differ between the two editors -/
def staleRows : List Nat := [1223, 1224, 1231, 1232, 1255, 1256, 1263, 1264]

/-- both editors and the wire copy hold exact cached lengths and agree on `Tree.Len()` -/
def lensExactBoth (c : Case) : Bool :=
  match runCase c with
  | .error _ => false
  | .ok o => o.wire.lensExact && o.d1.root.lensExact && o.d2.root.lensExact && o.d1.clone.lensExact && o.d2.clone.lensExact

/-- **repaired: on all eight rows both editors converge, agree on `Tree.Len()`, and every copy (root and clone of both,
    and the wire copy) holds EXACT cached lengths** (before the repair d2 ended inexact on each of them) -/
theorem stale_length_rows_fixed :
    ∀ i ∈ staleRows, converges (row i) = true ∧ lensAgree (row i) = true ∧ lensExactBoth (row i) = true := by
  decide +kernel

/-- `c19-x-merge` (outside the fixed quantifier: the upstream matrix contains no merging pair): with a
    REAL merge the pinned code does not converge. d1 deletes the second paragraph (`Edit(5,10)`), d2
    concurrently merges it into the first (`Edit(3,7)`): d1 ends with `<p>ab</p><p>ghi</p>`, d2 with
    `<p>abef</p><p>ghi</p>` (corpus/C19/tree-x-merge.trace; 35 named pairs of the supplementary family) -/
theorem x_merge_witness : converges ⟨0, fam0, .edit 5 10 [] 0, .edit 3 7 [] 0⟩ = false := by
  decide +kernel

def pTree (items : List JItem) : Tree := initialTree 1 items

/-- one local json-layer call on a fresh single replica, rendered -/
def localXML (items : List JItem) (c : Call) : Except Err (Option Str) :=
  match localCall (pTree items) (ChangeID.initial.setActor 1 |>.next |>.next) c with
  | .error e => .error e
  | .ok none => .ok none
  | .ok (some (t, _)) => .ok (some t.toXMLCodes)

/-! ### `c19-surrogate` (repaired: hooks/fix-c19-splittext-utf16-length.patch, 0e18e1d8; switch `fixSplitTextLength` of
    Model/Tree.lean) and what remains of it, `c19-surrogate-cut` -/

/-- `<r><p>😀ab</p></r>`; the text node is pointer 2 -/
def emojiTree : Tree := initialTree 1 [⟨0, [114], [], []⟩, ⟨1, [112], [], []⟩, ⟨2, textType, [0xD83D, 0xDE00, 97, 98], []⟩]

/-- before the repair: typing at index 3 (right after the emoji) failed. `Edit` resolves `to` first and splits the text at
    UTF-16 offset 2; `SplitText` stored a RUNE count (1) as the left half's length, and resolving `from` - the same position -
    asked that half for a split at offset 2 of a length it believed to be 1: `ErrSplitOutOfRange`, the json layer panicked -/
theorem surrogate_split_witness_off :
    (match emojiTree.splitTextW false 2 2 with
     | .ok (t', some _) => (t'.get 2).visLen == 1 &&
        (match t'.splitTextW false 2 2 with
         | .error .splitRange => true
         | _ => false)
     | _ => false) = true := by
  decide +kernel

/-- repaired: the call inserts "x" right after the emoji -/
theorem surrogate_split_fixed :
    (match localXML [⟨0, [114], [], []⟩, ⟨1, [112], [], []⟩, ⟨2, textType, [0xD83D, 0xDE00, 97, 98], []⟩]
        (.edit 3 3 [[⟨0, textType, [120], []⟩]] 0) with
     | .ok (some x) => x == "<r><p>😀xab</p></r>".toList.map Char.toNat
     | _ => false) = true := by
  decide +kernel

/-- `c19-surrogate-cut` (listed, NOT repaired by the length fix): a split INSIDE the surrogate pair (offset 1) re-decodes both
    halves, each half of the pair becomes U+FFFD for good - the tree counterpart of `TextValue.Split`; the cached lengths stay
    exact (corpus/C19/tree-surrogate-cut.trace; Props/C14Tree.lean `tree_undo_do_surrogate_witness` is the undo view of it) -/
theorem surrogate_cut_witness :
    (match emojiTree.splitText 2 1 with
     | .ok (t', some _) => t'.toXMLCodes == "<r><p>\uFFFD\uFFFDab</p></r>".toList.map Char.toNat && t'.lensExact
     | _ => false) = true := by
  decide +kernel

/-! ### `c19-findpos-after-element` (repaired: hooks/fix-c19-findpos-after-element.patch, 74247a0f; switch
    `fixFindPosAfterElement` of Model/Tree.lean). The `_off` statements are about the tree BEFORE the repair
    (`Tree.findPosW false`), the `_fixed` ones about the model as it stands. -/

/-- a json-layer `Edit(fr, to, contents)` with the positions of the tree BEFORE the repair; otherwise `localCall` -/
def editOldPos (clone : Tree) (nid : ChangeID) (fr to : Nat) (contents : List (List JItem)) : Except Err (Tree × Op) :=
  match clone.findPosW false fr, clone.findPosW false to with
  | .ok fp, .ok tp =>
    let (cs, delim) := buildContents nid.lamport nid.actor 0 contents
    let ts : Ticket := ⟨nid.lamport, delim, nid.actor⟩
    match clone.applyEdit fp tp cs 0 ts ⟨[], nid.lamport, nid.actor, delim, []⟩ [] true with
    | .error e => .error e
    | .ok (t', src) => .ok (t', .edit fp tp cs 0 ts src.issued)
  | .error e, _ => .error e
  | _, .error e => .error e

def docBxy : List JItem := [⟨0, [114], [], []⟩, ⟨1, [112], [], []⟩, ⟨2, [98], [], []⟩, ⟨2, textType, [120, 121], []⟩]

/-- before the repair: in `<r><p><b></b>xy</p></r>` deleting `<b></b>` with `Edit(1,3)` also deleted "xy": `FindPos(3)` was
    (text "xy", offset 0), which `Edit` reads as the position after "xy" -/
theorem findpos_after_element_witness_off :
    (match editOldPos (pTree docBxy) (ChangeID.initial.setActor 1 |>.next |>.next) 1 3 [] with
     | .ok (t, _) => t.toXMLCodes == "<r><p></p></r>".toList.map Char.toNat
     | .error _ => false) = true := by
  decide +kernel

/-- repaired: the same call deletes `<b></b>` only -/
theorem findpos_after_element_fixed :
    (match localXML docBxy (.edit 1 3 [] 0) with
     | .ok (some x) => x == "<r><p>xy</p></r>".toList.map Char.toNat
     | _ => false) = true := by
  decide +kernel

def docIxyz : List JItem := [⟨0, [114], [], []⟩, ⟨1, [112], [], []⟩, ⟨2, [105], [], []⟩, ⟨2, textType, [120, 121, 122], []⟩]

/-- `runCase` with d1's call resolved by the tree BEFORE the repair -/
def runOldPos (init : List JItem) (fr to : Nat) (call2 : Call) : Except Err (Rep × Rep) :=
  let t0 := initialTree actor1 init
  let id1 : ChangeID := ChangeID.initial.setActor actor1 |>.next
  match t0.snapshot with
  | .error e => .error e
  | .ok tw =>
    let w := tw.deepCopy
    let d2 : Rep := { id := (ChangeID.initial.setActor actor2).syncClocks id1, root := w, clone := w }
    let nid := id1.next
    match editOldPos t0 nid fr to [] with
    | .error e => .error e
    | .ok (clone', op) =>
      match t0.deepCopy.applyOp op nid.vv true with
      | .error e => .error e
      | .ok root' =>
        let d1a : Rep := { id := nid, root := root', clone := clone' }
        match d2.update call2 with
        | .error e => .error e
        | .ok (d2a, ch2) =>
          match d1a.applyRemoteO ch2, d2a.applyRemote ⟨nid, op⟩ with
          | .ok d1b, .ok d2b => .ok (d1b, d2b)
          | .error e, _ => .error e
          | _, .error e => .error e

/-- before the repair, the DIVERGENCE: in `<r><p><i></i>xyz</p></r>` d1 runs `Edit(3,5)` (delete "xy": index 3 is right after
    `</i>`, `FindPos` gave (text "xyz", offset 0)) while d2 inserts "Q" between x and y. On d1, where "xyz" is one piece, the
    anchor meant "after xyz" and nothing was deleted; on d2, where the insert has split the text, the floor of the same anchor
    is the piece "x": the same operation deleted "y". Both applied both changes: d1 = `xQyz`, d2 = `xQz`
    (corpus/C19/tree-findpos-after-element-diverge.trace, corpus/C01/tree-findpos-after-element-diverge.repro.go.txt) -/
theorem findpos_after_element_diverge_witness_off :
    (match runOldPos docIxyz 3 5 (.edit 4 4 [[⟨0, textType, [81], []⟩]] 0) with
     | .ok (d1, d2) => d1.root.toXMLCodes == "<r><p><i></i>xQyz</p></r>".toList.map Char.toNat &&
                d2.root.toXMLCodes == "<r><p><i></i>xQz</p></r>".toList.map Char.toNat &&
                xmlEq d1.clone d1.root && xmlEq d2.clone d2.root
     | .error _ => false) = true := by
  decide +kernel

/-- repaired: the position names `<i>` as left sibling, the same place on both replicas: d1 deletes "xy", the concurrently
    inserted "Q" survives inside the deleted range, both end with `<r><p><i></i>Qz</p></r>` -/
theorem findpos_after_element_diverge_fixed :
    (match runCase ⟨0, docIxyz, .edit 3 5 [] 0, .edit 4 4 [[⟨0, textType, [81], []⟩]] 0⟩ with
     | .ok o => o.d1.root.toXMLCodes == "<r><p><i></i>Qz</p></r>".toList.map Char.toNat &&
                o.d2.root.toXMLCodes == "<r><p><i></i>Qz</p></r>".toList.map Char.toNat &&
                xmlEq o.d1.clone o.d1.root && xmlEq o.d2.clone o.d2.root
     | .error _ => false) = true := by
  decide +kernel

/-! `c19-path-tombstone` (repaired: hooks/fix-c19-path-tombstone.patch, c7104fed; switch `fixPathTombstone` of Model/Tree.lean) -/

/-- `<r><p>ab</p></r>` after deleting 'a': index 1 -> path -> index, with (`true`) / without (`false`) the repair -/
def pathAfterTombstone (fix : Bool) : Option Int :=
  match localCall (pTree [⟨0, [114], [], []⟩, ⟨1, [112], [], []⟩, ⟨2, textType, [97, 98], []⟩])
      (ChangeID.initial.setActor 1 |>.next |>.next) (.edit 1 2 [] 0) with
  | .ok (some (t, _)) =>
    (match t.indexToPathW fix 1 with
     | .ok p => (match t.pathToIndex p with | .ok i => some i | .error _ => none)
     | .error _ => none)
  | _ => none

/-- before the repair: index 1 converted to a path that converts back to index 2 (`TreePosToPath` indexed the
    tombstone-filtered child list with the raw child offset) -/
theorem path_tombstone_witness_off : pathAfterTombstone false = some 2 := by decide +kernel

/-- repaired: index -> path -> index is the identity there -/
theorem path_tombstone_fixed : pathAfterTombstone true = some 1 := by decide +kernel



/-! ### unbounded theorems about the tree model (every tree, every operation - not only the table)

`Tree.WF` (Lemmas/TreeWF.lean) is the structural well-formedness of the arena: cached size = arena length, the
root is allocated, `c ∈ children p ↔ parent c = some p`, no dangling pointer in a node or in `NodeMapByID`,
no duplicate child, every `NodeMapByID` entry points at a node carrying that id. It does NOT contain
acyclicity of the parent relation, and it does NOT contain exactness of the cached lengths: the latter is false
of the pinned code, `Tree.lensExact` (Lemmas/TreeLens.lean) is the explicit predicate and the two witnesses
below show the two ways it breaks. -/

/-- **`WF` is an invariant of every operation**: `TreeEdit` with any range, split level and contents (deletion,
    merge across element boundaries, element and text splits, insertion) and `TreeStyle` (set / remove), executed
    with any version vector, with or without reverse info - if the operation succeeds the tree is well-formed. -/
theorem wf_invariant_op {t t' : Tree} (w : t.WF) (op : Op) (vv : VV) (rev : Bool) (h : t.applyOp op vv rev = .ok t') :
    t'.WF := applyOp_wf_all w op vv rev h

/-- `Document.Update` (any json-layer call) keeps both copies of a replica well-formed -/
theorem wf_invariant_update {r r' : Rep} {ch : Option Change} (w : r.WF) (c : Call) (h : r.update c = .ok (r', ch)) :
    r'.WF := Rep.update_wf_all w c h

/-- applying a remote change keeps both copies of a replica well-formed -/
theorem wf_invariant_remote {r r' : Rep} (w : r.WF) (ch : Change) (h : r.applyRemote ch = .ok r') : r'.WF :=
  Rep.applyRemote_wf_all w ch h

/-- the trees a run starts from are well-formed: what `SetNewTree` builds, what the converter decodes (a `Set`
    of a tree, a snapshot), and every `DeepCopy` of a well-formed tree -/
theorem wf_sources :
    (∀ (a : Actor) (it : JItem) (r : List JItem), (initialTree a (it :: r)).WF) ∧
    (∀ (fl : List Flat) (t : Tree), Tree.ofFlat fl = .ok t → t.WF) ∧
    (∀ (t t' : Tree), t.snapshot = .ok t' → t'.WF) ∧
    (∀ (t : Tree), t.WF → t.deepCopy.WF) :=
  ⟨initialTree_wf, fun _ _ h => ofFlat_wf h, fun _ _ h => snapshot_wf h, fun _ w => deepCopy_wf w⟩

/-- at the end of ANY run of the two-client scenario (any non-empty initial tree, any two calls) all four copies
    - root and clone of both editors - are well-formed -/
theorem wf_run {c : Case} {o : Outcome} (it : JItem) (r : List JItem) (hinit : c.init = it :: r)
    (h : runCase c = .ok o) : o.d1.WF ∧ o.d2.WF := runCase_wf it r hinit h

/-- **clone = root after `DeepCopy`, for every tree** (no well-formedness needed): `Tree.DeepCopy` re-registers the
    nodes and rebuilds the merge cache, neither of which `ToXML()` or `Marshal()` read. In particular the clone of a
    snapshot-seeded client renders exactly like its root, whatever the snapshot. -/
theorem deepCopy_observational (t : Tree) :
    t.deepCopy.toXMLCodes = t.toXMLCodes ∧ t.deepCopy.marshalCodes = t.marshalCodes :=
  ⟨toXMLCodes_congr (view_deepCopy t), marshalCodes_congr (view_deepCopy t)⟩

theorem seeded_observational {s : Tree} {r : Rep} (h : seeded s = .ok r) :
    r.WF ∧ r.clone.toXMLCodes = r.root.toXMLCodes ∧ r.clone.marshalCodes = r.root.marshalCodes :=
  ⟨seeded_wf h, seeded_clone_eq_root h⟩

/-
Snapshot round trip, full statement (NOT proved): for every well-formed tree `t`, `t.snapshot = .ok t'` implies
`t'.toXMLCodes = t.toXMLCodes`. Proved: `t'` is well-formed (`wf_sources`), its `DeepCopy` renders like it
(`deepCopy_observational`), and for every tree that occurs in the table the decoded snapshot renders like the
original (`matrix_converges_ext`: the third client is seeded from the server copy in four ways per row). The general
statement needs the correctness of the `Prepend`/depth-table reconstruction of `FromTreeNodes` against the
post-order writer, which is not done.
-/

/-- **style / style commutation** (C01, tree attributes): two style operations with different tickets - each a set or
    a remove of any number of keys - applied to the same attribute register in either order leave every key with the
    same live value (or removal) and the same winning ticket. -/
theorem style_style_commute_partial (a1 a2 : StyleArg) (t1 t2 : Ticket) (h : t1 ≠ t2) (as : List Attr) :
    look (a1.apply t1 (a2.apply t2 as)) = look (a2.apply t2 (a1.apply t1 as)) :=
  style_style_comm a1 a2 t1 t2 h as

/-- ... but the registers themselves do not commute: `RHT.Remove` copies the value of the node it tombstones, so the
    value kept inside a tombstone depends on the order (nothing but the snapshot and a later `Remove` read it) -/
theorem style_style_raw_witness :
    let old : List Attr := [⟨[98], [49], ⟨1, 1, 1⟩, false⟩]
    let s := StyleArg.set [([98], [50])]
    let r := StyleArg.remove [[98]]
    s.apply ⟨2, 1, 1⟩ (r.apply ⟨3, 1, 2⟩ old) ≠ r.apply ⟨3, 1, 2⟩ (s.apply ⟨2, 1, 1⟩ old) ∧
    look (s.apply ⟨2, 1, 1⟩ (r.apply ⟨3, 1, 2⟩ old)) [98] = look (r.apply ⟨3, 1, 2⟩ (s.apply ⟨2, 1, 1⟩ old)) [98] :=
  raw_registers_do_not_commute

/-- exact cached lengths WERE not an invariant (1): `stale_length_witness_off` (a remote split applied to a tombstoned
    paragraph); repaired, `stale_length_rows_fixed`: on row 1223 every copy now ends exact -/
theorem lens_exact_split_tombstone_fixed :
    (match runCase (row 1223) with
     | .ok o => o.wire.lensExact && o.d1.root.lensExact && o.d2.root.lensExact
     | .error _ => false) = true := by
  decide +kernel

/-- exact cached lengths WERE not an invariant (2): before the repair, splitting the text "\U0001F600ab" after 'a' (UTF-16
    offset 3) left the left half with the rune count 2 as its length -/
theorem lens_exact_witness_surrogate_off :
    (emojiTree.lensExact && (match emojiTree.splitTextW false 2 3 with
       | .ok (t', some _) => !t'.lensExact
       | _ => false)) = true := by
  decide +kernel

/-- repaired: the same split keeps the cached lengths exact (both former counterexamples to exactness are repaired; exactness
    is still not part of `Tree.WF`, it is not proved as an invariant) -/
theorem lens_exact_split_surrogate_fixed :
    (emojiTree.lensExact && (match emojiTree.splitText 2 3 with
       | .ok (t', some _) => t'.lensExact
       | _ => false)) = true := by
  decide +kernel

/-! non-vacuity of the unbounded theorems -/

/-- a well-formed tree with exact lengths on which operations of every kind succeed -/
example : (initialTree 1 fam1).WF := initialTree_wf _ _ _

example : (let t := initialTree 1 fam2
    t.lensExact &&
    (match (row 1223).call1, (row 1223).call2 with
     | c1, c2 =>
       (match localCall t (ChangeID.initial.setActor 1 |>.next |>.next) c1 with
        | .ok (some _) => true
        | _ => false) &&
       (match localCall t (ChangeID.initial.setActor 1 |>.next |>.next) c2 with
        | .ok (some _) => true
        | _ => false))) = true := by
  decide +kernel

end Yorkie.Props.C19
