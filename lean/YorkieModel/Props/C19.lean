/-
C19 "Concurrent tree edits including merges, splits and styles converge pairwise".

The quantifier of the property is finite: the operation x range matrices of
test/complex/tree_concurrency_test.go (edit-edit 900, split-split 320, split-edit 144, style-style 144,
edit-style 84 = 1592 pairs), each pair extended with both sync orders and a third passive client
seeded by a snapshot. The table is `Yorkie.Tree.Matrix.matrix` (Model/TreeMatrixTable.lean, generated
from the harness' re-enumeration of the upstream test; the driver prints every row and check.py
compares it with the row the harness runs on the real code, so the table cannot drift).

`converges c` runs the scenario of the upstream `runTest` on the model (Model/TreeDoc.lean `runCase`):
d1 creates the tree, both sync, each makes its call on its clone (no version vector) and executes the
resulting operation on its root (with the change's vector), each receives the other's change on clone
and root; it holds when both roots render the same XML and on each side clone = root. Which client
syncs first afterwards does not change what the two editors execute (see `runCase`), so `converges`
covers both sync orders for d1 and d2. `convergesExt c` adds what does depend on the order: the
server's replay copy (OpSourceReplay) in both orders and a third client seeded by the snapshot codec
after the first / after the second sync (root = decoded tree, clone = its DeepCopy), each compared
with the editors, and clone = root on the third client.

Everything here is proved by kernel evaluation (`decide +kernel`) of the executable model, chunk by
chunk (Lemmas/TreeMatrixC*.lean, Lemmas/TreeMatrixE*.lean), and assembled by membership.
-/
import YorkieModel.Lemmas.TreeMatrixAll
import YorkieModel.Lemmas.TreeReplay
namespace Yorkie.Props.C19
open Yorkie Yorkie.Tree Yorkie.Tree.Matrix

theorem mem_matrix {c : Case} (h : c ∈ matrix) : ∃ ch ∈ chunks, c ∈ ch := by
  unfold matrix at h
  exact List.mem_flatten.mp h

/-- **C19, the two editors, whole table.** Every one of the 1592 pairs converges on the model: both
    editors render the same XML after synchronising (in either sync order) and on each of them the copy
    shown to the user (clone) equals the real document (root). -/
theorem matrix_converges : ∀ c ∈ matrix, converges c = true := by
  intro c hc
  obtain ⟨ch, hch, hcc⟩ := mem_matrix hc
  exact chunks_converge ch hch c hcc

/-
Full statement of the extension (kept, not weakened): `∀ c ∈ matrix, convergesExt c = true`.
It is not known to be false - the exhaustive correspondence run executes it on the real code and on
the model for EVERY row and both agree - but kernel evaluation of all 1592 rows costs about an hour of
CPU, so the theorem below evaluates every fourth row (398 rows, spread over all five families) and
the remaining rows are tied by the exhaustive correspondence only (props.d/C19.py `partial`).
-/

/-- **C19, extension, every fourth row.** Additionally the server's replay of the two changes in BOTH
    sync orders renders the editors' XML, and a third client seeded by a snapshot of the server copy
    taken after the first or after the second sync (then fed the remaining change) ends with the same
    XML on its root and on its clone. -/
theorem matrix_converges_ext_partial : ∀ c ∈ matrix, c.idx % 4 = 0 → convergesExt c = true := by
  intro c hc h4
  obtain ⟨ch, hch, hcc⟩ := mem_matrix hc
  exact chunks_converge_ext ch hch c hcc h4

/-- the extension contains the basic statement -/
theorem convergesExt_converges (c : Case) (h : convergesExt c = true) : converges c = true := by
  unfold convergesExt at h
  unfold converges
  split at h
  · exact absurd h (by simp)
  · rename_i o ho
    simp only [xmlEq]
    simp only [Bool.and_eq_true, beq_iff_eq] at h ⊢
    obtain ⟨⟨⟨⟨h1, h2⟩, h3⟩, _⟩, _⟩ := h
    exact ⟨⟨h1.symm, h2⟩, by rw [h3, h1]⟩

/-- **Server replay = remote application** (all trees, all operations - not only the table): whenever a
    client applies a remote change successfully, the server's replay copy (`OpSourceReplay`, no reverse
    info) that starts from the same tree as the client's root ends with the same tree as that root.
    (`Tree.Edit` with `needsReverseInfo` only adds an index computation that may fail, never mutate.) -/
theorem replay_eq_remote (r d : Rep) (ch : Change) (h : r.applyRemote ch = .ok d) :
    replayO r.root (some ch) = .ok d.root := by
  unfold Rep.applyRemote at h
  split at h
  · cases h
  · split at h
    · cases h
    · rename_i clone' _ root' hroot
      cases h
      exact applyOp_rev_irrelevant _ _ _ _ hroot

/-- the table is the upstream matrix: 1592 rows, numbered consecutively, five families -/
theorem matrix_shape :
    matrix.length = 1592 ∧ matrix.map (·.idx) = List.range 1592 ∧
    famStart0 = 0 ∧ famStart1 = 900 ∧ famStart2 = 1220 ∧ famStart3 = 1364 ∧ famStart4 = 1508 ∧ size = 1592 := by
  decide +kernel

/-- row `i` of the table -/
def row (i : Nat) : Case := matrix.getD i ⟨0, [], .nop, .nop⟩

/-! ### non-vacuity: the pairs really interact -/

/-- row 308 (edit-edit, contain-text: insertTextFront vs delete) is a run in which both clients produce a
    change and the final XML differs from the initial one -/
example : (match runCase (row 308) with
    | .ok o => o.ch1.isSome && o.ch2.isSome && !(xmlEq o.d1.root o.wire)
    | .error _ => false) = true := by decide +kernel

/-! ### findings on the pinned tree, reproduced by the faithful model

None of the 1592 pairs diverges in XML. The defects below were found by the structural comparisons
of the same check (cached lengths) and by its random stream over the structure-preserving domain
(C01/C07, tree part); each has a corpus trace under corpus/C19 and an entry in known_findings.json. -/

/-- cached `VisibleLength` of the root (`Tree.Len()`) on both editors -/
def lensAgree (c : Case) : Bool :=
  match runCase c with
  | .error _ => false
  | .ok o => (o.d1.root.get o.d1.root.root).visLen == (o.d2.root.get o.d2.root.root).visLen

/-- `c19-stale-visible-length`: row 1223 (split-edit, equal: split-1 vs replace) converges in XML, but
    `Tree.Len()` differs between the two editors: d2 applies the remote split to the paragraph it has
    already tombstoned and `SplitElement` adds the tombstoned sibling's padding to the ancestors'
    VisibleLength (corpus/C19/tree-stale-visible-length.trace shows the next local edit going astray) -/
theorem stale_length_witness :
    converges (row 1223) = true ∧ lensAgree (row 1223) = false := by
  decide +kernel

/-- `c19-x-merge` (outside the fixed quantifier: the upstream matrix contains no merging pair): with a
    REAL merge the pinned code does not converge. d1 deletes the second paragraph (`Edit(5,10)`), d2
    concurrently merges it into the first (`Edit(3,7)`): d1 ends with `<p>ab</p><p>ghi</p>`, d2 with
    `<p>abef</p><p>ghi</p>` (corpus/C19/tree-x-merge.trace; 35 named pairs of the supplementary family) -/
theorem x_merge_witness : converges ⟨0, fam0, .edit 5 10 [] 0, .edit 3 7 [] 0⟩ = false := by
  decide +kernel

def pTree (items : List JItem) : Tree := initialTree 1 items

/-- one local json-layer call on a fresh single replica, rendered -/
def localXML (items : List JItem) (c : Call) : Except Err (Option Str) :=
  match localCall (pTree items) (ChangeID.initial.setActor 1 |>.next |>.next) c with
  | .error e => .error e
  | .ok none => .ok none
  | .ok (some (t, _)) => .ok (some t.toXMLCodes)

/-- `c19-surrogate`: in `<root><p>😀ab</p></root>` typing at index 3 (right after the emoji) fails:
    `SplitText` stores a rune count as the left half's length, the second resolution of the same
    position asks for a split past that length (`ErrSplitOutOfRange`; the json layer panics) -/
theorem surrogate_split_witness :
    (match localXML [⟨0, [114], [], []⟩, ⟨1, [112], [], []⟩, ⟨2, textType, [0xD83D, 0xDE00, 97, 98], []⟩]
        (.edit 3 3 [[⟨0, textType, [120], []⟩]] 0) with
     | .error .splitRange => true
     | _ => false) = true := by
  decide +kernel

/-- `c19-findpos-after-element`: in `<r><p><b></b>xy</p></r>` deleting `<b></b>` with `Edit(1,3)` also
    deletes "xy": `FindPos(3)` is (text "xy", offset 0), which `Edit` reads as the position after "xy" -/
theorem findpos_after_element_witness :
    (match localXML [⟨0, [114], [], []⟩, ⟨1, [112], [], []⟩, ⟨2, [98], [], []⟩, ⟨2, textType, [120, 121], []⟩]
        (.edit 1 3 [] 0) with
     | .ok (some x) => x == [60, 114, 62, 60, 112, 62, 60, 47, 112, 62, 60, 47, 114, 62]   -- <r><p></p></r>
     | _ => false) = true := by
  decide +kernel

/-- `c19-path-tombstone`: after deleting 'a' from `<r><p>ab</p></r>`, index 1 converts to a path that
    converts back to index 2 (`TreePosToPath` indexes the tombstone-filtered child list with the raw
    child offset) -/
theorem path_tombstone_witness :
    (match localCall (pTree [⟨0, [114], [], []⟩, ⟨1, [112], [], []⟩, ⟨2, textType, [97, 98], []⟩])
        (ChangeID.initial.setActor 1 |>.next |>.next) (.edit 1 2 [] 0) with
     | .ok (some (t, _)) =>
       (match t.indexToPath 1 with
        | .ok p => (match t.pathToIndex p with | .ok i => i == 2 | .error _ => false)
        | .error _ => false)
     | _ => false) = true := by
  decide +kernel

end Yorkie.Props.C19
