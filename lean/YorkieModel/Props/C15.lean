/-
C15 "Changes produced by undo and redo are synchronised like any other change: after all clients
have synced, every replica shows the same content as the client that performed the undo or redo,
including after garbage collection on the peers."

The property is FALSE on the pinned Go code (differential traces) in three independent ways; this
file states what does hold and exhibits each failure on the validated model (Model/Undo.lean) and
on the GC fragment (Model/UndoGc.lean):

  holds   `undo_op_is_ordinary`, `undo_ops_are_ordinary_partial`, `forward_ops_are_ordinary`,
          `undo_redo_lockstep_sync_partial`: on a peer that holds the SAME document, the change of
          an undo/redo whose operations all executed on the author produces the author's document
          (exactly the statement that holds for a forward edit); hence any program of edits, undos
          and redos of one author is reproduced by a peer that follows change by change;
  fails   (a) concurrent edits: `reuse_concurrent_remove_witness`,
          `reuse_concurrent_counter_witness` (identity reuse by the restoring `Set`);
          (b) skipped operations: `skipped_op_runs_on_peer_witness`;
          (c) garbage collection: `redo_gc_witness` (contrast `redo_no_gc_converges_example`),
          `remote_restore_gc_witness`.
Helpers and the witness histories are in Lemmas/UndoSync.lean.
-/
import YorkieModel.Lemmas.UndoSync
namespace Yorkie.Props.C15
open Yorkie Yorkie.Crdt Yorkie.Undo Yorkie.Undo.Gc Yorkie.Undo.Sync

/-- One operation: whatever executed on the author under `undoRedo` executes under `remote` on the
    same document with the same resulting document, independently of the twin bookkeeping. The
    only source dependence of the document part of `uexecute` is the skip rule. -/
theorem undo_op_is_ordinary (d d' : Doc) (tw tw' : Ticket → Bool) (op : UOp) (r : Option UOp)
    (h : uexecute d tw .undoRedo op = .ok (d', r)) :
    ∃ r', uexecute d tw' .remote op = .ok (d', r') :=
  ⟨none, uexecute_undoRedo_remote d tw tw' op d' r h⟩

/-- non-vacuity: the restoring `Set` of W1 executes on the author's document -/
example : ∃ d' r, uexecute W1.a2.doc W1.a2.tw .undoRedo
    (.set rootId "a" (pv "1" (tk 1 1 1)) (tk 3 1 1)) = .ok (d', r) := ⟨_, _, rfl⟩

/-- The change of an undo/redo on a peer with the same document, when nothing was skipped on the
    author: the peer ends with the author's document, hence shows the author's content.

    Missing relative to C15 (each part is false on the Go code, see the witnesses below):
    (a) peers that hold a DIFFERENT document because of concurrent edits. The restoring `Set`
        re-uses the identity of the element it restores, and neither `markRemoved` (compares with
        the CREATION ticket) nor `Increase` (addresses the identity) can tell the restored copy
        from the original, so the change does not commute with concurrent changes:
        `reuse_concurrent_remove_witness`, `reuse_concurrent_counter_witness`;
    (b) operations skipped on the author (`ErrOperationSkipped`) stay in the change and ARE
        executed by the peers: `skipped_op_runs_on_peer_witness` (hypothesis `noSkip`);
    (c) garbage collection on the peer: `redo_gc_witness`. -/
theorem undo_ops_are_ordinary_partial (h h' g : Hist) (isUndo : Bool) (ops : List UOp) (lam : Int)
    (hu : undoRedo h isUndo = (h', .change ops)) (hg : g.doc = h.doc)
    (hns : noSkip h ops = true) :
    (applyRemote g lam ops).doc = h'.doc ∧ visible (applyRemote g lam ops) = visible h' := by
  obtain ⟨hf, hdoc⟩ := undoRedo_change_run h h' isUndo ops hu
  have hd : (applyRemote g lam ops).doc = h'.doc := by
    rw [applyRemote_doc, hdoc]
    apply runOps_remote_doc .undoRedo (by decide) ops _ _ hg hf
    simpa [noSkip] using hns
  exact ⟨hd, by unfold visible; rw [hd]⟩

/-- non-vacuity of `undo_ops_are_ordinary_partial`: the undo of W1 on the author, a peer with the
    same document -/
example : ∃ h h' g ops, undoRedo h true = (h', Outcome.change ops) ∧ g.doc = h.doc ∧
    noSkip h ops = true ∧ visible (applyRemote g 3 ops) = "{\"a\":1}" :=
  ⟨W1.a2, W1.a3, { W1.a2 with actor := 2 }, W1.c3, rfl, rfl, by decide, by decide⟩

/-- "like any other change": the same statement for a forward edit (`Document.Update`), where no
    skip rule exists. -/
theorem forward_ops_are_ordinary (h g : Hist) (ops : List UOp) (lam : Int)
    (hok : (runOps .loc { doc := h.doc, tw := h.tw } ops).failed = false) (hg : g.doc = h.doc) :
    (applyRemote g lam ops).doc = (doChange h ops).doc ∧
    visible (applyRemote g lam ops) = visible (doChange h ops) := by
  have hd : (applyRemote g lam ops).doc = (doChange h ops).doc := by
    rw [applyRemote_doc, doChange_doc]
    apply runOps_remote_doc .loc (by decide) ops _ _ hg hok
    simpa using runOps_loc_all_executed ops { doc := h.doc, tw := h.tw } hok
  exact ⟨hd, by unfold visible; rw [hd]⟩

example : (runOps .loc { doc := W1.a1.doc, tw := W1.a1.tw } W1.c2).failed = false := by decide

/-- Sequential instance of C15: an author runs any program of edits, undos and redos, a peer
    starting from the same document applies every shipped change in order. If every step stayed in
    scope (no failed `Update`, no skipped operation in an undo/redo change) the peer shows the
    author's content at the end (and after every prefix, the statement being closed under
    prefixes). Missing: the same as in `undo_ops_are_ordinary_partial` - any concurrency (a), any
    skipped operation (b), GC (c). -/
theorem undo_redo_lockstep_sync_partial (h g : Hist) (acts : List Act) (hg : g.doc = h.doc)
    (hok : (lockstep (h, g, true) acts).2.2 = true) :
    visible (lockstep (h, g, true) acts).2.1 = visible (lockstep (h, g, true) acts).1 := by
  unfold visible
  rw [lockstep_doc acts h g true hg hok]

/-- non-vacuity: two edits followed by undo, undo, redo, undo, redo, redo stay in scope -/
example : (lockstep ({ actor := 1 }, { actor := 2 }, true)
    [.edit W1.c1, .edit W1.c2, .undo, .undo, .redo, .undo, .redo, .redo]).2.2 = true := by decide

example : visible (lockstep ({ actor := 1 }, { actor := 2 }, true)
    [.edit W1.c1, .edit W1.c2, .undo, .undo, .redo, .undo, .redo, .redo]).2.1 = "{\"a\":2}" := by
  decide

/-! the lock-step statement after EVERY prefix (added): the peer shows the author's content not only at the end
    but after each change on the way, as long as the whole program stays in scope -/

theorem lockstep_append (a b : List Act) : ∀ s : Hist × Hist × Bool,
    lockstep s (a ++ b) = lockstep (lockstep s a) b := by
  induction a with
  | nil => intro s; simp [lockstep]
  | cons x r ih => intro ⟨h, g, ok⟩; simp only [List.cons_append, lockstep]; exact ih _

/-- the scope flag is sticky: once a step left the scope the run is out of scope for good -/
theorem lockstep_flag_sticky (acts : List Act) : ∀ h g : Hist, (lockstep (h, g, false) acts).2.2 = false := by
  induction acts with
  | nil => intro h g; simp [lockstep]
  | cons a r ih => intro h g; simp only [lockstep, Bool.false_and]; exact ih _ _

theorem undo_redo_lockstep_every_prefix_partial (h g : Hist) (pre post : List Act) (hg : g.doc = h.doc)
    (hok : (lockstep (h, g, true) (pre ++ post)).2.2 = true) :
    visible (lockstep (h, g, true) pre).2.1 = visible (lockstep (h, g, true) pre).1 := by
  apply undo_redo_lockstep_sync_partial h g pre hg
  rw [lockstep_append] at hok
  cases hf : (lockstep (h, g, true) pre).2.2 with
  | true => rfl
  | false =>
    have e : lockstep (h, g, true) pre =
        ((lockstep (h, g, true) pre).1, (lockstep (h, g, true) pre).2.1, false) := by rw [← hf]
    rw [e, lockstep_flag_sticky] at hok
    cases hok

/-! ### (a) concurrency: identity reuse does not commute -/

/-- W1, remove vs restore. A: `a=1` (T1), synced; A: `a=2`; A: undo (re-Sets a copy of T1 under
    identity T1, executed at 3:1:1). Concurrently B removes `a` (target T1, at 3:1:2). Both replicas
    then apply everything. On A the remove arrives after the restore and tombstones the RESTORED
    element (the check is against the creation ticket T1); on B the restore arrives after the
    remove and re-creates T1 live. -/
theorem reuse_concurrent_remove_witness :
    visible W1.aF = "{}" ∧ visible W1.bF = "{\"a\":1}" ∧ visible W1.aF ≠ visible W1.bF := by
  decide

/-- the histories of W1 are what the text says: tickets follow the lamport clocks, the shipped undo
    is one `Set` carrying identity T1 with a fresh execution ticket -/
example : W1.a1.lamport = 1 ∧ W1.a2.lamport = 2 ∧ W1.a3.lamport = 3 ∧ W1.b1.lamport = 2 ∧
    W1.b2.lamport = 3 ∧ W1.c3.length = 1 ∧
    isSingleSet W1.c3 rootId "a" (tk 1 1 1) (tk 3 1 1) = true := by decide

/-- W2, counter. `c = Counter(0)` (T1) known to both. A increases twice. Concurrently B overwrites
    `c` with a new counter 6 and undoes (restores a snapshot of T1 with the value B knew, 0, under
    identity T1). After the exchange A shows the snapshot value (its increases were applied to the
    element the snapshot replaced), B shows snapshot + A's increases. -/
theorem reuse_concurrent_counter_witness :
    visible W2.aF = "{\"c\":0}" ∧ visible W2.bF = "{\"c\":2}" ∧ visible W2.aF ≠ visible W2.bF := by
  decide

example : W2.a3.lamport = 3 ∧ W2.b1.lamport = 2 ∧ W2.b2.lamport = 3 ∧ W2.b3.lamport = 4 ∧
    visible W2.a3 = "{\"c\":2}" ∧ visible W2.b2 = "{\"c\":6}" ∧ visible W2.b3 = "{\"c\":0}" ∧
    isSingleSet W2.c5 rootId "c" (tk 1 1 1) (tk 4 1 2) = true := by decide

/-! ### (b) skipped operations are shipped and executed by peers -/

/-- W3. A: `o = {}`, synced; A (one change): `o.x = 1`, `y = 2`; B concurrently removes `o`; A
    applies the remove and undoes its change: the entry is [remove y, remove o.x]; on A the second
    operation is SKIPPED (its parent `o` was removed), but the shipped change contains both and the
    peer B, which has applied every change, EXECUTES it: `o.x` is tombstoned on B and live on A.
    In this history the difference stays below the removed `o` (both show `{}`); it is a
    difference of the replicated state, not yet of the visible content. -/
theorem skipped_op_runs_on_peer_witness :
    W3.c4.length = 2 ∧
    (runOps .undoRedo { doc := W3.a3.doc, tw := W3.a3.tw } W3.c4).executed.length = 1 ∧
    noSkip W3.a3 W3.c4 = false ∧
    (runOps .remote { doc := (applyRemote W3.b2 2 W3.c2).doc, tw := W3.b2.tw } W3.c4).executed.length = 2 ∧
    (W3.a4.doc W3.x).map (·.removed) = some false ∧
    (W3.bF.doc W3.x).map (·.removed) = some true ∧
    visible W3.a4 = "{}" ∧ visible W3.bF = "{}" := by
  decide

/-! ### (c) garbage collection -/

/-- W4, the upstream-documented history. A: `n = 1` (T1); undo (remove T1 at 2:1:1); redo (Set of a
    copy of T1 under T1 at 3:1:1). B applies the three changes with source `remote`. Both purge
    with a version vector that covers the removal. A dropped the registry entry of T1 on redo
    (`DeregisterElement` under `OpSourceUndoRedo`) and keeps `n`; B still holds the entry, and the
    purge unlinks the node found by creation ticket T1 - the live restored one.

    Covered by the fragment (Model/UndoGc.lean): object parents, leaf values, the element registry
    `gcElementPairMap` with `Set` / `Remove` registration, source-gated deregistration, purge by
    creation ticket. Not covered: arrays, text/tree node registries, restored values with content. -/
theorem redo_gc_witness (vv : VV) (hcov : vv.equalToOrAfter (tk 2 1 1) = true) :
    gvisible (gpurge W4.a3 vv) = "{\"n\":1}" ∧ gvisible (gpurge W4.b3 vv) = "{}" := by
  have ha : W4.a3.gc = [] := by decide
  have hb : W4.b3.gc = [⟨tk 1 1 1, rootId, tk 2 1 1⟩] := by decide
  constructor
  · unfold gpurge purge
    rw [ha]
    simp only [List.filter, List.foldl]
    decide
  · unfold gpurge purge
    rw [hb]
    simp only [List.filter, hcov, List.foldl]
    decide

/-- repaired `deregisterElement` (instance check): the peer's purge unlinks the live restored node
    from its parent but keeps its element-map entry -/
example : ((gpurge W4.b3 [(1, 3), (2, 0)]).h.doc W4.n).isSome = true ∧
    (gpurge W4.b3 [(1, 3), (2, 0)]).gc = [] := by decide

/-- non-vacuity: the minimum version vector after both clients synced -/
example : VV.equalToOrAfter [(1, 3), (2, 0)] (tk 2 1 1) = true := by decide

/-- the registries and the shipped changes of W4 -/
example : W4.a2.gc = [⟨tk 1 1 1, rootId, tk 2 1 1⟩] ∧ W4.a3.gc = [] ∧
    W4.b3.gc = [⟨tk 1 1 1, rootId, tk 2 1 1⟩] ∧
    isSingleRemove W4.c2 rootId (tk 1 1 1) (tk 2 1 1) = true ∧
    isSingleSet W4.c3 rootId "n" (tk 1 1 1) (tk 3 1 1) = true := by decide

/-- the gate is the cause: had B deregistered the re-used identity as A did (upstream fix
    direction 1), the purge would keep `n` -/
example : gvisible (gpurge { W4.b3 with gc := dereg W4.b3.h.doc W4.b3.gc W4.n } [(1, 3), (2, 0)])
    = "{\"n\":1}" := by decide

/-- contrast: without the purge both replicas show the redone value -/
theorem redo_no_gc_converges_example :
    gvisible W4.a3 = "{\"n\":1}" ∧ gvisible W4.b3 = "{\"n\":1}" := by decide

/-- contrast: the undo alone (a plain removal) survives GC on both sides -/
example : gvisible (gpurge W4.a2 [(1, 2), (2, 0)]) = "{}" ∧
    gvisible (gpurge (gapplyRemote (gapplyRemote { h := { actor := 2 } } 1 W4.c1) 2 W4.c2) [(1, 2), (2, 0)]) = "{}" := by
  decide

/-- W5, the same defect without any redo and on a replica that edits itself. A: `a=1` (T1), synced,
    `a=2`, undo (T1 restored). B concurrently: `a=3`, undo (a copy of T1 under T1). A applies B's two
    changes from one pack: the first tombstones A's restored T1 and registers it, the second
    restores T1 again with source `remote` and leaves the entry. A shows the content of the
    undoing client B until the GC pass of that very pack (vector `{1:1, 2:4}`) unlinks the live
    key. Reproduced on the Go code (`{"a":1}` with GC disabled, `{}` with GC). -/
theorem remote_restore_gc_witness :
    gvisible W5.b3 = "{\"a\":1}" ∧ gvisible W5.aF = "{\"a\":1}" ∧
    gvisible (gpurge W5.aF W5.vv) = "{}" := by decide

example : isSingleSet W5.c5 rootId "a" (tk 1 1 1) (tk 4 1 2) = true ∧ W5.b3.h.lamport = 4 := by
  decide

end Yorkie.Props.C15
