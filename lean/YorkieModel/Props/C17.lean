/-
C17  A watcher is told about every change made after it subscribed.

Property theorems only (the transition system is Model/PubSub.lean, the invariants and their
preservation proofs are Lemmas/PubSub.lean, Lemmas/PubSubDeliv.lean and Lemmas/PubSubStrong.lean).  Every theorem
quantifies over `Reachable s`: any number of Subscribe / Unsubscribe / Publish calls, process
loops, watchers and any interleaving of their critical sections on one document key.

What is *not* provable here and stays partial: "within bounded time".  The model proves "by the
end of the next flush"; that the flush starts within 100 ms (ticker) and that a send gives up
after 100 ms (publishTimeout) are wall-clock facts outside the model.
-/
import YorkieModel.Lemmas.PubSubStrong
namespace Yorkie.Props.C17
open Yorkie Yorkie.PubSub

/-! ## channel discipline -/

/-- A send on, or a close of, a subscription's Go channel only ever happens while the channel is
open: `closed` (guarded by `Subscription.mu`) is an exact image of the channel state, so neither
"send on closed channel" nor "close of closed channel" can be raised by `Subscription.Publish`,
`Subscription.Close`, the self-prune, `Subscriptions.Delete`, for any interleaving. -/
theorem no_send_on_closed {s : State} (h : Reachable s) :
    s.panicSub = false ∧ ∀ i, (s.subs i).chanClosed = (s.subs i).closed :=
  (reachable_allInv h).chan

/-- `BatchPublisher.Close` (`close(bp.closeChan)`, unguarded in the Go code) is never executed
twice on the same publisher. -/
theorem no_double_close {s : State} (h : Reachable s) : s.panicPub = false :=
  (reachable_allInv h).inv.noPanicPub

/-- (P1) the `Subscriptions` object stored in the map is exactly the one object that is not closed;
every closed object has no members and only the stored object can have members. -/
theorem map_entry_iff_open {s : State} (h : Reachable s) (o : Nat) (ho : o < s.nObjs) :
    (s.entry = some o ↔ (s.objs o).closed = false) ∧
    ((s.objs o).closed = true → (s.objs o).members = []) := by
  have hi := (reachable_allInv h).inv
  refine ⟨⟨fun he => (hi.entryOpen o he).2, fun hc => ?_⟩, hi.closedEmpty o⟩
  cases he : decide (s.entry = some o) with
  | true => exact of_decide_eq_true he
  | false =>
    have := hi.otherClosed o ho (of_decide_eq_false he)
    simp [hc] at this

/-- the process loop takes the `closeChan` branch only after `closeChan` was closed -/
theorem final_flush_only_after_close {s : State} (h : Reachable s) (o : Nat)
    (hf : (s.objs o).loop.final = true) : (s.objs o).closed = true :=
  (reachable_allInv h).fin.closed o hf

/-- after a subscription is closed (first step of Unsubscribe, or self-prune) its buffer never
grows: the watcher can at most drain what was already buffered -/
theorem closed_receives_nothing {s : State} (l : Label) (i : Nat) (hi : i < s.nSubs)
    (hc : (s.subs i).closed = true) :
    ((step s l).subs i).closed = true ∧
    ((step s l).subs i).buffer.length ≤ (s.subs i).buffer.length := by
  have htr := stepCore_tr s l
  show ((stepCore s l).subs i).closed = true ∧ ((stepCore s l).subs i).buffer.length ≤ _
  generalize stepCore s l = s' at htr
  cases htr <;> try exact ⟨hc, Nat.le_refl _⟩
  all_goals st_norm
  all_goals grind [Sub.close_closed, Sub.close_buffer, Sub.publish_closed_mono, Sub.publish_closed_buffer]

/-! ## delivery -/

/-- number of `publish()` runs of a `Subscriptions` object that have run to completion -/
def completedFlushes (b : Subs) : Nat :=
  match b.loop with
  | .wait | .take _ | .exited => b.takes
  | _ => b.takes - 1

/-- A Publish call is routed to the object that holds every still-open subscription that existed
when the call began (the pointer obtained by `docSubsMap.Get` cannot be stale for them). -/
theorem publish_routed_to_home {s : State} (h : Reachable s) {k : Nat} {e : Event}
    {n0 enqAt enqTake : Nat} {tgt : Option Nat}
    (hop : s.ops k = .publish e n0 enqAt enqTake (.done tgt))
    {i : Nat} (hi : i < n0) (hopen : (s.subs i).closed = false) :
    tgt = some (s.subs i).home :=
  (reachable_allInv h).pub.done k e n0 enqAt enqTake tgt hop i hi hopen

/-- **notification_after_change.**
Let `Publish e` be a finished call (`pc = done`) that began when `n0` subscriptions existed, let
`i < n0` (the Upsert of `Subscribe i` completed before `Publish e` began) be a subscription of
another client (`owner ≠ e.actor`: the Filter never sends a client its own event).  `enqAt` is
the step at which `e` was offered to the batch, `enqTake` the number of batches the publisher of
`i`'s `Subscriptions` object had taken until then.  As soon as that object has *completed* one
more flush (`enqTake < completedFlushes`, "after the next flush"),

* `i` is closed (its watcher sees the closed channel: Unsubscribe began, or it was self-pruned
  after `maxFailures` consecutive timeouts), or
* `i`'s buffer holds a notification that the watcher has not received yet (and will therefore
  receive *after* the change), or
* the watcher has received a notification after `e` was offered.

No hypothesis "Unsubscribe has not begun" is needed: Unsubscribe's first step closes `i`.

This is the precise statement that is true of the code; it is weaker than "receives the event"
in two ways, both consequences of the design (one-slot buffer + 100 ms send timeout + dedup):
the pending/received notification need not be `e` itself and need not even be a `DocChanged`
event – see `change_notification_witness`. -/
theorem notification_after_change {s : State} (h : Reachable s) {k : Nat} {e : Event}
    {n0 enqAt enqTake : Nat} {tgt : Option Nat}
    (hop : s.ops k = .publish e n0 enqAt enqTake (.done tgt))
    {i : Nat} (hi : i < n0) (hown : (s.subs i).owner ≠ e.actor)
    (hflush : enqTake < completedFlushes (s.objs (s.subs i).home)) :
    (s.subs i).closed = true ∨ (s.subs i).buffer ≠ [] ∨ enqAt < (s.subs i).lastConsume := by
  rcases (reachable_allInv h).deliv k e n0 enqAt enqTake tgt hop i hi hown with hT | hP
  · exact hT
  · exfalso
    unfold completedFlushes at hflush
    rcases hP with ⟨ha, _⟩ | ⟨ha, hb⟩
    · split at hflush <;> omega
    · split at hflush
      all_goals first
        | omega
        | (rename_i hl; simp [hl, Loop.mid] at hb)

/-- Until that flush has completed the notification is demonstrably on its way: it waits in the
batch the next take will pick up, or the running flush still has `i` ahead of it. -/
theorem notification_pending_until_flush {s : State} (h : Reachable s) {k : Nat} {e : Event}
    {n0 enqAt enqTake : Nat} {tgt : Option Nat}
    (hop : s.ops k = .publish e n0 enqAt enqTake (.done tgt))
    {i : Nat} (hi : i < n0) (hown : (s.subs i).owner ≠ e.actor) :
    Told s i enqAt ∨ Pending s i enqTake :=
  (reachable_allInv h).deliv k e n0 enqAt enqTake tgt hop i hi hown

/-! ### the stronger reading fails for a watcher stalled across one publish timeout

Full statement (FALSE of the code, kept for the record):
  under the hypotheses of `notification_after_change`, with `e.changed = true`,
  `closed ∨ (∃ x ∈ buffer, x.changed) ∨ the watcher received a DocChanged event after enqAt`. -/

def ev (n a : Nat) (c : Bool) : Event := { eid := n, actor := a, changed := c }

/-- watcher 0 (client 1) subscribes; client 9's `DocWatched` event 1 is flushed into its one-slot
buffer and not received; client 9's `DocChanged` event 2 is flushed: the send times out
(`failures = 1 < maxFailures`) and the change notification is dropped. -/
def stalledRun : List Label :=
  [.startSub 1 0 100, .op 0, .op 0, .op 0,
   .startPub (ev 1 9 false), .op 1, .op 1,
   .tick 0, .loop 0 0, .loop 0 0, .loop 0 0, .loop 0 0,
   .startPub (ev 2 9 true), .op 2, .op 2,
   .tick 0, .loop 0 0, .loop 0 0, .loop 0 0, .loop 0 0, .loop 0 0]

theorem change_notification_witness :
    let s := run stalledRun
    Reachable s ∧
    s.ops 2 = .publish (ev 2 9 true) 1 15 1 (.done (some 0)) ∧
    (s.subs 0).owner ≠ (ev 2 9 true).actor ∧
    1 < completedFlushes (s.objs (s.subs 0).home) ∧
    (s.subs 0).closed = false ∧
    (s.subs 0).buffer = [ev 1 9 false] ∧          -- only the older non-change event is pending
    (s.subs 0).lastConsume = 0 ∧                   -- nothing was received
    (s.objs 0).batch = [] ∧ (s.objs 0).loop = .wait := by  -- and nothing more is on its way
  refine ⟨Reachable.run _, ?_⟩
  decide

/-- two watchers, a change by a third client, one flush: both hold the notification -/
def happyRun : List Label :=
  [.startSub 1 0 100, .op 0, .op 0, .op 0,
   .startSub 2 0 100, .op 1, .op 1, .op 1,
   .startPub (ev 7 9 true), .op 2, .op 2,
   .tick 0, .loop 0 0, .loop 0 1, .loop 0 0, .loop 0 0, .loop 0 0, .loop 0 0]

/-- **change_notification_partial.**  The strong reading holds under the explicit side condition
that no send to `i` timed out after `e` was offered (`lastDrop ≤ enqAt`, decidable on the state:
the watcher was not stalled across a 100 ms publish timeout): for a `DocChanged` event `e`, once
the next flush of `i`'s object has completed, `i` is closed, or a `DocChanged` notification is
waiting in its buffer, or a `DocChanged` notification that was put into the buffer after `e` was
offered (`enqAt < lastChanged`) has been received by the watcher (`lastChanged ≤ lastConsume`).
Because of the dedup the notification is `e` itself or one of the two `DocChanged` events of the
same actor that were already waiting in the batch and are flushed together with it. -/
theorem change_notification_partial {s : State} (h : Reachable s) {k : Nat} {e : Event}
    {n0 enqAt enqTake : Nat} {tgt : Option Nat}
    (hop : s.ops k = .publish e n0 enqAt enqTake (.done tgt)) (hch : e.changed = true)
    {i : Nat} (hi : i < n0) (hown : (s.subs i).owner ≠ e.actor)
    (hflush : enqTake < completedFlushes (s.objs (s.subs i).home))
    (hnodrop : (s.subs i).lastDrop ≤ enqAt) :
    (s.subs i).closed = true ∨ (∃ x, x ∈ (s.subs i).buffer ∧ x.changed = true) ∨
    (enqAt < (s.subs i).lastChanged ∧ (s.subs i).lastChanged ≤ (s.subs i).lastConsume) := by
  have hS := reachable_strongInv h
  rcases hS.delivC k e n0 enqAt enqTake tgt hop hch i hi hown with hT | hP
  · rcases hT with h1 | h1 | h1
    · left; exact h1
    · omega
    · by_cases hlc : (s.subs i).lastConsume < (s.subs i).lastChanged
      · right; left; exact (hS.buf i).2 hlc
      · right; right; exact ⟨h1, by omega⟩
  · exfalso
    unfold completedFlushes at hflush
    rcases hP with ⟨ha, _⟩ | ⟨ha, hb⟩
    · split at hflush <;> omega
    · split at hflush
      all_goals first
        | omega
        | (rename_i hl; simp [hl, Loop.midC] at hb)

/-- the side condition is met by a non-trivial state (two watchers, one flush, no timeout) and
fails in `stalledRun` (`lastDrop = 20 > enqAt = 15`) -/
example :
    ((run happyRun).subs 1).lastDrop ≤ 11 ∧ ((run happyRun).subs 1).lastChanged = 16 ∧
    ((run stalledRun).subs 0).lastDrop = 20 := by decide

/-! ## enqueues into a dead publisher -/

/-- Full statement (FALSE of the code): "every event enqueued into a `Subscriptions` object is
flushed".  Witness: `Publish` obtains the pointer, the only member unsubscribes (object closed
and removed, final flush, loop returns), then the enqueue lands in the dead publisher. -/
def strandedRun : List Label :=
  [.startSub 1 0 100, .op 0, .op 0, .op 0,
   .startPub (ev 1 9 true), .op 1,                    -- Publish: map Get returned object 0
   .startUnsub 0, .op 2, .op 2, .op 2, .op 2,         -- Unsubscribe: close, get, delete, map delete (+close)
   .wake 0, .loop 0 0, .loop 0 0,                     -- final flush, loop exits
   .op 1]                                             -- enqueue into the dead publisher

theorem no_lost_enqueue_witness :
    let s := run strandedRun
    Reachable s ∧ (s.objs 0).loop = .exited ∧ (s.objs 0).batch = [ev 1 9 true] ∧
    s.entry = none ∧ (s.subs 0).closed = true := by
  refine ⟨Reachable.run _, ?_⟩
  decide

/-- (P4) What is true instead: once the final flush has taken the batch, everything found in the
batch was enqueued after `closeChan` had been closed; an enqueue into an open publisher is always
taken by a later flush (at the latest by the final one). -/
theorem no_lost_enqueue_partial {s : State} (h : Reachable s) (o : Nat)
    (hp : (s.objs o).loop.pastFinalTake = true) :
    (s.objs o).batch.length ≤ (s.objs o).lateEnq ∧
    (0 < (s.objs o).lateEnq → (s.objs o).closed = true) :=
  ⟨(reachable_allInv h).fin.late o hp, (reachable_allInv h).fin.lateClosed o⟩

/-- … and such a late enqueue can never concern a watcher of the property: if the object a
Publish call is about to enqueue into is closed, every subscription that existed when the call
began is closed (so the interleaving of `no_lost_enqueue_witness` cannot meet the precondition of
the delivery clause). -/
theorem late_enqueue_has_no_watcher {s : State} (h : Reachable s) {k : Nat} {e : Event}
    {n0 a t p : Nat} (hop : s.ops k = .publish e n0 a t (.enqueue p))
    (hc : (s.objs p).closed = true) {i : Nat} (hi : i < n0) : (s.subs i).closed = true := by
  have hA := reachable_allInv h
  cases hcl : (s.subs i).closed with
  | true => rfl
  | false =>
    have hhome := hA.pub.enq k e n0 a t p hop i hi hcl
    have hlt : i < s.nSubs := Nat.lt_of_lt_of_le hi (hA.pub.range k e n0 a t _ hop)
    have hm := hA.inv.openMember i hlt hcl
    rw [hhome, hA.inv.closedEmpty p hc] at hm
    simp at hm

/-! ## no leak -/

/-- When every subscription ever created has a finished Unsubscribe call, the map entry is gone,
every `Subscriptions` object ever created is closed and has no members. (No quiescence of other
calls is needed.) -/
theorem no_leak {s : State} (h : Reachable s)
    (hall : ∀ sid, sid < s.nSubs → ∃ k, s.ops k = .unsubscribe sid .done) :
    s.entry = none ∧ ∀ o, o < s.nObjs → (s.objs o).closed = true ∧ (s.objs o).members = [] := by
  have hA := reachable_allInv h
  have he : s.entry = none := by
    cases he : s.entry with
    | none => rfl
    | some o =>
      obtain ⟨sid, h1, _, h3⟩ := hA.owner o he
      obtain ⟨k, hk⟩ := hall sid h1
      exact absurd hk (h3 k)
  refine ⟨he, fun o ho => ?_⟩
  have hc := hA.inv.otherClosed o ho (by simp [he])
  exact ⟨hc, hA.inv.closedEmpty o hc⟩

/-- a subscription is a member of some object only while it is open or being reaped:
once an Unsubscribe call for it is past its `Delete`, it is a member of no object -/
theorem unsubscribed_not_member {s : State} (h : Reachable s) {k sid : Nat}
    (hop : s.ops k = .unsubscribe sid .done) (o : Nat) : sid ∉ (s.objs o).members :=
  (reachable_allInv h).inv.unsubGone k sid (Or.inr hop) o

/-! ## non-vacuity -/

/-- the hypotheses of `notification_after_change` are met by a non-trivial state, and its
conclusion holds through the informative disjunct (a pending notification) -/
example :
    let s := run happyRun
    s.ops 2 = .publish (ev 7 9 true) 2 11 0 (.done (some 0)) ∧
    (s.subs 1).owner ≠ (ev 7 9 true).actor ∧
    0 < completedFlushes (s.objs (s.subs 1).home) ∧
    (s.subs 0).closed = false ∧ (s.subs 0).buffer = [ev 7 9 true] ∧
    (s.subs 1).closed = false ∧ (s.subs 1).buffer = [ev 7 9 true] := by
  decide

/-- the hypothesis of `no_leak` is met by a run that created two objects and three subscriptions -/
def churnRun : List Label :=
  [.startSub 1 0 100, .op 0, .op 0, .op 0,
   .startSub 2 0 100, .op 1, .op 1, .op 1,
   .startUnsub 0, .op 2, .op 2, .op 2, .op 2,
   .startUnsub 1, .op 3, .op 3, .op 3, .op 3,
   .startSub 3 0 100, .op 4, .op 4, .op 4,
   .startUnsub 2, .op 5, .op 5, .op 5, .op 5]

example :
    let s := run churnRun
    s.nSubs = 3 ∧ s.nObjs = 2 ∧
    (∀ sid, sid < s.nSubs → ∃ k, k < 6 ∧ s.ops k = .unsubscribe sid .done) ∧
    s.entry = none ∧ (s.objs 0).closed = true ∧ (s.objs 1).closed = true := by
  decide

/-- the limit test rejects the second subscriber (`done none` = ErrTooManySubscribers) -/
example : (run [.startSub 1 1 100, .op 0, .startSub 2 1 100, .op 1]).ops 1 =
    .subscribe 2 1 100 (.done none) := by decide

/-! ### the batch dedup (`OnEnqueue`) collapses, it never silences (added) -/

/-- an enqueue only ever appends: what is in the batch stays, in place -/
theorem enqueue_prefix (batch : List Event) (e : Event) : batch <+: enqueue batch e := by
  unfold enqueue; split
  · exact List.prefix_refl _
  · exact List.prefix_append _ _

/-- an event that is not a `DocChanged` is never dropped -/
theorem enqueue_keeps_other_kinds (batch : List Event) (e : Event) (h : e.changed = false) :
    enqueue batch e = batch ++ [e] := by
  simp [enqueue, h]

/-- a `DocChanged` is dropped only when the batch already holds TWO `DocChanged` of the same actor -/
theorem enqueue_drop_iff (batch : List Event) (e : Event) :
    enqueue batch e = batch ↔ (e.changed = true ∧ 2 ≤ dedupCount batch e.actor) := by
  unfold enqueue
  constructor
  · intro h
    split at h
    · rename_i hc; simpa using hc
    · exact absurd h (by simp)
  · intro ⟨h1, h2⟩
    simp [h1, h2]

/-- after ANY sequence of enqueues between two flushes, every actor that published a `DocChanged` is still
    represented by a `DocChanged` of that actor in the batch: watchers may see fewer "changed" events than were
    published, never none -/
theorem dedup_never_silences (es : List Event) (batch : List Event) (e : Event)
    (he : e ∈ es) (hc : e.changed = true) :
    ∃ e' ∈ es.foldl enqueue batch, e'.changed = true ∧ e'.actor = e.actor := by
  induction es generalizing batch with
  | nil => cases he
  | cons x rest ih =>
    simp only [List.foldl_cons]
    have hmono : ∀ (l : List Event) (b : List Event) (y : Event), y ∈ b → y ∈ l.foldl enqueue b := by
      intro l
      induction l with
      | nil => intro b y hy; exact hy
      | cons z l ih2 =>
        intro b y hy
        simp only [List.foldl_cons]
        exact ih2 _ y ((enqueue_prefix b z).subset hy)
    rcases List.mem_cons.mp he with rfl | hr
    · by_cases hd : 2 ≤ dedupCount batch e.actor
      · -- dropped: two of that actor are already there
        have hpos : 0 < (batch.filter (fun x => x.changed && x.actor == e.actor)).length := by
          unfold dedupCount at hd; omega
        obtain ⟨y, hy⟩ := List.exists_mem_of_length_pos hpos
        have hy' := List.mem_filter.mp hy
        have hyc : y.changed = true ∧ y.actor = e.actor := by simpa using hy'.2
        exact ⟨y, hmono rest _ y ((enqueue_prefix batch e).subset hy'.1), hyc.1, hyc.2⟩
      · have : enqueue batch e = batch ++ [e] := by
          unfold enqueue; simp [hc]; omega
        exact ⟨e, hmono rest _ e (by rw [this]; simp), hc, rfl⟩
    · exact ih (enqueue batch x) hr

/-- … and no actor is ever represented by more than two `DocChanged` in a batch that started within the bound -/
theorem dedup_bound (es : List Event) (batch : List Event) (a : Nat) (h : dedupCount batch a ≤ 2) :
    dedupCount (es.foldl enqueue batch) a ≤ 2 := by
  induction es generalizing batch with
  | nil => exact h
  | cons x rest ih =>
    simp only [List.foldl_cons]
    apply ih
    unfold enqueue
    split
    · exact h
    · rename_i hn
      unfold dedupCount at h hn ⊢
      rw [List.filter_append, List.length_append]
      by_cases hx : (x.changed && x.actor == a) = true
      · have hxa : x.changed = true ∧ x.actor = a := by simpa using hx
        simp only [hxa.1, Bool.true_and, decide_eq_true_eq, hxa.2] at hn
        simp [List.filter_cons, hx]; omega
      · simp [List.filter_cons, hx]; omega

/-- dedup: the third `DocChanged` of the same actor in one batch is dropped, other kinds are not -/
example : enqueue [ev 1 9 true, ev 2 9 true] (ev 3 9 true) = [ev 1 9 true, ev 2 9 true] ∧
    enqueue [ev 1 9 true, ev 2 9 true] (ev 3 9 false) = [ev 1 9 true, ev 2 9 true, ev 3 9 false] ∧
    enqueue [ev 1 9 true, ev 2 9 true] (ev 3 8 true) = [ev 1 9 true, ev 2 9 true, ev 3 8 true] := by
  decide

/-- self-prune: with `maxFailures = 1` the first timeout closes the subscription and the same
flush reaps it (the object stays in the map, empty, until its owner unsubscribes) -/
example :
    let s := run [.startSub 1 0 1, .op 0, .op 0, .op 0,
      .startPub (ev 1 9 true), .op 1, .op 1, .startPub (ev 2 9 false), .op 2, .op 2,
      .tick 0, .loop 0 0, .loop 0 0, .loop 0 0, .loop 0 0, .loop 0 0, .loop 0 0, .loop 0 0]
    (s.subs 0).closed = true ∧ (s.subs 0).buffer = [ev 1 9 true] ∧ (s.objs 0).members = [] ∧
    s.entry = some 0 ∧ (s.objs 0).loop = .wait := by
  decide

end Yorkie.Props.C17
