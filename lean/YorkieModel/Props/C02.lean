/-
C02 "Catching up by snapshot equals catching up by replaying changes" (objects, arrays incl. move/set,
counters).  Model: Model/FDoc.lean; `norm perm = BytesToSnapshot ∘ SnapshotToBytes` + `NewRoot` at struct level,
`perm` = the order in which `toRHTNodes` walked its Go maps; `deepCopy = Root.DeepCopy`.

FULL STATEMENT (false of the code; kept here, never weakened silently):
  for every reachable root r, every node order perm and every continuation σ:
  `marshal (norm perm r) = marshal r`, `garbageLen (norm perm r) = garbageLen r`, σ behaves alike on both;
  server rebuild from a stored snapshot state plus the log suffix equals the full fold.
What IS proved (unbounded roots, every node order):
  * `norm_marshal_fixed_partial` (the current tree, repair (a) in): under the decidable `SnapSafe true` –
    whose only non-sanity clause is "no live LWW loser" – snapshot round trip and deep copy preserve `Marshal()`
    and every visible member / element list;
  * `norm_marshal_partial` (the tree before repair (a)): the same under `SnapSafe false`, which additionally
    excludes "an element sits behind its own dead original slot";
  * `rebuild_eq_fold`;
  * negation witnesses: `snapshot_lww_loser_witness` (open defect), `snapshot_array_add_anchor_witness`
    (repaired defect, stated for the pre-repair flag value) and `snapshot_garbage_len_witness` (the
    `garbageLen` clause fails even under `SnapSafe`: `ArraySet` registers nothing for the replaced element,
    `NewRoot` registers it after a round trip).
  Not proved: the `garbageLen` clause (false, see witness), bisimulation under later operations (exercised by
  the engine: edits continue on snapshot-fed replicas).
-/
import YorkieModel.Lemmas.FDocWitness
import YorkieModel.Lemmas.FDocSnap
namespace Yorkie.Props.C02
open Yorkie Yorkie.FDoc Yorkie.FDoc.Witness Yorkie.Crdt

/-! ### the round trip preserves what users see -/

/-- current tree (`addAnchorsOnPosition = true`): for EVERY order `perm` in which the encoder walks its maps,
    decode ∘ encode (+ `NewRoot`) preserves `Marshal()` and the visible element list of every array and member
    list of every object, provided `SnapSafe true r` (sanity + "no live LWW loser"). -/
theorem norm_marshal_fixed_partial {r : Root} {perm : List Ticket} (hp : perm.Nodup) (hs : SnapSafe true r) :
    marshal (norm perm r) = marshal r ∧ ∀ t, view (norm perm r) t = view r t :=
  ⟨marshal_of_view (view_normP hp hs), view_normP hp hs⟩

/-- current tree: `Root.DeepCopy` (clone creation, cached server rebuild hand-out) under the same condition. -/
theorem deepCopy_marshal_fixed_partial {r : Root} (hs : SnapSafe true r) :
    marshal (deepCopy r) = marshal r ∧ ∀ t, view (deepCopy r) t = view r t :=
  ⟨marshal_of_view (view_deepCopyP hs), view_deepCopyP hs⟩

/-- the tree before repair (a) (`onPos = false`): `SnapSafe false` additionally excludes the `Add`-anchor
    defect (no element behind a slot that carries its identity as position identity). -/
theorem norm_marshal_partial {r : Root} {perm : List Ticket} (hp : perm.Nodup) (hs : SnapSafe false r) :
    marshal (normP false perm r) = marshal r ∧ marshal (deepCopyP false r) = marshal r :=
  ⟨marshal_of_view (view_normP hp hs), marshal_of_view (view_deepCopyP hs)⟩

/-- server rebuild from a stored snapshot state plus the log suffix = full fold: running `l₁ ++ l₂` is running
    `l₂` from the state `l₁` produced (the stored snapshot's decoded state is that state up to `norm`, which
    `norm_marshal_fixed_partial` covers). -/
theorem rebuild_eq_fold (gcOn : Bool) : ∀ (l₁ l₂ : List Step) (r s : Root), run gcOn l₁ r = .ok s →
    run gcOn (l₁ ++ l₂) r = run gcOn l₂ s := by
  intro l₁
  induction l₁ with
  | nil => intro l₂ r s h; simp only [run] at h; injection h with h; subst h; rfl
  | cons a rest ih =>
    intro l₂ r s h
    simp only [run, List.cons_append] at h ⊢
    cases hs : runStep gcOn r a with
    | error e => simp [hs] at h
    | ok r1 =>
      simp only [hs] at h ⊢
      exact ih l₂ r1 s h

/-- a failing prefix fails the whole fold alike -/
theorem rebuild_eq_fold_error (gcOn : Bool) : ∀ (l₁ l₂ : List Step) (r : Root) (e : Err), run gcOn l₁ r = .error e →
    run gcOn (l₁ ++ l₂) r = .error e := by
  intro l₁
  induction l₁ with
  | nil => intro l₂ r e h; simp [run] at h
  | cons a rest ih =>
    intro l₂ r e h
    simp only [run, List.cons_append] at h ⊢
    cases hs : runStep gcOn r a with
    | error e' => simp only [hs] at h ⊢; exact h
    | ok r1 =>
      simp only [hs] at h ⊢
      exact ih l₂ r1 e h


/-- the server stores a snapshot every `SnapshotInterval` changes, again and again: rebuilding segment by
    segment (each segment started from the state the previous one produced) -/
def runSegs (gcOn : Bool) : List (List Step) → Root → Except Err Root
  | [], r => .ok r
  | l :: ls, r => match run gcOn l r with
    | .ok s => runSegs gcOn ls s
    | .error e => .error e

/-- `rebuild_eq_fold` under repetition: however the log is cut into snapshot segments (any number of cuts, any
    segment lengths, empty segments included), rebuilding segment by segment is the full fold – success and
    error alike. -/
theorem rebuild_segments_eq_fold (gcOn : Bool) : ∀ (ls : List (List Step)) (r : Root),
    runSegs gcOn ls r = run gcOn ls.flatten r := by
  intro ls
  induction ls with
  | nil => intro r; simp [runSegs, run]
  | cons l rest ih =>
    intro r
    simp only [runSegs, List.flatten_cons]
    cases h : run gcOn l r with
    | ok s => simp only []; rw [rebuild_eq_fold gcOn l rest.flatten r s h]; exact ih s
    | error e => simp only []; rw [rebuild_eq_fold_error gcOn l rest.flatten r e h]

/-- where the cuts fall does not matter: two segmentations of the same log rebuild the same root -/
theorem rebuild_cut_independent (gcOn : Bool) (ls₁ ls₂ : List (List Step)) (r : Root)
    (h : ls₁.flatten = ls₂.flatten) : runSegs gcOn ls₁ r = runSegs gcOn ls₂ r := by
  rw [rebuild_segments_eq_fold, rebuild_segments_eq_fold, h]

example : runSegs false [arrayAddAnchor.take 2, [], arrayAddAnchor.drop 2] Root.init = run false arrayAddAnchor Root.init :=
  rebuild_cut_independent false _ [arrayAddAnchor] _ (by simp)

/-! ### negation witnesses (by kernel evaluation) -/

/-- REPAIRED in /repo 13fe0442 (kept as documentation of the defect, stated for `onPos = false`):
    `RGATreeList.Add` anchored on the last node's ELEMENT identity: snapshot decode and `DeepCopy`
    rebuilt `[z, y, x]` from `[y, x, z]`. -/
theorem snapshot_array_add_anchor_witness :
    contentOf (run false arrayAddAnchor Root.init) arr = some [⟨3, 1, 1⟩, ⟨2, 1, 1⟩, ⟨5, 1, 1⟩] ∧
    contentOf (mapOk (run false arrayAddAnchor Root.init) (normP false [])) arr = some [⟨5, 1, 1⟩, ⟨3, 1, 1⟩, ⟨2, 1, 1⟩] ∧
    contentOf (mapOk (run false arrayAddAnchor Root.init) (deepCopyP false)) arr = some [⟨5, 1, 1⟩, ⟨3, 1, 1⟩, ⟨2, 1, 1⟩] := by
  decide

/-- the same history on the current tree (`onPos = true`): order preserved by both paths. -/
theorem snapshot_array_add_anchor_fixed :
    contentOf (mapOk (run false arrayAddAnchor Root.init) (norm [])) arr = some [⟨3, 1, 1⟩, ⟨2, 1, 1⟩, ⟨5, 1, 1⟩] ∧
    contentOf (mapOk (run false arrayAddAnchor Root.init) deepCopy) arr = some [⟨3, 1, 1⟩, ⟨2, 1, 1⟩, ⟨5, 1, 1⟩] := by
  decide

/-- OPEN defect: a `SetWithExecutedAt` loser against a removed occupant stays live; after the occupant is
    purged the snapshot resurrects it: key `k` (child ⟨1,1,1⟩) is a member after the round trip, not before. -/
theorem snapshot_lww_loser_witness :
    membersAfter (run true lwwLoser Root.init) id rootId = some [⟨3, 1, 2⟩] ∧
    membersAfter (run true lwwLoser Root.init) (norm []) rootId = some [⟨1, 1, 1⟩, ⟨3, 1, 2⟩] := by
  decide

/-- the `garbageLen` clause of the full statement fails for a third reason: `ArraySet.Execute` registers
    nothing for the element it replaces (TODO in the code), `NewRoot` registers every tombstone it walks. -/
theorem snapshot_garbage_len_witness :
    (match run false setAnchorPurged Root.init with
     | .ok r => (garbageLen r, garbageLen (norm [] r), decide (SnapSafe true r))
     | .error _ => (0, 0, false)) = (1, 2, true) := by
  decide

/-! ### non-vacuity -/

/-- `SnapSafe` holds of non-trivial roots: after moves (dead slots, moved elements), a delete, an overwritten
    key and a purge. -/
example : (match run false setAnchorPurged Root.init with | .ok r => decide (SnapSafe true r) | _ => false) = true := by
  decide
example : (match run true safeExample Root.init with
    | .ok r => decide (SnapSafe true r) && decide (SnapSafe false r) && decide (r.elems.length = 6)
    | _ => false) = true := by
  decide
/-- and fails exactly on the defect states -/
example : (match run true lwwLoser Root.init with | .ok r => decide (SnapSafe true r) | _ => true) = false := by
  decide
example : (match run false arrayAddAnchor Root.init with
    | .ok r => (decide (SnapSafe true r), decide (SnapSafe false r)) | _ => (false, true)) = (true, false) := by
  decide

end Yorkie.Props.C02
