/-
C14  Undo and redo restore exactly, to any depth (single replica, no concurrent remote changes).

Property theorems only; helper lemmas live in Lemmas/Undo*.lean.  The model is `Model/Undo.lean`
(`Hist`, `doChange`, `undo`, `redo`), validated against the Go implementation by the `undo` engine.
The `…_witness` theorems are counterexamples of the unrestricted statement that the Go code (and
therefore the faithful model) exhibits; they are the reason for the side conditions of the
restoration theorems.
-/
import YorkieModel.Lemmas.UndoMain
import YorkieModel.Lemmas.UndoTotal
import YorkieModel.Lemmas.UndoExample
import YorkieModel.Lemmas.UndoArray2
import YorkieModel.Lemmas.UndoArray17
import YorkieModel.Lemmas.UndoArray9
import YorkieModel.Lemmas.UndoArray18
import YorkieModel.Lemmas.UndoArray19
import YorkieModel.Lemmas.UndoArray20
import YorkieModel.Lemmas.UndoArray21
import YorkieModel.Lemmas.UndoArray22
import YorkieModel.Lemmas.UndoArray23
import YorkieModel.Lemmas.UndoArray25
import YorkieModel.Lemmas.UndoArray26
import YorkieModel.Lemmas.UndoArray27
namespace Yorkie.Props.C14
open Yorkie Yorkie.Crdt Yorkie.Undo

/-! ### 1. the undo layer extends the plain executor; stack depth -/

/-- for local and remote sources the undo-aware executor computes exactly the document of the
    plain executor (`Model/Crdt.lean`), error cases included -/
theorem uexecute_agrees (d : Doc) (tw : Ticket → Bool) (src : Source) (hs : src ≠ .undoRedo) (op : Op) :
    Except.map (·.1) (uexecute d tw src (UOp.ofOp op)) = liftE (execute d op) :=
  uexecute_agrees' d tw src hs op

example : (Source.loc ≠ .undoRedo) ∧ (Source.remote ≠ .undoRedo) := by decide

theorem consts_match : maxDepth = Generated.Consts.maxUndoRedoStackDepth ∧ 0 < maxDepth :=
  ⟨rfl, by decide⟩

theorem push_keeps (s : List (List UOp)) (e : List UOp) (h : s.length < maxDepth) : push s e = e :: s :=
  Undo.push_keeps s e h

theorem push_evicts_oldest (s : List (List UOp)) (e : List UOp) (h : s.length ≥ maxDepth) :
    push s e = e :: s.dropLast :=
  Undo.push_evicts_oldest s e h

theorem push_length_le (s : List (List UOp)) (e : List UOp) :
    (push s e).length ≤ max s.length maxDepth :=
  Undo.push_length_le s e

/-- a stack within the limit stays within the limit -/
theorem push_length_le_maxDepth (s : List (List UOp)) (e : List UOp) (h : s.length ≤ maxDepth) :
    (push s e).length ≤ maxDepth := by
  have := Undo.push_length_le s e; omega

example : ([] : List (List UOp)).length < maxDepth := by decide
example : (List.replicate 50 ([] : List UOp)).length ≥ maxDepth := by decide

/-! ### 2. depth 1, leaf values on objects and counters

State: any heap (tombstones, nested containers, arrays), any stacks.  `Fresh h` (Lemmas/UndoMain.lean):
the heap is well formed relative to some home assignment (`WF`: parents are containers, key lists
sorted, every member child of a container that is not a tombstone has one home key and home
container - tombstoned containers are exempt: the tombstone of a restored array element still refers
to the re-registered descendants, section 9), every stored identity and
`positionedAt` is at most `h.lamport` (`Bounded`), and the root is a live container.  The edited object
must not be `orphaned`, i.e. have no REMOVED ancestor-or-self; `noTw = fun _ => false`: in the repaired
tree (`fixReconcileParent`) twin marks are invisible to the skip rule, so the former conditions on
twinned identities are gone.  `h.next = ⟨h.lamport + 1, 1, h.actor⟩` is the ticket the
json layer issues for the edit; `undo` then issues `⟨h.lamport + 2, 1, h.actor⟩`. -/

theorem next_ticket (h : Hist) : h.next = ⟨h.lamport + 1, 1, h.actor⟩ := rfl

/-- undo of `obj.k = leaf` where `k` was free (or held a tombstone) -/
theorem undo_do_set_fresh (h : Hist) (fr : Fresh h) (p : Ticket) (k : String) (v : Val)
    (hp : isObj h.doc p = true) (horph : orphaned h.doc noTw orphanFuel p = false)
    (hv : leafBody v.body = true) (hk : winner h.doc p k = none) (fuel : Nat) :
    marshal (undo (doChange h [.set p k (UVal.ofVal v h.next) h.next])).doc fuel rootId =
      marshal h.doc fuel rootId := by
  obtain ⟨H, w, g⟩ := good_set_of_fresh fr hp horph hv (k := k) (by intro u hu; rw [hk] at hu; cases hu)
  exact undo_do_edit (e := .set p k v) w fr.bd fr.root g fuel

theorem redo_undo_do_set_fresh (h : Hist) (fr : Fresh h) (p : Ticket) (k : String) (v : Val)
    (hp : isObj h.doc p = true) (horph : orphaned h.doc noTw orphanFuel p = false)
    (hv : leafBody v.body = true) (hk : winner h.doc p k = none) (fuel : Nat) :
    marshal (redo (undo (doChange h [.set p k (UVal.ofVal v h.next) h.next]))).doc fuel rootId =
      marshal (doChange h [.set p k (UVal.ofVal v h.next) h.next]).doc fuel rootId := by
  obtain ⟨H, w, g⟩ := good_set_of_fresh fr hp horph hv (k := k) (by intro u hu; rw [hk] at hu; cases hu)
  exact redo_undo_do_edit (e := .set p k v) w fr.bd fr.root g fuel

/-- undo of `obj.k = leaf` over a live leaf `u` -/
theorem undo_do_set_overwrite_leaf (h : Hist) (fr : Fresh h) (p u : Ticket) (k : String) (v : Val)
    (hp : isObj h.doc p = true) (horph : orphaned h.doc noTw orphanFuel p = false)
    (hv : leafBody v.body = true) (hk : winner h.doc p k = some u) (hu : isLeafAt h.doc u = true)
    (fuel : Nat) :
    marshal (undo (doChange h [.set p k (UVal.ofVal v h.next) h.next])).doc fuel rootId =
      marshal h.doc fuel rootId := by
  obtain ⟨H, w, g⟩ := good_set_of_fresh fr hp horph hv (k := k)
    (by intro u' hu'; rw [hk] at hu'; cases hu'; exact hu)
  exact undo_do_edit (e := .set p k v) w fr.bd fr.root g fuel

theorem redo_undo_do_set_overwrite_leaf (h : Hist) (fr : Fresh h) (p u : Ticket) (k : String) (v : Val)
    (hp : isObj h.doc p = true) (horph : orphaned h.doc noTw orphanFuel p = false)
    (hv : leafBody v.body = true) (hk : winner h.doc p k = some u) (hu : isLeafAt h.doc u = true)
    (fuel : Nat) :
    marshal (redo (undo (doChange h [.set p k (UVal.ofVal v h.next) h.next]))).doc fuel rootId =
      marshal (doChange h [.set p k (UVal.ofVal v h.next) h.next]).doc fuel rootId := by
  obtain ⟨H, w, g⟩ := good_set_of_fresh fr hp horph hv (k := k)
    (by intro u' hu'; rw [hk] at hu'; cases hu'; exact hu)
  exact redo_undo_do_edit (e := .set p k v) w fr.bd fr.root g fuel

/-- undo of `delete obj.k` where the value is a live leaf `u` -/
theorem undo_do_delete_leaf (h : Hist) (fr : Fresh h) (p u : Ticket) (k : String)
    (hp : isObj h.doc p = true) (horph : orphaned h.doc noTw orphanFuel p = false)
    (hk : winner h.doc p k = some u) (hu : isLeafAt h.doc u = true) (fuel : Nat) :
    marshal (undo (doChange h [.remove p u h.next])).doc fuel rootId = marshal h.doc fuel rootId := by
  obtain ⟨H, w, g⟩ := good_remove_of_fresh fr hp horph hk hu
  exact undo_do_edit (e := .remove p u) w fr.bd fr.root g fuel

theorem redo_undo_do_delete_leaf (h : Hist) (fr : Fresh h) (p u : Ticket) (k : String)
    (hp : isObj h.doc p = true) (horph : orphaned h.doc noTw orphanFuel p = false)
    (hk : winner h.doc p k = some u) (hu : isLeafAt h.doc u = true) (fuel : Nat) :
    marshal (redo (undo (doChange h [.remove p u h.next]))).doc fuel rootId =
      marshal (doChange h [.remove p u h.next]).doc fuel rootId := by
  obtain ⟨H, w, g⟩ := good_remove_of_fresh fr hp horph hk hu
  exact redo_undo_do_edit (e := .remove p u) w fr.bd fr.root g fuel

/-- undo of `counter.Increase(delta)`; the json layer casts the operand to the counter type
    (`wrap long delta = delta`), and the stored value is in range -/
theorem undo_do_increase (h : Hist) (fr : Fresh h) (c : Ticket) (ce : Elem) (long : Bool) (v delta : Int)
    (hc : h.doc c = some ce) (hr : ce.removed = false) (hb : ce.body = .counter long v)
    (hdelta : wrap long delta = delta) (hv : wrap long v = v) (fuel : Nat) :
    marshal (undo (doChange h [.increase c delta h.next])).doc fuel rootId = marshal h.doc fuel rootId := by
  obtain ⟨H, w⟩ := fr.wf
  exact undo_do_edit (e := .increase c delta) w fr.bd fr.root (goodIncrease_of hc hr hb hdelta hv) fuel

theorem redo_undo_do_increase (h : Hist) (fr : Fresh h) (c : Ticket) (ce : Elem) (long : Bool) (v delta : Int)
    (hc : h.doc c = some ce) (hr : ce.removed = false) (hb : ce.body = .counter long v)
    (hdelta : wrap long delta = delta) (hv : wrap long v = v) (fuel : Nat) :
    marshal (redo (undo (doChange h [.increase c delta h.next]))).doc fuel rootId =
      marshal (doChange h [.increase c delta h.next]).doc fuel rootId := by
  obtain ⟨H, w⟩ := fr.wf
  exact redo_undo_do_edit (e := .increase c delta) w fr.bd fr.root (goodIncrease_of hc hr hb hdelta hv) fuel

/-! ### 3. arrays

`undo_do_insert_leaf`: undo of an insertion (of any new value: primitive, counter or empty
container) tombstones the new element.  `undo_do_array_delete_leaf`: undo of the deletion of a live
leaf element `u` re-inserts a copy under the NEW identity `⟨h.lamport + 2, 1, h.actor⟩` right after
the nearest live predecessor, so the node list differs but the visible list is the same.  `ArrDel`
(Lemmas/UndoArray.lean) collects the hypotheses on the array: exactly one node holds `u`, position
identities are pairwise distinct, are not the head identity and are not later than `h.lamport`. -/

theorem undo_do_insert_leaf (h : Hist) (fr : Fresh h) (p prev : Ticket) (v : Val) (pe : Elem)
    (nodes nodes' : List PosNode) (moved : Ticket → Option Ticket)
    (hd : h.doc p = some pe) (hb : pe.body = .arr nodes moved)
    (horph : orphaned h.doc noTw orphanFuel p = false)
    (hins : insertAfter prev ⟨h.next, some h.next⟩ nodes = some nodes') (fuel : Nat) :
    marshal (undo (doChange h [.add p prev (UVal.ofVal v h.next) h.next])).doc fuel rootId =
      marshal h.doc fuel rootId :=
  undo_do_insert_lemma fr hd hb horph hins fuel

theorem undo_do_array_delete_leaf (h : Hist) (fr : Fresh h) (p u : Ticket) (pe ue : Elem)
    (nodes : List PosNode) (moved : Ticket → Option Ticket) (a : ArrDel h p u pe ue nodes moved) (fuel : Nat) :
    marshal (undo (doChange h [.remove p u h.next])).doc fuel rootId = marshal h.doc fuel rootId :=
  undo_do_array_delete_lemma fr a fuel

section examplesArray
open Yorkie.Undo.Example

example : visible hArr = "{\"arr\":[1,2]}" := by decide
example : Fresh hArr := fresh_hArr
example : ArrDel hArr tA tY eArr eY [⟨tX, some tX⟩, ⟨tY, some tY⟩] (fun _ => none) := arrDel_hArr
example : hArr.doc tA = some eArr ∧ eArr.body = .arr [⟨tX, some tX⟩, ⟨tY, some tY⟩] (fun _ => none) ∧
    orphaned hArr.doc noTw orphanFuel tA = false ∧
    (insertAfter tX ⟨hArr.next, some hArr.next⟩ [⟨tX, some tX⟩, ⟨tY, some tY⟩]).isSome = true :=
  ⟨rfl, rfl, by decide, by decide⟩
/-- the two theorems evaluated on the example -/
example : visible (undo (doChange hArr [.remove tA tY hArr.next])) = "{\"arr\":[1,2]}" ∧
    visible (doChange hArr [.remove tA tY hArr.next]) = "{\"arr\":[1]}" ∧
    visible (doChange hArr [.add tA tX (UVal.ofVal (.prim "7") hArr.next) hArr.next]) = "{\"arr\":[1,7,2]}" ∧
    visible (undo (doChange hArr [.add tA tX (UVal.ofVal (.prim "7") hArr.next) hArr.next])) = "{\"arr\":[1,2]}" := by
  decide

end examplesArray

/-! ### 4. depth k, leaf alphabet on objects and counters

`runEdits h es` performs the edits `es` one local change each (`Edit.op` gives the operation the json
layer builds, with the ticket `h.next` of the moment).  `EditsOk H h es`: every edit is executable in
the alphabet when its turn comes (`GoodOp`, Lemmas/UndoGood.lean: the object is live and not
orphaned, values and overwritten/deleted members are leaves, counters get in-range
operands); `H` fixes the home key/container of the tickets the run will issue.  `checkRun` is the
decidable version for concrete runs. -/

/-- after the edits `a ++ b`, `|b| ≤ maxDepth` undos bring back exactly the content after `a` -/
theorem undo_stack_inv (H : Home) (h : Hist) (w : WF H h.doc) (bd : Bounded h.doc h.lamport)
    (root : skel h.doc rootId = some false) (a b : List Edit) (ok : EditsOk H h (a ++ b))
    (hb : b.length ≤ maxDepth) (fuel : Nat) :
    marshal (undoN b.length (runEdits h (a ++ b))).doc fuel rootId =
      marshal (runEdits h a).doc fuel rootId :=
  undo_run_marshal w bd root a b ok hb fuel

/-- … and `|b|` redos after `|b ++ c|` undos bring back exactly the content after `a ++ b` -/
theorem redo_stack_inv (H : Home) (h : Hist) (w : WF H h.doc) (bd : Bounded h.doc h.lamport)
    (root : skel h.doc rootId = some false) (a b c : List Edit) (ok : EditsOk H h (a ++ (b ++ c)))
    (hb : (b ++ c).length ≤ maxDepth) (fuel : Nat) :
    marshal (redoN b.length (undoN (b ++ c).length (runEdits h (a ++ (b ++ c))))).doc fuel rootId =
      marshal (runEdits h (a ++ b)).doc fuel rootId :=
  redo_run_marshal w bd root a b c ok hb fuel

/-- the decidable check implies executability of the run -/
theorem checkRun_sound (H : Home) (h : Hist) (es : List Edit) (hc : checkRun H h es = true) : EditsOk H h es :=
  checkRun_ok hc

/-- undo depth is bounded by the stack limit: a full stack forgets its oldest entry -/
theorem undo_depth_bounded (s : List (List UOp)) (e : List UOp) (h : s.length ≤ maxDepth) :
    (push s e).length ≤ maxDepth := push_length_le_maxDepth s e h

section examples

/-- home assignment of the example run: everything lives in the root; ticket 3 belongs to key "b" -/
def exH : Home :=
  { par := fun t => if t = rootId then none else some rootId,
    key := fun t => if t.lamport = 3 then "b" else if t.lamport = 7 then "z" else "a" }

def exRun : List Edit :=
  [.set rootId "a" (.prim "1"), .set rootId "a" (.newCounter false 5), .set rootId "b" (.prim "x"),
   .increase ⟨2, 1, 0⟩ 7, .remove rootId ⟨2, 1, 0⟩, .remove rootId ⟨3, 1, 0⟩]

/-- the state after three edits: `{"a":5,"b":x}` with a tombstone below "a" -/
def exHist : Hist := runEdits {} (exRun.take 3)

example : visible exHist = "{\"a\":5,\"b\":x}" := by decide
example : checkRun exH {} exRun = true := by decide
example : WF exH ({} : Hist).doc ∧ Bounded ({} : Hist).doc ({} : Hist).lamport ∧
    skel ({} : Hist).doc rootId = some false := ⟨WF_init rfl, Bounded_init, skel_init⟩
example : (exRun.drop 3).length ≤ maxDepth := by decide

/-- instance of `undo_stack_inv`: three undos after the six edits print the content after three -/
example (fuel : Nat) : marshal (undoN 3 (runEdits {} exRun)).doc fuel rootId = marshal exHist.doc fuel rootId :=
  undo_stack_inv exH {} (WF_init rfl) Bounded_init skel_init (exRun.take 3) (exRun.drop 3)
    (checkRun_ok (by decide)) (by decide) fuel

/-- instance of `redo_stack_inv`: three undos, then two redos print the content after five edits -/
example (fuel : Nat) : marshal (redoN 2 (undoN 3 (runEdits {} exRun))).doc fuel rootId =
    marshal (runEdits {} (exRun.take 5)).doc fuel rootId :=
  redo_stack_inv exH {} (WF_init rfl) Bounded_init skel_init (exRun.take 3) ((exRun.drop 3).take 2) (exRun.drop 5)
    (checkRun_ok (by decide)) (by decide) fuel

example : Fresh exHist :=
  (fresh_run (H := exH) (exRun.take 3) {} (WF_init rfl)
    ⟨⟨exH, WF_init rfl⟩, Bounded_init, skel_init⟩ (checkRun_ok (by decide))).1

-- hypotheses of the depth-1 theorems on `exHist` (lamport 3, next ticket ⟨4, 1, 0⟩)
example : isObj exHist.doc rootId = true ∧ orphaned exHist.doc noTw orphanFuel rootId = false ∧
    winner exHist.doc rootId "z" = none ∧ leafBody (Val.prim "9").body = true := by decide
example : winner exHist.doc rootId "b" = some ⟨3, 1, 0⟩ ∧ isLeafAt exHist.doc ⟨3, 1, 0⟩ = true := by decide
example : ∃ ce, exHist.doc ⟨2, 1, 0⟩ = some ce ∧ ce.removed = false ∧ ce.body = .counter false 5 ∧
    wrap false 7 = 7 ∧ wrap false 5 = 5 := ⟨_, rfl, rfl, rfl, by decide, by decide⟩

end examples

/-! ### 5. array moves and set-by-index: undo and redo never fail

Their restoration is only approximate (the element comes back after the nearest live predecessor of
the moment / under a new identity), so only totality is claimed: whenever the forward operation
succeeds, `Undo()` does not return an error, and neither does the following `Redo()`.
`Outcome.isFailed` is true exactly for `Outcome.failed`. -/

theorem undo_total_move (h : Hist) (p prev target : Ticket) (d' : Doc) (r : Option UOp)
    (hfw : uexecute h.doc noTw .loc (.move p prev target h.next) = .ok (d', r)) :
    (undoRedo (doChange h [.move p prev target h.next]) true).2.isFailed = false ∧
    (undoRedo (undo (doChange h [.move p prev target h.next])) false).2.isFailed = false :=
  move_total (moveOk_of_exec hfw)

/-- `p.lamport ≤ h.lamport`: the array is an element of the present heap (cf. `Bounded`) -/
theorem undo_total_arraySet (h : Hist) (p target : Ticket) (v : UVal) (d' : Doc) (r : Option UOp)
    (hp : p.lamport ≤ h.lamport)
    (hfw : uexecute h.doc noTw .loc (.arraySet p target v h.next) = .ok (d', r)) :
    (undoRedo (doChange h [.arraySet p target v h.next]) true).2.isFailed = false ∧
    (undoRedo (undo (doChange h [.arraySet p target v h.next])) false).2.isFailed = false :=
  aset_total (asOk_of_exec hfw).2 hp (asOk_of_exec hfw).1

section examplesTotal

/-- arr = [1, 2] -/
def exArr : Hist :=
  let h := doChange {} [.set rootId "arr" (UVal.ofVal .newArr ⟨1, 1, 0⟩) ⟨1, 1, 0⟩]
  let h := doChange h [.add ⟨1, 1, 0⟩ headId (UVal.ofVal (.prim "1") ⟨2, 1, 0⟩) ⟨2, 1, 0⟩]
  doChange h [.add ⟨1, 1, 0⟩ ⟨2, 1, 0⟩ (UVal.ofVal (.prim "2") ⟨3, 1, 0⟩) ⟨3, 1, 0⟩]

example : visible exArr = "{\"arr\":[1,2]}" ∧ exArr.next = ⟨4, 1, 0⟩ := by decide

/-- the forward move of the second element to the front succeeds -/
example : (uexecute exArr.doc noTw .loc (.move ⟨1, 1, 0⟩ headId ⟨3, 1, 0⟩ exArr.next)).toBool = true := by
  decide

/-- the forward set-by-index of the first element succeeds -/
example : (uexecute exArr.doc noTw .loc
    (.arraySet ⟨1, 1, 0⟩ ⟨2, 1, 0⟩ (UVal.ofVal (.prim "9") exArr.next) exArr.next)).toBool = true ∧
    (⟨1, 1, 0⟩ : Ticket).lamport ≤ exArr.lamport := by decide

example : visible (doChange exArr [.move ⟨1, 1, 0⟩ headId ⟨3, 1, 0⟩ exArr.next]) = "{\"arr\":[2,1]}" ∧
    visible (undo (doChange exArr [.move ⟨1, 1, 0⟩ headId ⟨3, 1, 0⟩ exArr.next])) = "{\"arr\":[1,2]}" := by
  decide

end examplesTotal

/-! ### not covered (statements kept for the record)

* Redo at depth 1 for arrays: now proved, section 6 (`redo_undo_do_insert_leaf`,
  `redo_undo_do_array_delete_leaf`).
* Depth k for arrays (`ReconcileCreatedAt` rewriting the stacked targets/anchors after the element
  got its new identity): proved for histories that mix the object / counter alphabet of section 4
  with insertions into and deletions from arrays of leaves without moved elements, section 7
  (`undo_stack_inv_array`, `redo_stack_inv_array`).  The unrestricted depth-k statement for arrays
  was false before the repair of `ReconcileCreatedAt` (`…_witness_unrepaired` in `namespace Witness`,
  with the `…_fixed` counterparts); containers / counters as array ELEMENTS and several operations
  per entry are still outside the proved alphabet; moves and set-by-index have totality only (section 5).
* Container-valued overwrite / delete (restoring an object or array with content through
  `instantiate (capture …)`): undo proved, section 8 - for subtrees that are trees of live elements
  (`undo_do_set_overwrite_container`, `undo_do_delete_container`) and, more generally, under the
  decidable copy-stability predicate (`…_partial`).  The redo direction is missing.  Undo is skipped
  when the object has a removed ancestor-or-self (`orphaned`); the former twin condition is gone
  (`undo_do_nested_twin_fixed`). -/

/-! ### known counterexamples (reproduced on the Go implementation) -/

namespace Witness

/-! The four histories S1, S2, S4, S5 on BOTH instances of the history machine: `…W false` = the tree
before the repair `hooks/fix-c14-reconcile-parent.patch` (`…_witness_unrepaired`: the recorded content
is NOT restored - finding F-C14-array-reid as it was), and the unsuffixed functions = the instance
at the switch `fixReconcileParent = true` (`…_fixed`: the recorded content IS restored). -/

def T (l : Int) (dl : Nat) : Ticket := ⟨l, dl, 1⟩
def h0 : Hist := { actor := 1 }
def pv (s : String) (t : Ticket) : UVal := UVal.ofVal (.prim s) t
/-- `Undo()` / `Redo()` of the tree before the repair -/
def undoU (h : Hist) : Hist := (undoRedoW false h true).1
def redoU (h : Hist) : Hist := (undoRedoW false h false).1

/-- S1: arr = [x], x = {"a":1}; remove x -/
def s1W (fx : Bool) : Hist :=
  let h := doChangeW fx h0 [.set rootId "arr" (UVal.ofVal .newArr (T 1 1)) (T 1 1)]
  let h := doChangeW fx h [.add (T 1 1) headId (UVal.ofVal .newObj (T 2 1)) (T 2 1)]
  let h := doChangeW fx h [.set (T 2 1) "a" (pv "1" (T 3 1)) (T 3 1)]
  doChangeW fx h [.remove (T 1 1) (T 2 1) (T 4 1)]
def s1 : Hist := s1W fixReconcileParent

/-- S1, UNREPAIRED tree (`…W false`): the second undo should remove "a" (recorded content
    `{"arr":[{}]}`) but the stacked `remove x a` names the tombstoned parent `x`, the old
    `ReconcileCreatedAt` never rewrites parents, and the operation is skipped.  (The name without
    suffix is kept because known_findings.json refers to it; it IS the unrepaired statement.) -/
theorem undo_depth2_array_container_witness :
    visible (s1W false) = "{\"arr\":[]}" ∧
    visible (undoU (s1W false)) = "{\"arr\":[{\"a\":1}]}" ∧
    visible (undoU (undoU (s1W false))) = "{\"arr\":[{\"a\":1}]}" ∧
    visible (undoU (undoU (s1W false))) ≠ "{\"arr\":[{}]}" ∧
    (undoRedoW false (undoU (s1W false)) true).2 matches .noop := by decide

theorem undo_depth2_array_container_witness_unrepaired :
    visible (undoU (undoU (s1W false))) = "{\"arr\":[{\"a\":1}]}" ∧
    visible (undoU (undoU (s1W false))) ≠ "{\"arr\":[{}]}" :=
  ⟨undo_depth2_array_container_witness.2.2.1, undo_depth2_array_container_witness.2.2.2.1⟩

/-- S1, repaired: the stacked `remove x a` follows `x` to its new identity; the second undo gives the
    recorded content -/
theorem undo_depth2_array_container_fixed :
    visible s1 = "{\"arr\":[]}" ∧
    visible (undo s1) = "{\"arr\":[{\"a\":1}]}" ∧
    visible (undo (undo s1)) = "{\"arr\":[{}]}" := by decide

/-- S2: arr = [ {p:{}} ] removed and restored by undo (before the repair: `p` is twinned) -/
def s2W (fx : Bool) : Hist :=
  let h := doChangeW fx h0 [.set rootId "arr" (UVal.ofVal .newArr (T 1 1)) (T 1 1)]
  let h := doChangeW fx h [.add (T 1 1) headId (UVal.ofVal .newObj (T 2 1)) (T 2 1),
                           .set (T 2 1) "p" (UVal.ofVal .newObj (T 2 2)) (T 2 2)]
  let h := doChangeW fx h [.remove (T 1 1) (T 2 1) (T 3 1)]
  (undoRedoW fx h true).1
def s2 : Hist := s2W fixReconcileParent

/-- S2 (depth 1), UNREPAIRED tree: a forward edit inside a twinned container is not undone -/
theorem undo_do_nested_twin_witness_unrepaired :
    (s2W false).lamport = 4 ∧
    visible (s2W false) = "{\"arr\":[{\"p\":{}}]}" ∧
    visible (doChangeW false (s2W false) [.set (T 2 2) "b" (pv "2" (T 5 1)) (T 5 1)]) = "{\"arr\":[{\"p\":{\"b\":2}}]}" ∧
    visible (undoU (doChangeW false (s2W false) [.set (T 2 2) "b" (pv "2" (T 5 1)) (T 5 1)])) =
      "{\"arr\":[{\"p\":{\"b\":2}}]}" ∧
    visible (undoU (doChangeW false (s2W false) [.set (T 2 2) "b" (pv "2" (T 5 1)) (T 5 1)])) ≠ visible (s2W false) := by
  decide

/-- S2, repaired: the skip rule no longer sees the dead twin; the edit is undone -/
theorem undo_do_nested_twin_fixed :
    s2.lamport = 4 ∧
    visible s2 = "{\"arr\":[{\"p\":{}}]}" ∧
    visible (doChange s2 [.set (T 2 2) "b" (pv "2" (T 5 1)) (T 5 1)]) = "{\"arr\":[{\"p\":{\"b\":2}}]}" ∧
    visible (undo (doChange s2 [.set (T 2 2) "b" (pv "2" (T 5 1)) (T 5 1)])) = "{\"arr\":[{\"p\":{}}]}" := by
  decide

def s4W (fx : Bool) : Hist := doChangeW fx h0 [.set rootId "arr" (UVal.ofVal .newArr (T 1 1)) (T 1 1)]
def s4 : Hist := s4W fixReconcileParent
def s4e : List UOp := [.add (T 1 1) headId (pv "7" (T 2 1)) (T 2 1), .remove (T 1 1) (T 2 1) (T 2 2)]

/-- S4, UNREPAIRED tree: one change adds and removes the same element; undo re-adds it under a new
    identity and the remaining `remove` of the popped entry is not reconciled -/
theorem undo_multiop_same_entry_witness_unrepaired :
    visible (s4W false) = "{\"arr\":[]}" ∧
    visible (doChangeW false (s4W false) s4e) = "{\"arr\":[]}" ∧
    visible (undoU (doChangeW false (s4W false) s4e)) = "{\"arr\":[7]}" ∧
    visible (undoU (doChangeW false (s4W false) s4e)) ≠ visible (s4W false) := by decide

/-- S4, repaired: the rest of the popped entry is reconciled as well -/
theorem undo_multiop_same_entry_fixed :
    visible s4 = "{\"arr\":[]}" ∧
    visible (doChange s4 s4e) = "{\"arr\":[]}" ∧
    visible (undo (doChange s4 s4e)) = "{\"arr\":[]}" := by decide

def s5W (fx : Bool) : Hist :=
  let h := doChangeW fx h0 [.set rootId "arr" (UVal.ofVal .newArr (T 1 1)) (T 1 1)]
  let h := doChangeW fx h [.add (T 1 1) headId (UVal.ofVal (.newCounter false 0) (T 2 1)) (T 2 1)]
  doChangeW fx h [.increase (T 2 1) 5 (T 3 1)]
def s5 : Hist := s5W fixReconcileParent

/-- S5, UNREPAIRED tree: the redone `increase` still names the counter's first identity -/
theorem redo_counter_in_array_witness_unrepaired :
    visible (s5W false) = "{\"arr\":[5]}" ∧
    visible (undoU (s5W false)) = "{\"arr\":[0]}" ∧
    visible (undoU (undoU (s5W false))) = "{\"arr\":[]}" ∧
    visible (redoU (undoU (undoU (s5W false)))) = "{\"arr\":[0]}" ∧
    visible (redoU (redoU (undoU (undoU (s5W false))))) = "{\"arr\":[0]}" ∧
    visible (redoU (redoU (undoU (undoU (s5W false))))) ≠ visible (s5W false) := by decide

/-- S5, repaired: the stacked `increase` follows the counter to its new identity -/
theorem redo_counter_in_array_fixed :
    visible s5 = "{\"arr\":[5]}" ∧
    visible (undo s5) = "{\"arr\":[0]}" ∧
    visible (undo (undo s5)) = "{\"arr\":[]}" ∧
    visible (redo (undo (undo s5))) = "{\"arr\":[0]}" ∧
    visible (redo (redo (undo (undo s5)))) = "{\"arr\":[5]}" := by decide

end Witness

/-! ### 6. arrays, redo at depth 1

`redo_undo_do_insert_leaf`: insert a new leaf, undo (the element is tombstoned), redo: the redo
re-inserts a copy under a THIRD identity `⟨h.lamport + 3, 1, h.actor⟩` behind the nearest live
predecessor of the tombstone, so the printed content is the one after the insertion.  `ArrIns`
(Lemmas/UndoArray2.lean): the array is not orphaned (the undo is a `Remove`, subject to the skip
rule), its position identities are pairwise distinct, not the head identity, not later than the clock.
`redo_undo_do_array_delete_leaf`: delete the live leaf `u`, undo (`u` comes back as `t'`), redo
(`Remove` of `t'`, again subject to the skip rule, hence `orphaned … p = false`). -/

theorem redo_undo_do_insert_leaf (h : Hist) (fr : Fresh h) (p prev : Ticket) (v : Val) (pe : Elem)
    (nodes nodes' : List PosNode) (moved : Ticket → Option Ticket) (a : ArrIns h p pe nodes moved)
    (hv : leafBody v.body = true)
    (hins : insertAfter prev ⟨h.next, some h.next⟩ nodes = some nodes') (fuel : Nat) :
    marshal (redo (undo (doChange h [.add p prev (UVal.ofVal v h.next) h.next]))).doc fuel rootId =
      marshal (doChange h [.add p prev (UVal.ofVal v h.next) h.next]).doc fuel rootId :=
  redo_undo_do_insert_lemma fr a hv hins fuel

theorem redo_undo_do_array_delete_leaf (h : Hist) (fr : Fresh h) (p u : Ticket) (pe ue : Elem)
    (nodes : List PosNode) (moved : Ticket → Option Ticket) (a : ArrDel h p u pe ue nodes moved)
    (horph : orphaned h.doc noTw orphanFuel p = false) (fuel : Nat) :
    marshal (redo (undo (doChange h [.remove p u h.next]))).doc fuel rootId =
      marshal (doChange h [.remove p u h.next]).doc fuel rootId :=
  redo_undo_do_array_delete_lemma fr a horph fuel

section examplesArrayRedo
open Yorkie.Undo.Example

example : ArrIns hArr tA eArr [⟨tX, some tX⟩, ⟨tY, some tY⟩] (fun _ => none) :=
  ⟨rfl, rfl, by decide, by decide, by decide, by decide⟩
example : leafBody (Val.prim "7").body = true ∧
    (insertAfter tX ⟨hArr.next, some hArr.next⟩ [⟨tX, some tX⟩, ⟨tY, some tY⟩]).isSome = true := by decide
example : orphaned hArr.doc noTw orphanFuel tA = false := by decide
/-- the two theorems evaluated on the example -/
example :
    visible (redo (undo (doChange hArr [.add tA tX (UVal.ofVal (.prim "7") hArr.next) hArr.next]))) = "{\"arr\":[1,7,2]}" ∧
    visible (undo (doChange hArr [.add tA tX (UVal.ofVal (.prim "7") hArr.next) hArr.next])) = "{\"arr\":[1,2]}" ∧
    visible (redo (undo (doChange hArr [.remove tA tX hArr.next]))) = "{\"arr\":[2]}" ∧
    visible (undo (doChange hArr [.remove tA tX hArr.next])) = "{\"arr\":[1,2]}" := by
  decide

end examplesArrayRedo

/-! ### 7. depth k, mixed histories: objects, counters and arrays of leaves (with `ReconcileCreatedAt`)

Alphabet (`MEdit`, Lemmas/UndoArray15.lean): `set p k v` (`obj.k = leaf`), `remove p u` (`delete` of a
leaf member of the object `p`, or of a visible leaf of the array `p`), `increase c delta`, and
`insert p prev v` = `Add` of a new leaf `v` into the array `p` behind the VISIBLE element `prev` (or
`prev = headId`: at the front).  `runMEdits` performs one local change per edit; `MEditsOk H h es`
(`GoodOp3`, Lemmas/UndoArray11.lean): when its turn comes the edit satisfies the conditions of section 4
(objects, counters; the counter of an `increase` may be an object member or an ARRAY ELEMENT: when the
element is deleted and restored under a new identity the repaired `ReconcileCreatedAt` rewrites the
counter identity of the stacked `Increase`s, cf. `redo_counter_in_array_fixed`) resp. the array is live and not orphaned, the
anchor / target is in the visible list, the deleted element is a leaf, and `H` homes the
ticket of an inserted element in `p`.  `checkMRun` is the decidable version.  Hypotheses on the start
state: `WF`, `Bounded` (as in section 4), every array of the heap is plain (`PlainArrs`,
Lemmas/UndoArray4.lean: no moved elements - every node holds the element it was created with; position
identities pairwise distinct, not the head identity, not later than the clock), the root is a live container.

The proof (Lemmas/UndoArray3 … 16) keeps a renaming `ρ` from the identities of the RECORDED heaps to
the present ones: after every undo / redo the present heap simulates the recorded one under `ρ`
(`Sim`), and the stacks are exactly the recorded reverse operations renamed by `ρ` - which is what
`ReconcileCreatedAt` maintains when an `Add` re-inserts a value under a fresh identity (`ρ` is updated
at the identity the value had in the record); no two stacked `Add`s wait for the same identity; `ρ`
moves only identities homed in arrays, so it fixes whatever the object / counter operations touch. -/

/-- after the edits `a ++ b`, `|b| ≤ maxDepth` undos bring back exactly the content after `a` -/
theorem undo_stack_inv_array (H : Home) (h : Hist) (w : WF H h.doc) (bd : Bounded h.doc h.lamport)
    (pl : PlainArrs h.doc h.lamport)
    (root : skel h.doc rootId = some false) (a b : List MEdit) (ok : MEditsOk H h (a ++ b))
    (hb : b.length ≤ maxDepth) (fuel : Nat) :
    marshal (undoN b.length (runMEdits h (a ++ b))).doc fuel rootId =
      marshal (runMEdits h a).doc fuel rootId :=
  undo_run_marshal3 w bd pl root a b ok hb fuel

/-- … and `|b|` redos after `|b ++ c|` undos bring back exactly the content after `a ++ b` -/
theorem redo_stack_inv_array (H : Home) (h : Hist) (w : WF H h.doc) (bd : Bounded h.doc h.lamport)
    (pl : PlainArrs h.doc h.lamport)
    (root : skel h.doc rootId = some false) (a b c : List MEdit) (ok : MEditsOk H h (a ++ (b ++ c)))
    (hb : (b ++ c).length ≤ maxDepth) (fuel : Nat) :
    marshal (redoN b.length (undoN (b ++ c).length (runMEdits h (a ++ (b ++ c))))).doc fuel rootId =
      marshal (runMEdits h (a ++ b)).doc fuel rootId :=
  redo_run_marshal3 w bd pl root a b c ok hb fuel

/-- the decidable check implies executability of the run -/
theorem checkMRun_sound (H : Home) (h : Hist) (es : List MEdit) (hc : checkMRun H h es = true) :
    MEditsOk H h es :=
  checkMRun_ok hc

section examplesArrayDepth
open Yorkie.Undo.Example

/-- on `{"arr":[1,2]}` (x = 1, y = 2): insert 7 behind x, delete y, delete 7, insert 0 at the front,
    delete x.  Undoing the third edit re-inserts 7 under a new identity, and the stacked reverse of
    the second edit (`Add` of y behind 7) is rewritten to that identity. -/
def exARun : List MEdit :=
  [.insert tA tX (.prim "7"), .remove tA tY, .remove tA ⟨4, 1, 0⟩, .insert tA headId (.prim "0"), .remove tA tX]

example : checkMRun HArr hArr exARun = true := by decide
example : WF HArr hArr.doc ∧ Bounded hArr.doc hArr.lamport ∧ PlainArrs hArr.doc hArr.lamport ∧
    skel hArr.doc rootId = some false :=
  ⟨wf_dArr, bounded_dArr, plain_dArr, by decide⟩
example : (exARun.drop 1).length ≤ maxDepth := by decide
example : visible (runMEdits hArr exARun) = "{\"arr\":[0]}" ∧
    visible (runMEdits hArr (exARun.take 1)) = "{\"arr\":[1,7,2]}" ∧
    visible (runMEdits hArr (exARun.take 3)) = "{\"arr\":[1]}" := by decide

/-- instance of `undo_stack_inv_array`: four undos after the five edits print the content after one -/
example (fuel : Nat) : marshal (undoN 4 (runMEdits hArr exARun)).doc fuel rootId =
    marshal (runMEdits hArr (exARun.take 1)).doc fuel rootId :=
  undo_stack_inv_array HArr hArr wf_dArr bounded_dArr plain_dArr (by decide)
    (exARun.take 1) (exARun.drop 1) (checkMRun_ok (by decide)) (by decide) fuel

/-- instance of `redo_stack_inv_array`: four undos, then two redos print the content after three edits -/
example (fuel : Nat) : marshal (redoN 2 (undoN 4 (runMEdits hArr exARun))).doc fuel rootId =
    marshal (runMEdits hArr (exARun.take 3)).doc fuel rootId :=
  redo_stack_inv_array HArr hArr wf_dArr bounded_dArr plain_dArr (by decide)
    (exARun.take 1) ((exARun.drop 1).take 2) (exARun.drop 3) (checkMRun_ok (by decide)) (by decide) fuel

example : visible (undoN 4 (runMEdits hArr exARun)) = "{\"arr\":[1,7,2]}" ∧
    visible (redoN 2 (undoN 4 (runMEdits hArr exARun))) = "{\"arr\":[1]}" := by decide

/-- a mixed run: a key, an insertion, a counter, an increase, deletion of the inserted element,
    deletion of the key, deletion of x (`HMix` homes the tickets with lamport 4 and 6 in the root) -/
def exMRun : List MEdit :=
  [.set rootId "a" (.prim "x"), .insert tA tX (.prim "7"), .set rootId "c" (.newCounter false 5),
   .increase ⟨6, 1, 0⟩ 3, .remove tA ⟨5, 1, 0⟩, .remove rootId ⟨4, 1, 0⟩, .remove tA tX]

example : checkMRun HMix hArr exMRun = true := by decide
example : WF HMix hArr.doc := wf_dArr_mix
example : visible (runMEdits hArr exMRun) = "{\"arr\":[2],\"c\":8}" ∧
    visible (runMEdits hArr (exMRun.take 1)) = "{\"a\":x,\"arr\":[1,2]}" ∧
    visible (runMEdits hArr (exMRun.take 4)) = "{\"a\":x,\"arr\":[1,7,2],\"c\":8}" := by decide

/-- six undos after the seven edits print the content after one; then three redos the content after four -/
example (fuel : Nat) : marshal (undoN 6 (runMEdits hArr exMRun)).doc fuel rootId =
    marshal (runMEdits hArr (exMRun.take 1)).doc fuel rootId :=
  undo_stack_inv_array HMix hArr wf_dArr_mix bounded_dArr plain_dArr (by decide)
    (exMRun.take 1) (exMRun.drop 1) (checkMRun_ok (by decide)) (by decide) fuel

example (fuel : Nat) : marshal (redoN 3 (undoN 6 (runMEdits hArr exMRun))).doc fuel rootId =
    marshal (runMEdits hArr (exMRun.take 4)).doc fuel rootId :=
  redo_stack_inv_array HMix hArr wf_dArr_mix bounded_dArr plain_dArr (by decide)
    (exMRun.take 1) ((exMRun.drop 1).take 3) (exMRun.drop 4) (checkMRun_ok (by decide)) (by decide) fuel

example : visible (undoN 6 (runMEdits hArr exMRun)) = "{\"a\":x,\"arr\":[1,2]}" ∧
    visible (redoN 3 (undoN 6 (runMEdits hArr exMRun))) = "{\"a\":x,\"arr\":[1,7,2],\"c\":8}" := by decide

/-- a counter as array element (history S5 in the alphabet): insert a counter behind x, increase by 5,
    delete y, increase by 2, delete the counter.  Five undos and four redos re-identify the counter
    twice; the stacked increases follow it. -/
def exCRun : List MEdit :=
  [.insert tA tX (.newCounter false 0), .increase ⟨4, 1, 0⟩ 5, .remove tA tY, .increase ⟨4, 1, 0⟩ 2,
   .remove tA ⟨4, 1, 0⟩]

example : checkMRun HArr hArr exCRun = true := by decide
example : visible (runMEdits hArr exCRun) = "{\"arr\":[1]}" ∧
    visible (runMEdits hArr (exCRun.take 4)) = "{\"arr\":[1,7]}" := by decide

example (fuel : Nat) : marshal (redoN 4 (undoN 5 (runMEdits hArr exCRun))).doc fuel rootId =
    marshal (runMEdits hArr (exCRun.take 4)).doc fuel rootId :=
  redo_stack_inv_array HArr hArr wf_dArr bounded_dArr plain_dArr (by decide)
    [] (exCRun.take 4) (exCRun.drop 4) (checkMRun_ok (by decide)) (by decide) fuel

example : visible (undoN 5 (runMEdits hArr exCRun)) = "{\"arr\":[1,2]}" ∧
    visible (redoN 4 (undoN 5 (runMEdits hArr exCRun))) = "{\"arr\":[1,7]}" := by decide

end examplesArrayDepth

/-! ### 8. container-valued restore (depth 1, undo)

The overwritten / deleted member `u` of the object `p` may be a container with content.  The reverse
operation is `Set p k (capture d u)` (`DeepCopy` at record time); its execution deep-copies a second
time (`instantiate`: `copyBody (lookupSub sub)`), re-registers every descendant and links `u` again.

`_partial`: instead of structural conditions on the subtree, these two theorems assume the
copy-stability predicate `copyStableB h.doc p u` (Lemmas/UndoArray9.lean), a Boolean function of
the heap: `capture h.doc u` succeeds and, with `cv` the captured value, (1) `p` is not among the
identities `instantiate h.doc p cv false` writes, (2) each of them is an entry of `h.doc` and has in the
instantiated heap the visible normal form (`vis`) and liveness it has in `h.doc`, (3) `p` is not
orphaned (no removed ancestor-or-self) while `u` is
tombstoned (which also excludes parent cycles through `u`).  The predicate also holds for values with
removed descendants (`emptied` copies) as long as (2) evaluates to true (removed LEAVES; a removed
container with content below `u` makes (2) false).  A structural class that includes all removed
descendants is `TreeBelowT`, section 13: `undo_do_delete_container_tombstones`,
`undo_do_set_overwrite_container_tombstones`.

`undo_do_set_overwrite_container`, `undo_do_delete_container`: the predicate is discharged in general
(Lemmas/UndoArray18.lean, `copyStable_of_tree`) when the subtree below `u` is a tree of live elements:
`TreeBelow h.doc copyFuel u body` (every child exists, is not removed, hangs below the container it is
reached through, every array is reproduced by `Array.DeepCopy` - `arrCopy_plain`: true for arrays
without moved elements -, nesting depth within `copyFuel`), every identity occurs once in the copy, and
`p` is not inside; then `instantiate (capture …)` writes exactly the entries that are there.
`treeBelowB` is the decidable version.  Redo of these edits: section 11 (tree case). -/

/-- undo of `obj.k = leaf` over a live member `u` of any kind (leaf or container with content) -/
theorem undo_do_set_overwrite_container_partial (h : Hist) (fr : Fresh h) (p u : Ticket) (k : String) (v : Val)
    (hp : isObj h.doc p = true) (hv : leafBody v.body = true) (hk : winner h.doc p k = some u)
    (hcs : copyStableB h.doc p u = true) (fuel : Nat) :
    marshal (undo (doChange h [.set p k (UVal.ofVal v h.next) h.next])).doc fuel rootId =
      marshal h.doc fuel rootId :=
  undo_do_set_overwrite_container_lemma fr hp hv hk hcs fuel

/-- undo of `delete obj.k` where the value `u` is of any kind (leaf or container with content) -/
theorem undo_do_delete_container_partial (h : Hist) (fr : Fresh h) (p u : Ticket) (k : String)
    (hp : isObj h.doc p = true) (hk : winner h.doc p k = some u)
    (hcs : copyStableB h.doc p u = true) (fuel : Nat) :
    marshal (undo (doChange h [.remove p u h.next])).doc fuel rootId = marshal h.doc fuel rootId :=
  undo_do_delete_container_lemma fr hp hk hcs fuel

/-- undo of `obj.k = leaf` over a live member `u` whose subtree is a tree of live elements -/
theorem undo_do_set_overwrite_container (h : Hist) (fr : Fresh h) (p u : Ticket) (k : String) (v : Val) (ue : Elem)
    (hp : isObj h.doc p = true) (hv : leafBody v.body = true) (hk : winner h.doc p k = some u)
    (hu : h.doc u = some ue) (tree : TreeBelow h.doc copyFuel u ue.body)
    (hnd : ((copyBody h.doc copyFuel u ue.body).2.map (·.1)).Nodup)
    (hpS : p ∉ u :: (copyBody h.doc copyFuel u ue.body).2.map (·.1))
    (horph : orphaned (kill h.doc (some u)) noTw orphanFuel p = false) (fuel : Nat) :
    marshal (undo (doChange h [.set p k (UVal.ofVal v h.next) h.next])).doc fuel rootId =
      marshal h.doc fuel rootId :=
  undo_do_set_overwrite_container_tree fr hp hv hk hu tree hnd hpS horph fuel

/-- undo of `delete obj.k` where the subtree of the value `u` is a tree of live elements -/
theorem undo_do_delete_container (h : Hist) (fr : Fresh h) (p u : Ticket) (k : String) (ue : Elem)
    (hp : isObj h.doc p = true) (hk : winner h.doc p k = some u)
    (hu : h.doc u = some ue) (tree : TreeBelow h.doc copyFuel u ue.body)
    (hnd : ((copyBody h.doc copyFuel u ue.body).2.map (·.1)).Nodup)
    (hpS : p ∉ u :: (copyBody h.doc copyFuel u ue.body).2.map (·.1))
    (horph : orphaned (kill h.doc (some u)) noTw orphanFuel p = false) (fuel : Nat) :
    marshal (undo (doChange h [.remove p u h.next])).doc fuel rootId = marshal h.doc fuel rootId :=
  undo_do_delete_container_tree fr hp hk hu tree hnd hpS horph fuel

/-- the decidable check implies `TreeBelow` -/
theorem treeBelowB_spec (look : Ticket → Option Elem) (f : Nat) (self : Ticket) (b : Body)
    (hc : treeBelowB look f self b = true) : TreeBelow look f self b :=
  treeBelowB_sound f self b hc

section examplesContainer
open Yorkie.Undo.Nested

example : visible hN = "{\"o\":{\"x\":1,\"y\":[2]}}" := by decide
example : Fresh hN := fresh_hN
/-- the nested value `{"x":1,"y":[2]}` below the root, and the array `[2]` below it, are copy-stable -/
example : copyStableB hN.doc rootId tO = true ∧ copyStableB hN.doc tO tY = true := by decide
example : isObj hN.doc rootId = true ∧ winner hN.doc rootId "o" = some tO ∧
    isObj hN.doc tO = true ∧ winner hN.doc tO "y" = some tY ∧ leafBody (Val.prim "9").body = true := by decide
/-- hypotheses of the tree theorems on the example (`u` = the value of "o") -/
example : hN.doc tO = some eO ∧ TreeBelow hN.doc copyFuel tO eO.body ∧
    ((copyBody hN.doc copyFuel tO eO.body).2.map (·.1)).Nodup ∧
    rootId ∉ tO :: (copyBody hN.doc copyFuel tO eO.body).2.map (·.1) ∧
    orphaned (kill hN.doc (some tO)) noTw orphanFuel rootId = false :=
  ⟨rfl, treeBelowB_sound _ _ _ (by decide), by decide, by decide, by decide⟩
/-- the theorems evaluated on the example -/
example :
    visible (doChange hN [.set rootId "o" (UVal.ofVal (.prim "9") hN.next) hN.next]) = "{\"o\":9}" ∧
    visible (undo (doChange hN [.set rootId "o" (UVal.ofVal (.prim "9") hN.next) hN.next])) =
      "{\"o\":{\"x\":1,\"y\":[2]}}" ∧
    visible (doChange hN [.remove rootId tO hN.next]) = "{}" ∧
    visible (undo (doChange hN [.remove rootId tO hN.next])) = "{\"o\":{\"x\":1,\"y\":[2]}}" := by decide

end examplesContainer

/-! ### 9. edits inside a container that is (or lies below) a restored array element, depth 1

After `delete arr[i]` + undo the element lives under a new identity, its descendants are re-registered
below it, and the tombstone of the old identity still refers to them.  Before the repair such
descendants were "twinned" and every undo inside them was skipped (`undo_do_nested_twin_witness_unrepaired`).
Now (1) the skip rule sees no twins (`noTw`), and (2) `WF` asks nothing of tombstoned containers, so
`Fresh` HOLDS for such heaps and the depth-1 theorems of section 2 (`undo_do_set_fresh`, …) apply
verbatim with `p` inside the restored element; the only condition left is `orphaned … p = false`
(no REMOVED ancestor-or-self).  The examples instantiate them on the heap `hR` (Lemmas/UndoArray19.lean)
= the state of history S2 after the undo: arr = [x' = {"p":{}}] with the tombstone `x`. -/

section examplesRestored
open Yorkie.Undo.Restored

example : Fresh hR := fresh_hR
example : visible hR = "{\"arr\":[{\"p\":{}}]}" ∧ visible hR = visible Witness.s2 ∧ hR.next = Witness.T 5 1 := by decide
/-- the tombstone `tX` still has the member, which is registered below the new identity `tX'` -/
example : (∃ e, hR.doc tX = some e ∧ e.removed = true) ∧ winner hR.doc tX' "p" = some tP ∧
    (∃ e, hR.doc tP = some e ∧ e.parent = some tX') := ⟨⟨_, rfl, rfl⟩, by decide, ⟨_, rfl, rfl⟩⟩
/-- hypotheses of `undo_do_set_fresh` for an edit inside the member `p` of the restored element -/
example : isObj hR.doc tP = true ∧ orphaned hR.doc noTw orphanFuel tP = false ∧ winner hR.doc tP "b" = none ∧
    leafBody (Val.prim "2").body = true := by decide

/-- instance of `undo_do_set_fresh` / `redo_undo_do_set_fresh` inside the restored element -/
example (fuel : Nat) :
    marshal (undo (doChange hR [.set tP "b" (UVal.ofVal (.prim "2") hR.next) hR.next])).doc fuel rootId =
      marshal hR.doc fuel rootId :=
  undo_do_set_fresh hR fresh_hR tP "b" (.prim "2") (by decide) (by decide) rfl (by decide) fuel

example (fuel : Nat) :
    marshal (redo (undo (doChange hR [.set tP "b" (UVal.ofVal (.prim "2") hR.next) hR.next]))).doc fuel rootId =
      marshal (doChange hR [.set tP "b" (UVal.ofVal (.prim "2") hR.next) hR.next]).doc fuel rootId :=
  redo_undo_do_set_fresh hR fresh_hR tP "b" (.prim "2") (by decide) (by decide) rfl (by decide) fuel

/-- the same evaluated, on `hR` and on the history S2 itself -/
example :
    visible (doChange hR [.set tP "b" (UVal.ofVal (.prim "2") hR.next) hR.next]) = "{\"arr\":[{\"p\":{\"b\":2}}]}" ∧
    visible (undo (doChange hR [.set tP "b" (UVal.ofVal (.prim "2") hR.next) hR.next])) = "{\"arr\":[{\"p\":{}}]}" ∧
    visible (undo (doChange Witness.s2 [.set tP "b" (UVal.ofVal (.prim "2") hR.next) hR.next])) =
      "{\"arr\":[{\"p\":{}}]}" := by decide

end examplesRestored

/-! ### 10. arrays whose elements are containers: undo of `delete arr[i]`, depth 1

The deleted element `x` may be of ANY kind (leaf, counter, object, array) as long as what lies below it
is a tree of live elements in which every identity occurs once (`ArrAtC.tree`, `hnd`, `hxS`, `hpS`; the
decidable version of `TreeBelow` is `treeBelowB`).  Undo re-inserts a copy under a fresh identity `t'`
(`ReconcileCreatedAt`), re-registers the direct children below `t'` (`SetCreatedAt` → `reparent`) and
the document prints as before the deletion.  The remaining fields of `ArrAtC` are those of `ArrDel`
(section 3): the array is live, holds `x` once, positions are distinct, bounded and not the head. -/

theorem undo_do_array_delete_container (h : Hist) (fr : Fresh h) (p x : Ticket) (pe xe : Elem)
    (nodes : List PosNode) (moved : Ticket → Option Ticket)
    (a : ArrAtC h.doc h.lamport p x pe xe nodes moved) (hroot : x ≠ rootId) (fuel : Nat) :
    marshal (undo (doChange h [.remove p x h.next])).doc fuel rootId = marshal h.doc fuel rootId :=
  undo_do_array_delete_container_lemma fr a hroot fuel

/-- redo after that undo.  The redo is a `Remove` of the restored copy and is subject to the skip rule, so
    the array must not be orphaned in the restored heap; `rootedAvoid h.doc S 63 p` (Lemmas/UndoArray22.lean,
    a Boolean function) says that from `p` the parent links lead to an entry without parent through
    live entries outside `S` = `x` and what lies below it - true whenever the document is a tree. -/
theorem redo_undo_do_array_delete_container (h : Hist) (fr : Fresh h) (p x : Ticket) (pe xe : Elem)
    (nodes : List PosNode) (moved : Ticket → Option Ticket)
    (a : ArrAtC h.doc h.lamport p x pe xe nodes moved) (hroot : x ≠ rootId)
    (hrt : rootedAvoid h.doc (x :: (copyBody h.doc copyFuel x xe.body).2.map (·.1)) 63 p = true) (fuel : Nat) :
    marshal (redo (undo (doChange h [.remove p x h.next]))).doc fuel rootId =
      marshal (doChange h [.remove p x h.next]).doc fuel rootId :=
  redo_undo_do_array_delete_container_lemma fr a hroot hrt fuel

section examplesArrayContainer
open Yorkie.Undo.Restored

example : rootedAvoid hR.doc (tX' :: (copyBody hR.doc copyFuel tX' eX'.body).2.map (·.1)) 63 tA = true := rooted_hR

example (fuel : Nat) :
    marshal (redo (undo (doChange hR [.remove tA tX' hR.next]))).doc fuel rootId =
      marshal (doChange hR [.remove tA tX' hR.next]).doc fuel rootId :=
  redo_undo_do_array_delete_container hR fresh_hR tA tX' eArr eX' _ _ arrAtC_hR (by decide) rooted_hR fuel

example : visible (redo (undo (doChange hR [.remove tA tX' hR.next]))) = "{\"arr\":[]}" := by decide

/-- the hypotheses hold on `hR` for its element `{"p":{}}` (which itself is a restored copy) -/
example : Fresh hR ∧ ArrAtC hR.doc hR.lamport tA tX' eArr eX' [⟨tX', some tX'⟩, ⟨tX, some tX⟩] (fun _ => none) ∧
    tX' ≠ rootId := ⟨fresh_hR, arrAtC_hR, by decide⟩

example (fuel : Nat) :
    marshal (undo (doChange hR [.remove tA tX' hR.next])).doc fuel rootId = marshal hR.doc fuel rootId :=
  undo_do_array_delete_container hR fresh_hR tA tX' eArr eX' _ _ arrAtC_hR (by decide) fuel

example : visible hR = "{\"arr\":[{\"p\":{}}]}" ∧ visible (doChange hR [.remove tA tX' hR.next]) = "{\"arr\":[]}" ∧
    visible (undo (doChange hR [.remove tA tX' hR.next])) = "{\"arr\":[{\"p\":{}}]}" := by decide

end examplesArrayContainer

/-! ### 11. container-valued restore, redo at depth 1 (tree case)

Same hypotheses as `undo_do_set_overwrite_container` / `undo_do_delete_container` (section 8).  When the
subtree below `u` is a tree of live elements the copy writes back exactly the entries that are there, so
after the undo the heap is the one before the edit except for the ordering ticket of the member `k` (and
the tombstone of the overwriting leaf); the entry on the redo stack is the edit again (`Set` of the same
leaf / `Remove` of `u`, which keeps its identity because a `Set` is not re-identified), and executing it
gives the heap after the edit up to ordering tickets.  Not covered: redo under the weaker hypothesis
`copyStableB` of the `_partial` theorems (there the heap after the undo differs from `h.doc` in entries
that are not printed - dead keys, positions of removed nodes - and the second capture is a different
value). -/

/-- redo after undo of `obj.k = leaf` over a live member `u` whose subtree is a tree of live elements -/
theorem redo_undo_do_set_overwrite_container (h : Hist) (fr : Fresh h) (p u : Ticket) (k : String) (v : Val)
    (ue : Elem) (hp : isObj h.doc p = true) (hv : leafBody v.body = true) (hk : winner h.doc p k = some u)
    (hu : h.doc u = some ue) (tree : TreeBelow h.doc copyFuel u ue.body)
    (hnd : ((copyBody h.doc copyFuel u ue.body).2.map (·.1)).Nodup)
    (hpS : p ∉ u :: (copyBody h.doc copyFuel u ue.body).2.map (·.1))
    (horph : orphaned (kill h.doc (some u)) noTw orphanFuel p = false) (fuel : Nat) :
    marshal (redo (undo (doChange h [.set p k (UVal.ofVal v h.next) h.next]))).doc fuel rootId =
      marshal (doChange h [.set p k (UVal.ofVal v h.next) h.next]).doc fuel rootId :=
  redo_undo_do_set_overwrite_container_tree fr hp hv hk hu tree hnd hpS horph fuel

/-- redo after undo of `delete obj.k` where the subtree of the value `u` is a tree of live elements -/
theorem redo_undo_do_delete_container (h : Hist) (fr : Fresh h) (p u : Ticket) (k : String) (ue : Elem)
    (hp : isObj h.doc p = true) (hk : winner h.doc p k = some u)
    (hu : h.doc u = some ue) (tree : TreeBelow h.doc copyFuel u ue.body)
    (hnd : ((copyBody h.doc copyFuel u ue.body).2.map (·.1)).Nodup)
    (hpS : p ∉ u :: (copyBody h.doc copyFuel u ue.body).2.map (·.1))
    (horph : orphaned (kill h.doc (some u)) noTw orphanFuel p = false) (fuel : Nat) :
    marshal (redo (undo (doChange h [.remove p u h.next]))).doc fuel rootId =
      marshal (doChange h [.remove p u h.next]).doc fuel rootId :=
  redo_undo_do_delete_container_tree fr hp hk hu tree hnd hpS horph fuel

section examplesContainerRedo
open Yorkie.Undo.Nested

/-- the hypotheses on the nested example `{"o":{"x":1,"y":[2]}}` (`u` = the value of "o") -/
example : Fresh hN ∧ isObj hN.doc rootId = true ∧ winner hN.doc rootId "o" = some tO ∧
    leafBody (Val.prim "9").body = true ∧ hN.doc tO = some eO ∧ TreeBelow hN.doc copyFuel tO eO.body ∧
    ((copyBody hN.doc copyFuel tO eO.body).2.map (·.1)).Nodup ∧
    rootId ∉ tO :: (copyBody hN.doc copyFuel tO eO.body).2.map (·.1) ∧
    orphaned (kill hN.doc (some tO)) noTw orphanFuel rootId = false :=
  ⟨fresh_hN, by decide, by decide, by decide, rfl, treeBelowB_sound _ _ _ (by decide), by decide, by decide,
    by decide⟩

example (fuel : Nat) :
    marshal (redo (undo (doChange hN [.remove rootId tO hN.next]))).doc fuel rootId =
      marshal (doChange hN [.remove rootId tO hN.next]).doc fuel rootId :=
  redo_undo_do_delete_container hN fresh_hN rootId tO "o" eO (by decide) (by decide) rfl
    (treeBelowB_sound _ _ _ (by decide)) (by decide) (by decide) (by decide) fuel

/-- evaluated -/
example :
    visible (redo (undo (doChange hN [.set rootId "o" (UVal.ofVal (.prim "9") hN.next) hN.next]))) = "{\"o\":9}" ∧
    visible (redo (undo (doChange hN [.remove rootId tO hN.next]))) = "{}" := by decide

end examplesContainerRedo

/-! ### 12. depth 2 through a restored array element (the shape of history S1), `_partial` for depth k

`arr[i].k = v ; delete arr[i] ; undo ; undo` restores the starting document, for ANY heap: `x` = `arr[i]` is
an object, `k` is free in it (or holds a tombstone), `v` is a leaf; after the first edit the element
satisfies `ArrAtC` (its subtree is a tree of live elements: section 10) and the array is attached to a
root outside that subtree (`rootedAvoid`, section 10).  The first undo brings `x` back as `t'` and
rewrites the entry below it on the stack from `Remove x c` to `Remove t' c` - the target is unchanged,
the PARENT is rewritten, which is the repair; without it this is `undo_depth2_array_container_witness`.
The second undo finds `c` re-registered below `t'` (`restoreC_child`) and not orphaned.

`_partial`: this is depth 2 for one shape.  NOT proved: the depth-k statement (`undo_stack_inv_array`,
section 7) for an alphabet in which array elements are containers that are edited inside, deleted and
restored.  What is missing is a stack invariant for captured values with content: the value on the
stack is the capture made on the actual heap, it differs from the capture of the recorded state in the
renamed identities, in the parent links of the direct children and in entries that are not printed,
so the equation `g.undo = (stackOf chain).map (fullRen ρ)` of `Inv3` has to become a relation, `Sim`
has to cover containers whose own identity is renamed, and `WF` needs one home per world (the children
of `x` hang below `t'` afterwards). -/

theorem undo_undo_set_delete_container_elem_partial (h h1 : Hist) (fr : Fresh h) (p x : Ticket) (k : String)
    (v : Val) (pe xe1 : Elem) (nodes : List PosNode) (moved : Ticket → Option Ticket)
    (hx : isObj h.doc x = true) (horph : orphaned h.doc noTw orphanFuel x = false)
    (hv : leafBody v.body = true) (hk : winner h.doc x k = none)
    (e1 : h1 = doChange h [.set x k (UVal.ofVal v h.next) h.next])
    (a1 : ArrAtC h1.doc h1.lamport p x pe xe1 nodes moved) (hroot : x ≠ rootId)
    (hrt : rootedAvoid h1.doc (x :: (copyBody h1.doc copyFuel x xe1.body).2.map (·.1)) 63 p = true)
    (fuel : Nat) :
    marshal (undo (undo (doChange h1 [.remove p x h1.next]))).doc fuel rootId = marshal h.doc fuel rootId :=
  undo2_set_delete_elem_lemma fr hx horph hv hk e1 a1 hroot hrt fuel

section examplesDepth2
open Yorkie.Undo.Restored

/-- hypotheses on `hR` = `{"arr":[{"p":{}}]}` with `x` = the (restored) element, `k` = "a" -/
example : Fresh hR ∧ isObj hR.doc tX' = true ∧ orphaned hR.doc noTw orphanFuel tX' = false ∧
    leafBody (Val.prim "1").body = true ∧ winner hR.doc tX' "a" = none ∧
    ArrAtC hR1.doc hR1.lamport tA tX' eArr eX1 [⟨tX', some tX'⟩, ⟨tX, some tX⟩] (fun _ => none) ∧
    rootedAvoid hR1.doc (tX' :: (copyBody hR1.doc copyFuel tX' eX1.body).2.map (·.1)) 63 tA = true :=
  ⟨fresh_hR, by decide, by decide, by decide, by decide, arrAtC_hR1, rooted_hR1⟩

example (fuel : Nat) :
    marshal (undo (undo (doChange hR1 [.remove tA tX' hR1.next]))).doc fuel rootId = marshal hR.doc fuel rootId :=
  undo_undo_set_delete_container_elem_partial hR hR1 fresh_hR tA tX' "a" (.prim "1") eArr eX1 _ _
    (by decide) (by decide) (by decide) (by decide) rfl arrAtC_hR1 (by decide) rooted_hR1 fuel

/-- evaluated -/
example : visible hR1 = "{\"arr\":[{\"a\":1,\"p\":{}}]}" ∧
    visible (doChange hR1 [.remove tA tX' hR1.next]) = "{\"arr\":[]}" ∧
    visible (undo (doChange hR1 [.remove tA tX' hR1.next])) = "{\"arr\":[{\"a\":1,\"p\":{}}]}" ∧
    visible (undo (undo (doChange hR1 [.remove tA tX' hR1.next]))) = "{\"arr\":[{\"p\":{}}]}" := by decide

end examplesDepth2

/-! ### 13. depth k with container VALUES: leaf edits, deletions and overwritings of members with content

Alphabet `EditC` (Lemmas/UndoArray25.lean): the leaf edits of section 4 (`obj.k = leaf`, `delete obj.k` of
a leaf, `counter.increase`), `removeC p u` = `delete obj.k` and `setOverC p k v` = `obj.k = leaf` where the
present value `u` of the key is of ANY kind.  Asked of the heap at the time of such an edit (`RemoveCOk`):
`p` is a live object that is not orphaned, `u` the live winner of the key, below `u` there is a tree
`TreeBelowT` (Lemmas/UndoArray26.lean: every child exists and hangs below the container it is reached
through, arrays are reproduced by `Array.DeepCopy`, nesting within `copyFuel`; REMOVED members and
elements are allowed - the copy keeps them as tombstones without content), every identity occurs once in
the copy and `p` is not inside.  The value may have been edited inside before (those entries lie below
on the stack and are executed after the value came back), and edits elsewhere may follow.

`undo_stack_inv_container_values`: after `a ++ b`, `|b|` undos print the document after `a`.
`redo_stack_inv_container_values`: after `a ++ b ++ c`, `|b ++ c|` undos and `|b|` redos print the document
after `a ++ b`.  These are the statements of section 4 for the larger alphabet.

The entry `Set p k cv` left by such an edit is executed LATER, on a heap that is only observationally
equivalent to the one after the edit (`restore_exec`, Lemmas/UndoArray24.lean): the copy writes back
the entries recorded then (removed ones without content).  Its reverse (`Remove p u`, or `Set` of the
overwriting leaf) is executed on a heap equivalent to the one before the edit (`redo_exec`,
Lemmas/UndoArray27.lean); the new copy that operation makes is not used by the statement, so no condition
on the actual heap is needed.  `checkCRun` is the Boolean version of `EditsOkC`, `treeBelowTB` of
`TreeBelowT`.

NOT covered: (1) undo AGAIN after a redo of such an edit (the entry then on the undo stack holds a copy made
from the actual heap; the tree condition for it would have to come from an invariant on raw heaps, `Eqv`
does not give it); (2) this alphabet mixed with the array alphabet of section 7. -/

theorem undo_stack_inv_container_values (H : Home) (h : Hist) (w : WF H h.doc)
    (bd : Bounded h.doc h.lamport) (a b : List EditC) (ok : EditsOkC H h (a ++ b)) (hb : b.length ≤ maxDepth)
    (root : live (runEditsC h a).doc rootId = true) (fuel : Nat) :
    marshal (undoN b.length (runEditsC h (a ++ b))).doc fuel rootId = marshal (runEditsC h a).doc fuel rootId :=
  undo_runC_marshal w bd a b ok hb root fuel

theorem redo_stack_inv_container_values (H : Home) (h : Hist) (w : WF H h.doc)
    (bd : Bounded h.doc h.lamport) (a b c : List EditC) (ok : EditsOkC H h (a ++ (b ++ c)))
    (hb : (b ++ c).length ≤ maxDepth) (root : live (runEditsC h (a ++ b)).doc rootId = true) (fuel : Nat) :
    marshal (redoN b.length (undoN (b ++ c).length (runEditsC h (a ++ (b ++ c))))).doc fuel rootId =
      marshal (runEditsC h (a ++ b)).doc fuel rootId :=
  redo_runC_marshal w bd a b c ok hb root fuel

/-- depth 1 as a special case: the theorems of section 8 for values with tombstones inside -/
theorem undo_do_delete_container_tombstones (h : Hist) (fr : Fresh h) (p u : Ticket) (k : String) (ue : Elem)
    (ok : RemoveCOk h.doc p u k ue) (fuel : Nat) :
    marshal (undo (doChange h [.remove p u h.next])).doc fuel rootId = marshal h.doc fuel rootId := by
  obtain ⟨H, w⟩ := fr.wf
  exact undo_runC_marshal w fr.bd [] [.removeC p u] ⟨⟨k, ue, ok⟩, trivial⟩
    (show (1 : Nat) ≤ maxDepth by decide) (live_of_skel fr.root) fuel

theorem undo_do_set_overwrite_container_tombstones (h : Hist) (fr : Fresh h) (p u : Ticket) (k : String) (v : Val)
    (ue : Elem) (ok : RemoveCOk h.doc p u k ue) (hv : leafBody v.body = true) (fuel : Nat) :
    marshal (undo (doChange h [.set p k (UVal.ofVal v h.next) h.next])).doc fuel rootId =
      marshal h.doc fuel rootId := by
  obtain ⟨H, w, hkey, hpar⟩ := fresh_home fr p k
  exact undo_runC_marshal w fr.bd [] [.setOverC p k v] ⟨⟨u, ue, ok, hv, hkey, hpar⟩, trivial⟩
    (show (1 : Nat) ≤ maxDepth by decide) (live_of_skel fr.root) fuel

theorem treeBelowTB_spec (look : Ticket → Option Elem) (f : Nat) (self : Ticket) (b : Body)
    (hc : treeBelowTB look f self b = true) : TreeBelowT look f self b :=
  treeBelowTB_sound f self b hc

theorem checkCRun_sound (H : Home) (h : Hist) (es : List EditC) (hc : checkCRun H h es = true) :
    EditsOkC H h es := checkCRun_ok hc

section examplesContainerRun
open Yorkie.Undo.Nested

/-- `o.z = 5 ; delete o ; w = 7` on `{"o":{"x":1,"y":[2]}}` -/
example : exNRun = [.leaf (.set tO "z" (.prim "5")), .removeC rootId tO, .leaf (.set rootId "w" (.prim "7"))] := rfl
example : checkCRun HNC hN exNRun = true := exNRun_ok
example : WF HNC hN.doc ∧ Bounded hN.doc hN.lamport ∧ exNRun.length ≤ maxDepth ∧ live hN.doc rootId = true :=
  ⟨wf_dN_C, bounded_dN, by decide, by decide⟩

example (fuel : Nat) : marshal (undoN 3 (runEditsC hN exNRun)).doc fuel rootId = marshal hN.doc fuel rootId :=
  undo_stack_inv_container_values HNC hN wf_dN_C bounded_dN [] exNRun (checkCRun_ok exNRun_ok)
    (by decide) (by decide) fuel

example (fuel : Nat) : marshal (undoN 2 (runEditsC hN exNRun)).doc fuel rootId =
    marshal (runEditsC hN (exNRun.take 1)).doc fuel rootId :=
  undo_stack_inv_container_values HNC hN wf_dN_C bounded_dN (exNRun.take 1) (exNRun.drop 1)
    (checkCRun_ok exNRun_ok) (by decide) (by decide) fuel

/-- `o.z = 5 ; o = 9 ; w = 7` -/
example : exNRun2 =
    [.leaf (.set tO "z" (.prim "5")), .setOverC rootId "o" (.prim "9"), .leaf (.set rootId "w" (.prim "7"))] := rfl
example : checkCRun HNC hN exNRun2 = true := exNRun2_ok
example (fuel : Nat) : marshal (undoN 3 (runEditsC hN exNRun2)).doc fuel rootId = marshal hN.doc fuel rootId :=
  undo_stack_inv_container_values HNC hN wf_dN_C bounded_dN [] exNRun2 (checkCRun_ok exNRun2_ok)
    (by decide) (by decide) fuel
example : visible (runEditsC hN exNRun2) = "{\"o\":9,\"w\":7}" ∧
    visible (undoN 2 (runEditsC hN exNRun2)) = "{\"o\":{\"x\":1,\"y\":[2],\"z\":5}}" ∧
    visible (undoN 3 (runEditsC hN exNRun2)) = "{\"o\":{\"x\":1,\"y\":[2]}}" := by decide

/-- `delete o.x ; delete o ; w = 7`: the deleted value contains a tombstone -/
example : exNRun3 = [.leaf (.remove tO tX), .removeC rootId tO, .leaf (.set rootId "w" (.prim "7"))] := rfl
example : checkCRun HNC hN exNRun3 = true := exNRun3_ok
example (fuel : Nat) : marshal (undoN 3 (runEditsC hN exNRun3)).doc fuel rootId = marshal hN.doc fuel rootId :=
  undo_stack_inv_container_values HNC hN wf_dN_C bounded_dN [] exNRun3 (checkCRun_ok exNRun3_ok)
    (by decide) (by decide) fuel
example : visible (runEditsC hN exNRun3) = "{\"w\":7}" ∧
    visible (undoN 2 (runEditsC hN exNRun3)) = "{\"o\":{\"y\":[2]}}" ∧
    visible (undoN 3 (runEditsC hN exNRun3)) = "{\"o\":{\"x\":1,\"y\":[2]}}" := by decide

/-- redo: all three undone, the first two redone -/
example (fuel : Nat) : marshal (redoN 2 (undoN 3 (runEditsC hN exNRun))).doc fuel rootId =
    marshal (runEditsC hN (exNRun.take 2)).doc fuel rootId :=
  redo_stack_inv_container_values HNC hN wf_dN_C bounded_dN [] (exNRun.take 2) (exNRun.drop 2)
    (checkCRun_ok exNRun_ok) (by decide) (by decide) fuel
example (fuel : Nat) : marshal (redoN 3 (undoN 3 (runEditsC hN exNRun2))).doc fuel rootId =
    marshal (runEditsC hN exNRun2).doc fuel rootId :=
  redo_stack_inv_container_values HNC hN wf_dN_C bounded_dN [] exNRun2 [] (checkCRun_ok exNRun2_ok)
    (by decide) (by decide) fuel
example : visible (redoN 2 (undoN 3 (runEditsC hN exNRun))) = "{}" ∧
    visible (redoN 1 (undoN 3 (runEditsC hN exNRun))) = "{\"o\":{\"x\":1,\"y\":[2],\"z\":5}}" ∧
    visible (redoN 3 (undoN 3 (runEditsC hN exNRun2))) = "{\"o\":9,\"w\":7}" ∧
    visible (redoN 2 (undoN 3 (runEditsC hN exNRun3))) = "{}" := by decide

/-- depth 1 on the heap after `delete o.x` (the value of "o" then contains a tombstone) -/
example : Fresh (runEditsC hN (exNRun3.take 1)) :=
  (fresh_run [.remove tO tX] hN wf_dN_C ⟨⟨_, wf_dN_C⟩, bounded_dN, by decide⟩
    ⟨checkOp_good (by decide), trivial⟩).1
example : ∃ ue, RemoveCOk (runEditsC hN (exNRun3.take 1)).doc rootId tO "o" ue :=
  checkRemoveC_ok (by decide)

example : treeBelowTB hN.doc copyFuel tO eO.body = true ∧ leafBody (Val.prim "9").body = true := by decide

/-- evaluated -/
example : visible (runEditsC hN exNRun) = "{\"w\":7}" ∧
    visible (undoN 1 (runEditsC hN exNRun)) = "{}" ∧
    visible (undoN 2 (runEditsC hN exNRun)) = "{\"o\":{\"x\":1,\"y\":[2],\"z\":5}}" ∧
    visible (undoN 3 (runEditsC hN exNRun)) = "{\"o\":{\"x\":1,\"y\":[2]}}" := by decide

end examplesContainerRun

end Yorkie.Props.C14
